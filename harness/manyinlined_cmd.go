//go:build verif

package main

// manyinlined_cmd.go — C03/C07: one slab holding more inlined containers than the one-byte
// extra-data index can address (large slab sizes only).  The library must either refuse to encode
// (commit returns an encoding error and writes nothing) or write a register that reloads exactly.

import (
	"fmt"

	"github.com/onflow/atree"
	testutils "github.com/onflow/atree/test_utils"
)

func init() { register("manyinlined", cmdManyInlined) }

func cmdManyInlined(a Args) {
	rep := NewReport(a.Prop, a.Seed)
	rep.Rule = "slab size 16384 or 32768; a parent array or map with 200..330 tiny inlined child maps (map extra data is never shared, so every child takes its own extra-data index) — counts around 255/256/257 are always included; commit; if the commit is refused it must be an encoding error and the ledger must be unchanged; if it succeeds a fresh storage must reload every child with its own entries. non-trivial = more than 256 inlined children in one slab"
	rng := NewRng(a.Seed)
	defer atree.VerifSetThreshold(1024)
	n := a.N
	if n <= 0 {
		n = 12
	}
	counts := []int{255, 256, 257, 258, 300}
	for h := 0; h < n; h++ {
		hr := rng.Fork(uint64(h))
		tag := fmt.Sprintf("m%d", h)
		if !want(tag) {
			continue
		}
		T := []uint32{16384, 32768}[hr.Intn(2)]
		atree.VerifSetThreshold(T)
		k := counts[h%len(counts)]
		if h >= 2*len(counts) {
			k = 200 + hr.Intn(131)
		}
		failed := false
		fail := func(what, detail string) {
			if !failed {
				rep.Violate(h, tag, 0, what, fmt.Sprintf("T=%d children=%d %s", T, k, detail))
			}
			failed = true
		}
		func() {
			defer func() {
				if p := recover(); p != nil {
					fail("C07: panic in implementation", fmt.Sprint(p))
				}
			}()
			base := NewLogBase()
			compact := h%2 == 1 // composite-typed children with pairwise different field names: one compact-map entry each
			st := newStorage(base)
			if compact {
				st = codecStorage(base)
			}
			addr := mkAddr(2)
			parent, err := atree.NewArray(st, addr, testutils.NewSimpleTypeInfo(40))
			must(err)
			for i := 0; i < k; i++ {
				var cti atree.TypeInfo = testutils.NewSimpleTypeInfo(uint64(50 + i%3))
				var key atree.Value = testutils.Uint64Value(uint64(i))
				if compact {
					cti = codecCompositeTI{1}
					key = testutils.NewStringValue(fmt.Sprintf("f%d", i))
				}
				m, err := atree.NewMap(st, addr, atree.NewDefaultDigesterBuilder(), cti)
				must(err)
				_, err = m.Set(testutils.CompareValue, testutils.GetHashInput, key, testutils.Uint64Value(uint64(10000+i)))
				must(err)
				must(parent.Append(m))
			}
			if !parent.IsWithinSingleSlab() {
				rep.Event("parent_split_into_several_slabs")
			} else if k > 256 {
				rep.Distinct(tag)
			}
			// C06/C07 oracles of the codec harness on the parent's slabs (sizes vs bytes, flags, round trip);
			// a slab the encoder refuses is not checked (the refusal is handled below)
			if root, ok, _ := st.Retrieve(parent.SlabID()); ok {
				if _, encErr := atree.EncodeSlab(root, encMode); encErr == nil {
					ck := &codecChecker{rep: rep, tr: nil, hist: h, tag: tag, T: T, compact: compact, seen: map[uint64]bool{}, maxTr: 0}
					ck.checkSlab(root, "parent root")
					if len(rep.Violations) > 0 {
						failed = true
					}
				}
			}
			before := len(base.Segs)
			err = st.FastCommit(2)
			if err != nil {
				rep.Event("commit_refused")
				var ee *atree.EncodingError
				if !asErr(err, &ee) {
					fail("C03: commit of a slab with many inlined containers failed with an unexpected error", err.Error())
				}
				if len(base.Segs) != before {
					rep.Event("partial_write_before_refusal")
				}
				return
			}
			rep.Event("commit_accepted")
			st2 := newStorage(base.Clone())
			if compact {
				st2 = codecStorage(base.Clone())
			}
			p2, err := atree.NewArrayWithRootID(st2, parent.SlabID())
			if err != nil {
				fail("C03: parent cannot be reopened", err.Error())
				return
			}
			if p2.Count() != uint64(k) {
				fail("C03: reopened parent has a different count", fmt.Sprint(p2.Count()))
				return
			}
			for i := 0; i < k && !failed; i++ {
				v, err := p2.Get(uint64(i))
				if err != nil {
					fail("C03: child cannot be read after reload", err.Error())
					return
				}
				cm, ok := v.(*atree.OrderedMap)
				if !ok {
					fail("C07: reloaded child is not a map", fmt.Sprintf("%T", v))
					return
				}
				var key atree.Value = testutils.Uint64Value(uint64(i))
				if compact {
					key = testutils.NewStringValue(fmt.Sprintf("f%d", i))
				}
				got, err := cm.Get(testutils.CompareValue, testutils.GetHashInput, key)
				if err != nil {
					fail("C07: entry of an inlined child is lost after commit and reload (its extra-data index was written wrongly)", fmt.Sprintf("child %d: %v", i, err))
					return
				}
				if uint64(got.(testutils.Uint64Value)) != uint64(10000+i) {
					fail("C07: entry of an inlined child changed after commit and reload", fmt.Sprintf("child %d", i))
				}
				if tiv, ok := cm.Type().(testutils.SimpleTypeInfo); !compact && (!ok || tiv.Value() != uint64(50+i%3)) {
					fail("C07: type of an inlined child changed after commit and reload", fmt.Sprintf("child %d", i))
				}
			}
		}()
		rep.Histories++
		rep.Steps += k
		if h < 2 {
			rep.Sample(fmt.Sprintf("case %s: T=%d children=%d", tag, T, k))
		}
	}
	rep.Write(a.Out + "/report.json")
}
