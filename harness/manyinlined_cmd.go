//go:build verif

package main

// manyinlined_cmd.go — C02/C03/C07: one slab holding as many inlined containers as the one-byte
// extra-data index can address, one fewer, one more (large slab sizes only: 254, 255, 256, 257, 258
// and 200..330 inlined containers in one slab).  Parents are arrays AND maps; children are maps
// (map extra data is never shared: one extra-data entry each), composite-typed maps (one compact-map
// entry each), arrays with pairwise different type infos (one entry each) or a mixture, flat or on
// two levels (inlined grandchildren use the same slab-wide table), optionally with plain values in
// between.  The library must either refuse to encode (commit returns an encoding error and writes
// nothing; never with at most 256 inlined containers in the slab) or write a register from which a
// brand-new storage reloads the parent with every child and every entry (count, every lookup,
// membership of absent keys, types).

import (
	"fmt"

	"github.com/onflow/atree"
	testutils "github.com/onflow/atree/test_utils"
)

func init() { register("manyinlined", cmdManyInlined) }

// miNode is the shadow of one inlined container.
type miNode struct {
	isMap   bool
	compact bool        // composite-typed map with a field name of its own (leaf only)
	tiv     uint64      // simple type info value (not compact)
	key     atree.Value // map: the entry key -> val
	val     uint64      // map: value of the entry; array: element 0
	kids    []*miNode   // nested inlined containers: array elements 1.., map keys 5000+j
}

func (n *miNode) containers() int {
	c := 1
	for _, k := range n.kids {
		c += k.containers()
	}
	return c
}

func miTypeInfo(n *miNode) atree.TypeInfo {
	if n.compact {
		return codecCompositeTI{1}
	}
	return testutils.NewSimpleTypeInfo(n.tiv)
}

func miBuild(st atree.SlabStorage, addr atree.Address, n *miNode) atree.Value {
	if n.isMap {
		m, err := atree.NewMap(st, addr, atree.NewDefaultDigesterBuilder(), miTypeInfo(n))
		must(err)
		_, err = m.Set(testutils.CompareValue, testutils.GetHashInput, n.key, testutils.Uint64Value(n.val))
		must(err)
		for j, k := range n.kids {
			_, err = m.Set(testutils.CompareValue, testutils.GetHashInput, testutils.Uint64Value(uint64(5000+j)), miBuild(st, addr, k))
			must(err)
		}
		return m
	}
	a, err := atree.NewArray(st, addr, miTypeInfo(n))
	must(err)
	must(a.Append(testutils.Uint64Value(n.val)))
	for _, k := range n.kids {
		must(a.Append(miBuild(st, addr, k)))
	}
	return a
}

// miCheck compares a reloaded value with its shadow; returns "" or the first difference.
func miCheck(v atree.Value, n *miNode) string {
	if n.isMap {
		m, ok := v.(*atree.OrderedMap)
		if !ok {
			return fmt.Sprintf("reloaded child is %T, not a map", v)
		}
		if m.Count() != uint64(1+len(n.kids)) {
			return fmt.Sprintf("child map has %d entries, want %d", m.Count(), 1+len(n.kids))
		}
		got, err := m.Get(testutils.CompareValue, testutils.GetHashInput, n.key)
		if err != nil {
			return fmt.Sprintf("entry of an inlined child map is lost (its extra-data index was written wrongly): %v", err)
		}
		if x, ok := got.(testutils.Uint64Value); !ok || uint64(x) != n.val {
			return fmt.Sprintf("entry of an inlined child map changed: %v, want %d", got, n.val)
		}
		if has, err := m.Has(testutils.CompareValue, testutils.GetHashInput, testutils.Uint64Value(4999)); err != nil || has {
			return fmt.Sprintf("absent key of an inlined child map: has=%v err=%v", has, err)
		}
		if !n.compact {
			if tiv, ok := m.Type().(testutils.SimpleTypeInfo); !ok || tiv.Value() != n.tiv {
				return fmt.Sprintf("type of an inlined child map changed: %v, want %d", m.Type(), n.tiv)
			}
		} else if !m.Type().IsComposite() {
			return fmt.Sprintf("type of an inlined composite child map changed: %v", m.Type())
		}
		for j, k := range n.kids {
			g, err := m.Get(testutils.CompareValue, testutils.GetHashInput, testutils.Uint64Value(uint64(5000+j)))
			if err != nil {
				return fmt.Sprintf("nested container %d of an inlined child map is lost: %v", j, err)
			}
			if d := miCheck(g, k); d != "" {
				return d
			}
		}
		return ""
	}
	a, ok := v.(*atree.Array)
	if !ok {
		return fmt.Sprintf("reloaded child is %T, not an array", v)
	}
	if a.Count() != uint64(1+len(n.kids)) {
		return fmt.Sprintf("child array has %d elements, want %d", a.Count(), 1+len(n.kids))
	}
	got, err := a.Get(0)
	if err != nil {
		return fmt.Sprintf("element of an inlined child array is lost: %v", err)
	}
	if x, ok := got.(testutils.Uint64Value); !ok || uint64(x) != n.val {
		return fmt.Sprintf("element of an inlined child array changed: %v, want %d", got, n.val)
	}
	if tiv, ok := a.Type().(testutils.SimpleTypeInfo); !ok || tiv.Value() != n.tiv {
		return fmt.Sprintf("type of an inlined child array changed (extra data is looked up by index): %v, want %d", a.Type(), n.tiv)
	}
	for j, k := range n.kids {
		g, err := a.Get(uint64(1 + j))
		if err != nil {
			return fmt.Sprintf("nested container %d of an inlined child array is lost: %v", j, err)
		}
		if d := miCheck(g, k); d != "" {
			return d
		}
	}
	return ""
}

// miCase is one generated parent.
type miCase struct {
	T         uint32
	k         int  // inlined containers in the parent (all levels)
	mapParent bool // parent is a map (keys 0..), else an array
	childKind int  // 0 maps, 1 composite maps, 2 arrays with distinct type infos, 3 mixture of maps and arrays
	per       int  // grandchildren per child (0 = flat)
	filler    int  // a plain value after every filler-th container (0 = none)
}

func (c miCase) String() string {
	p := "array"
	if c.mapParent {
		p = "map"
	}
	return fmt.Sprintf("T=%d parent=%s inlined-containers=%d children=%s grandchildren-per-child=%d filler-every=%d", c.T, p, c.k,
		[]string{"maps", "composite-maps", "arrays", "maps+arrays"}[c.childKind], c.per, c.filler)
}

// the first cases are fixed (the boundary for every parent kind comes first), the rest is random
var miFixed = []miCase{
	{16384, 256, true, 0, 0, 0},
	{16384, 256, false, 0, 0, 0},
	{32768, 255, true, 0, 0, 0},
	{16384, 257, true, 0, 0, 0},
	{32768, 255, false, 1, 0, 0},
	{16384, 257, false, 0, 0, 0},
	{16384, 256, false, 0, 1, 0},
	{32768, 256, true, 2, 0, 3},
	{16384, 254, false, 3, 0, 0},
	{16384, 254, true, 0, 2, 0},
	{32768, 258, true, 3, 0, 5},
	{32768, 300, false, 1, 0, 0},
	{16384, 256, true, 1, 0, 0},
	{32768, 256, false, 2, 0, 4},
	{16384, 255, true, 3, 1, 0},
	{16384, 257, false, 2, 0, 0},
}

func miGen(h int, rng *Rng) miCase {
	if h < len(miFixed) {
		return miFixed[h]
	}
	c := miCase{T: []uint32{16384, 32768}[rng.Intn(2)]}
	if rng.Chance(60) {
		c.k = 254 + rng.Intn(5)
	} else {
		c.k = 200 + rng.Intn(131)
	}
	c.mapParent = rng.Bool()
	c.childKind = rng.Pick(35, 20, 20, 25)
	if c.childKind != 1 && rng.Chance(35) {
		c.per = 1 + rng.Intn(3)
	}
	if rng.Chance(30) {
		c.filler = 2 + rng.Intn(6)
	}
	return c
}

// miChildren builds the shadows: exactly c.k containers over all levels, every one with an
// extra-data entry of its own (maps always; arrays through pairwise different type infos).
func miChildren(c miCase) []*miNode {
	ctr := 0
	leaf := func(kind int) *miNode {
		i := ctr
		ctr++
		n := &miNode{val: uint64(10000 + i)}
		switch {
		case kind == 1:
			n.isMap, n.compact, n.key = true, true, testutils.NewStringValue(fmt.Sprintf("f%d", i))
		case kind == 0 || (kind == 3 && i%2 == 0):
			n.isMap, n.tiv, n.key = true, uint64(50+i%3), testutils.Uint64Value(uint64(i))
		default:
			n.tiv = uint64(1000 + i) // arrays share an extra-data entry when their type infos are equal
		}
		return n
	}
	var out []*miNode
	for ctr < c.k {
		n := leaf(c.childKind)
		for g := 0; g < c.per && ctr < c.k; g++ {
			n.kids = append(n.kids, leaf(c.childKind))
		}
		out = append(out, n)
	}
	return out
}

func cmdManyInlined(a Args) {
	rep := NewReport(a.Prop, a.Seed)
	rep.Rule = "slab size 16384 or 32768; a parent ARRAY or MAP holding 254, 255, 256 (the legal maximum of the one-byte extra-data index), 257, 258 or 200..330 inlined containers in one slab: " +
		"tiny child maps (map extra data is never shared, so every child takes its own extra-data index), composite-typed child maps (one compact-map entry each), child arrays with pairwise " +
		"different type infos, mixtures, flat or with 1..3 inlined grandchildren per child (same slab-wide table), optionally plain values in between; the first 16 cases are fixed " +
		"(256/255/257/254 for both parent kinds first), the rest random; commit; if the commit is refused it must be an encoding error, the ledger must be unchanged and the slab must hold more than 256 " +
		"inlined containers; if it succeeds a brand-new storage over the ledger bytes must reload the parent: count, every child by index / key with its own entries, types and nested containers, " +
		"absent keys. non-trivial = at least 255 inlined containers in a single slab"
	rng := NewRng(a.Seed)
	defer atree.VerifSetThreshold(1024)
	n := a.N
	if n <= 0 {
		n = 16
	}
	for h := 0; h < n; h++ {
		hr := rng.Fork(uint64(h))
		tag := fmt.Sprintf("m%d", h)
		if !want(tag) {
			continue
		}
		c := miGen(h, hr)
		atree.VerifSetThreshold(c.T)
		// property of the dictionary / durability oracles: a map parent is C02's subject
		pid := "C03"
		if c.mapParent {
			pid = "C02"
		}
		failed := false
		fail := func(what, detail string) {
			if !failed {
				rep.Violate(h, tag, 0, what, fmt.Sprintf("%s %s", c, detail))
			}
			failed = true
		}
		func() {
			defer func() {
				if p := recover(); p != nil {
					fail("C07: panic in implementation", fmt.Sprint(p))
				}
			}()
			base := NewLogBase()
			compact := c.childKind == 1
			mk := func(b atree.BaseStorage) *atree.PersistentSlabStorage {
				if compact {
					return codecStorage(b)
				}
				return newStorage(b)
			}
			st := mk(base)
			addr := mkAddr(2)
			kids := miChildren(c)
			var parentArr *atree.Array
			var parentMap *atree.OrderedMap
			var err error
			if c.mapParent {
				parentMap, err = atree.NewMap(st, addr, atree.NewDefaultDigesterBuilder(), testutils.NewSimpleTypeInfo(40))
			} else {
				parentArr, err = atree.NewArray(st, addr, testutils.NewSimpleTypeInfo(40))
			}
			must(err)
			// slots of the parent: container i of kids, or a plain value
			type slot struct {
				kid   *miNode
				plain uint64
			}
			var slots []slot
			for i, kd := range kids {
				slots = append(slots, slot{kid: kd})
				if c.filler > 0 && i%c.filler == c.filler-1 {
					slots = append(slots, slot{plain: uint64(70000 + i)})
				}
			}
			for i, s := range slots {
				var v atree.Value = testutils.Uint64Value(s.plain)
				if s.kid != nil {
					v = miBuild(st, addr, s.kid)
				}
				if c.mapParent {
					_, err = parentMap.Set(testutils.CompareValue, testutils.GetHashInput, testutils.Uint64Value(uint64(i)), v)
					must(err)
				} else {
					must(parentArr.Append(v))
				}
			}
			var rootID atree.SlabID
			single := false
			if c.mapParent {
				rootID, single = parentMap.SlabID(), parentMap.IsWithinSingleSlab()
			} else {
				rootID, single = parentArr.SlabID(), parentArr.IsWithinSingleSlab()
			}
			if !single {
				rep.Event("parent_split_into_several_slabs")
			} else if c.k >= 255 {
				rep.Distinct(fmt.Sprintf("%v %d %d %d %v", c.mapParent, c.childKind, c.per, c.k, c.filler > 0))
			}
			rep.Event(fmt.Sprintf("inlined_containers_%s", map[bool]string{true: "le_256", false: "gt_256"}[c.k <= 256]))
			// C06/C07 oracles of the codec harness on the parent's root slab (sizes vs bytes, flags, round trip);
			// a slab the encoder refuses is not checked (the refusal is handled below)
			if root, ok, _ := st.Retrieve(rootID); ok {
				if _, encErr := atree.EncodeSlab(root, encMode); encErr == nil {
					// (a codec violation does not suppress the reopen oracles below: both views are reported)
					ck := &codecChecker{rep: rep, tr: nil, hist: h, tag: tag, T: c.T, compact: compact, seen: map[uint64]bool{}, maxTr: 0}
					ck.checkSlab(root, "parent root")
				}
			}
			before := len(base.Segs)
			err = st.FastCommit(2)
			if err != nil {
				rep.Event("commit_refused")
				var ee *atree.EncodingError
				if !asErr(err, &ee) {
					fail("C03: commit of a slab with many inlined containers failed with an unexpected error", err.Error())
				}
				if len(base.Segs) != before {
					rep.Event("partial_write_before_refusal")
				}
				if c.k <= 256 {
					fail(pid+": commit refuses a container whose slab holds at most 256 inlined containers (the one-byte extra-data index addresses 256): the history cannot be made durable", err.Error())
				}
				return
			}
			rep.Event("commit_accepted")
			if len(base.Segs) == 1 {
				rep.Event("ledger_holds_one_register")
			} else if single {
				rep.Event("some_child_was_not_inlined")
			}
			st2 := mk(base.Clone())
			var getSlot func(i int) (atree.Value, error)
			var count uint64
			if c.mapParent {
				p2, err := atree.NewMapWithRootID(st2, rootID, atree.NewDefaultDigesterBuilder())
				if err != nil {
					fail("C02: map with inlined child containers cannot be reopened from the ledger after a successful commit", err.Error())
					return
				}
				count = p2.Count()
				getSlot = func(i int) (atree.Value, error) {
					return p2.Get(testutils.CompareValue, testutils.GetHashInput, testutils.Uint64Value(uint64(i)))
				}
				for _, absent := range []uint64{uint64(len(slots)), uint64(len(slots) + 5), 1 << 40} {
					has, err := p2.Has(testutils.CompareValue, testutils.GetHashInput, testutils.Uint64Value(absent))
					if err != nil || has {
						fail("C02: reopened map reports an absent key as present (or fails)", fmt.Sprintf("key %d has=%v err=%v", absent, has, err))
						return
					}
				}
			} else {
				p2, err := atree.NewArrayWithRootID(st2, rootID)
				if err != nil {
					fail("C03: array with inlined child containers cannot be reopened from the ledger after a successful commit", err.Error())
					return
				}
				count = p2.Count()
				getSlot = func(i int) (atree.Value, error) { return p2.Get(uint64(i)) }
			}
			if count != uint64(len(slots)) {
				fail(pid+": reopened parent has a different count", fmt.Sprintf("%d, want %d", count, len(slots)))
				return
			}
			for i, s := range slots {
				v, err := getSlot(i)
				if err != nil {
					fail(pid+": element of the parent cannot be read after commit and reload", fmt.Sprintf("slot %d: %v", i, err))
					return
				}
				if s.kid == nil {
					if x, ok := v.(testutils.Uint64Value); !ok || uint64(x) != s.plain {
						fail(pid+": plain element of the parent changed after commit and reload", fmt.Sprintf("slot %d: %v want %d", i, v, s.plain))
						return
					}
					continue
				}
				if d := miCheck(v, s.kid); d != "" {
					fail("C07: inlined child differs after commit and reload", fmt.Sprintf("slot %d: %s", i, d))
					return
				}
			}
		}()
		rep.Histories++
		rep.Steps += c.k
		if h < 3 {
			rep.Sample(fmt.Sprintf("case %s: %s", tag, c))
		}
	}
	rep.Write(a.Out + "/report.json")
}
