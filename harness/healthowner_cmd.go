//go:build verif

package main

// healthowner_cmd.go — C20, owner corruption among SIBLINGS: a parent data slab that references
// several large-value slabs; one of the references (any position) is redirected, in the ledger
// bytes, to a copy of that slab owned by a different address.  Every such storage must be rejected.

import (
	"bytes"
	"fmt"

	"github.com/onflow/atree"
	testutils "github.com/onflow/atree/test_utils"
)

func init() { register("healthowner", cmdHealthOwner) }

func cmdHealthOwner(a Args) {
	rep := NewReport(a.Prop, a.Seed)
	rep.Rule = "arrays and maps holding k = 2..12 large values (each in its own slab) beside small ones; after commit, for EVERY sibling position the 16-byte slab identifier of that reference is rewritten in the parent's register to a different owner address and the referenced slab is copied there; fresh storage, all registers loaded, CheckStorageHealth must fail; the uncorrupted storage must pass. non-trivial = corrupted position is not the first reference of its parent"
	rng := NewRng(a.Seed)
	defer atree.VerifSetThreshold(1024)
	n := a.N
	if n <= 0 {
		n = 40
	}
	for h := 0; h < n; h++ {
		hr := rng.Fork(uint64(h))
		tag := fmt.Sprintf("o%d", h)
		if !want(tag) {
			continue
		}
		T := []uint32{256, 512, 1024}[hr.Intn(3)]
		atree.VerifSetThreshold(T)
		base := NewLogBase()
		st := newStorage(base)
		addr := mkAddr(1 + uint64(hr.Intn(3)))
		other := mkAddr(7)
		useMap := hr.Chance(40)
		k := 2 + hr.Intn(11)
		var rootID atree.SlabID
		func() {
			defer func() {
				if p := recover(); p != nil {
					rep.Violate(h, tag, 0, "C20: panic while building", fmt.Sprint(p))
				}
			}()
			big := func(i int) atree.Value {
				return testutils.NewStringValue(fmt.Sprintf("%04d", i) + randStr(hr, int(atree.MaxInlineArrayElementSize())+20+hr.Intn(60)))
			}
			if useMap {
				m, err := atree.NewMap(st, addr, atree.NewDefaultDigesterBuilder(), testutils.NewSimpleTypeInfo(50))
				must(err)
				for i := 0; i < k; i++ {
					_, err := m.Set(testutils.CompareValue, testutils.GetHashInput, testutils.Uint64Value(uint64(i)), big(i))
					must(err)
				}
				rootID = m.SlabID()
			} else {
				arr, err := atree.NewArray(st, addr, testutils.NewSimpleTypeInfo(40))
				must(err)
				for i := 0; i < k; i++ {
					must(arr.Append(big(i)))
					if hr.Bool() {
						must(arr.Append(testutils.Uint64Value(uint64(i))))
					}
				}
				rootID = arr.SlabID()
			}
			must(st.FastCommit(2))
		}()
		// healthy storage passes
		loadAll := func(b *LogBase) *atree.PersistentSlabStorage {
			s := newStorage(b)
			for _, id := range b.SortedIDs() {
				if _, _, err := s.Retrieve(id); err != nil {
					rep.Violate(h, tag, 0, "C20: register cannot be loaded", err.Error())
				}
			}
			return s
		}
		if _, err := atree.CheckStorageHealth(loadAll(base.Clone()), 1); err != nil {
			rep.Violate(h, tag, 0, "C20: health check rejects a healthy storage", err.Error())
			continue
		}
		rep.Histories++
		// every register that references large-value slabs
		pos := 0
		for _, pid := range base.SortedIDs() {
			reg := base.Segs[pid]
			for _, cid := range base.SortedIDs() {
				if cid == pid || cid == rootID {
					continue
				}
				var raw [16]byte
				if _, err := cid.ToRawBytes(raw[:]); err != nil {
					continue
				}
				needle := append([]byte{0xd8, 0xff, 0x50}, raw[:]...)
				at := bytes.Index(reg, needle)
				if at < 0 {
					continue
				}
				// corrupt: same index, other owner
				ci := cid.IndexAsUint64()
				nid := atree.NewSlabID(other, cid.Index())
				_ = ci
				cl := base.Clone()
				nreg := append([]byte(nil), reg...)
				var nraw [16]byte
				_, _ = nid.ToRawBytes(nraw[:])
				copy(nreg[at+3:], nraw[:])
				cl.Segs[pid] = nreg
				cl.Segs[nid] = cl.Segs[cid]
				delete(cl.Segs, cid)
				rep.Steps++
				rep.Op("owner_corruption")
				var err error
				func() {
					defer func() {
						if p := recover(); p != nil {
							err = fmt.Errorf("panic: %v", p)
						}
					}()
					_, err = atree.CheckStorageHealth(loadAll(cl), 1)
				}()
				if err == nil {
					rep.Violate(h, tag, pos, "C20: health check accepts a storage in which a slab references a slab owned by a different address",
						fmt.Sprintf("T=%d parent=%s child=%s moved to %s (reference %d of the parent, k=%d, map=%v)", T, pid, cid, nid, pos, k, useMap))
				} else {
					rep.Err("rejected")
				}
				if pos > 0 {
					rep.Distinct(fmt.Sprintf("%s-%d", tag, pos))
				}
				pos++
			}
		}
		if h < 2 {
			rep.Sample(fmt.Sprintf("storage %s: T=%d k=%d map=%v, %d owner corruptions", tag, T, k, useMap, pos))
		}
	}
	rep.Write(a.Out + "/report.json")
}
