//go:build verif

package main

// ledger_cmd.go — the same storage behaviour over atree's LedgerBaseStorage (the adapter used in
// production) with a ledger that answers absent registers with an EMPTY NON-NIL value, as real ledgers
// do: commit/reopen round trip, deletion of a referenced slab, GetAllChildReferences, health check.

import (
	"fmt"

	"github.com/onflow/atree"
	testutils "github.com/onflow/atree/test_utils"
)

func init() { register("ledger", cmdLedger) }

type memLedger struct {
	regs  map[string][]byte
	index map[string]uint64
}

func newMemLedger() *memLedger {
	return &memLedger{regs: map[string][]byte{}, index: map[string]uint64{}}
}
func (l *memLedger) GetValue(owner, key []byte) ([]byte, error) {
	if v, ok := l.regs[string(owner)+"|"+string(key)]; ok {
		return v, nil
	}
	return []byte{}, nil // absent register: empty, non-nil
}
func (l *memLedger) SetValue(owner, key, value []byte) error {
	k := string(owner) + "|" + string(key)
	if len(value) == 0 {
		delete(l.regs, k)
		return nil
	}
	l.regs[k] = append([]byte(nil), value...)
	return nil
}
func (l *memLedger) ValueExists(owner, key []byte) (bool, error) {
	_, ok := l.regs[string(owner)+"|"+string(key)]
	return ok, nil
}
func (l *memLedger) AllocateSlabIndex(owner []byte) (atree.SlabIndex, error) {
	l.index[string(owner)]++
	var idx atree.SlabIndex
	n := l.index[string(owner)]
	for i := 7; i >= 0; i-- {
		idx[i] = byte(n)
		n >>= 8
	}
	return idx, nil
}

func cmdLedger(a Args) {
	rep := NewReport(a.Prop, a.Seed)
	rep.Rule = "storages over atree.NewLedgerBaseStorage with an in-memory ledger that returns an empty non-nil value for absent registers: an array with k large values (each its own slab) and small ones is committed and reopened; then one referenced slab is removed and the removal committed; on a fresh storage: GetAllChildReferences(root) must list the k-1 present slabs as resolvable and exactly the removed one as broken, CheckStorageHealth must fail, Retrieve of the removed id must report 'not found' without error. non-trivial = every case (distinct by construction)"
	rng := NewRng(a.Seed)
	defer atree.VerifSetThreshold(1024)
	n := a.N
	if n <= 0 {
		n = 60
	}
	mk := func(l *memLedger) *atree.PersistentSlabStorage {
		return atree.NewPersistentSlabStorage(atree.NewLedgerBaseStorage(l), encMode, decMode, testutils.DecodeStorable, testutils.DecodeTypeInfo)
	}
	for h := 0; h < n; h++ {
		hr := rng.Fork(uint64(h))
		tag := fmt.Sprintf("l%d", h)
		if !want(tag) {
			continue
		}
		T := []uint32{256, 512, 1024}[hr.Intn(3)]
		atree.VerifSetThreshold(T)
		failed := false
		fail := func(what, detail string) {
			if !failed {
				rep.Violate(h, tag, 0, what, fmt.Sprintf("T=%d %s", T, detail))
			}
			failed = true
		}
		func() {
			defer func() {
				if p := recover(); p != nil {
					fail("C20: panic in implementation", fmt.Sprint(p))
				}
			}()
			led := newMemLedger()
			st := mk(led)
			addr := mkAddr(1)
			arr, err := atree.NewArray(st, addr, testutils.NewSimpleTypeInfo(40))
			must(err)
			k := 2 + hr.Intn(5)
			for i := 0; i < k; i++ {
				must(arr.Append(testutils.NewStringValue(fmt.Sprintf("%03d", i) + randStr(hr, int(atree.MaxInlineArrayElementSize())+10+hr.Intn(50)))))
				must(arr.Append(testutils.Uint64Value(uint64(i))))
			}
			must(st.FastCommit(2))
			// reopen and compare
			st2 := mk(led)
			a2, err := atree.NewArrayWithRootID(st2, arr.SlabID())
			if err != nil || a2.Count() != uint64(2*k) {
				fail("C03: array cannot be reopened over the ledger adapter", fmt.Sprint(err))
				return
			}
			refs, broken, err := st2.GetAllChildReferences(arr.SlabID())
			if err != nil || len(broken) != 0 || len(refs) < k {
				fail("C20: GetAllChildReferences on a healthy storage", fmt.Sprintf("refs=%d broken=%d err=%v", len(refs), len(broken), err))
				return
			}
			// remove one referenced large-value slab and commit the removal
			victim := refs[hr.Intn(len(refs))]
			if s, ok, _ := st2.Retrieve(victim); !ok || s == nil {
				fail("C20: a listed reference does not resolve", victim.String())
				return
			} else if _, isStorable := s.(*atree.StorableSlab); !isStorable {
				// keep the case simple: only delete leaves of the reference graph
				for _, r := range refs {
					if x, ok, _ := st2.Retrieve(r); ok {
						if _, is := x.(*atree.StorableSlab); is {
							victim = r
							break
						}
					}
				}
			}
			must(st2.Remove(victim))
			must(st2.FastCommit(1))
			st3 := mk(led)
			s, found, err := st3.Retrieve(victim)
			if err != nil || found || s != nil {
				fail("C15: a register deleted through a commit is not reported as absent by a fresh storage over the ledger adapter", fmt.Sprintf("found=%v err=%v", found, err))
				return
			}
			refs3, broken3, err := st3.GetAllChildReferences(arr.SlabID())
			if err != nil {
				fail("C20: GetAllChildReferences fails instead of reporting the broken reference", err.Error())
				return
			}
			if len(broken3) != 1 || broken3[0] != victim || len(refs3) != len(refs)-1 {
				fail("C20: GetAllChildReferences does not return exactly the resolvable and the broken references", fmt.Sprintf("refs %d->%d broken=%v victim=%s", len(refs), len(refs3), broken3, victim))
				return
			}
			for _, id := range refs3 {
				_, _, _ = st3.Retrieve(id)
			}
			if _, err := atree.CheckStorageHealth(st3, 1); err == nil {
				fail("C20: health check accepts a storage with a deleted referenced slab", victim.String())
			}
		}()
		rep.Histories++
		rep.Steps += 4
		rep.Distinct(tag)
		if h < 2 {
			rep.Sample(fmt.Sprintf("case %s: T=%d", tag, T))
		}
	}
	rep.Write(a.Out + "/report.json")
}
