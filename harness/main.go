//go:build verif

package main

import (
	"flag"
	"fmt"
	"os"
	"sort"
)

// Args are the flags shared by all subcommands.
type Args struct {
	Prop  string
	Seed  uint64
	N     int    // number of random histories / inputs
	Steps int    // operations per history where applicable
	Depth int    // exhaustive depth where applicable
	Out   string // output directory: report.json (+ trace.txt)
	Mode  string // free-form variant selector
}

var registry = map[string]func(Args){}

// register is called from init() of each *_cmd.go file.
func register(name string, f func(Args)) { registry[name] = f }

var onlyTag string

// want reports whether the history with this tag is to be executed (replay filter).
func want(tag string) bool { return onlyTag == "" || onlyTag == tag }

func main() {
	if len(os.Args) < 2 || registry[os.Args[1]] == nil {
		names := []string{}
		for k := range registry {
			names = append(names, k)
		}
		sort.Strings(names)
		fmt.Fprintln(os.Stderr, "usage: harness <cmd> [flags]; commands:", names)
		os.Exit(2)
	}
	cmd := os.Args[1]
	fs := flag.NewFlagSet(cmd, flag.ExitOnError)
	var a Args
	fs.Uint64Var(&a.Seed, "seed", envSeed(), "PRNG seed")
	fs.IntVar(&a.N, "n", 100, "number of random histories")
	fs.IntVar(&a.Depth, "depth", 2, "exhaustive depth where applicable")
	fs.IntVar(&a.Steps, "steps", 300, "operations per history where applicable")
	fs.StringVar(&a.Out, "out", ".", "output directory")
	fs.StringVar(&a.Prop, "prop", "", "property id")
	fs.StringVar(&a.Mode, "mode", "", "variant")
	fs.StringVar(&onlyTag, "only", "", "run only the history with this tag (replay)")
	must(fs.Parse(os.Args[2:]))
	must(os.MkdirAll(a.Out, 0o755))
	registry[cmd](a)
}
