//go:build verif

package main

import (
	"flag"
	"fmt"
	"os"
)

var onlyTag string

// want reports whether the history with this tag is to be executed (replay filter).
func want(tag string) bool { return onlyTag == "" || onlyTag == tag }

func main() {
	if len(os.Args) < 2 {
		fmt.Fprintln(os.Stderr, "usage: harness <cmd> [flags]")
		os.Exit(2)
	}
	cmd := os.Args[1]
	fs := flag.NewFlagSet(cmd, flag.ExitOnError)
	seed := fs.Uint64("seed", envSeed(), "PRNG seed")
	n := fs.Int("n", 100, "number of random histories")
	depth := fs.Int("depth", 2, "exhaustive depth where applicable")
	out := fs.String("out", ".", "output directory")
	prop := fs.String("prop", "", "property id")
	only := fs.String("only", "", "run only the history with this tag (replay)")
	must(fs.Parse(os.Args[2:]))
	must(os.MkdirAll(*out, 0o755))
	onlyTag = *only
	switch cmd {
	case "gen":
		cmdGen(*out)
	case "storage":
		cmdStorage(*prop, *seed, *n, *depth, *out)
	default:
		fmt.Fprintln(os.Stderr, "unknown command", cmd)
		os.Exit(2)
	}
}
