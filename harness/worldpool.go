//go:build verif

package main

// worldpool.go — World in "pooled collision" mode (WorldOpts.PooledCollide > 0) and the ledger
// reachability oracle of the world.
//
// Pooled collision mode: every map of the world uses the library's DEFAULT digester builder, i.e. the
// POOLED *basicDigester objects (CircleHash64 for level 0, lazily computed BLAKE3 for levels 1..3,
// returned to a sync.Pool and reset by the library).  Table digesters and wrappers around the default
// builder never exercise that life cycle.  Real digest collisions are forced through the
// HashInputProvider alone: CircleHash64 multiplies (first word ^ pi1) into its state, so a hash input
// whose first word is pi1 zeroes the state whatever the seed and the second word are; all inputs
// pi1 | X | tail  share one level-0 digest per tail (inputs of 9..16 bytes: digest 0), and the same
// holds for a leading 64-byte block pi1 X1 pi2 X2 pi3 X3 pi4 X4 (see iter_cmd.go, mode "pooled").
// Levels 1..3 differ unless two keys have the SAME hash input (collision on every level, list at the
// bottom).  The provider is a function of the key value only, so the library's own re-created nested
// maps, VerifyMap and reopened maps all see the same inputs.

import (
	"fmt"

	"github.com/fxamacker/cbor/v2"
	"github.com/onflow/atree"
	testutils "github.com/onflow/atree/test_utils"
)

const (
	wpPi1 = uint64(0x13198A2E03707344)
	wpPi2 = uint64(0xA4093822299F31D0)
	wpPi3 = uint64(0x082EFA98EC4E6C89)
	wpPi4 = uint64(0x452821E638D01377)
	// keys of one family in the whole key space (an upper bound of the live keys per level-0 digest in
	// any one map); the library's collision limit per digest is 255
	wpMaxPerDigest = 120
)

type worldPool struct {
	groups  [][]byte // family g: hash input = prefix(X) | groups[g]
	forms   []int    // 0: 9..16 bytes, 1: 17..32 bytes, 2: > 64 bytes, 3: > 80 bytes
	l0      []uint64 // level-0 digest class of family g (families may share one)
	perL0   map[uint64]int
	msgU    map[uint64][]byte // hash inputs of Uint64Value keys
	msgS    map[string][]byte // hash inputs of StringValue keys
	famU    map[uint64]int
	famS    map[string]int
	scratch bool // copy the input into the digester's scratch buffer when it fits (as GetHashInput does)
	same    int  // keys sharing their whole hash input with another key
}

var wpDecMode cbor.DecMode

func init() {
	var err error
	wpDecMode, err = cbor.DecOptions{MaxNestedLevels: 1024}.DecMode()
	must(err)
}

// Hip is the hash input provider of every map of the world.
func (w *World) Hip() atree.HashInputProvider {
	if w.pool == nil {
		return testutils.GetHashInput
	}
	return w.pool.hip
}

// openStorage creates a storage object over the world's ledger.
func (w *World) openStorage() *atree.PersistentSlabStorage {
	if w.pool == nil {
		return newStorage(w.Base)
	}
	return atree.NewPersistentSlabStorage(w.Base, encMode, wpDecMode, testutils.DecodeStorable, testutils.DecodeTypeInfo)
}

func (pl *worldPool) lookup(v atree.Value) ([]byte, int, bool) {
	switch k := v.(type) {
	case testutils.Uint64Value:
		m, ok := pl.msgU[uint64(k)]
		return m, pl.famU[uint64(k)], ok
	case testutils.StringValue:
		m, ok := pl.msgS[k.ID()]
		return m, pl.famS[k.ID()], ok
	}
	return nil, 0, false
}

func (pl *worldPool) hip(v atree.Value, buf []byte) ([]byte, error) {
	if m, _, ok := pl.lookup(v); ok {
		if pl.scratch && len(m) <= len(buf) {
			return buf[:copy(buf, m)], nil
		}
		return m, nil
	}
	return testutils.GetHashInput(v, buf)
}

// class returns the forced level-0 digest class of a key (false: ordinary hash input).
func (pl *worldPool) class(v atree.Value) (uint64, bool) {
	if _, g, ok := pl.lookup(v); ok {
		return pl.l0[g], true
	}
	return 0, false
}

func (pl *worldPool) message(g int, x uint64, own bool) []byte {
	le := func(b []byte, w uint64) []byte {
		return append(b, byte(w), byte(w>>8), byte(w>>16), byte(w>>24), byte(w>>32), byte(w>>40), byte(w>>48), byte(w>>56))
	}
	var m []byte
	switch pl.forms[g] {
	case 0: // 9..16 bytes
		m = le(le(nil, wpPi1), x)
		m = m[:9+int(x%8)]
		if own {
			m = m[:16]
		}
	case 1:
		m = le(le(nil, wpPi1), x)
	case 2:
		m = le(le(le(le(le(le(le(le(nil, wpPi1), x), wpPi2), x^1), wpPi3), x^2), wpPi4), x^3)
	default:
		m = le(le(le(le(le(le(le(le(nil, wpPi1), x), wpPi2), x^1), wpPi3), x^2), wpPi4), x^3)
		m = le(le(m, wpPi1), x^4)
	}
	return append(m, pl.groups[g]...)
}

// setupPool fixes, once per world, the hash input of every key of the key space.
func (w *World) setupPool() {
	rng := w.Rng
	pl := &worldPool{perL0: map[uint64]int{}, msgU: map[uint64][]byte{}, msgS: map[string][]byte{},
		famU: map[uint64]int{}, famS: map[string]int{}, scratch: rng.Bool()}
	ng := []int{1, 2, 3, 5, 8}[rng.Pick(25, 30, 20, 15, 10)]
	seen := map[string]bool{}
	for len(pl.groups) < ng {
		form := rng.Pick(20, 55, 15, 10)
		var tail []byte
		if form > 0 {
			tail = make([]byte, 1+rng.Intn(16))
			for i := range tail {
				tail[i] = byte(rng.Intn(256))
			}
			if rng.Chance(50) { // tails that differ in one byte only
				tail[len(tail)-1] = byte(len(pl.groups))
			}
		}
		key := fmt.Sprint(form, tail)
		if form == 0 {
			key = "0" // every input of this form has digest 0: one family
		}
		if seen[key] {
			continue
		}
		seen[key] = true
		pl.groups = append(pl.groups, tail)
		pl.forms = append(pl.forms, form)
	}
	// the level-0 digest of a family depends neither on the seed nor on X: ask the library's own digester
	// (two seeds, two X); a family without a common digest is counted and forces nothing
	for g := range pl.groups {
		var d [2]uint64
		for j := range d {
			probe := atree.NewDefaultDigesterBuilder()
			probe.SetSeed(uint64(j)*0x51ed27+1, 1)
			m := pl.message(g, uint64(j)*0x9e3779b97f4a7c15+1, true)
			dg, err := probe.Digest(func(atree.Value, []byte) ([]byte, error) { return m, nil }, testutils.Uint64Value(0))
			must(err)
			x, err := dg.Digest(0)
			must(err)
			d[j] = uint64(x)
			atree.VerifPutDigester(dg)
		}
		if d[0] != d[1] {
			w.Rep.Event("pooled_family_without_forced_collision")
			d[0] = ^uint64(g)
		}
		pl.l0 = append(pl.l0, d[0])
	}
	var xpool []uint64
	for k := 1 + rng.Intn(3); k > 0; k-- {
		xpool = append(xpool, uint64(1+rng.Intn(1<<16)))
	}
	pSame := []int{0, 10, 30}[rng.Intn(3)]
	for k := 0; k < w.Opts.KeySpace; k++ {
		if !rng.Chance(w.Opts.PooledCollide) {
			continue
		}
		key := w.keyFor(k)
		if _, _, ok := pl.lookup(key); ok {
			continue // two indexes of the key space with the same key value
		}
		g := rng.Intn(len(pl.groups))
		if rng.Chance(30) { // prefer a few families: some become large (external collision groups)
			g = rng.Intn(min(len(pl.groups), 2))
		}
		if pl.perL0[pl.l0[g]] >= wpMaxPerDigest {
			continue
		}
		x := uint64(k) + 1<<22
		own := true
		if rng.Chance(pSame) {
			x, own = xpool[rng.Intn(len(xpool))], false
			pl.same++
		}
		m := pl.message(g, x, own)
		switch kv := key.(type) {
		case testutils.Uint64Value:
			pl.msgU[uint64(kv)], pl.famU[uint64(kv)] = m, g
		case testutils.StringValue:
			pl.msgS[kv.ID()], pl.famS[kv.ID()] = m, g
		default:
			continue
		}
		pl.perL0[pl.l0[g]]++
	}
	w.pool = pl
	w.Rep.Event("pooled_worlds")
	w.Rep.EventN("pooled_keys_in_families", len(pl.msgU)+len(pl.msgS))
	w.Rep.EventN("pooled_keys_sharing_whole_hash_input", pl.same)
}

// classCounts: live keys of the map per forced level-0 digest class.
func (w *World) classCounts(sm *svMap) map[uint64]int {
	cnt := map[uint64]int{}
	for _, k := range sm.keys {
		if d, ok := w.pool.class(k); ok {
			cnt[d]++
		}
	}
	return cnt
}

// collidesIn reports whether the LIVE key of the map shares its forced level-0 digest with another live key.
func (w *World) collidesIn(sm *svMap, key atree.Value) bool {
	d, ok := w.pool.class(key)
	if !ok {
		return false
	}
	n := 0
	for _, k := range sm.keys {
		if d2, ok := w.pool.class(k); ok && d2 == d {
			n++
		}
	}
	return n >= 2
}

// notePooledTarget records the situations the mode exists for: the container about to be mutated
// through its retained handle sits (directly, or through an ancestor) under a map key that lives in
// a collision group of its map.
func (w *World) notePooledTarget(c contRef) {
	if c.depth == 0 {
		return
	}
	if c.pmap != nil && w.collidesIn(c.pmap, c.pkey) {
		w.Rep.Event("pooled_child_under_colliding_key_mutated")
		switch c.s.(type) {
		case *svArr:
			w.Rep.Event("pooled_child_array_under_colliding_key_mutated")
		case *svMap:
			w.Rep.Event("pooled_child_map_under_colliding_key_mutated")
		}
	}
}

// countPooledNested counts the live containers stored under a colliding key (a measure taken at commits).
func (w *World) countPooledNested() int {
	n := 0
	for _, c := range w.containers() {
		if c.pmap != nil && w.collidesIn(c.pmap, c.pkey) {
			n++
		}
	}
	return n
}

// pooledProbes: keyed lookups on a map of a pooled world (m may be a read-only wrapper; nothing is kept):
// Has is true for EVERY present key, Get finds the keys that live in collision groups, absent keys of
// the key space (which mostly share a digest with present ones) are reported absent.
func (w *World) pooledProbes(x *svMap, m *atree.OrderedMap, path string) {
	var coll []atree.Value
	cnt := w.classCounts(x)
	for _, k := range x.keys {
		ok, err := m.Has(testutils.CompareValue, w.Hip(), k)
		if err != nil || !ok {
			w.Fail("C02: Has of a present key is not true", fmt.Sprintf("%s{%v}: %v %v", path, k, ok, err))
			return
		}
		if d, ok := w.pool.class(k); ok && cnt[d] >= 2 {
			coll = append(coll, k)
		}
	}
	w.Rep.EventN("pooled_has_on_colliding_key", len(coll))
	for n := 0; n < 3 && len(coll) > 0; n++ {
		key := coll[w.Rng.Intn(len(coll))]
		e, err := m.Get(testutils.CompareValue, w.Hip(), key)
		if err != nil {
			w.Fail("C02: Get of a present key failed", fmt.Sprintf("%s{%v}: %v", path, key, err))
			return
		}
		w.Compare(x.vals[keyStr(key)], e, fmt.Sprintf("%s{%v}", path, key))
	}
	for n := 0; n < 2; n++ {
		key := w.randKey()
		if _, present := x.vals[keyStr(key)]; present {
			continue
		}
		ok, err := m.Has(testutils.CompareValue, w.Hip(), key)
		if err != nil || ok {
			w.Fail("C02: Has of an absent key is not false", fmt.Sprintf("%s{%v}: %v %v", path, key, ok, err))
			return
		}
		_, err = m.Get(testutils.CompareValue, w.Hip(), key)
		var knf *atree.KeyNotFoundError
		if err == nil || !asErr(err, &knf) {
			w.Fail("C02: Get of an absent key did not report KeyNotFoundError", fmt.Sprintf("%s{%v}: %v", path, key, err))
			return
		}
	}
}

// ---------- ledger reachability (C09 on the committed registers) ----------

// CheckLedger is to be called directly after a successful Commit.  It looks at the ledger BYTES only:
// every register decodes, every reference found in a register (children of index slabs, external
// collision groups, stored containers, large keys and values, at any inlining depth) names an existing
// register, every live root has a register that nothing references, and every other register is
// referenced exactly once — the registers are exactly what the live roots own.
func (w *World) CheckLedger() {
	refs := map[atree.SlabID]int{}
	var walk func(s atree.Storable)
	walk = func(s atree.Storable) {
		if s == nil {
			return
		}
		if id, ok := s.(atree.SlabIDStorable); ok {
			refs[atree.SlabID(id)]++
			return
		}
		for _, c := range s.ChildStorables() {
			walk(c)
		}
	}
	dm := decMode
	if w.pool != nil {
		dm = wpDecMode
	}
	ids := w.Base.SortedIDs()
	for _, id := range ids {
		slab, err := atree.DecodeSlab(id, w.Base.Segs[id], dm, testutils.DecodeStorable, testutils.DecodeTypeInfo)
		if err != nil {
			w.Fail("C09: a committed register cannot be decoded", fmt.Sprintf("%s: %v", id, err))
			return
		}
		for _, c := range slab.ChildStorables() {
			walk(c)
		}
		if w.pool != nil {
			// measured distribution: collision structures of the stored (non-inlined) map slabs
			_, ig, eg, lm, ml := atree.VerifMapElementStats(slab)
			w.Rep.EventN("pooled_ledger_inline_collision_groups", ig)
			w.Rep.EventN("pooled_ledger_external_collision_groups", eg)
			w.Rep.EventN("pooled_ledger_list_mode_groups", lm)
			if ml > 0 {
				w.Rep.Event(fmt.Sprintf("pooled_ledger_slab_max_digest_level_%d", ml))
			}
		}
	}
	isRoot := map[atree.SlabID]bool{}
	for _, r := range w.Roots {
		id := rootID(r)
		isRoot[id] = true
		if _, ok := w.Base.Segs[id]; !ok {
			w.Fail("C09: a live root container has no register after commit", id.String())
			return
		}
	}
	for _, id := range ids {
		n := refs[id]
		delete(refs, id)
		switch {
		case isRoot[id] && n != 0:
			w.Fail("C09: the register of a live root container is referenced by another register", fmt.Sprintf("%s: %d references", id, n))
			return
		case !isRoot[id] && n == 0:
			w.Fail("C09: a committed register is not referenced by any register and is no live root (leaked slab)", id.String())
			return
		case !isRoot[id] && n > 1:
			w.Fail("C09: a committed register is referenced more than once", fmt.Sprintf("%s: %d references", id, n))
			return
		}
	}
	if len(refs) > 0 {
		var dangling []atree.SlabID
		for id := range refs {
			dangling = append(dangling, id)
		}
		sortIDs(dangling)
		w.Fail("C09: a committed register refers to a register that does not exist", fmt.Sprintf("%s (%d references)", dangling[0], refs[dangling[0]]))
		return
	}
	w.Rep.Event("ledger_walks")
}
