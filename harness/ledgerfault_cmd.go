//go:build verif

package main

// ledgerfault_cmd.go — C14 through the PRODUCTION ledger adapter.
//
// The `faults` check (sched_faults.go) injects its faults into a BaseStorage (LogBase), so the code of
// atree.LedgerBaseStorage — the adapter every real deployment commits through — is never on the path
// of a failing call.  Here every storage is
//
//	atree.NewPersistentSlabStorage(atree.NewLedgerBaseStorage(lfLedger), ...)
//
// where lfLedger is an in-memory atree.Ledger each of whose four methods (SetValue = writes AND
// deletions: the adapter deletes with SetValue(owner, key, nil); GetValue; ValueExists;
// AllocateSlabIndex) can be armed to fail at its k-th call, or (SetValue) at the next call on a given
// register.  A failing call has NO effect on the ledger.
//
// Histories: 1..3 roots (arrays and maps, nested containers, large values) and 2..5 SEGMENTS, each
// followed by a commit.  A segment is a run of random World operations or a directed burst on one
// container of any depth: grow (20..250 insertions at the end/front/random places), shrink (50..97 %
// of the elements removed from the end/front/random places: data slabs merge and are DELETED, children
// are inlined again), rewrite (in-place sets spread over the container: registers persisted by an
// earlier commit are OVERWRITTEN), clear (everything removed, a few elements added back), churn
// (insert at one end / remove at the other: rebalancing).  So the commits after the first one contain
// first writes, overwrites of persisted registers, deletions of persisted registers and deletions of
// registers that never reached the ledger.
//
// A fault-free twin (FastCommit, 1 worker) records, per commit, the ledger and the SetValue calls with
// their class.  Then, for every commit, every sampled fault target (all if <= 12 calls, else first,
// last, two of each class, random ones) and the commit flavours {FastCommit, NondeterministicFastCommit}
// x workers {1,2,8} (+ 3 for the order-relaxed commit; quick: one of each flavour per target with rotating
// worker counts; mode suffix "+all": all seven), the history is re-executed from scratch (a live storage
// with wrappers cannot be cloned; the history is a function of its seed) and the target call fails; the
// failing call of an order-relaxed commit is SLOW (2 ms before the error comes back, a ledger timing out)
// when it is a deletion and for every other target.  Oracles (none uses a model):
//
//   - every commit attempt, faulted or not, RETURNS (watchdog of commit_watchdog.go);
//   - a commit returns an error iff a ledger call failed during it; the error is *ExternalError;
//   - every change pending before the attempt whose SetValue succeeded has left the write set and its
//     register equals the twin's bytes (absent for deletions); every other one is still pending,
//     unaltered, and its register was not touched; the change whose call failed is still pending;
//     Deltas / DeltasWithoutTempAddresses / HasUnsavedChanges agree;
//   - Storage.Retrieve of every pending id, VerifyArray/VerifyMap, the deep comparison of every
//     container with its shadow and the fingerprint of read-only traversal are unchanged by the failure;
//   - retries (0..3 further faults: random positions, or the same register again) until success: the
//     ledger is byte-identical to the twin's at that commit, nothing owned is pending, a fresh storage
//     over a copy of the ledger reloads content deep-equal to the shadow, passes CheckStorageHealth and
//     reaches every register from the roots (no orphan); or (25 %) NO retry: the history continues on
//     the storage with its partly written commit and the next commit must produce the twin's ledger;
//   - the history continued to its end produces the twin's final ledger.
//
// Around that: AllocateSlabIndex armed while a container is created (error must be ExternalError, no
// pending change appears, no index is consumed), ValueExists armed to fail during faulted commits
// (irrelevant to the result), and in the twin GetValue armed at sampled positions of a full traversal
// through a fresh storage (the traversal and Storage.Retrieve must fail with ExternalError, an
// immediate retry on the same storage must return the complete content).

import (
	"crypto/sha256"
	"encoding/binary"
	"encoding/hex"
	"errors"
	"fmt"
	"hash/fnv"
	"sort"
	"strings"
	"sync"
	"time"

	"github.com/onflow/atree"
	testutils "github.com/onflow/atree/test_utils"
)

func init() { register("ledgerfault", cmdLedgerFault) }

// ---------- the fault-injecting ledger ----------

const (
	lfSet = iota
	lfGet
	lfExists
	lfAlloc
)

type lfCall struct {
	Kind byte // 'W' SetValue with a value, 'D' SetValue with an empty value (deletion)
	ID   atree.SlabID
	Fail bool
	Had  bool // the register held a value before the call
}

// class of a SetValue call: 0 first write, 1 overwrite of a persisted register, 2 deletion of a
// persisted register, 3 deletion of a register that is not in the ledger
func (c lfCall) class() int {
	switch {
	case c.Kind == 'W' && !c.Had:
		return 0
	case c.Kind == 'W':
		return 1
	case c.Had:
		return 2
	}
	return 3
}

var lfClassNames = [4]string{"first_write", "overwrite", "deletion", "deletion_of_absent"}
var lfClassText = [4]string{"first write of a register", "overwrite of a register persisted by an earlier commit", "deletion of a persisted register", "deletion of a register that is not in the ledger"}

type lfLedger struct {
	mu      sync.Mutex
	regs    map[atree.SlabID][]byte
	index   map[atree.Address]uint64
	nonNil  bool // absent registers are answered with an empty NON-NIL value (as real ledgers do)
	armAt   [4]int
	cnt     [4]int
	armID   atree.SlabID
	armIDOn bool
	log     []lfCall
	fired   int
	bad     string        // a call with an owner/key that is not (8-byte address, "$"+8-byte index)
	slow    time.Duration // an armed SetValue takes this long before it reports its failure (a ledger timing out)
}

var _ atree.Ledger = &lfLedger{}

func newLfLedger(nonNil bool) *lfLedger {
	return &lfLedger{regs: map[atree.SlabID][]byte{}, index: map[atree.Address]uint64{}, nonNil: nonNil, armAt: [4]int{-1, -1, -1, -1}}
}

func (l *lfLedger) Clone() *lfLedger {
	c := newLfLedger(l.nonNil)
	for k, v := range l.regs {
		c.regs[k] = append([]byte(nil), v...)
	}
	for k, v := range l.index {
		c.index[k] = v
	}
	return c
}

// arm makes the k-th call (0-based, counted from now) of the method fail; k<0 disarms.
func (l *lfLedger) arm(method, k int) { l.armAt[method] = k; l.cnt[method] = 0 }

// armRegister makes the next SetValue on the register fail.
func (l *lfLedger) armRegister(id atree.SlabID) { l.armID = id; l.armIDOn = true }
func (l *lfLedger) disarm() {
	l.armAt = [4]int{-1, -1, -1, -1}
	l.armIDOn = false
	l.slow = 0
}
func (l *lfLedger) resetLog() { l.log = l.log[:0]; l.fired = 0 }

func (l *lfLedger) hit(method int) bool {
	k := l.cnt[method]
	l.cnt[method]++
	if l.armAt[method] >= 0 && k == l.armAt[method] {
		l.fired++
		return true
	}
	return false
}

func (l *lfLedger) toID(owner, key []byte) atree.SlabID {
	p := atree.LedgerBaseStorageSlabPrefix
	if len(owner) != 8 || len(key) != len(p)+8 || string(key[:len(p)]) != p {
		if l.bad == "" {
			l.bad = fmt.Sprintf("owner %x key %x", owner, key)
		}
		return atree.SlabIDUndefined
	}
	var a atree.Address
	var i atree.SlabIndex
	copy(a[:], owner)
	copy(i[:], key[len(p):])
	return atree.NewSlabID(a, i)
}

func (l *lfLedger) GetValue(owner, key []byte) ([]byte, error) {
	l.mu.Lock()
	defer l.mu.Unlock()
	id := l.toID(owner, key)
	if l.hit(lfGet) {
		return nil, errInjected
	}
	if v, ok := l.regs[id]; ok {
		return append([]byte(nil), v...), nil
	}
	if l.nonNil {
		return []byte{}, nil
	}
	return nil, nil
}

func (l *lfLedger) SetValue(owner, key, value []byte) error {
	l.mu.Lock()
	defer l.mu.Unlock()
	id := l.toID(owner, key)
	_, had := l.regs[id]
	fail := l.hit(lfSet)
	if !fail && l.armIDOn && id == l.armID {
		l.armIDOn = false
		l.fired++
		fail = true
	}
	kind := byte('W')
	if len(value) == 0 {
		kind = 'D'
	}
	l.log = append(l.log, lfCall{kind, id, fail, had})
	if fail {
		if l.slow > 0 {
			time.Sleep(l.slow) // only the committing goroutine calls the ledger: nobody waits for the mutex
		}
		return errInjected
	}
	if len(value) == 0 {
		delete(l.regs, id)
		return nil
	}
	l.regs[id] = append([]byte(nil), value...)
	return nil
}

func (l *lfLedger) ValueExists(owner, key []byte) (bool, error) {
	l.mu.Lock()
	defer l.mu.Unlock()
	id := l.toID(owner, key)
	if l.hit(lfExists) {
		return false, errInjected
	}
	_, ok := l.regs[id]
	return ok, nil
}

func (l *lfLedger) AllocateSlabIndex(owner []byte) (atree.SlabIndex, error) {
	l.mu.Lock()
	defer l.mu.Unlock()
	var a atree.Address
	copy(a[:], owner)
	if l.hit(lfAlloc) {
		return atree.SlabIndex{}, errInjected
	}
	l.index[a]++
	var idx atree.SlabIndex
	binary.BigEndian.PutUint64(idx[:], l.index[a])
	return idx, nil
}

func (l *lfLedger) sortedIDs() []atree.SlabID {
	ids := make([]atree.SlabID, 0, len(l.regs))
	for k := range l.regs {
		ids = append(ids, k)
	}
	sortIDs(ids)
	return ids
}

func (l *lfLedger) digest() string {
	h := sha256.New()
	for _, id := range l.sortedIDs() {
		a, i := idPair(id)
		d := l.regs[id]
		fmt.Fprintf(h, "%d.%d:%d:", a, i, len(d))
		h.Write(d)
	}
	return hex.EncodeToString(h.Sum(nil))
}

// lfSameRegisters reports the first difference between two ledgers ("" if byte-identical, allocation
// counters included).
func lfSameRegisters(want, got *lfLedger) string {
	for _, id := range want.sortedIDs() {
		d, ok := got.regs[id]
		if !ok {
			return fmt.Sprintf("register %s (%d bytes) of the fault-free ledger is missing", id, len(want.regs[id]))
		}
		if string(d) != string(want.regs[id]) {
			return fmt.Sprintf("register %s differs: fault-free %d bytes %s, here %d bytes %s", id, len(want.regs[id]), lfSum(want.regs[id]), len(d), lfSum(d))
		}
	}
	for _, id := range got.sortedIDs() {
		if _, ok := want.regs[id]; !ok {
			return fmt.Sprintf("register %s (%d bytes) is not in the fault-free ledger (orphan)", id, len(got.regs[id]))
		}
	}
	for a, n := range want.index {
		if got.index[a] != n {
			return fmt.Sprintf("slab index counter of %x: fault-free %d, here %d", a, n, got.index[a])
		}
	}
	return ""
}

func lfSum(b []byte) string {
	s := sha256.Sum256(b)
	return hex.EncodeToString(s[:6])
}

func lfLogStr(log []lfCall) string {
	parts := make([]string, len(log))
	for i, c := range log {
		a, x := idPair(c.ID)
		parts[i] = fmt.Sprintf("%c%d.%d", c.Kind, a, x)
		if c.Fail {
			parts[i] += "!"
		}
	}
	return strings.Join(parts, " ")
}

func lfStorage(l *lfLedger) *atree.PersistentSlabStorage {
	return atree.NewPersistentSlabStorage(atree.NewLedgerBaseStorage(l), encMode, decMode, testutils.DecodeStorable, testutils.DecodeTypeInfo)
}

// ---------- histories ----------

const (
	lfSegRandom = iota
	lfSegGrow
	lfSegShrink
	lfSegRewrite
	lfSegClear
	lfSegChurn
)

var lfSegNames = []string{"random", "grow", "shrink", "rewrite", "clear", "churn"}

type lfSeg struct {
	kind int
	n    int // operations (random, grow, rewrite, churn) or percentage removed (shrink)
	end  int // 0 end, 1 front, 2 random places
}

type lfSpec struct {
	hs     histSpec
	segs   []lfSeg
	nonNil bool
	world  bool
}

func (sp lfSpec) String() string {
	var sb strings.Builder
	for i, s := range sp.segs {
		if i > 0 {
			sb.WriteByte(' ')
		}
		fmt.Fprintf(&sb, "%s/%d/%d", lfSegNames[s.kind], s.n, s.end)
	}
	return fmt.Sprintf("%s nonNilAbsent=%v segments=[%s]", sp.hs, sp.nonNil, sb.String())
}

func lfNewSpec(hr *Rng, world bool) lfSpec {
	sp := lfSpec{hs: newSpec(hr, 30, 80, false), nonNil: hr.Bool(), world: world}
	pr := hr.Fork(7)
	if world {
		// the histories of `faults`: random operations, commits at 2..4 random points
		pts := faultPlan(sp.hs)
		prev := 0
		for _, p := range pts {
			sp.segs = append(sp.segs, lfSeg{kind: lfSegRandom, n: p - prev})
			prev = p
		}
		return sp
	}
	sp.hs.Opts.KeySpace = 1500
	if sp.hs.Prefill > 60 {
		sp.hs.Prefill = 60
	}
	n := 3 + pr.Intn(3)
	sp.segs = append(sp.segs, lfSeg{kind: lfSegGrow, n: 30 + pr.Intn(220), end: pr.Intn(3)})
	shrunk := false
	for len(sp.segs) < n {
		var s lfSeg
		switch pr.Pick(20, 20, 32, 20, 4, 4) {
		case 0:
			s = lfSeg{kind: lfSegRandom, n: 8 + pr.Intn(40)}
		case 1:
			s = lfSeg{kind: lfSegGrow, n: 20 + pr.Intn(230), end: pr.Intn(3)}
		case 2:
			s = lfSeg{kind: lfSegShrink, n: 50 + pr.Intn(48), end: pr.Intn(3)}
			shrunk = true
		case 3:
			s = lfSeg{kind: lfSegRewrite, n: 1 + pr.Intn(12)}
		case 4:
			s = lfSeg{kind: lfSegClear, n: 1 + pr.Intn(3), end: pr.Intn(2)}
			shrunk = true
		default:
			s = lfSeg{kind: lfSegChurn, n: 10 + pr.Intn(60), end: pr.Intn(2)}
		}
		if len(sp.segs) == n-1 && !shrunk {
			s = lfSeg{kind: lfSegShrink, n: 60 + pr.Intn(38), end: pr.Intn(3)}
		}
		sp.segs = append(sp.segs, s)
	}
	return sp
}

type lfExec struct {
	*hexec
	sp   lfSpec
	led  *lfLedger
	seg  int
	hung string // non-empty: a commit did not return (watchdog); the storage is abandoned
}

// lfNewExec: the World of workload.go with its storage replaced, before any container exists, by a
// PersistentSlabStorage over the production ledger adapter (World.Base stays an unused dummy: Reopen and
// LiveIDs are not used here).
func lfNewExec(sp lfSpec, rep *Report) *lfExec {
	led := newLfLedger(sp.nonNil)
	h := &hexec{sp: sp.hs, base: NewLogBase(), aux: NewRng(sp.hs.Seed ^ 0xA5A5A5A5)}
	h.w = NewWorld(h.base, NewRng(sp.hs.Seed), sp.hs.Opts, rep)
	h.w.St = lfStorage(led)
	h.w.Fail = h.fail
	e := &lfExec{hexec: h, sp: sp, led: led}
	e.guard(func() {
		w := e.w
		n := 1 + w.Rng.Intn(3)
		for i := 0; i < n; i++ {
			if w.Rng.Bool() {
				w.NewArrayRoot()
			} else {
				w.NewMapRoot()
			}
		}
		if sp.hs.Prefill == 0 {
			return
		}
		for _, r := range append([]SV(nil), w.Roots...) {
			k := sp.hs.Prefill/2 + w.Rng.Intn(sp.hs.Prefill+1)
			for ; k > 0 && !e.failed; k-- {
				switch x := r.(type) {
				case *svArr:
					w.arrInsert(x, uint64(len(x.elems)), 1)
				case *svMap:
					w.mapSet(x, w.randKey(), 1)
				}
			}
		}
	})
	return e
}

// runSeg executes the next segment.  Every random choice comes from the World's generator, which
// nothing else consumes: the operation stream is the same in the twin and in every faulted run.
func (e *lfExec) runSeg() {
	s := e.sp.segs[e.seg]
	e.seg++
	e.step = e.seg
	e.guard(func() {
		w := e.w
		r := w.Rng
		if s.kind == lfSegRandom {
			for i := 0; i < s.n && !e.failed; i++ {
				w.Step()
			}
			return
		}
		cs := w.containers()
		if len(cs) == 0 {
			w.NewArrayRoot()
			cs = w.containers()
		}
		size := func(c contRef) int {
			switch x := c.s.(type) {
			case *svArr:
				return len(x.elems)
			case *svMap:
				return len(x.keys)
			}
			return 0
		}
		c := cs[r.Intn(len(cs))]
		if r.Chance(55) {
			for k := 0; k < 8 && c.depth != 0; k++ {
				c = cs[r.Intn(len(cs))]
			}
		}
		if s.kind != lfSegGrow {
			// a burst that removes or rewrites needs elements: the largest container (60 %) or any non-empty one
			var cand []contRef
			big := c
			for _, x := range cs {
				if size(x) > 0 {
					cand = append(cand, x)
				}
				if size(x) > size(big) {
					big = x
				}
			}
			switch {
			case len(cand) == 0:
			case r.Chance(60):
				c = big
			default:
				c = cand[r.Intn(len(cand))]
			}
		}
		depth := func() int {
			if r.Chance(88) {
				return w.Opts.MaxDepth // scalar
			}
			return c.depth + 1
		}
		w.Rep.Op("segment." + lfSegNames[s.kind])
		switch x := c.s.(type) {
		case *svArr:
			pos := func(n int, forInsert bool) uint64 {
				if n == 0 {
					return 0
				}
				switch s.end {
				case 0:
					if forInsert {
						return uint64(n)
					}
					return uint64(n - 1)
				case 1:
					return 0
				}
				if forInsert {
					return uint64(r.Intn(n + 1))
				}
				return uint64(r.Intn(n))
			}
			switch s.kind {
			case lfSegGrow:
				for i := 0; i < s.n && !e.failed; i++ {
					w.arrInsert(x, pos(len(x.elems), true), depth())
				}
			case lfSegShrink:
				k := len(x.elems) * s.n / 100
				for i := 0; i < k && len(x.elems) > 0 && !e.failed; i++ {
					w.arrRemove(x, pos(len(x.elems), false))
				}
			case lfSegRewrite:
				n := len(x.elems)
				m := s.n
				if m > n {
					m = n
				}
				for j := 0; j < m && !e.failed; j++ {
					w.arrSet(x, uint64(j*n/m), depth())
				}
			case lfSegClear:
				for len(x.elems) > 0 && !e.failed {
					w.arrRemove(x, pos(len(x.elems), false))
				}
				for i := 0; i < s.n && !e.failed; i++ {
					w.arrInsert(x, uint64(len(x.elems)), depth())
				}
			case lfSegChurn:
				for i := 0; i < s.n && !e.failed; i++ {
					if s.end == 0 {
						w.arrInsert(x, 0, depth())
						w.arrRemove(x, uint64(len(x.elems)-1))
					} else {
						w.arrInsert(x, uint64(len(x.elems)), depth())
						w.arrRemove(x, 0)
					}
				}
			}
		case *svMap:
			victim := func() atree.Value {
				switch s.end {
				case 0:
					return x.keys[len(x.keys)-1]
				case 1:
					return x.keys[0]
				}
				return x.keys[r.Intn(len(x.keys))]
			}
			switch s.kind {
			case lfSegGrow:
				for i := 0; i < s.n && !e.failed; i++ {
					w.mapSet(x, w.randKey(), depth())
				}
			case lfSegShrink:
				k := len(x.keys) * s.n / 100
				for i := 0; i < k && len(x.keys) > 0 && !e.failed; i++ {
					w.mapRemove(x, victim())
				}
			case lfSegRewrite:
				n := len(x.keys)
				m := s.n
				if m > n {
					m = n
				}
				for j := 0; j < m && !e.failed; j++ {
					w.mapSet(x, x.keys[j*n/m], depth())
				}
			case lfSegClear:
				for len(x.keys) > 0 && !e.failed {
					w.mapRemove(x, victim())
				}
				for i := 0; i < s.n && !e.failed; i++ {
					w.mapSet(x, w.randKey(), depth())
				}
			case lfSegChurn:
				for i := 0; i < s.n && !e.failed; i++ {
					w.mapSet(x, w.randKey(), depth())
					if len(x.keys) > 0 {
						w.mapRemove(x, x.keys[0])
					}
				}
			}
		}
	})
}

// commit runs one commit under the watchdog of commit_watchdog.go and returns its error and the SetValue
// calls the ledger saw during it; e.hung is set (and the history must be abandoned) when it did not return.
func (e *lfExec) commit(nondet bool, workers int) (error, []lfCall, int) {
	e.led.resetLog()
	npend := e.w.St.DeltasWithoutTempAddresses()
	o := watchedCommit(e.w.St, nondet, workers)
	if o.hung != "" {
		e.led.mu.Lock()
		calls := clip(lfLogStr(e.led.log), 200)
		e.led.mu.Unlock()
		e.hung = fmt.Sprintf("%s with %d owned pending slabs: %s | ledger calls so far: %s", commitFlavour(nondet, workers), npend, o.hung, calls)
		e.fail("commit did not return", e.hung)
		return nil, nil, 0
	}
	if o.pan != "" {
		e.fail("panic in implementation", o.pan)
	}
	log := append([]lfCall(nil), e.led.log...)
	fired := e.led.fired
	e.led.resetLog()
	return o.err, log, fired
}

// lfOpen opens every root by its slab identifier in a storage, through fresh wrappers.
func (e *lfExec) lfOpen(st *atree.PersistentSlabStorage) ([]atree.Value, error) {
	w := e.w
	out := make([]atree.Value, 0, len(w.Roots))
	for _, r := range w.Roots {
		switch x := r.(type) {
		case *svArr:
			a, err := atree.NewArrayWithRootID(st, x.arr.SlabID())
			if err != nil {
				return nil, err
			}
			out = append(out, a)
		case *svMap:
			dig := w.Opts.Digester
			if x.top {
				dig = w.Opts.RootDigester
			}
			m, err := atree.NewMapWithRootID(st, x.m.SlabID(), dig())
			if err != nil {
				return nil, err
			}
			out = append(out, m)
		}
	}
	return out, nil
}

// freshFingerprint hashes the read-only traversal of every root, opened by identifier in the storage.
func (e *lfExec) freshFingerprint(st *atree.PersistentSlabStorage) (fp string, err error) {
	defer func() {
		if r := recover(); r != nil {
			err = fmt.Errorf("panic: %v", r)
		}
	}()
	vs, err := e.lfOpen(st)
	if err != nil {
		return "", err
	}
	h := fnv.New64a()
	for i, v := range vs {
		fmt.Fprintf(h, "#%d:", i)
		if err := hashValue(h, v); err != nil {
			return "", err
		}
	}
	return fmt.Sprintf("r%d:%016x", len(vs), h.Sum64()), nil
}

// reloadCheck: a brand-new storage over a COPY of the ledger must reload content deep-equal to the
// shadow, pass the health check with exactly the live roots, and reach every register of the ledger
// from those roots (a register nothing refers to is an orphan).
func (e *lfExec) reloadCheck() {
	cl := e.led.Clone()
	st := lfStorage(cl)
	e.withAux(func() {
		w := e.w
		vs, err := e.lfOpen(st)
		if err != nil {
			w.Fail("C14: a root cannot be reopened from the ledger after a successful commit", err.Error())
			return
		}
		for i, r := range w.Roots {
			w.Compare(r, vs[i], fmt.Sprintf("reloaded root%d", i))
		}
		if e.failed {
			return
		}
		if _, err := atree.CheckStorageHealth(st, len(w.Roots)); err != nil {
			w.Fail("C14: CheckStorageHealth fails on a fresh storage over the committed ledger", err.Error())
			return
		}
		it, err := st.SlabIterator()
		if err != nil {
			w.Fail("C14: SlabIterator fails on a fresh storage over the committed ledger", err.Error())
			return
		}
		reached := map[atree.SlabID]bool{}
		for {
			id, _ := it()
			if id == atree.SlabIDUndefined {
				break
			}
			reached[id] = true
		}
		for _, id := range cl.sortedIDs() {
			if !reached[id] {
				w.Fail("C14: after a successful commit the ledger holds a register that no live root reaches (orphan)", id.String())
				return
			}
		}
	})
}

// ---------- the fault-free twin ----------

type lfTwin struct {
	snaps  []*lfLedger
	logs   [][]lfCall
	what   string
	detail string
}

func lfRunTwin(sp lfSpec, rep *Report, rr *Rng, viol func(step int, what, detail string)) (t lfTwin) {
	e := lfNewExec(sp, rep)
	for e.seg < len(sp.segs) && !e.failed {
		e.runSeg()
		if e.failed {
			break
		}
		err, log, _ := e.commit(false, 1)
		if e.hung != "" {
			e.what, e.detail = "C14: a fault-free commit does not return", e.hung
			break
		}
		if e.failed {
			break
		}
		if err != nil {
			e.fail("fault-free commit failed", err.Error())
			break
		}
		t.snaps = append(t.snaps, e.led.Clone())
		t.logs = append(t.logs, log)
		for _, c := range log {
			rep.Event("twin_" + lfClassNames[c.class()])
		}
		e.Verify(true)
		if !e.failed {
			e.reloadCheck()
		}
		if !e.failed && (e.seg == len(sp.segs) || rr.Chance(30)) {
			e.readFaults(rr, rep, viol)
		}
	}
	if e.led.bad != "" {
		e.fail("the adapter called the ledger with a malformed owner/key", e.led.bad)
	}
	t.what, t.detail = e.what, e.detail
	return t
}

// readFaults: GetValue armed at sampled positions of a complete traversal through a fresh storage.
func (e *lfExec) readFaults(rr *Rng, rep *Report, viol func(step int, what, detail string)) {
	cl := e.led.Clone()
	cl.arm(lfGet, -1)
	fp0, err := e.freshFingerprint(lfStorage(cl))
	if err != nil {
		viol(e.seg, "C14: read-only traversal through a fresh storage over the committed ledger fails", err.Error())
		return
	}
	R := cl.cnt[lfGet]
	if fpLive := e.libFingerprint(); fpLive != fp0 {
		viol(e.seg, "C14: content reloaded from the committed ledger differs from the content of the committing storage", fpLive+" vs "+fp0)
		return
	}
	if R == 0 {
		return
	}
	ks := []int{0, R - 1, rr.Intn(R), rr.Intn(R)}
	for _, k := range ks {
		ctx := fmt.Sprintf("GetValue call %d of %d fails", k, R)
		st := lfStorage(cl)
		cl.arm(lfGet, k)
		cl.fired = 0
		_, err := e.freshFingerprint(st)
		fired := cl.fired
		cl.disarm()
		rep.Event("read_fault_cases")
		if fired == 0 {
			viol(e.seg, "C14: traversal of the same ledger issued fewer reads than before (armed read fault never reached)", ctx)
			continue
		}
		if err == nil {
			viol(e.seg, "C14: a failed ledger read (GetValue) during Retrieve is not reported: the traversal returned no error", ctx)
			continue
		}
		var ee *atree.ExternalError
		if !errors.As(err, &ee) {
			viol(e.seg, "C14: a failed ledger read (GetValue) is not reported as ExternalError", fmt.Sprintf("%s: %T %v", ctx, err, err))
		} else {
			rep.Err("ExternalError(read)")
		}
		fp1, err := e.freshFingerprint(st)
		if err != nil || fp1 != fp0 {
			viol(e.seg, "C14: after a transient ledger read fault the same storage does not return the complete content on retry", fmt.Sprintf("%s: %s vs %s err=%v", ctx, fp1, fp0, err))
		}
	}
	// Storage.Retrieve directly
	ids := cl.sortedIDs()
	if len(ids) == 0 {
		return
	}
	id := ids[rr.Intn(len(ids))]
	st := lfStorage(cl)
	cl.arm(lfGet, 0)
	s, found, err := st.Retrieve(id)
	cl.disarm()
	var ee *atree.ExternalError
	if err == nil || !errors.As(err, &ee) || found || s != nil {
		viol(e.seg, "C14: Storage.Retrieve with a failing ledger read does not return (nil, false, ExternalError)", fmt.Sprintf("%s: found=%v slab=%v err=%T %v", id, found, s != nil, err, err))
	}
	s, found, err = st.Retrieve(id)
	if err != nil || !found || s == nil {
		viol(e.seg, "C14: Storage.Retrieve retried after a transient ledger read fault does not return the slab", fmt.Sprintf("%s: found=%v err=%v", id, found, err))
	}
}

// lfAccounting: after a failed commit every change that was pending either left the write set with its
// register holding the twin's bytes, or is still pending, unaltered, with its register untouched.
func (e *lfExec) lfAccounting(pend, after map[atree.SlabID]bool, okCalls map[atree.SlabID]byte, before map[atree.SlabID]string, hadBefore map[atree.SlabID]bool, want *lfLedger, nAll int, other atree.Address, badA func(what, detail string)) {
	w := e.w
	for id, live := range pend {
		kind, done := okCalls[id]
		alive, still := after[id]
		switch {
		case done && still:
			badA("C14: change written to the ledger is still pending", id.String())
		case !done && !still:
			badA("C14: pending change lost by a failed commit (neither pending nor written)", id.String())
		case !done:
			if alive != live {
				badA("C14: pending change altered by a failed commit", id.String())
			}
			d, ok := e.led.regs[id]
			if ok != hadBefore[id] || string(d) != before[id] {
				badA("C14: register of a still-pending change was modified", id.String())
			}
		default:
			if (kind == 'W') != live {
				badA("C14: kind of ledger call (write/deletion) disagrees with the pending change", id.String())
			}
			d, ok := e.led.regs[id]
			if ok != live {
				badA("C14: register presence after a successful ledger call disagrees with the change", id.String())
			} else if want != nil {
				if wd, wok := want.regs[id]; wok != live || string(d) != string(wd) {
					badA("C14: register written by the failed commit differs from the fault-free encoding", id.String())
				}
			}
		}
	}
	for id := range after {
		if _, ok := pend[id]; !ok {
			badA("C14: failed commit created a pending change", id.String())
		}
	}
	for id := range okCalls {
		if _, ok := pend[id]; !ok {
			badA("C14: commit touched a register without pending change", id.String())
		}
	}
	if got, wantN := int(w.St.DeltasWithoutTempAddresses()), len(pend)-len(okCalls); got != wantN {
		badA("C14: DeltasWithoutTempAddresses inconsistent with the successful ledger calls", fmt.Sprintf("got %d want %d", got, wantN))
	}
	if got, wantN := int(w.St.Deltas()), nAll-len(okCalls); got != wantN {
		badA("C14: Deltas inconsistent with the successful ledger calls", fmt.Sprintf("got %d want %d", got, wantN))
	}
	if !w.St.HasUnsavedChanges(w.Addr) {
		badA("C14: HasUnsavedChanges is false after a failed commit", "")
	}
	if w.St.HasUnsavedChanges(other) {
		badA("C14: HasUnsavedChanges is true for an address without containers", "")
	}
}

// ---------- one faulted case ----------

type lfVariant struct {
	name    string
	nondet  bool
	workers int
}

var lfVariants = []lfVariant{
	{"fast-w1", false, 1}, {"fast-w2", false, 2}, {"fast-w8", false, 8},
	{"nondet-w1", true, 1}, {"nondet-w2", true, 2}, {"nondet-w3", true, 3}, {"nondet-w8", true, 8},
}

type lfTarget struct {
	pos  int
	id   atree.SlabID
	byID bool
}

// lfRunFaulted re-executes the history; commit c fails at the target (slow: the failing SetValue takes
// slowFaultDelay before it returns its error); returns the number of faulted attempts; *wedged is set when
// a commit did not return (watchdog) — the storage of the case is then abandoned.
func lfRunFaulted(sp lfSpec, twin lfTwin, c int, tg lfTarget, v lfVariant, slow bool, wedged *bool, fr *Rng, rep *Report, viol func(step int, what, detail string)) int {
	e := lfNewExec(sp, NewReport("", 0))
	w, led := e.w, e.led
	ctx := fmt.Sprintf("commit #%d of %d, %s", c, len(twin.snaps), v.name)
	bad := func(what, detail string) { viol(e.seg, what, ctx+" | "+detail) }
	other := mkAddr(sp.hs.Opts.Addr + 7)
	armExists := fr.Chance(15)

	commitPlain := func() bool {
		err, log, _ := e.commit(v.nondet, v.workers)
		if e.hung != "" {
			*wedged = true
			bad("C14: a commit during which no ledger call fails does not return", e.hung)
			return false
		}
		if e.failed {
			return false
		}
		if err != nil {
			bad("C14: a commit during which no ledger call failed returned an error", fmt.Sprintf("%v | calls: %s", err, clip(lfLogStr(log), 300)))
			return false
		}
		if n := w.St.DeltasWithoutTempAddresses(); n != 0 {
			bad("C14: owned pending changes remain after a successful commit", fmt.Sprint(n))
			return false
		}
		if w.St.HasUnsavedChanges(w.Addr) {
			bad("C14: HasUnsavedChanges is true after a successful commit", "")
			return false
		}
		return true
	}

	attempts := 0
	faulted := func(tg lfTarget, first bool) bool {
		attempts++
		pend := ownedDeltas(w.St)
		nAll := int(w.St.Deltas())
		fpBefore := e.libFingerprint()
		before := make(map[atree.SlabID]string, len(pend))
		hadBefore := make(map[atree.SlabID]bool, len(pend))
		for id := range pend {
			if d, ok := led.regs[id]; ok {
				before[id], hadBefore[id] = string(d), true
			}
		}
		how := fmt.Sprintf("SetValue call %d fails", tg.pos)
		if tg.byID {
			how = fmt.Sprintf("the SetValue on register %s fails", tg.id)
			led.armRegister(tg.id)
		} else {
			led.arm(lfSet, tg.pos)
		}
		if armExists {
			led.arm(lfExists, 0)
		}
		if slow && first {
			led.slow = slowFaultDelay
			how += " after " + slowFaultDelay.String()
		}
		err, log, fired := e.commit(v.nondet, v.workers)
		badA := func(what, detail string) { bad(what, how+" | "+detail) }
		if e.hung != "" {
			*wedged = true
			rep.Event("commit_did_not_return")
			badA("C14: a commit with a failing ledger call does not return (it neither reports the error nor finishes)", e.hung)
			return false
		}
		led.disarm()
		if e.failed {
			return false
		}
		okCalls := map[atree.SlabID]byte{}
		var failedCall lfCall
		nFail, afterFail := 0, 0
		for _, cl := range log {
			if cl.Fail {
				nFail++
				failedCall = cl
				continue
			}
			okCalls[cl.ID] = cl.Kind
			if nFail > 0 {
				afterFail++
			}
		}
		if nFail == 0 || fired == 0 {
			badA("C14: commit issued fewer ledger writes than the fault-free twin (armed fault never reached)", fmt.Sprintf("calls: %s err: %v", clip(lfLogStr(log), 300), err))
			return false
		}
		cls := lfClassNames[failedCall.class()]
		how += " (" + lfClassText[failedCall.class()] + ")"
		rep.Event("faulted_commit_" + v.name)
		rep.Event("fault_on_" + cls)
		rep.EventN("ledger_calls_after_failed_one", afterFail)
		var ee *atree.ExternalError
		if err == nil {
			// reported; the remaining oracles still run (the pending set, the registers and the retry tell what was lost)
			badA("C14: a ledger call failed during the commit but the commit returned no error", "calls: "+clip(lfLogStr(log), 300))
		} else if !errors.As(err, &ee) {
			badA("C14: ledger failure not reported as ExternalError", fmt.Sprintf("%T %v", err, err))
		} else {
			rep.Err("ExternalError")
		}
		after := ownedDeltas(w.St)
		if _, still := after[failedCall.ID]; !still {
			badA("C14: the change whose ledger call failed is no longer pending (no retry can write it)", failedCall.ID.String())
		}
		if err != nil {
			e.lfAccounting(pend, after, okCalls, before, hadBefore, twin.snaps[c], nAll, other, badA)
		}
		for id, live := range pend {
			s, found, err := w.St.Retrieve(id)
			if err != nil || found != live || (s != nil) != live {
				badA("C14: storage read after a failed commit does not return the latest state", fmt.Sprintf("%s found=%v want=%v err=%v", id, found, live, err))
			}
		}
		e.Verify(false)
		if e.failed {
			return false
		}
		if fp := e.libFingerprint(); fp != fpBefore {
			badA("C14: content read through the library changed across a failed commit", fpBefore+" -> "+fp)
		}
		return !e.failed
	}

	// AllocateSlabIndex failing while a container is created: nothing may change
	allocProbe := func() {
		nBefore := w.St.Deltas()
		idxBefore := led.index[w.Addr]
		led.arm(lfAlloc, 0)
		var err error
		e.guard(func() {
			if fr.Bool() {
				_, err = atree.NewArray(w.St, w.Addr, w.ti(41))
			} else {
				_, err = atree.NewMap(w.St, w.Addr, atree.NewDefaultDigesterBuilder(), w.ti(51))
			}
		})
		led.disarm()
		rep.Event("alloc_fault_cases")
		var ee *atree.ExternalError
		if err == nil || !errors.As(err, &ee) {
			bad("C14: a failing AllocateSlabIndex while creating a container is not reported as ExternalError", fmt.Sprintf("%T %v", err, err))
		}
		if w.St.Deltas() != nBefore || led.index[w.Addr] != idxBefore {
			bad("C14: a container creation that failed in AllocateSlabIndex left a pending change or consumed an index", fmt.Sprintf("deltas %d -> %d", nBefore, w.St.Deltas()))
		}
	}

	skipped := false
	for e.seg < len(sp.segs) && !e.failed {
		e.runSeg()
		if e.failed {
			break
		}
		ci := e.seg - 1
		if ci != c {
			if !commitPlain() {
				return attempts
			}
			if skipped && ci == c+1 {
				if d := lfSameRegisters(twin.snaps[ci], led); d != "" {
					bad("C14: ledger after the commit following an unretried failed commit differs from the fault-free twin", d)
					return attempts
				}
				e.Verify(true)
			}
			continue
		}
		if fr.Chance(30) {
			allocProbe()
		}
		if !faulted(tg, true) {
			return attempts
		}
		if c+1 < len(sp.segs) && fr.Chance(25) {
			// no retry: the history goes on over the partly written commit
			skipped = true
			rep.Event("failed_commit_not_retried")
			continue
		}
		for r := 0; r < 3 && fr.Chance(40); r++ {
			rem := ownedDeltas(w.St)
			if len(rem) == 0 {
				break
			}
			var t2 lfTarget
			if fr.Chance(35) {
				// the same register fails again; otherwise a random position
				ids := make([]atree.SlabID, 0, len(rem))
				for id := range rem {
					ids = append(ids, id)
				}
				sortIDs(ids)
				t2 = lfTarget{id: ids[fr.Intn(len(ids))], byID: true}
				if _, ok := rem[tg.id]; ok && fr.Bool() {
					t2.id = tg.id
				}
			} else {
				t2 = lfTarget{pos: fr.Intn(len(rem))}
			}
			if !faulted(t2, false) {
				return attempts
			}
			rep.Event("further_fault_in_retry")
		}
		if !commitPlain() {
			return attempts
		}
		if d := lfSameRegisters(twin.snaps[c], led); d != "" {
			bad("C14: ledger after the successful retry differs from the ledger of a single fault-free commit", d)
			return attempts
		}
		e.Verify(true)
		if !e.failed && fr.Chance(35) {
			e.reloadCheck()
		}
	}
	if e.hung != "" {
		return attempts // reported where it happened
	}
	if led.bad != "" {
		e.fail("the adapter called the ledger with a malformed owner/key", led.bad)
	}
	if e.failed {
		bad("C14: history oracle failed: "+e.what, e.detail)
		return attempts
	}
	if d := lfSameRegisters(twin.snaps[len(twin.snaps)-1], led); d != "" {
		bad("C14: final ledger of the history continued after recovery differs from the fault-free twin", d)
	}
	return attempts
}

// lfTargets chooses the fault targets of one commit from the twin's call log.
func lfTargets(log []lfCall, max int, fr *Rng) []lfTarget {
	W := len(log)
	var ks []int
	if W <= max {
		for k := 0; k < W; k++ {
			ks = append(ks, k)
		}
	} else {
		seen := map[int]bool{}
		add := func(k int) {
			if !seen[k] && len(ks) < max {
				seen[k] = true
				ks = append(ks, k)
			}
		}
		add(0)
		add(W - 1)
		byClass := [4][]int{}
		for k, c := range log {
			byClass[c.class()] = append(byClass[c.class()], k)
		}
		for _, l := range byClass {
			for j := 0; j < 2 && len(l) > 0; j++ {
				add(l[fr.Intn(len(l))])
			}
		}
		for len(ks) < max {
			add(fr.Intn(W))
		}
		sort.Ints(ks)
	}
	out := make([]lfTarget, len(ks))
	for i, k := range ks {
		out[i] = lfTarget{pos: k, id: log[k].ID}
	}
	return out
}

func cmdLedgerFault(a Args) {
	rep := NewReport(a.Prop, a.Seed)
	rep.Rule = "storages over the PRODUCTION adapter atree.NewLedgerBaseStorage on an in-memory atree.Ledger whose SetValue (writes and deletions) / GetValue / ValueExists / AllocateSlabIndex can be armed to fail, without effect, at the k-th call or (SetValue) on a given register. " +
		"Histories: 1-3 roots (arrays+maps, nested containers depth<=3, large values, T in {256,300,512,1024}, absent registers answered nil or empty non-nil) and 2-5 segments each followed by a commit; a segment is a run of random World operations or a burst on one container of any depth: grow 20-250, shrink 50-97%, in-place rewrite, clear, churn (mode world: only random operations; mode phases: first segment grows, at least one shrinks; default: 2 of 3 histories phases) - so later commits contain first writes, overwrites of persisted registers, deletions of persisted registers and deletions of never-persisted ones. " +
		"A fault-free twin (FastCommit, 1 worker) records ledger and SetValue calls per commit, checks a fresh storage over a copy of the ledger (deep-equal to the shadow, CheckStorageHealth, every register reached from the roots) and GetValue faults at 4 sampled positions of a full traversal (ExternalError, retry on the same storage complete; Storage.Retrieve). " +
		"For every commit, every fault target (all calls if <=12, else first, last, 2 per class, random up to 12; +all: 24) and flavour (one FastCommit with rotating workers 1/2/8 and one NondeterministicFastCommit with rotating workers 1/2/3/8; +all: all seven; nondet targets alternate between call position and register; the failing call of a NondeterministicFastCommit takes 2 ms before it fails when it is a deletion and for every other target) the history is re-executed and the call fails: EVERY commit attempt (faulted or not) runs under a watchdog and must return (20 s, or all goroutines of the process parked for 1 s); commit must return an *ExternalError iff a call failed; each pending change either left the write set with its register equal to the twin's bytes or is still pending, unaltered, with its register untouched; Deltas/DeltasWithoutTempAddresses/HasUnsavedChanges agree; Storage.Retrieve, VerifyArray/VerifyMap, deep shadow comparison and the traversal fingerprint are unchanged; then retries with 0-3 further faults (random position or the same register) until success: ledger byte-identical to the twin (allocation counters included), nothing owned pending, health check, fresh-storage reload (35%); or (25%) no retry and the NEXT commit must give the twin's ledger; the history continued to the end gives the twin's final ledger. AllocateSlabIndex armed during a container creation (30% of cases) and ValueExists armed during faulted commits (15%). " +
		"non-trivial = history with >=2 commits of >=2 ledger calls whose faulted cases hit a deletion and an overwrite; distinct by twin final digest. histories are added until -steps faulted commit attempts were made (or -n histories)"
	rng := NewRng(a.Seed)
	defer atree.VerifSetThreshold(1024)
	mode := a.Mode
	all := strings.HasSuffix(mode, "+all")
	mode = strings.TrimSuffix(mode, "+all")
	maxTargets := 12
	if all {
		maxTargets = 24
	}
	budget := a.Steps
	total := 0
	for h := 0; h < a.N; h++ {
		hr := rng.Fork(uint64(h))
		tag := fmt.Sprintf("lf%d", h)
		if !want(tag) {
			continue
		}
		if total >= budget {
			rep.Event("budget_exhausted")
			break
		}
		if wdExhausted() {
			rep.Event("run_stopped_after_commits_that_did_not_return")
			break
		}
		world := h%3 == 2
		switch mode {
		case "world":
			world = true
		case "phases":
			world = false
		}
		sp := lfNewSpec(hr, world)
		atree.VerifSetThreshold(sp.hs.T)
		nviol := len(rep.Violations)
		viol := func(step int, what, detail string) {
			rep.Violate(h, tag, step, what, clip(detail, 700)+" | "+sp.String())
		}
		twin := lfRunTwin(sp, rep, hr.Fork(55), viol)
		rep.Histories++
		rep.Steps += len(sp.segs)
		if twin.what != "" {
			viol(0, "C14: fault-free twin failed: "+twin.what, twin.detail)
			continue
		}
		fr := hr.Fork(99)
		multi := 0
		hit := [4]int{}
		wedged := false // a commit did not return: the history is abandoned
		rot := fr.Intn(3)
		for c, log := range twin.logs {
			W := len(log)
			rep.EventN("twin_ledger_calls", W)
			if W >= 2 {
				multi++
			}
			if W <= maxTargets {
				rep.Event("commit_exhaustive_positions")
			} else {
				rep.Event("commit_sampled_positions")
			}
			for ti, tg := range lfTargets(log, maxTargets, fr) {
				var vs []lfVariant
				if all {
					vs = lfVariants
				} else {
					vs = []lfVariant{lfVariants[(rot+ti)%3], lfVariants[3+(rot+ti+c)%4]}
				}
				for vi, v := range vs {
					if len(rep.Violations) > nviol+5 || wedged {
						break
					}
					t := tg
					t.byID = v.nondet && (ti+vi)%2 == 0
					// the failing call of the order-relaxed commit is slow when it is a deletion (issued while the
					// encoder goroutines are starting) and in every other remaining case
					slow := v.nondet && (log[tg.pos].Kind == 'D' || ti%2 == 0)
					total += lfRunFaulted(sp, twin, c, t, v, slow, &wedged, fr.Fork(uint64(c*1000+ti*10+vi)), rep, viol) // own generator per case: the order of a NondeterministicFastCommit must not shift the later cases
					rep.Event("cases")
					hit[log[tg.pos].class()]++
				}
			}
		}
		if multi >= 2 && hit[1] > 0 && hit[2] > 0 && len(rep.Violations) == nviol {
			rep.Distinct(twin.snaps[len(twin.snaps)-1].digest())
		}
		if h < 3 {
			ws := make([]int, len(twin.logs))
			for i, l := range twin.logs {
				ws[i] = len(l)
			}
			rep.Sample(fmt.Sprintf("%s: %s; ledger calls per commit %v", tag, sp, ws))
		}
	}
	rep.Events["faulted_commits_total"] = total
	rep.Write(a.Out + "/report.json")
}
