//go:build verif

package main

// attach_cmd.go — C08/C09: a committed stand-alone container is attached to a parent (where it is
// inlined) under different cache schedules; the final ledger must be the same for every schedule and
// must hold exactly the slabs reachable from the parent (the old stand-alone register is deleted).
//
// Schedules 4 and 5 inject one transient fault into the SlabStorage.Remove issued while the child is
// being inlined.  The attach fails; BEFORE anything else touches the child, every slab the storage
// holds (write set, read cache) and the child's root slab must satisfy the size equation of the codec
// checks (reported size == bytes written - extra data sections, a slab decoded from those bytes
// reports the same size), the child must still be stand-alone with its content and the parent must
// not show it.  Schedule 4 then retries the attach (must succeed, final ledger as without fault);
// schedule 5 gives up: the child stays a second root, is optionally mutated, and after commit both
// roots must be in the ledger with their content (C06: what is metered/committed for the child is
// what it reports).

import (
	"fmt"

	"github.com/onflow/atree"
	testutils "github.com/onflow/atree/test_utils"
)

func init() { register("attach", cmdAttach) }

// flakyStorage is a SlabStorage whose Remove can be made to fail once (a transient storage fault).
type flakyStorage struct {
	*atree.PersistentSlabStorage
	failRemove bool
	fired      bool
}

func (f *flakyStorage) Remove(id atree.SlabID) error {
	if f.failRemove {
		f.failRemove = false
		f.fired = true
		return fmt.Errorf("injected storage fault on Remove(%s)", id)
	}
	return f.PersistentSlabStorage.Remove(id)
}

func cmdAttach(a Args) {
	rep := NewReport(a.Prop, a.Seed)
	rep.Rule = "a small stand-alone array or map (0..6 scalars) is committed as its own slab; then, under schedule {keep cache, drop cache, drop cache + read it once, reopen by id in the same storage}, it is appended/set into a parent array or map (it becomes inlined), optionally mutated through its handle, and everything is committed; oracles: the registers in the ledger are exactly the slabs reachable from the parent (health check with one root on a fresh fully loaded storage), content of parent and child after reopen, and byte-identical ledgers across the schedules of the same case. Schedules 4/5: the SlabStorage.Remove issued while the child is inlined fails once: right after the failed attach every slab in write set / read cache and the child's root must satisfy the size equation (reported == written - extra sections, decoded size equal), child still stand-alone with its content, parent without trace; 4: retry succeeds, final ledger as without fault; 5: the client gives up, child stays a second root, metered size of the write set == bytes written, both roots committed with their content. non-trivial = schedule evicts the child's slab from the read cache before the attachment"
	rng := NewRng(a.Seed)
	defer atree.VerifSetThreshold(1024)
	n := a.N
	if n <= 0 {
		n = 100
	}
	for h := 0; h < n; h++ {
		hr := rng.Fork(uint64(h))
		tag := fmt.Sprintf("t%d", h)
		if !want(tag) {
			continue
		}
		T := []uint32{256, 512, 1024}[hr.Intn(3)]
		atree.VerifSetThreshold(T)
		childIsMap := hr.Chance(40)
		parentIsMap := hr.Chance(40)
		nelem := hr.Intn(7)
		mutate := hr.Bool()
		vals := make([]uint64, nelem)
		for i := range vals {
			vals[i] = uint64(hr.Intn(70000))
		}
		var ledgers []*LogBase
		for sched := 0; sched < 6; sched++ {
			failed := false
			fail := func(what, detail string) {
				if !failed {
					rep.Violate(h, tag, sched, what, fmt.Sprintf("T=%d schedule=%d childIsMap=%v parentIsMap=%v %s", T, sched, childIsMap, parentIsMap, detail))
				}
				failed = true
			}
			func() {
				defer func() {
					if p := recover(); p != nil {
						fail("C08: panic in implementation", fmt.Sprint(p))
					}
				}()
				base := NewLogBase()
				pst := newStorage(base)
				fst := &flakyStorage{PersistentSlabStorage: pst}
				var st atree.SlabStorage = fst // containers see the (possibly flaky) storage
				addr := mkAddr(1)
				var child atree.Value
				var childID atree.SlabID
				if childIsMap {
					m, err := atree.NewMap(st, addr, atree.NewDefaultDigesterBuilder(), testutils.NewSimpleTypeInfo(51))
					must(err)
					for i, v := range vals {
						_, err := m.Set(testutils.CompareValue, testutils.GetHashInput, testutils.Uint64Value(uint64(i)), testutils.Uint64Value(v))
						must(err)
					}
					child, childID = m, m.SlabID()
				} else {
					c, err := atree.NewArray(st, addr, testutils.NewSimpleTypeInfo(41))
					must(err)
					for _, v := range vals {
						must(c.Append(testutils.Uint64Value(v)))
					}
					child, childID = c, c.SlabID()
				}
				must(pst.FastCommit(2))
				switch sched {
				case 1:
					pst.DropCache()
					rep.Distinct(fmt.Sprintf("%s-%d", tag, sched))
				case 2:
					pst.DropCache()
					_, _, _ = pst.Retrieve(childID)
				case 3:
					pst.DropCache()
					var err error
					if childIsMap {
						child, err = atree.NewMapWithRootID(st, childID, atree.NewDefaultDigesterBuilder())
					} else {
						child, err = atree.NewArrayWithRootID(st, childID)
					}
					must(err)
					pst.DropCache()
					rep.Distinct(fmt.Sprintf("%s-%d", tag, sched))
				case 4, 5:
					fst.failRemove = true // the Remove issued while the child is inlined fails once
				}
				attached := true
				// observe: what must hold right after the failed attach, before the child is touched again
				observe := func(perr error) bool {
					rep.Event("attach_failed_once")
					if perr == nil {
						return true
					}
					var ee *atree.ExternalError
					if !asErr(perr, &ee) {
						rep.Event("failed_attach_error_not_external")
					}
					var roots []atree.Slab
					switch c := child.(type) {
					case *atree.Array:
						if c.Inlined() || c.Count() != uint64(len(vals)) || c.SlabID() != childID {
							fail("C18: a failed attach changed the stand-alone child", fmt.Sprintf("inlined=%v count=%d id=%s", c.Inlined(), c.Count(), c.SlabID()))
							return false
						}
						roots = append(roots, atree.VerifArrayRoot(c))
					case *atree.OrderedMap:
						if c.Inlined() || c.Count() != uint64(len(vals)) || c.SlabID() != childID {
							fail("C18: a failed attach changed the stand-alone child", fmt.Sprintf("inlined=%v count=%d id=%s", c.Inlined(), c.Count(), c.SlabID()))
							return false
						}
						roots = append(roots, atree.VerifMapRoot(c))
					}
					if what, detail := nfSizeCheckStorage(pst, roots); what != "" {
						fail(what, "after the failed attach ("+perr.Error()+"): "+detail)
						return false
					}
					return true
				}
				var parr *atree.Array
				var pmap *atree.OrderedMap
				var err error
				if parentIsMap {
					pmap, err = atree.NewMap(st, addr, atree.NewDefaultDigesterBuilder(), testutils.NewSimpleTypeInfo(50))
					must(err)
					_, err = pmap.Set(testutils.CompareValue, testutils.GetHashInput, testutils.Uint64Value(1), testutils.Uint64Value(5))
					must(err)
					_, err = pmap.Set(testutils.CompareValue, testutils.GetHashInput, testutils.Uint64Value(2), child)
					if err != nil && fst.fired {
						if !observe(err) {
							return
						}
						if pmap.Count() != 1 {
							fail("C18: a failed attach left a trace in the parent map", fmt.Sprintf("count %d", pmap.Count()))
							return
						}
						if sched == 4 {
							rep.Event("attach_failed_once_then_retried")
							_, err = pmap.Set(testutils.CompareValue, testutils.GetHashInput, testutils.Uint64Value(2), child)
						} else {
							attached, err = false, nil
						}
					}
					must(err)
					if err := atree.VerifyMap(pmap, addr, testutils.NewSimpleTypeInfo(50), testutils.CompareTypeInfo, testutils.GetHashInput, true); err != nil {
						fail("C06: after a transient storage fault the parent map's size bookkeeping is wrong", err.Error())
						return
					}
				} else {
					parr, err = atree.NewArray(st, addr, testutils.NewSimpleTypeInfo(40))
					must(err)
					must(parr.Append(testutils.Uint64Value(5)))
					err = parr.Append(child)
					if err != nil && fst.fired {
						if !observe(err) {
							return
						}
						if parr.Count() != 1 {
							fail("C18: a failed attach left a trace in the parent array", fmt.Sprintf("count %d", parr.Count()))
							return
						}
						if sched == 4 {
							rep.Event("attach_failed_once_then_retried")
							err = parr.Append(child)
						} else {
							attached, err = false, nil
						}
					}
					must(err)
					if err := atree.VerifyArray(parr, addr, testutils.NewSimpleTypeInfo(40), testutils.CompareTypeInfo, testutils.GetHashInput, true); err != nil {
						fail("C06: after a transient storage fault and a successful retry the parent's size bookkeeping is wrong", err.Error())
						return
					}
				}
				want := append([]uint64(nil), vals...)
				if mutate {
					if childIsMap {
						_, err = child.(*atree.OrderedMap).Set(testutils.CompareValue, testutils.GetHashInput, testutils.Uint64Value(uint64(len(vals))), testutils.Uint64Value(77))
					} else {
						err = child.(*atree.Array).Append(testutils.Uint64Value(77))
					}
					must(err)
					want = append(want, 77)
				}
				if !attached {
					// metering: what the storage reports for the uncommitted slabs is what gets written
					if what, detail := nfMeteredVsWritten(pst); what != "" {
						fail(what, detail)
						return
					}
				}
				must(pst.FastCommit(2))
				if sched < 5 && attached {
					ledgers = append(ledgers, base) // schedule 4: same final ledger as without the fault
				}
				// the ledger holds exactly what is reachable from the parent
				st2 := newStorage(base.Clone())
				for _, id := range base.SortedIDs() {
					if _, _, err := st2.Retrieve(id); err != nil {
						fail("C03: register cannot be loaded", err.Error())
					}
				}
				nRoots := 1
				if !attached {
					nRoots = 2
				}
				if _, err := atree.CheckStorageHealth(st2, nRoots); err != nil {
					fail("C09: after attaching a committed stand-alone container the ledger holds a slab that is not reachable from the parent (or a reference dangles)", err.Error())
					return
				}
				// content after reopen
				var cv atree.Value
				if !attached {
					var err error
					if childIsMap {
						cv, err = atree.NewMapWithRootID(st2, childID, atree.NewDefaultDigesterBuilder())
					} else {
						cv, err = atree.NewArrayWithRootID(st2, childID)
					}
					if err != nil {
						fail("C08: the child that stayed stand-alone after the failed attach cannot be reopened", err.Error())
						return
					}
				} else if parentIsMap {
					p2, err := atree.NewMapWithRootID(st2, pmap.SlabID(), atree.NewDefaultDigesterBuilder())
					if err != nil {
						fail("C03: parent cannot be reopened", err.Error())
						return
					}
					cv, err = p2.Get(testutils.CompareValue, testutils.GetHashInput, testutils.Uint64Value(2))
					if err != nil {
						fail("C08: child cannot be read through the reopened parent", err.Error())
						return
					}
				} else {
					p2, err := atree.NewArrayWithRootID(st2, parr.SlabID())
					if err != nil {
						fail("C03: parent cannot be reopened", err.Error())
						return
					}
					cv, err = p2.Get(1)
					if err != nil {
						fail("C08: child cannot be read through the reopened parent", err.Error())
						return
					}
				}
				var got []uint64
				switch c := cv.(type) {
				case *atree.Array:
					_ = c.IterateReadOnly(func(v atree.Value) (bool, error) {
						got = append(got, uint64(v.(testutils.Uint64Value)))
						return true, nil
					})
				case *atree.OrderedMap:
					for i := range want {
						v, err := c.Get(testutils.CompareValue, testutils.GetHashInput, testutils.Uint64Value(uint64(i)))
						if err != nil {
							fail("C08: entry of the attached child lost", err.Error())
							return
						}
						got = append(got, uint64(v.(testutils.Uint64Value)))
					}
				}
				if fmt.Sprint(got) != fmt.Sprint(want) {
					fail("C08: content of the attached child differs after reopen", fmt.Sprintf("got %v want %v", got, want))
				}
			}()
			rep.Steps++
			if failed {
				break
			}
		}
		for s := 1; s < len(ledgers); s++ {
			if d := SameRegisters(ledgers[0], ledgers[s]); d != "" {
				rep.Violate(h, tag, s, "C08: final registers differ between cache schedules of the same history", fmt.Sprintf("T=%d schedule 0 vs %d: %s", T, s, d))
				break
			}
		}
		rep.Histories++
		if h < 2 {
			rep.Sample(fmt.Sprintf("case %s: T=%d childIsMap=%v parentIsMap=%v elems=%d mutate=%v", tag, T, childIsMap, parentIsMap, nelem, mutate))
		}
	}
	rep.Write(a.Out + "/report.json")
}
