//go:build verif

// Package main is the Go side of the verification harness: it drives the real
// onflow/atree implementation (built from /repo with -tags verif), records what it
// did as integer-line traces for the Coq model, and runs model-independent oracles.
package main

import (
	"bufio"
	"encoding/binary"
	"encoding/json"
	"errors"
	"fmt"
	"os"
	"sort"
	"strconv"
	"strings"

	"github.com/fxamacker/cbor/v2"
	"github.com/onflow/atree"
	testutils "github.com/onflow/atree/test_utils"
)

// ---------- PRNG: every random choice derives from one splitmix64 stream ----------

type Rng struct{ s uint64 }

func NewRng(seed uint64) *Rng { return &Rng{s: seed*0x9E3779B97F4A7C15 + 0x1234567} }

func (r *Rng) U64() uint64 {
	r.s += 0x9E3779B97F4A7C15
	z := r.s
	z = (z ^ (z >> 30)) * 0xBF58476D1CE4E5B9
	z = (z ^ (z >> 27)) * 0x94D049BB133111EB
	return z ^ (z >> 31)
}
func (r *Rng) Intn(n int) int {
	if n <= 0 {
		return 0
	}
	return int(r.U64() % uint64(n))
}
func (r *Rng) Bool() bool         { return r.U64()&1 == 1 }
func (r *Rng) Chance(p int) bool  { return r.Intn(100) < p }
func (r *Rng) Fork(k uint64) *Rng { return NewRng(r.U64() ^ (k * 0xD6E8FEB86659FD93)) }
func (r *Rng) Pick(ws ...int) int { // weighted choice
	t := 0
	for _, w := range ws {
		t += w
	}
	x := r.Intn(t)
	for i, w := range ws {
		if x < w {
			return i
		}
		x -= w
	}
	return len(ws) - 1
}

// ---------- trace writer ----------

type Trace struct {
	w     *bufio.Writer
	f     *os.File
	Hists int
	Steps int
}

func NewTrace(path string) *Trace {
	f, err := os.Create(path)
	if err != nil {
		panic(err)
	}
	return &Trace{w: bufio.NewWriterSize(f, 1<<20), f: f}
}
func ints(xs []int64) string {
	var sb strings.Builder
	for i, x := range xs {
		if i > 0 {
			sb.WriteByte(' ')
		}
		sb.WriteString(strconv.FormatInt(x, 10))
	}
	return sb.String()
}
func uints(xs []uint64) string {
	var sb strings.Builder
	for i, x := range xs {
		if i > 0 {
			sb.WriteByte(' ')
		}
		sb.WriteString(strconv.FormatUint(x, 10))
	}
	return sb.String()
}
func (t *Trace) Hist(tag string, cfg ...uint64) {
	fmt.Fprintf(t.w, "H %s | %s\n", tag, uints(cfg))
	t.Hists++
}

// Step writes one operation with the implementation's observed answer.
func (t *Trace) Step(op []int64, obs []int64) {
	fmt.Fprintf(t.w, "O %s\nR %s\n", ints(op), ints(obs))
	t.Steps++
}

// StepU is Step for lines that contain values above 2^63.
func (t *Trace) StepU(op []uint64, opNeg map[int]bool, obs []uint64) {
	var sb strings.Builder
	for i, x := range op {
		if i > 0 {
			sb.WriteByte(' ')
		}
		if opNeg[i] {
			sb.WriteByte('-')
		}
		sb.WriteString(strconv.FormatUint(x, 10))
	}
	fmt.Fprintf(t.w, "O %s\nR %s\n", sb.String(), uints(obs))
	t.Steps++
}

// StepRaw writes a pre-formatted operation line (for values above 2^63) with an int64 answer.
func (t *Trace) StepRaw(op string, obs []int64) {
	fmt.Fprintf(t.w, "O %s\nR %s\n", op, ints(obs))
	t.Steps++
}
func (t *Trace) Comment(s string) { fmt.Fprintf(t.w, "# %s\n", s) }
func (t *Trace) Close()           { t.w.Flush(); t.f.Close() }

// ---------- report (oracle results + measured distribution) ----------

type Violation struct {
	Hist   int    `json:"hist"`
	Tag    string `json:"tag"`
	Step   int    `json:"step"`
	What   string `json:"what"`
	Detail string `json:"detail,omitempty"`
}

type Report struct {
	Property   string         `json:"property"`
	Seed       uint64         `json:"seed"`
	Histories  int            `json:"histories"`
	Steps      int            `json:"steps"`
	Nontrivial int            `json:"nontrivial"`
	Rule       string         `json:"rule"`
	Ops        map[string]int `json:"ops"`
	Errors     map[string]int `json:"errors"`
	Events     map[string]int `json:"events"`
	Samples    []string       `json:"samples"`
	Violations []Violation    `json:"violations"`
	distinct   map[string]bool
}

func NewReport(prop string, seed uint64) *Report {
	return &Report{Violations: []Violation{}, Samples: []string{}, Property: prop, Seed: seed, Ops: map[string]int{}, Errors: map[string]int{}, Events: map[string]int{}, distinct: map[string]bool{}}
}
func (r *Report) Op(name string)    { r.Ops[name]++ }
func (r *Report) Err(name string)   { r.Errors[name]++ }
func (r *Report) Event(name string) { r.Events[name]++ }
func (r *Report) EventN(name string, n int) {
	if n != 0 {
		r.Events[name] += n
	}
}
func (r *Report) Violate(hist int, tag string, step int, what, detail string) {
	if len(r.Violations) < 50 {
		r.Violations = append(r.Violations, Violation{hist, tag, step, what, detail})
	}
}

// Distinct counts a history as non-trivial once per distinct fingerprint.
func (r *Report) Distinct(fp string) {
	if !r.distinct[fp] {
		r.distinct[fp] = true
		r.Nontrivial++
	}
}
func (r *Report) Sample(s string) {
	if len(r.Samples) < 3 {
		if len(s) > 600 {
			s = s[:600] + "..."
		}
		r.Samples = append(r.Samples, s)
	}
}
func (r *Report) Write(path string) {
	b, _ := json.MarshalIndent(r, "", " ")
	if err := os.WriteFile(path, b, 0o644); err != nil {
		panic(err)
	}
}

// ---------- slab IDs ----------

func mkAddr(a uint64) atree.Address {
	var x atree.Address
	binary.BigEndian.PutUint64(x[:], a)
	return x
}
func mkID(a, i uint64) atree.SlabID {
	var idx atree.SlabIndex
	binary.BigEndian.PutUint64(idx[:], i)
	return atree.NewSlabID(mkAddr(a), idx)
}
func idPair(id atree.SlabID) (uint64, uint64) { return id.AddressAsUint64(), id.IndexAsUint64() }

func sortIDs(ids []atree.SlabID) {
	sort.Slice(ids, func(i, j int) bool { return ids[i].Compare(ids[j]) < 0 })
}

// ---------- logging, fault-injecting ledger ----------

type BaseCall struct {
	Kind byte // 'S' store, 'D' remove, 'R' retrieve
	ID   atree.SlabID
	Fail bool
}

type LogBase struct {
	Segs      map[atree.SlabID][]byte
	idx       map[atree.Address]atree.SlabIndex
	Log       []BaseCall
	FailWrite int // fail the k-th Store/Remove call from now (0-based); -1 = never
	nWrite    int
	FailRead  int // fail the k-th Retrieve call from now; -1 = never
	nRead     int
	LogReads  bool
	Jitter    func()
}

var errInjected = errors.New("injected ledger fault")

func NewLogBase() *LogBase {
	return &LogBase{Segs: map[atree.SlabID][]byte{}, idx: map[atree.Address]atree.SlabIndex{}, FailWrite: -1, FailRead: -1}
}

// NewLogBaseFrom builds a ledger over a copy of the given registers (a "fresh process").
func NewLogBaseFrom(segs map[atree.SlabID][]byte, idx map[atree.Address]atree.SlabIndex) *LogBase {
	b := NewLogBase()
	for k, v := range segs {
		cp := make([]byte, len(v))
		copy(cp, v)
		b.Segs[k] = cp
	}
	for k, v := range idx {
		b.idx[k] = v
	}
	return b
}
func (b *LogBase) Clone() *LogBase   { return NewLogBaseFrom(b.Segs, b.idx) }
func (b *LogBase) Arm(failWrite int) { b.FailWrite = failWrite; b.nWrite = 0 }
func (b *LogBase) ArmRead(k int)     { b.FailRead = k; b.nRead = 0 }
func (b *LogBase) ResetLog()         { b.Log = b.Log[:0] }
func (b *LogBase) Store(id atree.SlabID, data []byte) error {
	if b.Jitter != nil {
		b.Jitter()
	}
	fail := b.FailWrite >= 0 && b.nWrite == b.FailWrite
	b.nWrite++
	b.Log = append(b.Log, BaseCall{'S', id, fail})
	if fail {
		return errInjected
	}
	cp := make([]byte, len(data))
	copy(cp, data)
	b.Segs[id] = cp
	return nil
}
func (b *LogBase) Remove(id atree.SlabID) error {
	if b.Jitter != nil {
		b.Jitter()
	}
	fail := b.FailWrite >= 0 && b.nWrite == b.FailWrite
	b.nWrite++
	b.Log = append(b.Log, BaseCall{'D', id, fail})
	if fail {
		return errInjected
	}
	delete(b.Segs, id)
	return nil
}
func (b *LogBase) Retrieve(id atree.SlabID) ([]byte, bool, error) {
	if b.Jitter != nil {
		b.Jitter()
	}
	fail := b.FailRead >= 0 && b.nRead == b.FailRead
	b.nRead++
	if b.LogReads {
		b.Log = append(b.Log, BaseCall{'R', id, fail})
	}
	if fail {
		return nil, false, errInjected
	}
	d, ok := b.Segs[id]
	return d, ok, nil
}
func (b *LogBase) GenerateSlabID(a atree.Address) (atree.SlabID, error) {
	n := b.idx[a].Next()
	b.idx[a] = n
	return atree.NewSlabID(a, n), nil
}

// LastIndex is the last slab index handed out for the address.
func (b *LogBase) LastIndex(a atree.Address) uint64 {
	x := b.idx[a]
	return binary.BigEndian.Uint64(x[:])
}
func (b *LogBase) SegmentCounts() int { return len(b.Segs) }
func (b *LogBase) Size() int {
	t := 0
	for _, d := range b.Segs {
		t += len(d)
	}
	return t
}
func (b *LogBase) BytesRetrieved() int   { return 0 }
func (b *LogBase) BytesStored() int      { return 0 }
func (b *LogBase) SegmentsReturned() int { return 0 }
func (b *LogBase) SegmentsUpdated() int  { return 0 }
func (b *LogBase) SegmentsTouched() int  { return 0 }
func (b *LogBase) ResetReporter()        {}

// SortedIDs lists the register identifiers in ascending (owner, index) order.
func (b *LogBase) SortedIDs() []atree.SlabID {
	ids := make([]atree.SlabID, 0, len(b.Segs))
	for k := range b.Segs {
		ids = append(ids, k)
	}
	sortIDs(ids)
	return ids
}

// SameRegisters reports the first difference between two ledgers ("" if byte-identical).
func SameRegisters(a, b *LogBase) string {
	for _, id := range a.SortedIDs() {
		d, ok := b.Segs[id]
		if !ok {
			return fmt.Sprintf("register %s only in first", id)
		}
		if string(d) != string(a.Segs[id]) {
			return fmt.Sprintf("register %s differs: %x vs %x", id, a.Segs[id], d)
		}
	}
	for _, id := range b.SortedIDs() {
		if _, ok := a.Segs[id]; !ok {
			return fmt.Sprintf("register %s only in second", id)
		}
	}
	return ""
}

// ---------- storage construction ----------

var (
	encMode cbor.EncMode
	decMode cbor.DecMode
)

func init() {
	var err error
	encMode, err = cbor.EncOptions{}.EncMode()
	if err != nil {
		panic(err)
	}
	decMode, err = cbor.DecOptions{}.DecMode()
	if err != nil {
		panic(err)
	}
}

func newStorage(base atree.BaseStorage) *atree.PersistentSlabStorage {
	return atree.NewPersistentSlabStorage(base, encMode, decMode, testutils.DecodeStorable, testutils.DecodeTypeInfo)
}

func envSeed() uint64 {
	if s := os.Getenv("VERIF_SEED"); s != "" {
		if v, err := strconv.ParseUint(s, 10, 64); err == nil {
			return v
		}
	}
	return 1
}

func must(err error) {
	if err != nil {
		panic(err)
	}
}

func asErr(err error, target any) bool { return errors.As(err, target) }

func sortStrings(x []string) { sort.Strings(x) }
