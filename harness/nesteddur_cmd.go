//go:build verif

package main

// nesteddur_cmd.go — C03 / C09 for NESTED containers: the ledger after a commit against the register
// set and the content the forest model derives (coq/theories/NestedDurable.v, props/C03_nested.v,
// props/C09_nested.v).
//
// Random nested histories (World of workload.go: arrays / maps, children created inlined or stored,
// mutated through their own handles across the inline limit in both directions, removed / overwritten
// children kept alive as detached roots or disposed of by the caller, PopIterate / SetType through
// child handles, SomeValue wrappers) with a commit every few operations.  The model says
// (C09_nested_accounting / C09_nested_step / C03_nested_commit_durable):
//
//	registers(ledger after commit) restricted to container roots
//	   = {roots} ∪ {attached children that are not inlined} ∪ {detached containers not yet disposed};
//	an inlined container has no register; every register is referenced exactly once (roots and
//	detached containers: never); no reference dangles; a fresh storage over the ledger reloads
//	exactly the forest as of the commit — also after further uncommitted operations.
//
// After every commit, on a CLONE of the ledger opened by a brand-new storage (model-independent:
// only the registers are read):
//   O1  {register ids whose slab carries extra data (= is the root slab of a container)} ==
//       {root ids of the live containers of the shadow that are not inlined}          (C09 1)
//   O2  no register exists under the identifier of an inlined container               (C09 3)
//   O3  every SlabID found in any register (at any embedding depth) names a register  (C09 2)
//   O4  every register is referenced exactly once, top-level / detached roots never  (C09 4, 5)
//   O5  every top-level / detached root reloads deep-equal to the shadow              (C03)
//   O6  CheckStorageHealth of the fresh storage with #roots = #top-level + #detached
// Before the next commit (after the uncommitted operations in between):
//   O7  the ledger is byte-identical to the ledger as of the last commit, and a fresh storage over
//       it reloads the SNAPSHOT of the shadow taken at that commit                    (C03 last commit)
// Between consecutive commits the command counts, per container alive at both, the transitions
// inlined -> stored and stored -> inlined (events; C09_nested_step: register appears / disappears).

import (
	"fmt"
	"sort"

	"github.com/onflow/atree"
	testutils "github.com/onflow/atree/test_utils"
)

func testUint(v uint64) atree.Value { return testutils.Uint64Value(v) }

func init() { register("nesteddur", cmdNestedDur) }

// ---------- snapshots of the shadow ----------

func ndCloneSV(s SV) SV {
	switch x := s.(type) {
	case *svScalar:
		return x
	case *svSome:
		return &svSome{ndCloneSV(x.inner)}
	case *svArr:
		c := &svArr{ti: x.ti, vid: x.vid}
		for _, e := range x.elems {
			c.elems = append(c.elems, ndCloneSV(e))
		}
		return c
	case *svMap:
		c := &svMap{ti: x.ti, vid: x.vid, top: x.top, vals: map[string]SV{}}
		c.keys = append(c.keys, x.keys...)
		for k, v := range x.vals {
			c.vals[k] = ndCloneSV(v)
		}
		return c
	}
	return s
}

type ndCont struct {
	vid     atree.ValueID
	inlined bool
	id      atree.SlabID // register identifier (root slab id; for an inlined container: the identifier its register would have)
	depth   int
	isMap   bool
}

func ndVidToID(addr uint64, vid atree.ValueID) atree.SlabID {
	return mkID(addr, atree.VerifValueIDIndex(vid))
}

// ndContainers lists every live container of the shadow with its inlined flag read from its handle.
func ndContainers(w *World) []ndCont {
	var out []ndCont
	for _, c := range w.containers() {
		switch x := c.s.(type) {
		case *svArr:
			out = append(out, ndCont{x.vid, x.arr.Inlined(), ndVidToID(w.Opts.Addr, x.vid), c.depth, false})
		case *svMap:
			out = append(out, ndCont{x.vid, x.m.Inlined(), ndVidToID(w.Opts.Addr, x.vid), c.depth, true})
		}
	}
	return out
}

// ndRefs collects every SlabID that occurs in a storable, at any embedding depth.
func ndRefs(s atree.Storable, out *[]atree.SlabID, depth int) {
	if s == nil || depth > 64 {
		return
	}
	if id, ok := s.(atree.SlabIDStorable); ok {
		*out = append(*out, atree.SlabID(id))
		return
	}
	for _, c := range s.ChildStorables() {
		ndRefs(c, out, depth+1)
	}
}

type ndLedgerView struct {
	ids   []atree.SlabID
	roots map[atree.SlabID]bool // registers whose slab is the root slab of a container
	refs  map[atree.SlabID]int  // how often an identifier is referenced from the registers
	kinds map[atree.SlabID]int
}

// ndReadLedger decodes every register with a fresh storage and classifies it.
func ndReadLedger(base *LogBase) (*atree.PersistentSlabStorage, *ndLedgerView, error) {
	st := newStorage(base)
	v := &ndLedgerView{roots: map[atree.SlabID]bool{}, refs: map[atree.SlabID]int{}, kinds: map[atree.SlabID]int{}}
	v.ids = base.SortedIDs()
	for _, id := range v.ids {
		slab, ok, err := st.Retrieve(id)
		if err != nil || !ok {
			return st, v, fmt.Errorf("register %s cannot be decoded: %v", id, err)
		}
		k := atree.VerifSlabKind(slab)
		v.kinds[id] = k
		if k >= 1 && k <= 4 && atree.VerifSlabHasExtraData(slab) {
			v.roots[id] = true
		}
		var rs []atree.SlabID
		for _, c := range slab.ChildStorables() {
			ndRefs(c, &rs, 0)
		}
		for _, r := range rs {
			v.refs[r]++
		}
	}
	return st, v, nil
}

func ndIDs(m map[atree.SlabID]bool) string {
	var ids []atree.SlabID
	for id := range m {
		ids = append(ids, id)
	}
	sortIDs(ids)
	return fmt.Sprint(ids)
}

// ndReload opens every root of the snapshot in the given (fresh) storage and compares deeply.
func ndReload(w *World, st *atree.PersistentSlabStorage, snap []SV, ids []atree.SlabID, what string) {
	for i, s := range snap {
		switch x := s.(type) {
		case *svArr:
			a, err := atree.NewArrayWithRootID(st, ids[i])
			if err != nil {
				w.Fail("C03: "+what+": array root cannot be reloaded from the ledger", fmt.Sprintf("%s: %v", ids[i], err))
				continue
			}
			w.Compare(x, a, fmt.Sprintf("%s/root%d", what, i))
		case *svMap:
			dig := w.Opts.Digester
			if x.top {
				dig = w.Opts.RootDigester
			}
			m, err := atree.NewMapWithRootID(st, ids[i], dig())
			if err != nil {
				w.Fail("C03: "+what+": map root cannot be reloaded from the ledger", fmt.Sprintf("%s: %v", ids[i], err))
				continue
			}
			w.Compare(x, m, fmt.Sprintf("%s/root%d", what, i))
		}
	}
}

// ndPopContract is the directed scenario behind the third alternative of C09_nested_accounting (5) and
// the "popped" clause of C09_nested_step: parent P = [A], A a small (inlined) array holding a large
// (stored) array B.  PopIterate(P) hands A's inlined slab to the callback and does not touch B: if the
// callback ignores the element, B's registers stay in the ledger unreferenced (the API contract leaves
// their removal to the caller); if the callback disposes of what it receives, nothing remains.
// Recorded as events and a sample, never as a violation.
func ndPopContract(rep *Report) {
	for _, disposeInCallback := range []bool{false, true} {
		base := NewLogBase()
		w := NewWorld(base, NewRng(1), WorldOpts{Addr: 1, MaxDepth: 3}, rep)
		w.Fail = func(what, detail string) { rep.Event("popcontract_unexpected:" + what) }
		func() {
			defer func() {
				if r := recover(); r != nil {
					rep.Event("popcontract_panic")
				}
			}()
			p, err := atree.NewArray(w.St, w.Addr, w.ti(40))
			must(err)
			ch, err := atree.NewArray(w.St, w.Addr, w.ti(41))
			must(err)
			b, err := atree.NewArray(w.St, w.Addr, w.ti(42))
			must(err)
			for i := 0; i < 200; i++ {
				must(b.Append(testUint(uint64(1000 + i))))
			}
			must(ch.Append(b))
			must(p.Append(ch))
			if !ch.Inlined() || b.Inlined() {
				rep.Event("popcontract_setup_not_as_intended")
				return
			}
			must(w.St.FastCommit(1))
			before := len(base.Segs)
			must(p.PopIterate(func(s atree.Storable) {
				if disposeInCallback {
					w.dispose(s)
				}
			}))
			must(w.St.FastCommit(1))
			_, lv, err := ndReadLedger(base.Clone())
			must(err)
			unref := 0
			for _, id := range lv.ids {
				if id != p.SlabID() && lv.refs[id] == 0 {
					unref++
				}
			}
			if disposeInCallback {
				rep.EventN("popcontract_dispose_callback_unreferenced_registers", unref)
				rep.EventN("popcontract_dispose_callback_registers_left", len(base.Segs))
			} else {
				rep.EventN("popcontract_ignoring_callback_unreferenced_registers", unref)
				rep.EventN("popcontract_ignoring_callback_registers_left", len(base.Segs))
			}
			rep.Sample(fmt.Sprintf("popcontract disposeInCallback=%v: registers before pop %d, after pop+commit %d, unreferenced non-root registers %d",
				disposeInCallback, before, len(base.Segs), unref))
		}()
	}
}

func cmdNestedDur(a Args) {
	prop := a.Prop
	if prop == "" {
		prop = "C03"
	}
	rep := NewReport(prop, a.Seed)
	if a.Mode == "popcontract" {
		rep.Rule = "directed: PopIterate of a parent whose inlined child holds a stored grandchild, with a callback that ignores / disposes of the element"
		ndPopContract(rep)
		rep.Histories = 2
		rep.Write(a.Out + "/report.json")
		return
	}
	rep.Rule = "random nested histories (arrays/maps, depth<=4, SomeValue wrappers, children mutated through their own handles across the inline limit, detached containers kept or disposed, PopIterate/SetType through child handles) at slab sizes {256,300,512,1024}, commit every 3..12 ops; after every commit, reading only a clone of the ledger with a fresh storage: root registers == live containers that are not inlined (roots, stored children, detached), inlined containers have no register, every SlabID in any register resolves, every register referenced exactly once (roots never), deep reload of every root equals the shadow, CheckStorageHealth; before the next commit: ledger byte-identical to the last commit and reload equals the SNAPSHOT of that commit; non-trivial = a history in which some container's register appeared by uninlining and some register disappeared by inlining between commits"
	rng := NewRng(a.Seed)
	sizes := []uint32{256, 300, 512, 1024}
	defer atree.VerifSetThreshold(1024)
	for h := 0; h < a.N; h++ {
		hr := rng.Fork(uint64(h))
		tag := fmt.Sprintf("nd%d", h)
		if !want(tag) {
			continue
		}
		T := sizes[hr.Intn(len(sizes))]
		atree.VerifSetThreshold(T)
		base := NewLogBase()
		opts := WorldOpts{Addr: 1 + uint64(hr.Intn(2)), MaxDepth: 2 + hr.Intn(3), Wrap: hr.Chance(40), Maps: hr.Chance(75),
			Detach: hr.Chance(70), LargeVals: hr.Chance(25), PopChild: hr.Chance(60)}
		w := NewWorld(base, hr, opts, rep)
		step := 0
		failed := false
		w.Fail = func(what, detail string) {
			if !failed {
				rep.Violate(h, tag, step, what, fmt.Sprintf("T=%d %s", T, detail))
			}
			failed = true
		}
		var snap []SV              // shadow as of the last commit
		var snapIDs []atree.SlabID // root ids as of the last commit
		var snapLedger *LogBase    // ledger as of the last commit
		prevInl := map[atree.ValueID]bool{}
		sawUninline, sawInline := false, false
		commits := 0

		checkBeforeCommit := func() {
			if snapLedger == nil {
				return
			}
			if d := SameRegisters(snapLedger, base); d != "" {
				w.Fail("C03: uncommitted operations changed the ledger", d)
				return
			}
			if hr.Chance(50) {
				ndReload(w, newStorage(base.Clone()), snap, snapIDs, "last-commit")
				rep.Event("reload_after_uncommitted_ops")
			}
		}

		checkAfterCommit := func() {
			commits++
			led := base.Clone()
			st, lv, err := ndReadLedger(led)
			if err != nil {
				w.Fail("C03: a committed register cannot be decoded by a fresh storage", err.Error())
				return
			}
			conts := ndContainers(w)
			want := map[atree.SlabID]bool{}
			top := map[atree.SlabID]bool{}
			nInl, nStoredChild := 0, 0
			for _, c := range conts {
				if c.inlined {
					nInl++
					if _, ok := led.Segs[c.id]; ok {
						w.Fail("C09: an inlined container still has a register after commit", fmt.Sprintf("%s depth=%d", c.id, c.depth))
					}
					if c.depth == 0 {
						w.Fail("C09: a top-level or detached container is inlined", c.id.String())
					}
				} else {
					want[c.id] = true
					if c.depth == 0 {
						top[c.id] = true
					} else {
						nStoredChild++
					}
				}
				if was, ok := prevInl[c.vid]; ok && was != c.inlined {
					if c.inlined {
						rep.Event("register_removed_by_inlining")
						sawInline = true
					} else {
						rep.Event("register_added_by_uninlining")
						sawUninline = true
					}
				}
			}
			prevInl = map[atree.ValueID]bool{}
			for _, c := range conts {
				prevInl[c.vid] = c.inlined
			}
			rep.EventN("inlined_containers_at_commit", nInl)
			rep.EventN("stored_children_at_commit", nStoredChild)
			rep.EventN("top_or_detached_at_commit", len(top))
			// O1
			for id := range want {
				if !lv.roots[id] {
					w.Fail("C09: a live container that is not inlined has no root register after commit", fmt.Sprintf("%s; root registers %s", id, ndIDs(lv.roots)))
					return
				}
			}
			for id := range lv.roots {
				if !want[id] {
					w.Fail("C09: the ledger holds a container root that no live container owns (leak)", fmt.Sprintf("%s; expected %s", id, ndIDs(want)))
					return
				}
			}
			// O3, O4
			for id, n := range lv.refs {
				if _, ok := led.Segs[id]; !ok {
					w.Fail("C09: a committed register references a missing register (dangling)", id.String())
					return
				}
				if n > 1 {
					w.Fail("C09: a register is referenced more than once (owned twice)", fmt.Sprintf("%s x%d", id, n))
					return
				}
			}
			for _, id := range lv.ids {
				n := lv.refs[id]
				if top[id] {
					if n != 0 {
						w.Fail("C09: a top-level or detached root is referenced from a register", id.String())
						return
					}
				} else if n != 1 {
					w.Fail("C09: a register is neither a live root nor referenced from any register (leak)", fmt.Sprintf("%s kind=%d", id, lv.kinds[id]))
					return
				}
			}
			// O5
			snap, snapIDs = nil, nil
			for _, r := range w.Roots {
				snap = append(snap, ndCloneSV(r))
				snapIDs = append(snapIDs, rootID(r))
			}
			snapLedger = led
			ndReload(w, st, snap, snapIDs, "commit")
			// O6
			if _, err := atree.CheckStorageHealth(st, len(w.Roots)); err != nil {
				w.Fail("C09: CheckStorageHealth of a fresh storage over the committed ledger failed", err.Error())
			}
		}

		func() {
			defer func() {
				if r := recover(); r != nil {
					w.Fail("panic in implementation", fmt.Sprint(r))
				}
			}()
			if hr.Bool() || !opts.Maps {
				w.NewArrayRoot()
			} else {
				w.NewMapRoot()
			}
			next := 3 + hr.Intn(10)
			for step = 0; step < a.Steps && !failed; step++ {
				if hr.Chance(2) && len(w.Roots) < 4 {
					if hr.Bool() || !opts.Maps {
						w.NewArrayRoot()
					} else {
						w.NewMapRoot()
					}
					rep.Op("newroot")
				} else {
					w.Step()
				}
				if step%7 == 3 {
					w.VerifyAll(false)
				}
				next--
				if next == 0 && !failed {
					next = 3 + hr.Intn(10)
					checkBeforeCommit()
					if failed {
						break
					}
					w.Commit(1 + hr.Intn(4))
					rep.Op("commit")
					checkAfterCommit()
					if !failed && hr.Chance(25) {
						// continue from a brand-new storage object: every wrapper re-obtained top-down
						w.Reopen()
						rep.Op("reopen")
						w.VerifyAll(false)
					}
				}
			}
			if !failed {
				w.DisposeAll()
				w.Commit(1)
				if n := len(base.Segs); n != 0 {
					w.Fail("C09: registers remain after every container was emptied, removed and committed", fmt.Sprint(base.SortedIDs()))
				}
			}
		}()
		rep.Histories++
		rep.Steps += step
		if sawInline && sawUninline && commits > 0 {
			rep.Distinct(tag)
		}
		if h < 3 {
			ks := []string{}
			for k, v := range rep.Events {
				ks = append(ks, fmt.Sprintf("%s=%d", k, v))
			}
			sort.Strings(ks)
			rep.Sample(fmt.Sprintf("%s T=%d opts=%+v commits=%d events so far: %v", tag, T, struct {
				Depth                                   int
				Wrap, Maps, Detach, LargeVals, PopChild bool
			}{opts.MaxDepth, opts.Wrap, opts.Maps, opts.Detach, opts.LargeVals, opts.PopChild}, commits, ks))
		}
	}
	rep.Write(a.Out + "/report.json")
}
