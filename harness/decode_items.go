//go:build verif

package main

// decode_items.go — generators of decode_cmd.go (C19) that are not tied to one fixed field:
//
//   c19BuildForests   corpus: random forests of inlined arrays / maps / composite-typed (compact) maps, up to
//                     four levels deep, with shared type infos and shared compact-map descriptions, so that the
//                     registers carry an inlined-extra-data section with every kind of entry;
//   c19ItemEdits      CBOR-item-level edits of a valid register: replace an item by an item of another type
//                     (text -> tagged integer, integer -> bytes, array -> map, ...), change the major type of a
//                     head in place, wrap in a tag, change counts / lengths up and down TOGETHER with the
//                     payload, swap sibling items, cut the tail of an item;
//   c19FocusEdits     the complete (never thinned) item-level stream restricted to the root extra data and the
//                     inlined-extra-data section of a register;
//   c19HeaderSweep    fixed-layout headers of version-0 and version-1 metadata slabs: the child count set to
//                     0, 1, 2, n-1, n, n+1, 2n, 255, 256, 0x7fff, 0x8000, 0xffff, each with the payload left
//                     as it is, cut / extended to exactly that many headers, one byte short, one byte long, one
//                     header long, and removed; plus every fixed field of the child headers set to 0 / 1 / max;
//   c19SpineEdits     the same "count with and without payload" edits for the counted fields of data slabs
//                     (element array, digest byte string, element count);
//   c19Thin           deterministic thinning of a structured stream that keeps every mutation kind.

import (
	"bytes"
	"encoding/binary"
	"fmt"
	"sort"

	"github.com/onflow/atree"
	testutils "github.com/onflow/atree/test_utils"
)

// ---------------------------------------------------------------------------------------------
// corpus: forests of inlined containers
// ---------------------------------------------------------------------------------------------

type c19Forest struct {
	st     *atree.PersistentSlabStorage
	addr   atree.Address
	r      *Rng
	budget int
}

var c19FieldNames = []string{"a", "bb", "ccc", "name", "balance", "fieldnm1"}

func (g *c19Forest) leaf() atree.Value {
	r := g.r
	switch r.Pick(40, 10, 10, 10, 20, 10) {
	case 0:
		return testutils.Uint64Value(r.U64() >> uint(r.Intn(64)))
	case 1:
		return testutils.Uint8Value(r.Intn(256))
	case 2:
		return testutils.Uint16Value(r.Intn(65536))
	case 3:
		return testutils.Uint32Value(uint32(r.U64()))
	case 4:
		return testutils.NewStringValue(randStr(r, r.Intn(12)))
	default:
		return testutils.NewSomeValue(testutils.Uint64Value(uint64(r.Intn(1000))))
	}
}

func (g *c19Forest) value(depth int) atree.Value {
	if depth > 0 && g.budget > 0 && g.r.Chance(50) {
		v := g.container(depth - 1)
		if g.r.Chance(15) {
			return testutils.NewSomeValue(v)
		}
		return v
	}
	return g.leaf()
}

// container builds one container bottom-up (children are complete before they are inserted; only the
// creation wrapper of each container is ever used).
func (g *c19Forest) container(depth int) atree.Value {
	r := g.r
	n := r.Intn(5)
	if depth > 0 && n == 0 && r.Chance(70) {
		n = 1 + r.Intn(3)
	}
	switch r.Pick(30, 25, 45) {
	case 0:
		a, err := atree.NewArray(g.st, g.addr, testutils.NewSimpleTypeInfo(uint64(40+r.Intn(3))))
		must(err)
		for i := 0; i < n; i++ {
			g.budget--
			must(a.Append(g.value(depth)))
		}
		return a
	case 1:
		var db atree.DigesterBuilder = atree.NewDefaultDigesterBuilder()
		if r.Chance(30) {
			db = &c19DigesterBuilder{alpha: [4]uint64{2, 2, 0, 0}} // inlined collision groups
		}
		m, err := atree.NewMap(g.st, g.addr, db, testutils.NewSimpleTypeInfo(uint64(40+r.Intn(14))))
		must(err)
		for i := 0; i < n; i++ {
			g.budget--
			var k atree.Value = testutils.Uint64Value(uint64(r.Intn(50)))
			if r.Chance(30) {
				k = testutils.NewStringValue(randStr(r, 1+r.Intn(6)))
			}
			_, err := m.Set(testutils.CompareValue, testutils.GetHashInput, k, g.value(depth))
			must(err)
		}
		return m
	default:
		m, err := atree.NewMap(g.st, g.addr, atree.NewDefaultDigesterBuilder(), c19Composite{uint64(100 + r.Intn(3))})
		must(err)
		// a prefix or a random subset of the field names: equal sets share one compact-map description
		names := c19FieldNames[:min(n, len(c19FieldNames))]
		if r.Chance(30) {
			names = nil
			for _, f := range c19FieldNames {
				if r.Chance(45) {
					names = append(names, f)
				}
			}
		}
		for _, f := range names {
			g.budget--
			_, err := m.Set(testutils.CompareValue, testutils.GetHashInput, testutils.NewStringValue(f), g.value(depth))
			must(err)
		}
		return m
	}
}

func c19BuildForests(c *c19Corpus, rng *Rng, n int, seen map[string]bool) {
	for fi := 0; fi < n; fi++ {
		hr := rng.Fork(uint64(fi))
		func() {
			defer func() {
				if r := recover(); r != nil {
					c.events["corpus_forest_failed"]++
				}
			}()
			atree.VerifSetThreshold([]uint32{256, 512, 1024, 1024}[hr.Intn(4)])
			base := NewLogBase()
			st := atree.NewPersistentSlabStorage(base, encMode, decMode, decodeStorableSafe, c19DecodeTypeInfo)
			g := &c19Forest{st: st, addr: mkAddr(1 + uint64(hr.Intn(3))), r: hr, budget: 6 + hr.Intn(60)}
			depth := 1 + hr.Intn(4)
			// the root holds several children so that equal descriptions are shared
			var root atree.Value
			if hr.Bool() {
				a, err := atree.NewArray(st, g.addr, testutils.NewSimpleTypeInfo(41))
				must(err)
				for i := 2 + hr.Intn(8); i > 0; i-- {
					must(a.Append(g.value(depth)))
				}
				root = a
			} else {
				m, err := atree.NewMap(st, g.addr, atree.NewDefaultDigesterBuilder(), testutils.NewSimpleTypeInfo(42))
				must(err)
				for i := 2 + hr.Intn(8); i > 0; i-- {
					_, err := m.Set(testutils.CompareValue, testutils.GetHashInput, testutils.Uint64Value(uint64(i)), g.value(depth))
					must(err)
				}
				root = m
			}
			_ = root
			must(st.FastCommit(1))
			c.events["corpus_forests"]++
			c.addLedger(base.Segs, "v1inl", seen)
		}()
	}
}

// c19SectionKinds reports which entry kinds the inlined-extra-data section of a register carries
// (bit 0 array `d8 f7`, bit 1 map `d8 f8`, bit 2 compact map `d8 f9`), 0 if there is no section.
func c19SectionKinds(d []byte, lay c19Lay) int {
	k := 0
	for _, it := range lay.items {
		if it.off >= lay.extraEnd && it.off < lay.inlEnd && it.major == 6 {
			switch it.val {
			case 0xf7:
				k |= 1
			case 0xf8:
				k |= 2
			case 0xf9:
				k |= 4
			}
		}
	}
	return k
}

// c19SelectFocus picks the registers whose extra-data sections get the complete item-level stream:
// round-robin over (slab kind, entry kinds of the section), at most max.
func c19SelectFocus(regs []c19Reg, max int) []c19Reg {
	by := map[string][]c19Reg{}
	var keys []string
	for _, r := range regs {
		if len(r.data) < 2 || r.data[0]>>4 != 1 || r.data[0]&1 == 0 {
			continue
		}
		lay := c19Layout(r.data)
		if lay.inlEnd <= lay.extraEnd {
			continue
		}
		k := fmt.Sprintf("%s/%d", c19SlabKind(r.data), c19SectionKinds(r.data, lay))
		if _, ok := by[k]; !ok {
			keys = append(keys, k)
		}
		by[k] = append(by[k], r)
	}
	sort.Strings(keys)
	var out []c19Reg
	for round := 0; len(out) < max; round++ {
		added := false
		for _, k := range keys {
			if round < len(by[k]) && len(out) < max {
				out = append(out, by[k][round])
				added = true
			}
		}
		if !added {
			break
		}
	}
	return out
}

// ---------------------------------------------------------------------------------------------
// item-level edits
// ---------------------------------------------------------------------------------------------

// c19AltItems: complete CBOR items of every major type, among them every form the storable decoder and the
// type-info decoder of the harness accept (tagged integers, some, slab id, text, plain integer, composite tag).
var c19AltItems = [][]byte{
	{0xd8, c19TagUint64, 0x05},                   // tagged integer (a storable that is not comparable)
	{0xd8, c19TagUint8, 0x18, 0xff},              //
	{0xd8, c19TagSome, 0x61, 0x78},               // some("x")
	{0xd8, c19TagSome, 0xd8, c19TagUint64, 0x00}, // some(0)
	{0xd8, atree.CBORTagSlabID, 0x50, 1, 2, 3, 4, 5, 6, 7, 8, 0, 0, 0, 0, 0, 0, 0, 9}, // slab id storable
	{0xd8, c19TagComposite, 0x07}, // composite type info
	{0xd8, atree.CBORTagInlinedArray, 0x83, 0x00, 0x48, 0, 0, 0, 0, 0, 0, 0, 9, 0x99, 0x00, 0x00}, // inlined array
	{0xd8, atree.CBORTagInlinedCompactMap, 0x83, 0x00, 0x48, 0, 0, 0, 0, 0, 0, 0, 9, 0x99, 0x00, 0x00},
	{0xd8, 0xf6, 0x00},             // type info reference
	{0x61, 0x78},                   // text
	{0x60},                         // empty text
	{0x48, 0, 0, 0, 0, 0, 0, 0, 1}, // 8 bytes (slab index / one digest)
	{0x40},                         // empty bytes
	{0x05},                         // integer
	{0x1b, 0xff, 0xff, 0xff, 0xff, 0xff, 0xff, 0xff, 0xff},
	{0x20},                               // negative integer
	{0x80},                               // empty array
	{0x81, 0x00},                         // array
	{0x83, 0x00, 0x40, 0x80},             // [level, digests, elements]
	{0xa0},                               // empty map
	{0xa1, 0x00, 0x00},                   // map
	{0xf6},                               // null
	{0xf5},                               // true
	{0xfb, 0x3f, 0xf0, 0, 0, 0, 0, 0, 0}, // float
	{0xc2, 0x41, 0x01},                   // bignum
	{0x9f, 0xff},                         // indefinite-length array
	{0x7f, 0xff},                         // indefinite-length text
}

// c19Kids returns the indexes of the direct children of items[i] (items: pre-order, ascending offsets).
func c19Kids(items []c19Item, i int) []int {
	it := items[i]
	if it.major != 4 && it.major != 5 && it.major != 6 {
		return nil
	}
	var kids []int
	cur := it.off + it.hlen
	for j := i + 1; j < len(items) && items[j].off < it.end; j++ {
		if items[j].off == cur {
			kids = append(kids, j)
			cur = items[j].end
		}
	}
	return kids
}

// c19HeadLen encodes a CBOR head of the given length if the value fits (atree writes fixed-length heads
// `99 hi lo`, `9b ..8..`, `59 hi lo`, `5b ..8..` and some decoders read them as such), else the shortest head.
func c19HeadLen(major byte, v uint64, hlen int) []byte {
	m := major << 5
	switch {
	case hlen == 1 && v < 24:
		return []byte{m | byte(v)}
	case hlen == 2 && v <= 0xff:
		return []byte{m | 24, byte(v)}
	case hlen == 3 && v <= 0xffff:
		return []byte{m | 25, byte(v >> 8), byte(v)}
	case hlen == 5 && v <= 0xffffffff:
		return []byte{m | 26, byte(v >> 24), byte(v >> 16), byte(v >> 8), byte(v)}
	case hlen == 9:
		b := []byte{m | 27, 0, 0, 0, 0, 0, 0, 0, 0}
		binary.BigEndian.PutUint64(b[1:], v)
		return b
	}
	return c19Uint(major, v)
}

func c19Cat(parts ...[]byte) []byte {
	n := 0
	for _, p := range parts {
		n += len(p)
	}
	out := make([]byte, 0, n)
	for _, p := range parts {
		out = append(out, p...)
	}
	return out
}

// c19ItemEdits lists the item-level edits of the items selected by sel (index into items).
func c19ItemEdits(d []byte, items []c19Item, lo, hi int, add func(kind string, b []byte)) {
	c19ItemEditsSel(d, items, func(i int) bool { return items[i].off >= lo && items[i].off < hi }, add)
}

func c19ItemEditsSel(d []byte, items []c19Item, sel func(i int) bool, add func(kind string, b []byte)) {
	for i, it := range items {
		if !sel(i) || it.end <= it.off || it.end > len(d) {
			continue
		}
		whole := d[it.off:it.end]
		pre, post := d[:it.off], d[it.end:]

		// (1) another item in its place: every major type, every form the callbacks decode
		for _, alt := range c19AltItems {
			if !bytes.Equal(whole, alt) {
				add("retype", c19Cat(pre, alt, post))
			}
		}
		// (2) the same head and payload under another major type
		for m := byte(0); m < 8; m++ {
			if m != it.major {
				b := c19Clone(d)
				b[it.off] = m<<5 | b[it.off]&31
				add("majortype", b)
			}
		}
		// (3) wrapped in a tag the storable decoder knows
		add("wrap", c19Cat(pre, []byte{0xd8, c19TagSome}, whole, post))
		add("wrap", c19Cat(pre, []byte{0xd8, c19TagUint64}, whole, post))

		// (4) counts and lengths, up and down, with the payload following the count or not
		switch it.major {
		case 4, 5:
			kids := c19Kids(items, i)
			per := 1
			if it.major == 5 {
				per = 2
			}
			n := it.val
			if uint64(len(kids)) == n*uint64(per) && n > 0 {
				body0 := items[kids[0]].off
				lastStart := items[kids[len(kids)-per]].off
				firstEnd := items[kids[per-1]].end
				head := func(v uint64) []byte { return c19HeadLen(it.major, v, it.hlen) }
				// count and payload together
				add("count+body", c19Cat(pre, head(n-1), d[body0:lastStart], post))                   // last element gone
				add("count+body", c19Cat(pre, head(n-1), d[firstEnd:it.end], post))                   // first element gone
				add("count+body", c19Cat(pre, head(n+1), d[body0:it.end], d[lastStart:it.end], post)) // last element twice
				add("count+body", c19Cat(pre, head(0), post))                                         // empty
				if n >= 2 {
					add("count+body", c19Cat(pre, head(1), d[body0:firstEnd], post)) // only the first element
				}
				// payload alone
				add("body-count", c19Cat(pre, d[it.off:lastStart], post))
				add("body-count", c19Cat(pre, d[it.off:it.end], d[lastStart:it.end], post))
				add("body-count", c19Cat(pre, d[it.off:body0], post))
				// count alone at the limits of the head (0 and 1 are in "arrayhead")
				for _, v := range []uint64{2, 23, 24, 255, 256, 0xfffe, 0x10000, 1<<32 - 1, 1 << 32} {
					if v != n {
						add("count-body", c19Cat(pre, head(v), d[body0:it.end], post))
					}
				}
			}
		case 2, 3:
			n := int(it.val)
			p0 := it.off + it.hlen
			if p0+n == it.end {
				head := func(v int) []byte { return c19HeadLen(it.major, uint64(v), it.hlen) }
				if n > 0 {
					add("len+body", c19Cat(pre, head(n-1), d[p0:it.end-1], post))
					add("len+body", c19Cat(pre, head(0), post))
					add("body-len", c19Cat(pre, d[it.off:it.end-1], post))
				}
				add("len+body", c19Cat(pre, head(n+1), d[p0:it.end], []byte{0x61}, post))
				add("body-len", c19Cat(pre, d[it.off:it.end], []byte{0x61}, post))
				if it.major == 2 && n >= 16 && n%8 == 0 { // digests: keep one / drop the first
					add("len+body", c19Cat(pre, head(8), d[p0:p0+8], post))
					add("len+body", c19Cat(pre, head(n-8), d[p0+8:it.end], post))
				}
			}
		}

		// (5) sibling items swapped
		if kids := c19Kids(items, i); len(kids) >= 2 {
			swap := func(x, y int) {
				a, b := items[kids[x]], items[kids[y]]
				if bytes.Equal(d[a.off:a.end], d[b.off:b.end]) {
					return
				}
				add("swap", c19Cat(d[:a.off], d[b.off:b.end], d[a.end:b.off], d[a.off:a.end], d[b.end:]))
			}
			for x := 0; x+1 < len(kids); x++ {
				if x < 4 || x+1 >= len(kids)-3 {
					swap(x, x+1)
				}
			}
			if len(kids) >= 3 {
				swap(0, len(kids)-1)
			}
		}

		// (6) the tail of the item cut off, the rest of the register kept / dropped
		if it.end-it.off >= 2 {
			add("itemcut", c19Cat(d[:it.end-1], post))
			half := it.off + (it.end-it.off+1)/2
			if half < it.end-1 {
				add("itemcut", c19Cat(d[:half], post))
			}
			if it.hlen > 1 {
				add("itemcut", c19Cat(d[:it.off+1], post)) // head byte without its argument
			}
			if len(d) > 600 { // shorter registers get every prefix anyway
				add("trunc", c19Clone(d[:it.end-1]))
				add("trunc", c19Clone(d[:it.off+it.hlen]))
			}
		}
	}
}

// c19FocusEdits: complete item-level stream on the root extra data and the inlined-extra-data section.
func c19FocusEdits(reg c19Reg) []c19Input {
	d := reg.data
	var out []c19Input
	add := func(kind string, b []byte) { out = append(out, c19Input{kind, b}) }
	lay := c19Layout(d)
	var sec []c19Item
	for _, it := range lay.items {
		if it.off >= 2 && it.off < lay.inlEnd {
			sec = append(sec, it)
		}
	}
	c19CBORFieldEdits(d, sec, add)
	c19ItemEdits(d, lay.items, 2, lay.inlEnd, add)
	// the section cut at every byte, with and without the rest of the register
	for n := 2; n < lay.inlEnd && n < len(d); n++ {
		add("trunc", c19Clone(d[:n]))
		add("seccut", c19Cat(d[:n], d[lay.inlEnd:]))
	}
	return out
}

// c19SpineEdits: counted fields of a data slab (the element array of an array data slab; level, digests and
// element array of a map data slab or collision group) with the complete item-level stream.
func c19SpineEdits(reg c19Reg) []c19Input {
	d := reg.data
	var out []c19Input
	add := func(kind string, b []byte) { out = append(out, c19Input{kind, b}) }
	lay := c19Layout(d)
	spine := map[int]bool{}
	for i, it := range lay.items {
		if it.off == lay.contentOff {
			spine[i] = true
			if len(c19Kids(lay.items, i)) <= 3 { // [level, digests, elements]
				for _, k := range c19Kids(lay.items, i) {
					spine[k] = true
				}
			}
		}
	}
	var sp []c19Item
	for i, it := range lay.items {
		if spine[i] {
			sp = append(sp, it)
		}
	}
	c19CBORFieldEdits(d, sp, add)
	c19ItemEditsSel(d, lay.items, func(i int) bool { return spine[i] }, add)
	return out
}

// c19SelectByKind returns at most per registers of every slab kind accepted by keep.
func c19SelectByKind(regs []c19Reg, per int, keep func(r c19Reg, kind string) bool) []c19Reg {
	cnt := map[string]int{}
	var out []c19Reg
	for _, r := range regs {
		k := r.src + "/" + c19SlabKind(r.data)
		if !keep(r, k) || cnt[k] >= per {
			continue
		}
		cnt[k]++
		out = append(out, r)
	}
	return out
}

// ---------------------------------------------------------------------------------------------
// fixed-layout headers of metadata slabs
// ---------------------------------------------------------------------------------------------

// c19HeaderSweep lists the edits of the child count and of the fixed child-header fields of one valid
// metadata register.  big: also build the registers with 0x7fff / 0x8000 / 0xffff complete headers.
func c19HeaderSweep(reg c19Reg, big bool) []c19Input {
	d := reg.data
	var out []c19Input
	add := func(kind string, b []byte) { out = append(out, c19Input{kind, b}) }
	lay := c19Layout(d)
	if lay.countOff < 0 || lay.countOff+2 > len(d) || lay.hdrSize == 0 || lay.contentOff > len(d) {
		return nil
	}
	hs := lay.hdrSize
	n := int(binary.BigEndian.Uint16(d[lay.countOff:]))
	hdrs := d[lay.contentOff:]
	// payload of exactly v headers: the first v existing ones, then copies of them (zero headers if none)
	exact := func(v int) []byte {
		b := make([]byte, 0, v*hs)
		for i := 0; i < v; i++ {
			if len(hdrs) >= hs {
				j := (i % (len(hdrs) / hs)) * hs
				b = append(b, hdrs[j:j+hs]...)
			} else {
				b = append(b, make([]byte, hs)...)
			}
		}
		return b
	}
	with := func(v int, payload []byte) []byte {
		b := c19Cat(d[:lay.countOff], []byte{byte(v >> 8), byte(v)}, payload)
		return b
	}
	for _, v := range []int{0, 1, 2, n - 1, n, n + 1, 2 * n, 255, 256, 0x7fff, 0x8000, 0xffff} {
		if v < 0 || v > 0xffff {
			continue
		}
		if v != n {
			add("hdrcount", with(v, hdrs)) // payload as it is
		}
		add("hdrcount", with(v, nil)) // no payload
		if v > 1024 && !big {
			continue
		}
		e := exact(v)
		add("hdrcount+body", with(v, e))
		if len(e) > 0 {
			add("hdrcount+body", with(v, e[:len(e)-1]))
			add("hdrcount+body", with(v, e[:len(e)-hs]))
			add("hdrcount+body", with(v, e[:len(e)-hs+1]))
		}
		add("hdrcount+body", with(v, append(c19Clone(e), 0x00)))
		add("hdrcount+body", with(v, append(c19Clone(e), exact(1)...)))
	}
	// fixed fields of the child headers (first, second, last) set to 0 / 1 / max, as a whole and one by one
	idLen := 16
	if d[0]>>4 == 1 {
		idLen = 8
	}
	for _, h := range []int{0, 1, n - 1} {
		o := lay.contentOff + h*hs
		if h < 0 || h >= n || o+hs > len(d) {
			continue
		}
		fields := [][2]int{{0, idLen}, {idLen, hs - idLen}}
		switch hs - idLen {
		case 6: // v1 array: count 4, size 2
			fields = append(fields, [2]int{idLen, 4}, [2]int{idLen + 4, 2})
		case 10: // v1 map: first key 8, size 2
			fields = append(fields, [2]int{idLen, 8}, [2]int{idLen + 8, 2})
		case 8: // v0 array: count 4, size 4
			fields = append(fields, [2]int{idLen, 4}, [2]int{idLen + 4, 4})
		case 12: // v0 map: first key 8, size 4
			fields = append(fields, [2]int{idLen, 8}, [2]int{idLen + 8, 4})
		}
		for _, f := range fields {
			for _, fill := range []byte{0x00, 0xff, 0x01} {
				b := c19Clone(d)
				for x := 0; x < f[1]; x++ {
					b[o+f[0]+x] = fill
					if fill == 0x01 && x < f[1]-1 {
						b[o+f[0]+x] = 0
					}
				}
				if !bytes.Equal(b, d) {
					add("hdrfield", b)
				}
			}
		}
	}
	// version 1: the address shared by the children (8 bytes before the count)
	if d[0]>>4 == 1 && lay.countOff >= 8 {
		for _, fill := range []byte{0x00, 0xff} {
			b := c19Clone(d)
			for x := 0; x < 8; x++ {
				b[lay.countOff-8+x] = fill
			}
			add("hdrfield", b)
		}
		add("hdrfield", c19Replace(d, lay.countOff-8, 8, nil))
		add("hdrfield", c19Replace(d, lay.countOff-8, 2, nil))
	}
	return out
}

// ---------------------------------------------------------------------------------------------
// thinning
// ---------------------------------------------------------------------------------------------

// c19Thin keeps at most limit inputs: every mutation kind keeps a share (at least limit/(2*kinds)), the
// positions inside a kind are evenly spaced and shifted by phase (so that different registers keep
// different positions).  Order is preserved; deterministic.
func c19Thin(ss []c19Input, limit int, phase int) []c19Input {
	if len(ss) <= limit || limit <= 0 {
		return ss
	}
	count := map[string]int{}
	var kinds []string
	for _, in := range ss {
		if count[in.kind] == 0 {
			kinds = append(kinds, in.kind)
		}
		count[in.kind]++
	}
	floor := limit / (2 * len(kinds))
	if floor < 1 {
		floor = 1
	}
	// fixed part, then the rest in proportion to what is left of each kind
	quota := map[string]int{}
	left, pool := limit, 0
	for _, k := range kinds {
		q := min(count[k], floor)
		quota[k] = q
		left -= q
		pool += count[k] - q
	}
	if left > 0 && pool > 0 {
		for _, k := range kinds {
			quota[k] += (count[k] - quota[k]) * left / pool
		}
	}
	seen := map[string]int{}
	out := make([]c19Input, 0, limit)
	for _, in := range ss {
		c, q := count[in.kind], quota[in.kind]
		j := seen[in.kind]
		seen[in.kind]++
		if q >= c {
			out = append(out, in)
			continue
		}
		// keep position j iff floor((j+ph)*q/c) changes between j-1 and j
		ph := phase % c
		if (j+ph+1)*q/c != (j+ph)*q/c {
			out = append(out, in)
		}
	}
	return out
}
