//go:build verif

package main

// array_sizes.go — `array -mode sizes`: the same lock-step histories as array_cmd.go (same trace
// format, same engine `array`), but generated for the situations the phase-driven histories do
// not reach:
//
//   * slab sizes from the WHOLE legal range: uniform in [256,2000], sizes at which an index slab
//     overflows at an EVEN number of children (array: 12+14n, map: 12+18n), the family 283+36k,
//     the classic ones and their neighbours, and a few large ones (two levels only);
//   * trees of three and four levels obtained cheaply (elements next to the inline limit: two or
//     three per data slab);
//   * RUNS of removals/insertions at one position taken from the current slab tree (first/last
//     element of an index slab or of a data slab, the ends of the array): the first/last child of
//     an index slab shrinks until it merges/borrows, then the index slab itself, at every level;
//     growth at one point until data slabs and index slabs (root and non-root) split;
//   * EXACT element sizes computed from the current tree so that a data slab lands exactly on
//     min-1 / min / max / max+1, or underflows by exactly the size of the neighbour's boundary
//     element (the equalities of the lend/borrow/split comparisons);
//   * commits at a per-history density and reopen-from-ledger checks right after operations that
//     merged, rebalanced or split slabs (the slabs that were clean before such an operation must
//     reach the ledger too).
//
// Model-independent oracles (in addition to the ones of array_cmd.go, which run unchanged):
//   C06  every slab stored by an operation reports exactly the number of bytes it is encoded to
//        (+16 for the omitted empty sibling link, - extra data), and decodes to the same size;
//   C05  the array reopened from the ledger bytes passes VerifyArray and has the same slab tree
//        (every cached field) as the live one;
//   C03  its content (positional and along the sibling links) equals the plain sequence.

import (
	"encoding/binary"
	"fmt"
	"strconv"
	"strings"

	"github.com/onflow/atree"
	testutils "github.com/onflow/atree/test_utils"
)

type arraySizes struct {
	forced     *aval
	set        [6]uint32 // target, min, max, inline array element, inline map element, inline map key
	profile    int       // 0 fat, 1 half, 2 mixed, 3 small integers
	durq       int       // chance (percent) of a commit after a mutation
	reopenP    int       // chance (percent) of a reopen-from-ledger check after a structural operation
	structural bool      // the last mutation split, merged or rebalanced slabs (write log: a removal, a new slab, or more slabs than one root-to-leaf path)
	curH       int       // height of the tree at the last look
	lastAlloc  uint64
	ops        int
	budget     int
	nCommit    int
	nReopen    int
	nExact     int
	nExactHit  int
	sinceCheck int
	idxSplit   bool // an index slab was split (seen in the tree skeleton)
	evenSplit  bool
	idxMerge   bool
	lastIndex  int
	nStruct    int
	minc, maxc int // child counts of a non-root index slab inside the size band
	nPair      int
	nPairDone  int
	needGrow   bool
}

func (t *asTree) find(id atree.SlabID) *asNode {
	for _, x := range t.index {
		if x.id == id {
			return x
		}
	}
	for _, x := range t.leaves {
		if x.id == id {
			return x
		}
	}
	return nil
}

// bandCheck: every slab (as recorded in its parent's child header) is inside the size band, a
// root index slab has two children.
func (r *arrayRun) bandCheck(t *asTree) string {
	minT, maxT := r.sz.set[1], r.sz.set[2]
	all := append(append([]*asNode{}, t.index...), t.leaves...)
	for _, x := range all {
		if x.size > maxT {
			return fmt.Sprintf("slab %s of %d bytes is larger than the maximum %d", x.id, x.size, maxT)
		}
		if x.parent != nil && x.size < minT {
			return fmt.Sprintf("non-root slab %s of %d bytes is smaller than the minimum %d", x.id, x.size, minT)
		}
		if x.parent == nil && !x.leaf && len(x.kids) < 2 {
			return fmt.Sprintf("root index slab %s has %d children", x.id, len(x.kids))
		}
	}
	return ""
}

// ---------- slab sizes ----------

func sizesMax(T uint32) uint32 { return uint32(float64(T) * 1.5) }

// number of children at which an index slab overflows (size > 1.5 T)
func sizesArrayOverflowCount(T uint32) int { return int((sizesMax(T)-12)/14) + 1 }
func sizesMapOverflowCount(T uint32) int   { return int((sizesMax(T)-12)/18) + 1 }

// sizesPickT draws a slab size: every residue class that matters for the index-slab arithmetic.
// maxTall bounds the sizes for which three levels are affordable.
func sizesPickT(rng *Rng, forMap bool) uint32 {
	w := []int{24, 20, 16, 24, 10, 6}
	if forMap {
		w = []int{20, 16, 28, 22, 8, 6}
	}
	switch rng.Pick(w...) {
	case 0:
		return 256 + uint32(rng.Intn(2000-256+1))
	case 1: // an index slab of this container kind overflows at an even number of children
		for {
			T := 256 + uint32(rng.Intn(1100))
			n := sizesArrayOverflowCount(T)
			if forMap {
				n = sizesMapOverflowCount(T)
			}
			if n%2 == 0 {
				return T
			}
		}
	case 2: // 283+36k: map index slabs whose minimum and maximum child counts leave no slack
		return 283 + 36*uint32(rng.Intn(18))
	case 3:
		return []uint32{256, 257, 258, 283, 300, 319, 340, 355, 511, 512, 513, 1000, 1023, 1024, 1025}[rng.Intn(15)]
	case 4: // the other kind's even family (arrays and maps share the setting in a process)
		for {
			T := 256 + uint32(rng.Intn(1100))
			n := sizesMapOverflowCount(T)
			if forMap {
				n = sizesArrayOverflowCount(T)
			}
			if n%2 == 0 {
				return T
			}
		}
	default:
		return []uint32{1536, 2047, 2048, 3000, 4096, 8191, 16384, 32767, 32768}[rng.Intn(9)]
	}
}

// ---------- elements of a chosen encoded size ----------

// sized returns an element whose storable is exactly `total` bytes when that is possible
// (text strings cannot be 25 or 258 bytes; then one byte less), never above the inline limit.
func (r *arrayRun) sized(total int) aval {
	inl := int(r.sz.set[3])
	if total > inl {
		total = inl
	}
	if total < 1 {
		total = 1
	}
	r.nextID++
	id := r.nextID
	ds := strconv.FormatInt(id, 10)
	mkUint := func(w int) aval {
		var n uint64
		switch {
		case w >= 9:
			n = 1<<32 + uint64(id)
		case w >= 5:
			n = 65536 + uint64(id)
		case w >= 3:
			n = 256 + uint64(id%65280)
		case w == 2:
			n = 24 + uint64(id%232)
		default:
			n = uint64(id % 24)
		}
		v := testutils.Uint64Value(n)
		return aval{id: int64(n), v: v, sz: int64(v.ByteSize())}
	}
	l := total - 1
	if total > 24 {
		l = total - 2
	}
	if total > 257 {
		l = total - 3
	}
	if total == 25 {
		l = 23
	}
	if total == 258 {
		l = 255
	}
	if l < len(ds) || ((total == 1 || total == 2 || total == 3 || total == 5 || total == 9) && r.rng.Chance(40)) {
		return mkUint(total)
	}
	v := testutils.NewStringValue(ds + strings.Repeat("x", l-len(ds)))
	return aval{id: -id, v: v, sz: int64(v.ByteSize())}
}

// external returns an element stored outside the slab (a reference of fixed size remains).
func (r *arrayRun) external() aval {
	inl := int(r.sz.set[3])
	r.nextID++
	id := r.nextID
	ds := strconv.FormatInt(id, 10)
	v := testutils.NewStringValue(ds + strings.Repeat("y", inl+1+r.rng.Intn(40)))
	return aval{id: -id, v: v, sz: int64(atree.SlabIDStorable{}.ByteSize()), ext: true}
}

// profSize draws an element size from the history's profile.
func (r *arrayRun) profSize() int {
	rng := r.rng
	inl := int(r.sz.set[3])
	switch r.sz.profile {
	case 0: // fat: two or three elements per data slab
		switch rng.Pick(70, 12, 10, 8) {
		case 0:
			return inl - rng.Intn(min(inl/8, 12)+1)
		case 1:
			return inl/2 + rng.Intn(inl/2+1)
		case 2:
			return 1 + rng.Intn(24)
		default:
			return inl/3 - 3 + rng.Intn(7)
		}
	case 1: // around half and a quarter of the inline limit
		switch rng.Pick(50, 30, 20) {
		case 0:
			return inl/2 - 4 + rng.Intn(9)
		case 1:
			return inl/4 - 2 + rng.Intn(5)
		default:
			return 1 + rng.Intn(inl)
		}
	case 2:
		return 1 + rng.Intn(inl)
	default:
		return []int{1, 2, 3, 5, 9, 9, 9}[rng.Intn(7)]
	}
}

func (r *arrayRun) profVal() aval {
	if r.sz.profile != 3 && r.rng.Intn(100) < 3 {
		return r.external()
	}
	return r.sized(r.profSize())
}

// ---------- the slab tree as seen through the hooks (headers only) ----------

type asNode struct {
	id     atree.SlabID
	size   uint32
	count  uint32
	start  uint64 // position of the first element below this slab
	depth  int
	leaf   bool
	kids   []*asNode
	parent *asNode
	pos    int
}

type asTree struct {
	root   *asNode
	height int
	index  []*asNode
	leaves []*asNode
}

func (r *arrayRun) skeleton() *asTree {
	t := &asTree{}
	rootSlab := atree.VerifArrayRoot(r.arr)
	h := atree.VerifArrayRootHeader(r.arr)
	t.root = &asNode{id: rootSlab.SlabID(), size: uint32(h[1]), count: uint32(h[2])}
	var rec func(n *asNode, slab atree.Slab)
	rec = func(n *asNode, slab atree.Slab) {
		if n.depth+1 > t.height {
			t.height = n.depth + 1
		}
		kind, _, children, _ := atree.VerifMetaHeaders(slab)
		if kind != 2 {
			n.leaf = true
			t.leaves = append(t.leaves, n)
			return
		}
		t.index = append(t.index, n)
		start := n.start
		var first atree.Slab
		leafKids := false
		for i, c := range children {
			k := &asNode{id: c.ID, size: c.Size, count: c.Count, start: start, depth: n.depth + 1, parent: n, pos: i}
			start += uint64(c.Count)
			n.kids = append(n.kids, k)
			if i == 0 {
				s, ok, err := r.st.Retrieve(c.ID)
				if err != nil || !ok {
					panic(fmt.Sprintf("skeleton: child slab %s cannot be retrieved: %v", c.ID, err))
				}
				first = s
				kk, _, _, _ := atree.VerifMetaHeaders(s)
				leafKids = kk != 2
			}
		}
		for i, k := range n.kids {
			if leafKids {
				k.leaf = true
				t.leaves = append(t.leaves, k)
				if k.depth+1 > t.height {
					t.height = k.depth + 1
				}
				continue
			}
			s := first
			if i > 0 {
				var ok bool
				var err error
				s, ok, err = r.st.Retrieve(k.id)
				if err != nil || !ok {
					panic(fmt.Sprintf("skeleton: child slab %s cannot be retrieved: %v", k.id, err))
				}
			}
			rec(k, s)
		}
	}
	rec(t.root, rootSlab)
	r.sz.curH = t.height
	return t
}

// elemSizes returns the stored sizes of the elements of a data slab.
func (r *arrayRun) elemSizes(n *asNode) []int {
	var slab atree.Slab
	if n.parent == nil {
		slab = atree.VerifArrayRoot(r.arr)
	} else {
		s, ok, err := r.st.Retrieve(n.id)
		if err != nil || !ok {
			return nil
		}
		slab = s
	}
	cs := slab.ChildStorables()
	out := make([]int, len(cs))
	for i, c := range cs {
		out[i] = int(c.ByteSize())
	}
	return out
}

// ---------- oracles ----------

func sidOf(addr atree.Address, idx int64) atree.SlabID {
	var x atree.SlabIndex
	binary.BigEndian.PutUint64(x[:], uint64(idx))
	return atree.NewSlabID(addr, x)
}

// c06Slab: the slab reports exactly the bytes it is encoded to; the decoded slab reports the same
func (r *arrayRun) c06Slab(slab atree.Slab, where string) {
	if what, detail := c06Check(slab); what != "" {
		r.viol(what, where+": "+detail)
	}
}

// sizesLogHook runs on the write log of a mutation (before it is cleared): every slab the
// operation stored is checked for C06; the operation is classified.
func (r *arrayRun) sizesLogHook(stores, removes int) {
	alloc := r.base.LastIndex(r.addr)
	r.sz.structural = removes > 0 || alloc != r.sz.lastAlloc
	r.sz.lastAlloc = alloc
	if r.failed {
		return
	}
	seen := map[int64]bool{}
	defer func() {
		if len(seen) > max(r.sz.curH, 1) {
			r.sz.structural = true
		}
	}()
	for k := 0; k+1 < len(r.rec.Log); k += 2 {
		if r.rec.Log[k] != 1 || seen[r.rec.Log[k+1]] {
			continue
		}
		seen[r.rec.Log[k+1]] = true
		id := sidOf(r.addr, r.rec.Log[k+1])
		slab, ok, err := r.st.Retrieve(id)
		if err != nil || !ok || slab == nil {
			continue // stored and removed by the same operation
		}
		r.c06Slab(slab, "stored by the operation")
	}
}

func (r *arrayRun) sizesWantDump() int64 {
	n := len(r.shadow)
	every := 256
	switch {
	case n <= 48:
		return 1
	case n <= 200:
		every = 16
	case n <= 1000:
		every = 64
	}
	if r.step%every == 0 {
		return 1
	}
	return 0
}

func (r *arrayRun) elemInfoIn(st *atree.PersistentSlabStorage) func(atree.Storable) (int64, uint64) {
	return func(s atree.Storable) (int64, uint64) {
		if sid, ok := s.(atree.SlabIDStorable); ok {
			id := atree.SlabID(sid)
			slab, ok, err := st.Retrieve(id)
			if err != nil || !ok {
				return 0, id.IndexAsUint64()
			}
			cs := slab.ChildStorables()
			if len(cs) == 1 {
				if sv, ok := cs[0].(testutils.StringValue); ok {
					return strID(sv), id.IndexAsUint64()
				}
			}
			return 0, id.IndexAsUint64()
		}
		return r.elemInfo(s)
	}
}

func (r *arrayRun) sizesCommit() bool {
	r.sz.nCommit++
	var err error
	if r.rng.Bool() {
		err = r.st.NondeterministicFastCommit(1 + r.rng.Intn(4))
	} else {
		err = r.st.FastCommit(1 + r.rng.Intn(4))
	}
	if err != nil {
		r.viol("C03: commit failed", err.Error())
		return false
	}
	r.rep.Event("commit")
	return true
}

// sizesReopen: commit, then a brand-new storage over a copy of the ledger: the array read back
// from the bytes is well formed, has the same slab tree and the same content.
func (r *arrayRun) sizesReopen() {
	if r.failed || !r.sizesCommit() {
		return
	}
	r.sz.nReopen++
	r.rep.Event("reopen_from_ledger")
	st2 := newStorage(r.base.Clone())
	a2, err := atree.NewArrayWithRootID(st2, r.arr.SlabID())
	if err != nil {
		r.viol("C01: array cannot be reopened by its root identifier", err.Error())
		return
	}
	if a2.Count() != uint64(len(r.shadow)) {
		r.viol("C03: reopened array has a different count", fmt.Sprintf("%d vs %d", a2.Count(), len(r.shadow)))
		return
	}
	if err := atree.VerifyArray(a2, r.addr, testutils.NewSimpleTypeInfo(r.ti), testutils.CompareTypeInfo, testutils.GetHashInput, true); err != nil {
		r.viol("C05: VerifyArray failed on the array reopened from the ledger (index data does not agree with the committed slabs)", err.Error())
		return
	}
	d1, e1 := atree.VerifArrayDump(r.arr, r.elemInfo)
	d2, e2 := atree.VerifArrayDump(a2, r.elemInfoIn(st2))
	if e1 != nil || e2 != nil {
		r.viol("C05: slab tree cannot be walked (missing child slab)", fmt.Sprint(e1, e2))
		return
	}
	same := len(d1) == len(d2)
	for k := 0; same && k < len(d1); k++ {
		same = d1[k] == d2[k]
	}
	if !same {
		r.viol("C05: the array reopened from the ledger has a different slab tree than the live one (some slab changed by an operation did not reach the ledger)", fmt.Sprintf("dump lengths %d vs %d", len(d1), len(d2)))
		return
	}
	els, err := atree.VerifArrayStorables(a2)
	if err != nil {
		r.viol("C13: traversal along sibling links failed on the reopened array", err.Error())
		return
	}
	if len(els) != len(r.shadow) {
		r.viol("C03: sequential traversal of the reopened array yields a different number of elements", fmt.Sprintf("%d vs %d", len(els), len(r.shadow)))
		return
	}
	info := r.elemInfoIn(st2)
	for j, s := range els {
		if id, _ := info(s); id != r.shadow[j].id {
			r.viol("C03: reopened array content differs", fmt.Sprintf("pos %d", j))
			return
		}
	}
	for t := 0; t < 8 && len(r.shadow) > 0; t++ {
		i := uint64(r.rng.Intn(len(r.shadow)))
		s, err := atree.VerifArrayGetStorable(a2, i)
		if err != nil {
			r.viol("C03: positional access fails on the reopened array", err.Error())
			return
		}
		if id, _ := info(s); id != r.shadow[i].id {
			r.viol("C03: positional access on the reopened array differs from the plain sequence", fmt.Sprintf("pos %d", i))
			return
		}
	}
	// C06: a slab decoded from its register reports the same size as the slab that produced it
	for id := range dumpSlabIDs(d1) {
		sid := sidOf(r.addr, id)
		m, ok1, err1 := r.st.Retrieve(sid)
		d, ok2, err2 := st2.Retrieve(sid)
		if err1 != nil || err2 != nil || !ok1 || !ok2 {
			r.viol("C03: a slab of the tree is missing after commit", fmt.Sprintf("%s: %v %v", sid, err1, err2))
			return
		}
		if m.ByteSize() != d.ByteSize() {
			r.viol("C06: slab decoded from its register reports a different size than the in-memory slab", fmt.Sprintf("%s: %d vs %d", sid, d.ByteSize(), m.ByteSize()))
			return
		}
	}
}

// ---------- operations ----------

func (r *arrayRun) szAfter() {
	z := r.sz
	z.ops++
	z.sinceCheck++
	if r.failed {
		return
	}
	if z.sinceCheck >= 24 || len(r.shadow) < 40 {
		z.sinceCheck = 0
		r.verify()
	}
	if z.structural && !r.failed {
		// right after a split, merge or rebalance: the size band of every slab as recorded in the
		// index (cheap), and the structural verifier when the index level changed or every 6th time
		t := r.skeleton()
		if bad := r.bandCheck(t); bad != "" {
			r.viol("C05: a slab left its size band right after a split, merge or rebalance", bad)
			return
		}
		z.nStruct++
		if z.sinceCheck != 0 && (len(t.index) != z.lastIndex || z.nStruct%6 == 0) {
			if err := atree.VerifyArray(r.arr, r.addr, testutils.NewSimpleTypeInfo(r.ti), testutils.CompareTypeInfo, testutils.GetHashInput, true); err != nil {
				r.viol("C05: VerifyArray failed", err.Error())
				return
			}
		}
		r.noteIndexShape(t)
	}
	if r.failed {
		return
	}
	if z.structural && r.rng.Intn(100) < z.reopenP {
		r.sizesReopen()
		return
	}
	if r.rng.Intn(100) < z.durq {
		if r.rng.Chance(12) {
			r.sizesReopen()
		} else {
			r.sizesCommit()
		}
	}
}

// noteIndexShape records index-level splits and merges (number of index slabs changed).
func (r *arrayRun) noteIndexShape(t *asTree) {
	z := r.sz
	n := len(t.index)
	if z.lastIndex != 0 {
		if n > z.lastIndex {
			z.idxSplit = true
			r.rep.Event("ops_splitting_an_index_slab")
		} else if n < z.lastIndex {
			z.idxMerge = true
			r.rep.Event("ops_merging_index_slabs_or_dropping_a_level")
		}
	}
	z.lastIndex = n
	if t.height > r.maxH {
		r.maxH = t.height
	}
}

func (r *arrayRun) szInsert(i uint64, v aval) {
	r.sz.forced = &v
	if i >= uint64(len(r.shadow)) {
		r.doMut(4, 0)
	} else {
		r.doMut(3, i)
	}
	r.szAfter()
}

func (r *arrayRun) szSet(i uint64, v aval) {
	r.sz.forced = &v
	r.doMut(2, i)
	r.szAfter()
}

func (r *arrayRun) szRemove(i uint64) {
	r.doMut(5, i)
	r.szAfter()
}

// boundary picks a position from the current slab tree.
func (r *arrayRun) boundary(t *asTree) (uint64, string) {
	rng := r.rng
	n := uint64(len(r.shadow))
	if n == 0 {
		return 0, "empty"
	}
	clamp := func(p uint64) uint64 {
		if p >= n {
			return n - 1
		}
		return p
	}
	var inner []*asNode // non-root index slabs
	for _, x := range t.index {
		if x.parent != nil {
			inner = append(inner, x)
		}
	}
	switch rng.Pick(36, 34, 10, 10, 10) {
	case 0:
		if len(inner) > 0 {
			x := inner[rng.Intn(len(inner))]
			if rng.Bool() {
				return clamp(x.start), "first element of a non-root index slab"
			}
			return clamp(x.start + uint64(x.count) - 1), "last element of a non-root index slab"
		}
		fallthrough
	case 1:
		x := t.leaves[rng.Intn(len(t.leaves))]
		if rng.Bool() {
			return clamp(x.start), "first element of a data slab"
		}
		if x.count == 0 {
			return clamp(x.start), "first element of a data slab"
		}
		return clamp(x.start + uint64(x.count) - 1), "last element of a data slab"
	case 2:
		return 0, "front"
	case 3:
		return n - 1, "back"
	default:
		return uint64(rng.Intn(int(n))), "uniform"
	}
}

func (r *arrayRun) runLen(t *asTree) int {
	rng := r.rng
	switch rng.Pick(25, 40, 35) {
	case 0:
		return 2 + rng.Intn(8)
	case 1:
		return 10 + rng.Intn(50)
	default: // about the content of one index slab (or of the whole tree when it has two levels)
		c := len(r.shadow)
		if len(t.index) > 1 {
			c = int(t.index[1+rng.Intn(len(t.index)-1)].count)
		}
		return c/3 + rng.Intn(c+1)
	}
}

func (r *arrayRun) left() int { return r.sz.budget - r.sz.ops }

// removeRun removes L elements at one place: at a fixed position (the elements to the right move
// in: the slabs to the right are consumed) or walking to the left.
func (r *arrayRun) removeRun(p uint64, L int, leftwards bool) {
	r.rep.Event("run_remove")
	for k := 0; k < L && len(r.shadow) > 0 && !r.failed && r.left() > 0; k++ {
		n := uint64(len(r.shadow))
		if p >= n {
			p = n - 1
		}
		r.szRemove(p)
		if leftwards {
			if p == 0 {
				break
			}
			p--
		}
	}
}

// insertRun inserts L elements at one place (at a fixed position or walking to the right).
func (r *arrayRun) insertRun(p uint64, L int, walk bool) {
	r.rep.Event("run_insert")
	for k := 0; k < L && !r.failed && r.left() > 0; k++ {
		n := uint64(len(r.shadow))
		if p > n {
			p = n
		}
		r.szInsert(p, r.profVal())
		if walk {
			p++
		}
	}
}

// exactRound drives one data slab to an exact size where the comparisons of split, underflow,
// lend and borrow change their answer.
func (r *arrayRun) exactRound() {
	rng := r.rng
	z := r.sz
	z.nExact++
	t := r.skeleton()
	if len(t.leaves) < 2 {
		return
	}
	d := t.leaves[rng.Intn(len(t.leaves))]
	if rng.Chance(50) && d.parent != nil { // prefer the first/last child: only one sibling to rebalance with
		if rng.Bool() {
			d = d.parent.kids[0]
		} else {
			d = d.parent.kids[len(d.parent.kids)-1]
		}
	}
	id := d.id
	minT, maxT, inl := int(z.set[1]), int(z.set[2]), int(z.set[3])
	// the boundary elements of the siblings under the same parent
	lastLeft, firstRight := 0, 0
	if d.pos > 0 {
		if es := r.elemSizes(d.parent.kids[d.pos-1]); len(es) > 0 {
			lastLeft = es[len(es)-1]
		}
	}
	if d.pos+1 < len(d.parent.kids) {
		if es := r.elemSizes(d.parent.kids[d.pos+1]); len(es) > 0 {
			firstRight = es[0]
		}
	}
	var targets []int
	add := func(x int, w int) {
		for ; w > 0; w-- {
			targets = append(targets, x)
		}
	}
	add(minT-1, 2)
	add(minT, 2)
	add(maxT, 2)
	add(maxT+1, 2)
	add(int(z.set[0]), 1)
	if lastLeft > 0 {
		add(minT-lastLeft, 4)
		add(minT-lastLeft-1, 1)
		add(minT-lastLeft+1, 1)
	}
	if firstRight > 0 {
		add(minT-firstRight, 4)
		add(minT-firstRight-1, 1)
		add(minT-firstRight+1, 1)
	}
	target := targets[rng.Intn(len(targets))]
	prefix := 26 // non-root data slab prefix
	if target < prefix+2 {
		target = minT - 1
	}
	r.rep.Event("exact_round")
	for try := 0; try < 6 && !r.failed && r.left() > 0; try++ {
		// find the slab again (its position may have moved)
		t = r.skeleton()
		var cur *asNode
		for _, x := range t.leaves {
			if x.id == id {
				cur = x
				break
			}
		}
		if cur == nil || cur.parent == nil || cur.count == 0 {
			return
		}
		es := r.elemSizes(cur)
		if len(es) != int(cur.count) {
			return
		}
		size := int(cur.size)
		if size == target {
			return
		}
		j := rng.Intn(len(es))
		pos := cur.start + uint64(j)
		e := es[j] + target - size // size of the replacement that lands exactly on the target
		feasible := e >= 1 && e <= inl && e != 4 && e != 25 && e != 258 && (e >= 7 || e == 1 || e == 2 || e == 3 || e == 5)
		switch {
		case feasible:
			z.nExactHit++
			r.rep.Event("exact_set")
			r.szSet(pos, r.sized(e))
			return
		case target > size:
			need := target - size
			if need > inl {
				need = inl - rng.Intn(4)
			}
			if need == 4 || need == 25 || need == 258 || need == 6 {
				need--
			}
			if need <= inl && need == target-size {
				z.nExactHit++
				r.rep.Event("exact_insert")
			}
			r.szInsert(pos, r.sized(need))
			if r.sz.structural {
				return
			}
		default:
			if es[j] == size-target {
				z.nExactHit++
				r.rep.Event("exact_remove")
			}
			r.szRemove(pos)
			if r.sz.structural {
				return
			}
		}
	}
}

// pairRound: two neighbouring non-root index slabs (I,J) whose children are data slabs; J is
// brought to a chosen number of children c, then I is shrunk element by element from its outer
// end until it underflows and the index level has to merge or rebalance.
func (r *arrayRun) pairRound() bool {
	rng := r.rng
	z := r.sz
	t := r.skeleton()
	var cand []*asNode
	for _, x := range t.index {
		// three or more siblings: a merge below the root does not end in a promotion
		if x.parent != nil && len(x.parent.kids) >= 3 && len(x.kids) > 0 && x.kids[0].leaf {
			cand = append(cand, x)
		}
	}
	if len(cand) == 0 {
		z.needGrow = true
		return false
	}
	z.nPair++
	r.rep.Event("pair_round")
	I := cand[rng.Intn(len(cand))]
	switch rng.Pick(50, 30, 20) {
	case 0:
		I = I.parent.kids[0]
	case 1:
		I = I.parent.kids[len(I.parent.kids)-1]
	}
	var J *asNode
	fromBack := false // I is consumed from its last element backwards
	switch {
	case I.pos == 0:
		J = I.parent.kids[1]
	case I.pos == len(I.parent.kids)-1:
		J = I.parent.kids[I.pos-1]
		fromBack = true
	default:
		if rng.Bool() {
			J = I.parent.kids[I.pos+1]
		} else {
			J = I.parent.kids[I.pos-1]
			fromBack = true
		}
	}
	if rng.Chance(25) {
		fromBack = !fromBack
	}
	fit := z.maxc + 1 - (z.minc - 1) // smallest count with which a merge with an underflowing slab no longer fits
	var c int
	switch rng.Pick(14, 14, 30, 10, 10, 8, 14) {
	case 0:
		c = z.minc
	case 1:
		c = z.minc + 1
	case 2:
		c = fit
	case 3:
		c = fit - 1
	case 4:
		c = fit + 1
	case 5:
		c = z.maxc
	default:
		c = z.minc + rng.Intn(z.maxc-z.minc+1)
	}
	c = max(z.minc, min(c, z.maxc))
	idI, idJ := I.id, J.id
	for tries := 0; tries < 80 && !r.failed && r.left() > 0; tries++ {
		t = r.skeleton()
		J = t.find(idJ)
		if J == nil || J.leaf || J.parent == nil || t.find(idI) == nil {
			return false
		}
		if len(J.kids) == c {
			break
		}
		if len(J.kids) < c {
			p := J.start + uint64(rng.Intn(int(J.count)+1))
			r.insertRun(p, 1+rng.Intn(3), true)
		} else {
			kid := J.kids[rng.Intn(len(J.kids))]
			r.removeRun(kid.start+uint64(rng.Intn(int(kid.count))), 1+rng.Intn(2), false)
		}
	}
	t = r.skeleton()
	I, J = t.find(idI), t.find(idJ)
	if I == nil || J == nil || I.leaf || J.leaf || len(J.kids) != c || I.parent == nil || J.parent != I.parent {
		return false
	}
	r.rep.Event(fmt.Sprintf("pair_round_neighbour_ready(c-fit=%+d)", max(min(c-fit, 2), -2)))
	nI := len(I.kids)
	for k := int(I.count); k > 0 && !r.failed && r.left() > 0; k-- {
		p := I.start
		if fromBack {
			p = I.start + uint64(I.count) - 1
		}
		r.szRemove(p)
		t = r.skeleton()
		I2, J2 := t.find(idI), t.find(idJ)
		if I2 == nil || J2 == nil || len(J2.kids) != c || I2.leaf || len(I2.kids) > nI || I2.count == 0 {
			z.nPairDone++
			r.rep.Event("pair_round_index_level_reacted")
			return true
		}
		I, nI = I2, len(I2.kids)
	}
	return false
}

func (r *arrayRun) churn(k int) {
	rng := r.rng
	for ; k > 0 && !r.failed && r.left() > 0; k-- {
		n := uint64(len(r.shadow))
		switch rng.Pick(30, 25, 25, 8, 4, 4, 4) {
		case 0:
			r.szInsert(uint64(rng.Intn(int(n)+1)), r.profVal())
		case 1:
			if n > 0 {
				r.szRemove(uint64(rng.Intn(int(n))))
			}
		case 2:
			if n > 0 {
				r.szSet(uint64(rng.Intn(int(n))), r.profVal())
			}
		case 3:
			if n > 0 {
				r.doGet(uint64(rng.Intn(int(n))))
			}
		case 4:
			if n <= 600 {
				r.doIterate()
			}
		case 5:
			if n > 0 {
				x, y := uint64(rng.Intn(int(n))), uint64(rng.Intn(int(n)+1))
				if x > y {
					x, y = y, x
				}
				if y-x > 200 {
					y = x + 200
				}
				r.doRange(x, y)
			}
		default: // rejected requests
			bad := []uint64{n, n + 1, 1 << 32, 1 << 63, ^uint64(0)}
			i := bad[rng.Intn(len(bad))]
			switch rng.Intn(3) {
			case 0:
				r.doGet(i)
			case 1:
				r.doMut(2, i)
			default:
				r.doMut(5, i)
			}
		}
	}
}

// ---------- one history ----------

func (r *arrayRun) sizesHistory(steps int) {
	rng := r.rng
	z := r.sz
	T := r.T
	z.budget = steps
	over := sizesArrayOverflowCount(T)
	for n := 1; n < 4000; n++ {
		s := uint32(12 + 14*n)
		if z.minc == 0 && s >= z.set[1] {
			z.minc = n
		}
		if s <= z.set[2] {
			z.maxc = n
		}
	}
	// height to reach: three levels while affordable, sometimes four at the small sizes
	wantH := 2
	if T <= 2000 {
		wantH = 3
	}
	if T <= 400 && z.profile == 0 && rng.Chance(30) {
		wantH = 4
		z.budget = steps * 2
	}
	perSlab := 3
	switch z.profile {
	case 1:
		perSlab = 6
	case 2:
		perSlab = 5
	case 3:
		perSlab = int(T) / 12
	}
	capN := over * perSlab * 3
	if wantH == 4 {
		capN = over * over * perSlab
	}
	if wantH == 2 {
		capN = 60 * perSlab
	}
	// 1. growth: runs at the ends, at uniform positions and at slab boundaries
	for !r.failed && z.ops < z.budget*3/5 && len(r.shadow) < capN {
		t := r.skeleton()
		if t.height >= wantH && len(t.index) >= 3 {
			break
		}
		n := uint64(len(r.shadow))
		L := 8 + rng.Intn(40)
		switch rng.Pick(40, 15, 20, 25) {
		case 0:
			r.insertRun(n, L, true)
		case 1:
			r.insertRun(0, L, false)
		case 2:
			r.insertRun(uint64(rng.Intn(int(n)+1)), L, rng.Bool())
		default:
			p, _ := r.boundary(t)
			r.insertRun(p, L, rng.Bool())
		}
	}
	// 2. directed rounds
	for !r.failed && r.left() > 0 {
		t := r.skeleton()
		n := len(r.shadow)
		wIns, wRem, wPair := 30, 30, 0
		if t.height >= 3 {
			wPair = 14
			if len(t.root.kids) >= 4 {
				z.needGrow = false
			}
		}
		if t.height < wantH || n < capN/4 || (z.needGrow && n < capN) {
			wIns, wRem = 45, 12
		} else if n > capN {
			wIns, wRem = 15, 50
		}
		switch rng.Pick(wIns, wRem, 22, 8, 3, 3, wPair) {
		case 0:
			p, _ := r.boundary(t)
			if rng.Chance(30) {
				p++ // after the last element of a slab
			}
			r.insertRun(p, min(r.runLen(t), 120), rng.Bool())
		case 1:
			p, _ := r.boundary(t)
			r.removeRun(p, r.runLen(t), rng.Bool())
		case 2:
			r.exactRound()
		case 3:
			r.churn(4 + rng.Intn(12))
		case 4:
			r.sizesCommit()
			z.ops++
		case 5:
			r.sizesReopen()
			z.ops++
		default:
			if !r.pairRound() {
				r.churn(3)
			}
		}
	}
	if r.failed {
		return
	}
	// 3. shrink to (almost) nothing by runs at the ends and at boundaries, half of the histories
	if rng.Bool() {
		z.budget = z.ops + 3*len(r.shadow) + 10
		for len(r.shadow) > 0 && !r.failed && r.left() > 0 {
			t := r.skeleton()
			p, _ := r.boundary(t)
			switch rng.Pick(30, 30, 40) {
			case 0:
				p = 0
			case 1:
				p = uint64(len(r.shadow) - 1)
			}
			r.removeRun(p, r.runLen(t)+5, rng.Bool())
		}
	}
}

func cmdArraySizes(a Args) {
	rep := NewReport(a.Prop, a.Seed)
	rep.Rule = "array histories for the slab-size arithmetic (same trace and oracles as the default mode): slab size per history from uniform [256,2000] / sizes where an array or map index slab overflows at an EVEN child count / 283+36k / {256,257,258,283,300,319,340,355,511..513,1000,1023..1025} / large {1536..32768}; element profile fat (next to the inline limit: 2-3 per data slab, three levels from about 100 elements, four levels at T<=400), half, mixed, small integers; " +
		"growth until three (four) levels, then rounds: RUN of insertions or removals at one position taken from the live slab tree (first/last element of a non-root index slab or of a data slab, front, back, uniform; fixed position or walking), length 2..content of an index slab; PAIR round on neighbouring non-root index slabs (I,J): J brought to c children (c = min, min+1, the smallest count with which a merge with an underflowing neighbour no longer fits, +-1, max, uniform), then I (first/last child in 80%) consumed from its outer end until the index level merges or rebalances; EXACT round: Set/Insert/Remove with the element size computed from the live tree so that a data slab lands on min-1, min, max, max+1, the target size, or underflows by exactly (+-1) the size of the neighbour's boundary element; churn incl. rejected requests; commits at a per-history density (0/2/8/25%), reopen-from-ledger checks after 0/2/6/20% of the operations that split, merged or rebalanced slabs; " +
		"oracles per operation: plain Go slice, every stored slab reports exactly its encoded length and decodes to the same size (C06), size band of every slab after every structural operation, VerifyArray when the index level changed and after every 6th structural operation, VerifyArray/health/reachable=live every 24 operations, reopened array: VerifyArray, identical slab-tree dump, content along the sibling links and by position, decoded sizes. non-trivial = history that split an index slab and merged index slabs (distinct by T, profile, height)"
	tr := NewTrace(a.Out + "/trace.txt")
	rng := NewRng(a.Seed)
	defer atree.VerifSetThreshold(1024)
	for h := 0; h < a.N; h++ {
		hr := rng.Fork(uint64(h) + 1_000_003)
		tag := fmt.Sprintf("z%d", h)
		if !want(tag) {
			continue
		}
		T := sizesPickT(hr, false)
		z := &arraySizes{}
		z.set = atree.VerifSetThreshold(T)
		z.profile = hr.Pick(62, 14, 16, 8)
		if T > 800 {
			z.profile = hr.Pick(85, 5, 10, 0)
		}
		z.durq = []int{0, 2, 8, 25}[hr.Pick(15, 30, 30, 25)]
		z.reopenP = []int{0, 2, 6, 20}[hr.Pick(10, 30, 35, 25)]
		base := NewLogBase()
		st := newStorage(base)
		rec := &RecStorage{In: st}
		addr := mkAddr(1 + uint64(hr.Intn(3)))
		ti := uint64(40 + hr.Intn(3))
		arr, err := atree.NewArray(rec, addr, testutils.NewSimpleTypeInfo(ti))
		must(err)
		r := &arrayRun{rep: rep, tr: tr, hist: h, tag: tag, T: T, rng: hr, base: base, st: st, rec: rec, addr: addr, arr: arr, ti: ti, sz: z}
		rec.Log = rec.Log[:0]
		tr.Hist(tag, uint64(T), arr.SlabID().IndexAsUint64(), ti)
		steps := a.Steps/2 + hr.Intn(a.Steps)
		if T > 2000 {
			steps /= 3 // two levels only: elements of several kilobytes
		}
		func() {
			defer func() {
				if p := recover(); p != nil {
					r.viol("panic in implementation", fmt.Sprint(p))
				}
			}()
			r.sizesHistory(steps)
			if !r.failed {
				if len(r.shadow) <= 3000 {
					r.doIterate()
				}
				r.sizesReopen()
				r.doPop()
				r.verify()
			}
		}()
		rep.Event(fmt.Sprintf("max_height_%d", r.maxH))
		rep.Event(fmt.Sprintf("profile_%d", z.profile))
		if sizesArrayOverflowCount(T)%2 == 0 {
			rep.Event("T_with_even_index_overflow_count")
			if z.idxSplit {
				rep.Event("index_slab_split_at_even_child_count")
			}
		}
		if z.idxSplit && z.idxMerge {
			rep.Distinct(fmt.Sprintf("T%d p%d h%d", T, z.profile, r.maxH))
		}
		rep.EventN("pair_rounds", z.nPair)
		rep.EventN("pair_rounds_completed", z.nPairDone)
		rep.EventN("exact_rounds", z.nExact)
		rep.EventN("exact_rounds_landing_on_the_target", z.nExactHit)
		if h < 3 {
			rep.Sample(fmt.Sprintf("history %s: T=%d profile %d, %d steps, height %d, %d commits, %d reopen checks, index split %v merge %v", tag, T, z.profile, r.step, r.maxH, z.nCommit, z.nReopen, z.idxSplit, z.idxMerge))
		}
	}
	tr.Close()
	rep.Histories = tr.Hists
	rep.Steps = tr.Steps
	rep.Write(a.Out + "/report.json")
}
