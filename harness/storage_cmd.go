//go:build verif

package main

import (
	"fmt"
	"sort"
	"strings"

	"github.com/onflow/atree"
	testutils "github.com/onflow/atree/test_utils"
)

// Storage-level histories (C15, C14, C04, C03 storage half, C16 logic half).
// Slabs are opaque StorableSlabs holding one Uint64Value; "version" = that value.

type sVal struct {
	vid uint64
	sz  uint64
}

// reference overlay: the 40-line model-independent oracle (pending overlay on committed map)
type overlay struct {
	pending   map[atree.SlabID]*sVal // nil entry = removed
	committed map[atree.SlabID]sVal
}

func newOverlay() *overlay {
	return &overlay{pending: map[atree.SlabID]*sVal{}, committed: map[atree.SlabID]sVal{}}
}
func (o *overlay) view(id atree.SlabID) *sVal {
	if p, ok := o.pending[id]; ok {
		return p
	}
	if c, ok := o.committed[id]; ok {
		return &c
	}
	return nil
}

type storageRun struct {
	base    *LogBase
	st      *atree.PersistentSlabStorage
	ov      *overlay
	tr      *Trace
	rep     *Report
	hist    int
	tag     string
	step    int
	rng     *Rng
	commits int
	faults  int
	ids     []atree.SlabID
}

func slabVal(s atree.Slab) []int64 {
	if s == nil {
		return []int64{0}
	}
	ss, ok := s.(*atree.StorableSlab)
	if !ok {
		return []int64{98}
	}
	cs := ss.ChildStorables()
	v, ok := cs[0].(testutils.Uint64Value)
	if !ok {
		return []int64{97}
	}
	return []int64{1, int64(v), int64(s.ByteSize())}
}

func sValOf(s atree.Slab) *sVal {
	x := slabVal(s)
	if x[0] != 1 {
		return nil
	}
	return &sVal{uint64(x[1]), uint64(x[2])}
}

func eqVal(a, b *sVal) bool {
	if a == nil || b == nil {
		return a == nil && b == nil
	}
	return *a == *b
}

func (r *storageRun) viol(what, detail string) {
	r.rep.Violate(r.hist, r.tag, r.step, what, detail)
}

func (r *storageRun) emit(op []int64, obs []int64) {
	r.tr.Step(op, obs)
	r.step++
}

func idArgs(id atree.SlabID) (int64, int64) {
	a, i := idPair(id)
	return int64(a), int64(i)
}

func (r *storageRun) baseVal(id atree.SlabID) *sVal {
	d, ok := r.base.Segs[id]
	if !ok {
		return nil
	}
	s, err := atree.DecodeSlab(id, d, decMode, testutils.DecodeStorable, testutils.DecodeTypeInfo)
	if err != nil {
		r.viol("register does not decode", err.Error())
		return nil
	}
	return sValOf(s)
}

// checkBaseUnchanged: between commits no register is written or deleted (C03), checked against a snapshot
func (r *storageRun) snapshot() map[atree.SlabID]string {
	m := map[atree.SlabID]string{}
	for k, v := range r.base.Segs {
		m[k] = string(v)
	}
	return m
}
func sameSnap(a map[atree.SlabID]string, b *LogBase) bool {
	if len(a) != len(b.Segs) {
		return false
	}
	for k, v := range a {
		if d, ok := b.Segs[k]; !ok || string(d) != v {
			return false
		}
	}
	return true
}

func (r *storageRun) doStore(id atree.SlabID, v uint64) {
	r.rep.Op("store")
	slab := atree.VerifNewStorableSlabWithID(id, testutils.Uint64Value(v))
	a, i := idArgs(id)
	sz := int64(slab.ByteSize())
	err := r.st.Store(id, slab)
	if id == atree.SlabIDUndefined {
		var fe *atree.FatalError
		var se *atree.SlabIDError
		if err == nil || !asErr(err, &fe) || !asErr(err, &se) {
			r.viol("store under undefined id not rejected as fatal SlabIDError", fmt.Sprint(err))
		}
		r.rep.Err("SlabIDError")
		r.emit([]int64{1, a, i, int64(v), sz}, []int64{3})
		return
	}
	if err != nil {
		r.viol("store failed", err.Error())
		r.emit([]int64{1, a, i, int64(v), sz}, []int64{99})
		return
	}
	r.ov.pending[id] = &sVal{v, uint64(sz)}
	r.emit([]int64{1, a, i, int64(v), sz}, []int64{2})
}

func (r *storageRun) doRemove(id atree.SlabID) {
	r.rep.Op("remove")
	a, i := idArgs(id)
	err := r.st.Remove(id)
	if id == atree.SlabIDUndefined {
		if err == nil {
			r.viol("remove of undefined id not rejected", "")
		}
		r.rep.Err("SlabIDError")
		r.emit([]int64{2, a, i}, []int64{3})
		return
	}
	if err != nil {
		r.viol("remove failed", err.Error())
		r.emit([]int64{2, a, i}, []int64{99})
		return
	}
	r.ov.pending[id] = nil
	r.emit([]int64{2, a, i}, []int64{2})
}

func (r *storageRun) doRetrieve(id atree.SlabID) {
	r.rep.Op("retrieve")
	a, i := idArgs(id)
	snap := r.snapshot()
	s, found, err := r.st.Retrieve(id)
	if err != nil {
		r.viol("retrieve failed", err.Error())
		r.emit([]int64{3, a, i}, []int64{99})
		return
	}
	if found != (s != nil) {
		r.viol("retrieve: found flag disagrees with slab", "")
	}
	if !eqVal(sValOf(s), r.ov.view(id)) {
		r.viol("C15 read-your-writes: Retrieve differs from overlay view", fmt.Sprintf("id=%s got=%v want=%v", id, slabVal(s), r.ov.view(id)))
	}
	if !sameSnap(snap, r.base) {
		r.viol("C03: read changed the ledger", "")
	}
	r.emit([]int64{3, a, i}, slabVal(s))
}

func (r *storageRun) doRetrieveIfLoaded(id atree.SlabID) {
	r.rep.Op("retrieveIfLoaded")
	a, i := idArgs(id)
	s := r.st.RetrieveIfLoaded(id)
	// oracle: if something is returned it must be the view
	if s != nil && !eqVal(sValOf(s), r.ov.view(id)) {
		r.viol("C15: RetrieveIfLoaded returned a slab that is not the view", fmt.Sprintf("id=%s", id))
	}
	if _, ok := r.ov.pending[id]; ok && !eqVal(sValOf(s), r.ov.view(id)) {
		r.viol("C15: RetrieveIfLoaded missed a pending change", fmt.Sprintf("id=%s", id))
	}
	r.emit([]int64{4, a, i}, slabVal(s))
}

func (r *storageRun) doRetrieveIgnoringDeltas(id atree.SlabID, c bool) {
	r.rep.Op("retrieveIgnoringDeltas")
	a, i := idArgs(id)
	s, _, err := r.st.RetrieveIgnoringDeltas(id, c)
	if err != nil {
		r.viol("RetrieveIgnoringDeltas failed", err.Error())
		r.emit([]int64{5, a, i, b2i(c)}, []int64{99})
		return
	}
	var want *sVal
	if cv, ok := r.ov.committed[id]; ok {
		want = &cv
	}
	if !eqVal(sValOf(s), want) {
		r.viol("C15: cache-bypassing read differs from committed value", fmt.Sprintf("id=%s got=%v want=%v", id, slabVal(s), want))
	}
	r.emit([]int64{5, a, i, b2i(c)}, slabVal(s))
}

func b2i(b bool) int64 {
	if b {
		return 1
	}
	return 0
}

// commit runs FastCommit or NondeterministicFastCommit with an optional injected fault.
func (r *storageRun) doCommit(nondet bool, workers int, fail int) {
	if nondet {
		r.rep.Op("nondetCommit")
	} else {
		r.rep.Op("fastCommit")
	}
	r.commits++
	r.base.ResetLog()
	r.base.Arm(fail)
	// expected owned pending set before the commit
	type pend struct {
		id atree.SlabID
		v  *sVal
	}
	var owned []pend
	for id, v := range r.ov.pending {
		if !id.HasTempAddress() {
			owned = append(owned, pend{id, v})
		}
	}
	var err error
	if nondet {
		err = r.st.NondeterministicFastCommit(workers)
	} else {
		err = r.st.FastCommit(workers)
	}
	r.base.Arm(-1)
	log := append([]BaseCall(nil), r.base.Log...)
	failed := false
	obs := []int64{4, 1}
	for _, c := range log {
		if c.Fail {
			failed = true
		}
	}
	if failed {
		obs[1] = 0
		r.faults++
		r.rep.Event("commit_fault")
	}
	order := []int64{}
	for _, c := range log {
		a, i := idArgs(c.ID)
		obs = append(obs, b2i(c.Kind == 'S'), a, i)
		order = append(order, a, i)
		if c.ID.HasTempAddress() {
			r.viol("C03: temporary-address slab written to the ledger", c.ID.String())
		}
	}
	// oracle
	if failed {
		var ee *atree.ExternalError
		if err == nil {
			r.viol("C14: commit with a failed ledger call returned no error", "")
		} else if !asErr(err, &ee) {
			r.viol("C14: ledger failure not reported as ExternalError", err.Error())
		}
	} else if err != nil {
		r.viol("commit failed without injected fault", err.Error())
	}
	if !nondet {
		for k := 1; k < len(log); k++ {
			if log[k-1].ID.Compare(log[k].ID) >= 0 {
				r.viol("C04: deterministic commit issued ledger calls out of ascending (owner,index) order",
					fmt.Sprintf("%s before %s", log[k-1].ID, log[k].ID))
			}
		}
	}
	// apply successful calls to the reference overlay
	for _, c := range log {
		if c.Fail {
			continue
		}
		p, ok := r.ov.pending[c.ID]
		if !ok {
			r.viol("C15: commit wrote an identifier with no pending change", c.ID.String())
			continue
		}
		if (c.Kind == 'S') != (p != nil) {
			r.viol("C15: commit call kind disagrees with pending change", c.ID.String())
		}
		if p != nil {
			r.ov.committed[c.ID] = *p
		} else {
			delete(r.ov.committed, c.ID)
		}
		delete(r.ov.pending, c.ID)
	}
	if !failed {
		for _, p := range owned {
			if _, still := r.ov.pending[p.id]; still {
				r.viol("C15: successful commit left an owned pending change unwritten", p.id.String())
			}
		}
	}
	// ledger must equal the committed map
	for id, cv := range r.ov.committed {
		bv := r.baseVal(id)
		if bv == nil || *bv != cv {
			r.viol("C15: register differs from committed value after commit", id.String())
		}
	}
	if len(r.base.Segs) != len(r.ov.committed) {
		r.viol("C15: ledger holds registers that are not committed values", fmt.Sprintf("%d vs %d", len(r.base.Segs), len(r.ov.committed)))
	}
	if nondet {
		op := []int64{7, int64(fail)}
		op = append(op, order...)
		r.emit(op, obs)
	} else {
		r.emit([]int64{6, int64(fail)}, obs)
	}
	// C14: reads after the (possibly failed) commit still return the latest values
	for _, id := range r.ids {
		if id == atree.SlabIDUndefined {
			continue
		}
		r.doRetrieve(id)
	}
}

func (r *storageRun) doObserve() {
	r.rep.Op("observe")
	n := int64(r.st.Deltas())
	no := int64(r.st.DeltasWithoutTempAddresses())
	sz := int64(r.st.DeltasSizeWithoutTempAddresses())
	wn, wno, wsz := int64(len(r.ov.pending)), int64(0), int64(0)
	for id, v := range r.ov.pending {
		if !id.HasTempAddress() {
			wno++
			if v != nil {
				wsz += int64(v.sz)
			}
		}
	}
	if n != wn || no != wno || sz != wsz {
		r.viol("C15: pending-change observers disagree with overlay", fmt.Sprintf("got %d/%d/%d want %d/%d/%d", n, no, sz, wn, wno, wsz))
	}
	r.emit([]int64{11}, []int64{6, n, no, sz})
}

func (r *storageRun) doHasUnsaved(a uint64) {
	r.rep.Op("hasUnsaved")
	got := r.st.HasUnsavedChanges(mkAddr(a))
	want := false
	for id := range r.ov.pending {
		if id.AddressAsUint64() == a {
			want = true
		}
	}
	if got != want {
		r.viol("C15: HasUnsavedChanges disagrees with overlay", fmt.Sprintf("addr=%d got=%v", a, got))
	}
	r.emit([]int64{12, int64(a)}, []int64{7, b2i(got)})
}

func (r *storageRun) doBaseGet(id atree.SlabID) {
	a, i := idArgs(id)
	v := r.baseVal(id)
	obs := []int64{0}
	if v != nil {
		obs = []int64{1, int64(v.vid), int64(v.sz)}
	}
	r.emit([]int64{14, a, i}, obs)
}

func (r *storageRun) doPreload(ids []atree.SlabID, workers int) {
	r.rep.Op("batchPreload")
	op := []int64{10}
	for _, id := range ids {
		a, i := idArgs(id)
		op = append(op, a, i)
	}
	snap := r.snapshot()
	err := r.st.BatchPreload(ids, workers)
	if err != nil {
		r.viol("BatchPreload failed", err.Error())
	}
	if !sameSnap(snap, r.base) {
		r.viol("C03: preload changed the ledger", "")
	}
	r.emit(op, []int64{2})
}

func (r *storageRun) simple(code int64, name string, f func()) {
	r.rep.Op(name)
	snap := r.snapshot()
	f()
	if !sameSnap(snap, r.base) {
		r.viol("C03: "+name+" changed the ledger", "")
	}
	r.emit([]int64{code}, []int64{2})
}

func (r *storageRun) randomOp() {
	rng := r.rng
	id := r.ids[rng.Intn(len(r.ids))]
	if id == atree.SlabIDUndefined && !rng.Chance(15) {
		id = r.ids[1+rng.Intn(len(r.ids)-2)]
	}
	switch rng.Pick(22, 10, 16, 6, 6, 8, 6, 3, 4, 4, 5, 4, 3, 3) {
	case 0:
		// versions: few distinct values of different CBOR widths
		vs := []uint64{1, 23, 24, 255, 256, 65535, 65536, 1 << 32, 7}
		r.doStore(id, vs[rng.Intn(len(vs))])
	case 1:
		r.doRemove(id)
	case 2:
		r.doRetrieve(id)
	case 3:
		r.doRetrieveIfLoaded(id)
	case 4:
		r.doRetrieveIgnoringDeltas(id, rng.Bool())
	case 5:
		fail := -1
		if rng.Chance(35) {
			fail = rng.Intn(4)
		}
		r.doCommit(false, 1+rng.Intn(8), fail)
	case 6:
		fail := -1
		if rng.Chance(35) {
			fail = rng.Intn(4)
		}
		r.doCommit(true, 1+rng.Intn(8), fail)
	case 7:
		r.simple(8, "dropDeltas", func() { r.st.DropDeltas(); r.ov.pending = map[atree.SlabID]*sVal{} })
	case 8:
		r.simple(9, "dropCache", func() { r.st.DropCache() })
	case 9:
		n := rng.Intn(4)
		if rng.Chance(20) {
			n = 11 + rng.Intn(4) // parallel path
		}
		var ids []atree.SlabID
		for k := 0; k < n; k++ {
			x := r.ids[rng.Intn(len(r.ids))]
			if x == atree.SlabIDUndefined {
				continue
			}
			ids = append(ids, x)
		}
		r.doPreload(ids, 1+rng.Intn(4))
	case 10:
		r.doObserve()
	case 11:
		r.doHasUnsaved(uint64(rng.Intn(3)))
	case 12:
		r.simple(13, "recreate", func() {
			r.st = newStorage(r.base)
			r.ov.pending = map[atree.SlabID]*sVal{}
		})
	case 13:
		r.doBaseGet(id)
	}
}

func newStorageRun(tr *Trace, rep *Report, hist int, tag string, rng *Rng) *storageRun {
	base := NewLogBase()
	r := &storageRun{base: base, st: newStorage(base), ov: newOverlay(), tr: tr, rep: rep, hist: hist, tag: tag, rng: rng}
	r.ids = []atree.SlabID{atree.SlabIDUndefined, mkID(0, 1), mkID(1, 1), mkID(1, 2), mkID(2, 1), mkID(0, 2)}
	return r
}

func (r *storageRun) finish() {
	// final fault-free commit; the ledger must then equal the overlay view on all owned ids
	r.doCommit(false, 2, -1)
	for _, id := range r.ids {
		if id == atree.SlabIDUndefined || id.HasTempAddress() {
			continue
		}
		r.doBaseGet(id)
		if !eqVal(r.baseVal(id), r.ov.view(id)) {
			r.viol("C15: after a successful commit the register differs from the view", id.String())
		}
	}
	fp := fmt.Sprintf("c%d f%d", r.commits, r.faults)
	if r.commits >= 2 {
		r.rep.Distinct(fmt.Sprintf("%s #%d", fp, r.hist))
	}
}

// exhaustive short sequences over a reduced alphabet (closure of a small universe)
func storageAlphabet() []func(r *storageRun) {
	a, b, t := mkID(1, 1), mkID(1, 2), mkID(0, 1)
	return []func(r *storageRun){
		func(r *storageRun) { r.doStore(a, 1) },
		func(r *storageRun) { r.doStore(a, 256) },
		func(r *storageRun) { r.doStore(b, 7) },
		func(r *storageRun) { r.doStore(t, 24) },
		func(r *storageRun) { r.doRemove(a) },
		func(r *storageRun) { r.doRemove(b) },
		func(r *storageRun) { r.doRemove(t) },
		func(r *storageRun) { r.doRetrieve(a) },
		func(r *storageRun) { r.doRetrieveIgnoringDeltas(a, true) },
		func(r *storageRun) { r.doRetrieveIgnoringDeltas(b, false) },
		func(r *storageRun) { r.doCommit(false, 2, -1) },
		func(r *storageRun) { r.doCommit(false, 1, 0) },
		func(r *storageRun) { r.doCommit(false, 2, 1) },
		func(r *storageRun) { r.doCommit(true, 2, -1) },
		func(r *storageRun) { r.doCommit(true, 2, 1) },
		func(r *storageRun) {
			r.simple(8, "dropDeltas", func() { r.st.DropDeltas(); r.ov.pending = map[atree.SlabID]*sVal{} })
		},
		func(r *storageRun) { r.simple(9, "dropCache", func() { r.st.DropCache() }) },
		func(r *storageRun) { r.doPreload([]atree.SlabID{a, b, t}, 2) },
		func(r *storageRun) {
			r.simple(13, "recreate", func() { r.st = newStorage(r.base); r.ov.pending = map[atree.SlabID]*sVal{} })
		},
		func(r *storageRun) { r.doObserve() },
	}
}

func init() {
	register("storage", func(a Args) { cmdStorage(a.Prop, a.Seed, a.N, a.Depth, a.Out) })
}

func cmdStorage(prop string, seed uint64, n int, depth int, out string) {
	tr := NewTrace(out + "/trace.txt")
	rep := NewReport(prop, seed)
	rep.Rule = "random sequences of the 14 storage calls over identifiers {undefined,(0,1),(0,2),(1,1),(1,2),(2,1)} and 9 slab versions with injected commit faults, plus all sequences of length <= depth over a 20-letter alphabet; non-trivial = contains at least two commits (each history distinct by construction)"
	rng := NewRng(seed)
	hist := 0
	// exhaustive part
	alpha := storageAlphabet()
	var rec func(prefix []int)
	rec = func(prefix []int) {
		if len(prefix) == depth {
			tag := "ex" + strings.Trim(strings.ReplaceAll(fmt.Sprint(prefix), " ", "."), "[]")
			if !want(tag) {
				hist++
				return
			}
			tr.Hist(tag, 0)
			r := newStorageRun(tr, rep, hist, tag, rng)
			for _, k := range prefix {
				alpha[k](r)
			}
			r.finish()
			hist++
			return
		}
		for k := range alpha {
			rec(append(prefix, k))
		}
	}
	if depth > 0 {
		rec(nil)
		rep.Event("exhaustive_sequences")
		rep.Events["exhaustive_sequences"] = hist
	}
	for h := 0; h < n; h++ {
		hr := rng.Fork(uint64(h))
		tag := fmt.Sprintf("rnd%d", h)
		if !want(tag) {
			hist++
			continue
		}
		tr.Hist(tag, 0)
		r := newStorageRun(tr, rep, hist, tag, hr)
		steps := 20 + hr.Intn(60)
		for k := 0; k < steps; k++ {
			r.randomOp()
		}
		r.finish()
		if h < 2 {
			rep.Sample(fmt.Sprintf("history %s: %d steps, %d commits, %d injected faults", tag, r.step, r.commits, r.faults))
		}
		hist++
	}
	tr.Close()
	rep.Histories = tr.Hists
	rep.Steps = tr.Steps
	keys := make([]string, 0, len(rep.Ops))
	for k := range rep.Ops {
		keys = append(keys, k)
	}
	sort.Strings(keys)
	rep.Write(out + "/report.json")
}
