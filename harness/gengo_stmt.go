//go:build verif

package main

// gen-go, functions and statements.  A function body is turned into ONE Gallina term in
// continuation-passing style: a statement is translated together with "the rest of the block"; the
// rest is copied into every branch that falls through (if without else, switch cases), so no join
// points are needed.  Accepted statements (everything else is a fatal error naming the construct):
//   return; if / else if / else (with init statement); switch with or without tag (expression lists,
//   default; no fallthrough/break); x := e, x = e, x op= e, x++ / x--; `var x T [= e]`;
//   a, b := f(...) for a translated total function; h[i] = e / h[i] op= e on a [2]T array variable or
//   pointer receiver (i constant); assignments to package-level variables; panic(...).
// No loops, no goto/labels, no defer/go/select, no closures, no slices/maps/strings, no struct values.
//
// Struct receivers.  A method whose receiver is a struct (or a pointer to one) is in the subset when the
// body only READS scalar fields of the receiver (r.f.g of sized integer / bool type, reached through
// struct-typed fields) or takes len(r.f) of a slice/map/string field.  The receiver is replaced by one
// parameter per distinct path read: r.f.g -> r_f_g : N / Z / bool, len(r.f) -> len_r_f : Z (a Go `int`,
// always >= 0), ordered by field declaration order of the struct types.  A pointer receiver is assumed
// non-nil (a nil receiver would panic at the first field read).  Such methods can be selected for
// translation but not called from other translated code.
//
// Shape of the generated function  f g_r1 .. g_rk [recv | r_f1 .. r_fm] p1 .. pn :
//   g_ri   package-level variables the body may read before assigning them (declaration order);
//   result = the Go results (error results dropped), then the updated receiver if the method assigns
//            through its pointer receiver, then the tuple of package-level variables the body assigns
//            (declaration order; an unassigned one on some path keeps its g_ value);
//            several components form a tuple (results, receiver, globals);
//   partial functions (panic, `error` result, division by a variable, float->integer conversion)
//   return option: None = panic / non-nil error / undefined conversion.

import (
	"fmt"
	"go/ast"
	"go/token"
	"go/types"
	"math/big"
	"sort"
	"strings"
)

type ggEnv struct{ bound map[*types.Var]bool }

func (e *ggEnv) clone() *ggEnv {
	n := &ggEnv{bound: map[*types.Var]bool{}}
	for k, v := range e.bound {
		n.bound[k] = v
	}
	return n
}

// ggFnOut is what callers need to know about a translated function.
type ggFnOut struct {
	name       string
	partial    bool
	implicit   []*types.Var // package variables passed as leading parameters
	hasRecv    bool
	recvMut    bool
	recvStruct bool // struct receiver replaced by scalar field parameters
	assigned   []*types.Var
	params     []ggRep
	results    []ggRep
	text       string
}

type ggFn struct {
	g           *ggGen
	obj         *types.Func
	decl        *ast.FuncDecl
	partial     bool
	names       map[*types.Var]string
	used        map[string]bool
	recv        *types.Var
	recvPtr     bool
	recvMut     bool
	recvStruct  bool
	recvFields  map[string]*ggRecvField
	assigned    []*types.Var
	readGlobals map[*types.Var]bool
	results     []ggRep
	resIsErr    []bool
	resIsPtr    []bool
	nfresh      int
	size        int
}

var ggReserved = map[string]bool{
	"as": true, "at": true, "cofix": true, "else": true, "end": true, "exists": true, "exists2": true, "fix": true,
	"for": true, "forall": true, "fun": true, "if": true, "IF": true, "in": true, "let": true, "match": true, "mod": true,
	"Prop": true, "return": true, "Set": true, "then": true, "Type": true, "using": true, "where": true, "with": true,
	"N": true, "Z": true, "bool": true, "true": true, "false": true, "fst": true, "snd": true, "negb": true, "andb": true,
	"orb": true, "xorb": true, "Some": true, "None": true, "option": true, "pair": true, "positive": true, "nat": true,
	"S": true, "O": true, "list": true, "nil": true, "cons": true,
}

func ggSafeName(n string) string {
	if ggReserved[n] || strings.HasPrefix(n, "k_") || strings.HasPrefix(n, "g_") || strings.HasPrefix(n, "_") {
		return "v_" + strings.TrimLeft(n, "_")
	}
	for _, r := range n {
		if r > 127 {
			return fmt.Sprintf("v_%x", n)
		}
	}
	return n
}

// nameOf: one Gallina name per Go variable OBJECT (two Go variables of the same name in different
// scopes get different names, so re-binding a name with `let` always means assignment).
func (f *ggFn) nameOf(v *types.Var, pos token.Pos) string {
	if n, ok := f.names[v]; ok {
		return n
	}
	base := ggSafeName(v.Name())
	if v.Name() == "" || v.Name() == "_" {
		base = "unnamed"
	}
	n := base
	for i := 1; f.used[n]; i++ {
		n = fmt.Sprintf("%s_%d", base, i)
	}
	f.used[n] = true
	f.names[v] = n
	return n
}

func (f *ggFn) fresh(base string) string {
	for {
		f.nfresh++
		n := fmt.Sprintf("%s%d", base, f.nfresh)
		if !f.used[n] {
			f.used[n] = true
			return n
		}
	}
}

func (g *ggGen) coqFuncName(fo *types.Func) string {
	sig := fo.Type().(*types.Signature)
	n := fo.Name()
	if r := sig.Recv(); r != nil {
		t := r.Type()
		if p, ok := t.(*types.Pointer); ok {
			t = p.Elem()
		}
		if nt, ok := t.(*types.Named); ok {
			n = nt.Obj().Name() + "_" + n
		} else {
			g.fail(fo.Pos(), "method %s on an unnamed receiver type", fo.Name())
		}
	}
	return ggSafeName(n)
}

type ggPartial struct{}

// translate (memoised): Gallina definition of a function of the package.
func (g *ggGen) translate(fo *types.Func, from token.Pos) *ggFnOut {
	if out, ok := g.done[fo]; ok {
		return out
	}
	fd := g.funcs[fo]
	if fd == nil || fd.Body == nil {
		g.fail(from, "function %s has no body in the parsed files", fo.Name())
	}
	if g.busy[fo] {
		g.fail(from, "recursive function %s", fo.Name())
	}
	g.busy[fo] = true
	defer delete(g.busy, fo)
	g.checkTyped("function "+fo.Name(), fd.Pos(), fd.End())

	var out *ggFnOut
	for _, partial := range []bool{false, true} {
		f := &ggFn{g: g, obj: fo, decl: fd, partial: partial, names: map[*types.Var]string{}, used: map[string]bool{},
			readGlobals: map[*types.Var]bool{}, recvFields: map[string]*ggRecvField{}}
		out = f.run()
		if out != nil {
			break
		}
	}
	g.done[fo] = out
	g.order = append(g.order, out)
	return out
}

// run translates the function; returns nil when f.partial is false but the body needs a failure result.
func (f *ggFn) run() (out *ggFnOut) {
	g, fd := f.g, f.decl
	defer func() {
		if p := recover(); p != nil {
			if _, ok := p.(ggPartial); ok && !f.partial {
				out = nil
				return
			}
			panic(p)
		}
	}()
	sig := f.obj.Type().(*types.Signature)
	if sig.TypeParams().Len() > 0 || sig.RecvTypeParams().Len() > 0 {
		g.fail(fd.Pos(), "generic function %s", fd.Name.Name)
	}
	if sig.Variadic() {
		g.fail(fd.Pos(), "variadic function %s", fd.Name.Name)
	}
	type par struct {
		name string
		rep  ggRep
	}
	var pars []par
	o := &ggFnOut{name: g.coqFuncName(f.obj)}
	f.used[o.name] = true
	if r := sig.Recv(); r != nil {
		_, f.recvPtr = r.Type().Underlying().(*types.Pointer)
		// the declared receiver object (may be unnamed)
		if len(fd.Recv.List[0].Names) == 1 {
			f.recv, _ = g.info.Defs[fd.Recv.List[0].Names[0]].(*types.Var)
		}
		if f.recv == nil {
			f.recv = r
		}
		base := r.Type()
		if p, ok := base.Underlying().(*types.Pointer); ok {
			base = p.Elem()
		}
		if _, isStruct := base.Underlying().(*types.Struct); isStruct {
			// parameters r_f_g are collected while the body is translated (recvField)
			f.recvStruct, o.recvStruct = true, true
		} else {
			rep := g.repOf(r.Type(), fd.Recv.Pos())
			if rep.k != ggArr2 {
				g.fail(fd.Recv.Pos(), "receiver of type %s", r.Type())
			}
			pars = append(pars, par{f.nameOf(f.recv, fd.Recv.Pos()), rep})
		}
		o.hasRecv = true
	}
	for _, fl := range fd.Type.Params.List {
		if len(fl.Names) == 0 {
			g.fail(fl.Pos(), "unnamed parameter")
		}
		for _, id := range fl.Names {
			v, _ := g.info.Defs[id].(*types.Var)
			if v == nil {
				g.fail(id.Pos(), "blank parameter")
			}
			if _, isPtr := v.Type().Underlying().(*types.Pointer); isPtr {
				g.fail(id.Pos(), "pointer parameter %s", id.Name)
			}
			rep := g.repOf(v.Type(), id.Pos())
			pars = append(pars, par{f.nameOf(v, id.Pos()), rep})
			o.params = append(o.params, rep)
		}
	}
	res := sig.Results()
	for i := 0; i < res.Len(); i++ {
		t := res.At(i).Type()
		if res.At(i).Name() != "" {
			// named results may be assigned and returned by a bare `return`: keep it simple, refuse
			if fd.Type.Results != nil && ggHasBareReturn(fd.Body) {
				g.fail(fd.Type.Results.Pos(), "named results with a bare return")
			}
		}
		if types.Identical(t, types.Universe.Lookup("error").Type()) {
			if i != res.Len()-1 {
				g.fail(fd.Type.Results.Pos(), "error result that is not the last result")
			}
			f.resIsErr = append(f.resIsErr, true)
			f.resIsPtr = append(f.resIsPtr, false)
			f.results = append(f.results, ggRep{})
			if !f.partial {
				panic(ggPartial{})
			}
			continue
		}
		_, isPtr := t.Underlying().(*types.Pointer)
		f.resIsErr = append(f.resIsErr, false)
		f.resIsPtr = append(f.resIsPtr, isPtr)
		f.results = append(f.results, g.repOf(t, fd.Type.Results.Pos()))
	}
	for i, r := range f.results {
		if !f.resIsErr[i] {
			o.results = append(o.results, r)
		}
	}
	f.scanEffects()
	o.recvMut, o.assigned = f.recvMut, f.assigned

	env := &ggEnv{bound: map[*types.Var]bool{}}
	body := f.stmts(fd.Body.List, env, func(env *ggEnv, _ string) string {
		if res.Len() > 0 {
			g.fail(fd.Body.Rbrace, "control reaches the end of a function with results")
		}
		return f.ret(env, nil, fd.Body.Rbrace)
	}, "  ")

	// implicit parameters: package variables possibly read before being assigned
	for v := range f.readGlobals {
		o.implicit = append(o.implicit, v)
	}
	sort.Slice(o.implicit, func(i, j int) bool { return g.varPos[o.implicit[i]] < g.varPos[o.implicit[j]] })
	o.partial = f.partial

	// header
	var sb strings.Builder
	src := g.text(fd.Pos(), fd.End())
	recvTxt := ""
	if fd.Recv != nil {
		recvTxt = ggComment("( " + g.text(fd.Recv.List[0].Type.Pos(), fd.Recv.List[0].Type.End()) + " ).")
	}
	fmt.Fprintf(&sb, "(* func %s: %s%s   sha256(source text)[0..8]=%s\n", g.funcFile[f.obj], recvTxt, fd.Name.Name, ggHash(src))
	fmt.Fprintf(&sb, "   Go signature: %s\n", ggComment(g.text(fd.Type.Pos(), fd.Type.End())))
	var shape []string
	if len(o.results) > 0 {
		shape = append(shape, "results")
	}
	if f.recvMut {
		shape = append(shape, "updated receiver")
	}
	if len(f.assigned) > 0 {
		var ns []string
		for _, v := range f.assigned {
			ns = append(ns, v.Name())
		}
		shape = append(shape, "package variables ("+strings.Join(ns, ", ")+")")
	}
	fmt.Fprintf(&sb, "   value: %s", strings.Join(shape, ", "))
	if f.partial {
		sb.WriteString("; None = panic / non-nil error / undefined conversion")
	}
	rfs := f.recvFieldList()
	if f.recvStruct {
		var ps []string
		for _, rf := range rfs {
			ps = append(ps, rf.name+" = "+rf.text)
		}
		if len(ps) == 0 {
			ps = []string{"no field is read"}
		}
		fmt.Fprintf(&sb, "\n   struct receiver, read only through: %s", strings.Join(ps, ", "))
	}
	sb.WriteString(" *)\n")
	fmt.Fprintf(&sb, "Definition %s", o.name)
	for _, v := range o.implicit {
		fmt.Fprintf(&sb, " (g_%s : %s)", v.Name(), ggCoqType(g.repOf(v.Type(), fd.Pos())))
	}
	for _, rf := range rfs {
		fmt.Fprintf(&sb, " (%s : %s)", rf.name, ggCoqType(rf.rep))
	}
	for _, p := range pars {
		fmt.Fprintf(&sb, " (%s : %s)", p.name, ggCoqType(p.rep))
	}
	fmt.Fprintf(&sb, " : %s :=\n  %s.\n", f.resultType(), body)
	o.text = sb.String()
	return o
}

func ggHasBareReturn(b *ast.BlockStmt) bool {
	found := false
	ast.Inspect(b, func(n ast.Node) bool {
		if _, ok := n.(*ast.FuncLit); ok {
			return false
		}
		if r, ok := n.(*ast.ReturnStmt); ok && len(r.Results) == 0 {
			found = true
		}
		return true
	})
	return found
}

func (f *ggFn) resultType() string {
	g := f.g
	var comps []string
	var rs []string
	for i, r := range f.results {
		if !f.resIsErr[i] {
			rs = append(rs, ggCoqType(r))
		}
	}
	if len(rs) > 0 {
		comps = append(comps, ggTupleType(rs))
	}
	if f.recvMut {
		comps = append(comps, ggCoqType(g.repOf(f.recv.Type(), f.decl.Pos())))
	}
	if len(f.assigned) > 0 {
		var gs []string
		for _, v := range f.assigned {
			gs = append(gs, ggCoqType(g.repOf(v.Type(), f.decl.Pos())))
		}
		comps = append(comps, ggTupleType(gs))
	}
	if len(comps) == 0 {
		g.fail(f.decl.Pos(), "function %s has no result and no effect in the subset", f.decl.Name.Name)
	}
	t := ggTupleType(comps)
	if f.partial {
		return "option " + t
	}
	return t
}

func ggTupleType(ts []string) string {
	if len(ts) == 1 {
		return ts[0]
	}
	var ps []string
	for _, t := range ts {
		ps = append(ps, strings.Trim(t, " "))
	}
	return "(" + strings.Join(ps, " * ") + ")"
}

func ggTuple(vs []string) string {
	if len(vs) == 1 {
		return vs[0]
	}
	return "(" + strings.Join(vs, ", ") + ")"
}

// scanEffects: which package variables the body assigns, and whether it assigns through the receiver.
func (f *ggFn) scanEffects() {
	g := f.g
	seen := map[*types.Var]bool{}
	note := func(lhs ast.Expr) {
		for {
			p, ok := lhs.(*ast.ParenExpr)
			if !ok {
				break
			}
			lhs = p.X
		}
		switch l := lhs.(type) {
		case *ast.Ident:
			if l.Name == "_" {
				return
			}
			if v, ok := g.info.Uses[l].(*types.Var); ok {
				if f.isGlobal(v) && !seen[v] {
					if _, known := g.varPos[v]; !known {
						g.fail(l.Pos(), "package-level variable %s has no declaration in the parsed files", l.Name)
					}
					seen[v] = true
					f.assigned = append(f.assigned, v)
				}
				if v == f.recv && f.recvPtr {
					g.fail(l.Pos(), "assignment to the pointer receiver itself")
				}
			}
		case *ast.SelectorExpr:
			if _, _, ok := f.recvPath(l); ok {
				g.fail(l.Pos(), "assignment to the receiver field %s (struct receivers are read-only in the subset)", g.text(l.Pos(), l.End()))
			}
		case *ast.IndexExpr:
			if id, ok := l.X.(*ast.Ident); ok {
				if v, ok := g.info.Uses[id].(*types.Var); ok && v == f.recv && f.recvPtr {
					f.recvMut = true
				}
			}
		}
	}
	ast.Inspect(f.decl.Body, func(n ast.Node) bool {
		switch s := n.(type) {
		case *ast.AssignStmt:
			for _, l := range s.Lhs {
				note(l)
			}
		case *ast.IncDecStmt:
			note(s.X)
		}
		return true
	})
	sort.Slice(f.assigned, func(i, j int) bool { return g.varPos[f.assigned[i]] < g.varPos[f.assigned[j]] })
}

// ret builds the value of a return: results (nil for a function without results), receiver, globals.
func (f *ggFn) ret(env *ggEnv, results []string, pos token.Pos) string {
	var comps []string
	if len(results) > 0 {
		comps = append(comps, ggTuple(results))
	}
	if f.recvMut {
		comps = append(comps, f.nameOf(f.recv, pos))
	}
	if len(f.assigned) > 0 {
		var gs []string
		for _, v := range f.assigned {
			if !env.bound[v] {
				f.readGlobals[v] = true
			}
			gs = append(gs, "g_"+v.Name())
		}
		comps = append(comps, ggTuple(gs))
	}
	if len(comps) == 0 {
		f.g.fail(pos, "function %s has no result and no effect in the subset", f.decl.Name.Name)
	}
	t := ggTuple(comps)
	if f.partial {
		return "Some " + t
	}
	return t
}

func (f *ggFn) none(pos token.Pos) string {
	if !f.partial {
		panic(ggPartial{})
	}
	return "None"
}

// guarded wraps a term with the definedness conditions of the expressions it evaluates first.
func (f *ggFn) guarded(guards []string, term string, ind string, pos token.Pos) string {
	if len(guards) == 0 {
		return term
	}
	none := f.none(pos)
	c := guards[0]
	for _, g := range guards[1:] {
		c = "(andb " + c + " " + g + ")"
	}
	return "if " + c + " then (\n" + ind + "  " + term + "\n" + ind + ") else " + none
}

func ggOneLine(s string) bool { return !strings.Contains(s, "\n") && len(s) < 70 }

func (f *ggFn) ite(cond, a, b, ind string) string {
	f.size += len(a) + len(b)
	if f.size > 200000 {
		f.g.fail(f.decl.Pos(), "function %s: too much branching for continuation copying (generated term exceeds 200000 characters)", f.decl.Name.Name)
	}
	if ggOneLine(a) {
		if strings.HasPrefix(a, "let ") || strings.HasPrefix(a, "if ") {
			a = "(" + a + ")"
		}
		return "if " + cond + " then " + a + " else\n" + ind + b
	}
	return "if " + cond + " then (\n" + ind + "  " + a + "\n" + ind + ") else\n" + ind + b
}

// stmts translates list followed by the continuation k.
func (f *ggFn) stmts(list []ast.Stmt, env *ggEnv, k func(*ggEnv, string) string, ind string) string {
	g := f.g
	if len(list) == 0 {
		return k(env, ind)
	}
	s := list[0]
	rest := func(env *ggEnv, ind string) string { return f.stmts(list[1:], env, k, ind) }
	terminated := func() {
		if len(list) > 1 {
			g.fail(list[1].Pos(), "unreachable statement after return/panic")
		}
	}
	switch s := s.(type) {
	case *ast.EmptyStmt:
		return rest(env, ind)
	case *ast.BlockStmt:
		return f.stmts(s.List, env, rest, ind)
	case *ast.ReturnStmt:
		terminated()
		return f.returnStmt(s, env, ind)
	case *ast.ExprStmt:
		if c, ok := s.X.(*ast.CallExpr); ok {
			if id, ok := c.Fun.(*ast.Ident); ok {
				if b, ok := g.info.Uses[id].(*types.Builtin); ok && b.Name() == "panic" {
					terminated()
					return f.none(s.Pos())
				}
			}
		}
		g.fail(s.Pos(), "expression statement %s (only panic(...) is in the subset)", g.text(s.Pos(), s.End()))
	case *ast.IfStmt:
		return f.ifStmt(s, env, rest, ind)
	case *ast.SwitchStmt:
		return f.switchStmt(s, env, rest, ind)
	case *ast.AssignStmt:
		return f.assign(s, env, rest, ind)
	case *ast.IncDecStmt:
		op := token.ADD
		if s.Tok == token.DEC {
			op = token.SUB
		}
		one := ggVal{s: "1", rep: ggRep{k: ggN}, cst: big.NewInt(1), ub: big.NewInt(1)}
		return f.store(s.X, true, func(cur ggVal) ggVal { one.rep = cur.rep; return f.arith(op, cur, one, cur.rep, s.Pos()) }, env, rest, ind, s.Pos())
	case *ast.DeclStmt:
		gd, ok := s.Decl.(*ast.GenDecl)
		if !ok || gd.Tok != token.VAR {
			g.fail(s.Pos(), "local declaration %s (only `var`)", g.text(s.Pos(), s.End()))
		}
		return f.varDecl(gd, 0, env, rest, ind)
	}
	g.fail(s.Pos(), "statement form %T is outside the subset: %s", s, ggComment(g.text(s.Pos(), s.End())))
	panic("unreachable")
}

func (f *ggFn) varDecl(gd *ast.GenDecl, i int, env *ggEnv, rest func(*ggEnv, string) string, ind string) string {
	g := f.g
	if i == len(gd.Specs) {
		return rest(env, ind)
	}
	vs := gd.Specs[i].(*ast.ValueSpec)
	if len(vs.Names) != 1 || len(vs.Values) > 1 {
		g.fail(vs.Pos(), "var declaration of several variables at once")
	}
	v, _ := g.info.Defs[vs.Names[0]].(*types.Var)
	if v == nil {
		g.fail(vs.Pos(), "blank var declaration")
	}
	rep := g.repOf(v.Type(), vs.Pos())
	if _, isPtr := v.Type().Underlying().(*types.Pointer); isPtr {
		g.fail(vs.Pos(), "pointer variable %s", v.Name())
	}
	var val ggVal
	if len(vs.Values) == 1 {
		val = f.expr(vs.Values[0], env)
	} else {
		switch rep.k {
		case ggN:
			val = ggVal{s: "0"}
		case ggZ:
			val = ggVal{s: "0%Z"}
		case ggB:
			val = ggVal{s: "false"}
		default:
			val = ggVal{s: "(0, 0)"}
		}
	}
	body := "let " + f.nameOf(v, vs.Pos()) + " := " + val.s + " in\n" + ind + f.varDecl(gd, i+1, env, rest, ind)
	return f.guarded(val.guards, body, ind, vs.Pos())
}

func (f *ggFn) returnStmt(s *ast.ReturnStmt, env *ggEnv, ind string) string {
	g := f.g
	if len(s.Results) != len(f.results) {
		g.fail(s.Pos(), "return with %d values in a function with %d results (bare return / call forwarding)", len(s.Results), len(f.results))
	}
	// error position first: a non-nil error makes the whole result None
	for i, e := range s.Results {
		if !f.resIsErr[i] {
			continue
		}
		if tv := f.tv(e); tv.IsNil() {
			continue
		}
		if c, ok := e.(*ast.CallExpr); ok {
			if sel, ok := c.Fun.(*ast.SelectorExpr); ok {
				if pk, ok := sel.X.(*ast.Ident); ok {
					if pn, ok := g.info.Uses[pk].(*types.PkgName); ok {
						p := pn.Imported().Path()
						if (p == "fmt" && sel.Sel.Name == "Errorf") || (p == "errors" && sel.Sel.Name == "New") {
							return f.none(s.Pos())
						}
					}
				}
			}
		}
		if f.alwaysNonNilCtor(e) {
			return f.none(s.Pos())
		}
		g.fail(e.Pos(), "error result %s: only nil, fmt.Errorf(...), errors.New(...) and package constructors of the form `return &T{...}` are known to be nil / non-nil", g.text(e.Pos(), e.End()))
	}
	var vals []string
	var guards []string
	for i, e := range s.Results {
		if f.resIsErr[i] {
			continue
		}
		if f.resIsPtr[i] {
			u, ok := e.(*ast.UnaryExpr)
			if !ok || u.Op != token.AND {
				g.fail(e.Pos(), "pointer result %s: only `&x` of a local array (nil only next to a non-nil error)", g.text(e.Pos(), e.End()))
			}
			vals = append(vals, f.arrBase(u.X, env).s)
			continue
		}
		v := f.expr(e, env)
		if v.rep.k != f.results[i].k {
			g.fail(e.Pos(), "result %d has a different representation than declared", i+1)
		}
		vals = append(vals, v.s)
		guards = append(guards, v.guards...)
	}
	return f.guarded(guards, f.ret(env, vals, s.Pos()), ind, s.Pos())
}

func (f *ggFn) noBranches(body []ast.Stmt) {
	for _, b := range body {
		ast.Inspect(b, func(n ast.Node) bool {
			if br, ok := n.(*ast.BranchStmt); ok {
				f.g.fail(br.Pos(), "%s statement", br.Tok)
			}
			return true
		})
	}
}

func (f *ggFn) ifStmt(s *ast.IfStmt, env *ggEnv, rest func(*ggEnv, string) string, ind string) string {
	if s.Init != nil {
		noInit := *s
		noInit.Init = nil
		return f.stmts([]ast.Stmt{s.Init, &noInit}, env, rest, ind)
	}
	c := f.expr(s.Cond, env)
	if c.rep.k != ggB {
		f.g.fail(s.Cond.Pos(), "condition is not boolean")
	}
	in := ind + "  "
	thenS := f.stmts(s.Body.List, env.clone(), rest, in)
	var elseS string
	switch e := s.Else.(type) {
	case nil:
		elseS = rest(env.clone(), ind)
	case *ast.BlockStmt:
		elseS = f.stmts(e.List, env.clone(), rest, ind)
	case *ast.IfStmt:
		elseS = f.ifStmt(e, env.clone(), rest, ind)
	default:
		f.g.fail(s.Else.Pos(), "else branch of form %T", s.Else)
	}
	return f.guarded(c.guards, f.ite(c.s, thenS, elseS, ind), ind, s.Pos())
}

func (f *ggFn) switchStmt(s *ast.SwitchStmt, env *ggEnv, rest func(*ggEnv, string) string, ind string) string {
	g := f.g
	if s.Init != nil {
		noInit := *s
		noInit.Init = nil
		return f.stmts([]ast.Stmt{s.Init, &noInit}, env, rest, ind)
	}
	prefix := ""
	var tag *ggVal
	var guards []string
	if s.Tag != nil {
		t := f.expr(s.Tag, env)
		if t.rep.k == ggArr2 {
			g.fail(s.Tag.Pos(), "switch on an array value")
		}
		guards = t.guards
		if _, isIdent := s.Tag.(*ast.Ident); !isIdent && t.cst == nil {
			n := f.fresh("sw")
			prefix = "let " + n + " := " + t.s + " in\n" + ind
			t.s = n
		}
		tag = &t
	}
	type clause struct {
		cond string
		body []ast.Stmt
	}
	var cls []clause
	var def *ast.CaseClause
	for _, st := range s.Body.List {
		cc := st.(*ast.CaseClause)
		f.noBranches(cc.Body)
		if cc.List == nil {
			def = cc
			continue
		}
		cond := ""
		for _, e := range cc.List {
			v := f.expr(e, env)
			if len(v.guards) > 0 {
				g.fail(e.Pos(), "case expression that can fail")
			}
			var c string
			if tag == nil {
				if v.rep.k != ggB {
					g.fail(e.Pos(), "case of a tagless switch is not boolean")
				}
				c = v.s
			} else {
				if v.rep.k != tag.rep.k {
					g.fail(e.Pos(), "case value and switch tag have different representations")
				}
				switch tag.rep.k {
				case ggN:
					c = "(" + tag.s + " =? " + v.s + ")"
				case ggZ:
					c = "(" + tag.s + " =? " + v.s + ")%Z"
				default:
					c = "(Bool.eqb " + tag.s + " " + v.s + ")"
				}
			}
			if cond == "" {
				cond = c
			} else {
				cond = "(orb " + cond + " " + c + ")"
			}
		}
		cls = append(cls, clause{cond, cc.Body})
	}
	var out string
	if def != nil {
		out = f.stmts(def.Body, env.clone(), rest, ind)
	} else {
		out = rest(env.clone(), ind)
	}
	for i := len(cls) - 1; i >= 0; i-- {
		body := f.stmts(cls[i].body, env.clone(), rest, ind+"  ")
		out = f.ite(cls[i].cond, body, out, ind)
	}
	return f.guarded(guards, prefix+out, ind, s.Pos())
}

func (f *ggFn) assign(s *ast.AssignStmt, env *ggEnv, rest func(*ggEnv, string) string, ind string) string {
	g := f.g
	// a, b := f(...)
	if len(s.Lhs) > 1 {
		if len(s.Rhs) != 1 || (s.Tok != token.DEFINE && s.Tok != token.ASSIGN) {
			g.fail(s.Pos(), "parallel assignment %s", ggComment(g.text(s.Pos(), s.End())))
		}
		c, ok := s.Rhs[0].(*ast.CallExpr)
		if !ok {
			g.fail(s.Pos(), "multi-value assignment from %T", s.Rhs[0])
		}
		callee, recv := f.callee(c)
		out := g.translate(callee, c.Pos())
		if out.partial || out.recvMut || len(out.assigned) > 0 || len(out.results) != len(s.Lhs) {
			g.fail(s.Pos(), "multi-value assignment from %s, which is partial, has effects or a different number of results", callee.Name())
		}
		call, guards := f.callText(out, recv, c.Args, env)
		var names []string
		for i, l := range s.Lhs {
			id, ok := l.(*ast.Ident)
			if !ok {
				g.fail(l.Pos(), "multi-value assignment to a non-variable")
			}
			if id.Name == "_" {
				names = append(names, "_")
				continue
			}
			v := f.varObj(id)
			if f.isGlobal(v) {
				env.bound[v] = true
				names = append(names, "g_"+v.Name())
			} else {
				names = append(names, f.nameOf(v, id.Pos()))
			}
			if g.repOf(v.Type(), id.Pos()).k != out.results[i].k {
				g.fail(id.Pos(), "variable %s and result %d of %s have different representations", id.Name, i+1, callee.Name())
			}
		}
		return f.guarded(guards, "let '("+strings.Join(names, ", ")+") := "+call+" in\n"+ind+rest(env, ind), ind, s.Pos())
	}
	if len(s.Rhs) != 1 {
		g.fail(s.Pos(), "assignment %s", ggComment(g.text(s.Pos(), s.End())))
	}
	switch s.Tok {
	case token.DEFINE, token.ASSIGN:
		return f.store(s.Lhs[0], false, func(ggVal) ggVal { return f.expr(s.Rhs[0], env) }, env, rest, ind, s.Pos())
	}
	ops := map[token.Token]token.Token{
		token.ADD_ASSIGN: token.ADD, token.SUB_ASSIGN: token.SUB, token.MUL_ASSIGN: token.MUL, token.QUO_ASSIGN: token.QUO,
		token.REM_ASSIGN: token.REM, token.AND_ASSIGN: token.AND, token.OR_ASSIGN: token.OR, token.XOR_ASSIGN: token.XOR,
		token.SHL_ASSIGN: token.SHL, token.SHR_ASSIGN: token.SHR, token.AND_NOT_ASSIGN: token.AND_NOT,
	}
	op, ok := ops[s.Tok]
	if !ok {
		g.fail(s.Pos(), "assignment operator %s", s.Tok)
	}
	return f.store(s.Lhs[0], true, func(cur ggVal) ggVal {
		b := f.expr(s.Rhs[0], env)
		if (op == token.SHL || op == token.SHR) && b.rep.k != ggN {
			g.fail(s.Pos(), "shift count of signed type")
		}
		return f.arith(op, cur, b, cur.rep, s.Pos())
	}, env, rest, ind, s.Pos())
}

// store: lhs := mk(current value of lhs), then the rest.  lhs is a variable or h[i].
func (f *ggFn) store(lhs ast.Expr, usesCur bool, mk func(cur ggVal) ggVal, env *ggEnv, rest func(*ggEnv, string) string, ind string, pos token.Pos) string {
	g := f.g
	for {
		p, ok := lhs.(*ast.ParenExpr)
		if !ok {
			break
		}
		lhs = p.X
	}
	switch l := lhs.(type) {
	case *ast.Ident:
		if l.Name == "_" {
			v := mk(ggVal{})
			return f.guarded(v.guards, rest(env, ind), ind, pos)
		}
		obj := f.varObj(l)
		if _, isPtr := obj.Type().Underlying().(*types.Pointer); isPtr {
			g.fail(l.Pos(), "assignment to pointer variable %s", l.Name)
		}
		rep := g.repOf(obj.Type(), l.Pos())
		cur := ggVal{rep: rep}
		if usesCur { // op= / ++ / --: the current value is read
			cur = f.variable(l, env, false)
		}
		v := mk(cur)
		if v.rep.k != rep.k {
			g.fail(pos, "assigned value and variable %s have different representations", l.Name)
		}
		name := ""
		if f.isGlobal(obj) {
			name = "g_" + obj.Name()
			env.bound[obj] = true
		} else {
			name = f.nameOf(obj, l.Pos())
		}
		in2 := ind
		if len(v.guards) > 0 {
			in2 = ind + "  "
		}
		return f.guarded(v.guards, "let "+name+" := "+v.s+" in\n"+in2+rest(env, in2), ind, pos)
	case *ast.IndexExpr:
		base := f.arrBase(l.X, env)
		i := f.constIndex(l.Index)
		sel := []string{"fst", "snd"}[i]
		cur := ggVal{s: "(" + sel + " " + base.s + ")", rep: ggRep{ggN, base.rep.w}, ub: ggTypeUB(base.rep.w)}
		v := mk(cur)
		if v.rep.k != ggN {
			g.fail(pos, "array element assigned a non-integer")
		}
		if v.ub == nil || v.ub.Cmp(ggTypeUB(base.rep.w)) > 0 {
			g.fail(pos, "internal: array element value is not bounded by the element type")
		}
		pair := "(" + v.s + ", snd " + base.s + ")"
		if i == 1 {
			pair = "(fst " + base.s + ", " + v.s + ")"
		}
		return f.guarded(v.guards, "let "+base.s+" := "+pair+" in\n"+ind+rest(env, ind), ind, pos)
	}
	g.fail(lhs.Pos(), "assignment target %s is outside the subset", g.text(lhs.Pos(), lhs.End()))
	panic("unreachable")
}

// alwaysNonNilCtor reports whether e is a call of a function of the translated package whose whole body is
// `return &T{...}` (NewUserError, NewFatalError, ...): such a call yields a non-nil error whatever its
// arguments are, and evaluating the arguments has no effect the subset can observe (they are error values
// built by fmt.Errorf / errors.New or plain expressions).  Checked on the declaration's syntax on every run.
func (f *ggFn) alwaysNonNilCtor(e ast.Expr) bool {
	g := f.g
	c, ok := e.(*ast.CallExpr)
	if !ok {
		return false
	}
	id, ok := c.Fun.(*ast.Ident)
	if !ok {
		return false
	}
	fn, ok := g.info.Uses[id].(*types.Func)
	if !ok {
		return false
	}
	decl := g.funcs[fn]
	if decl == nil || decl.Recv != nil || decl.Body == nil || len(decl.Body.List) != 1 {
		return false
	}
	ret, ok := decl.Body.List[0].(*ast.ReturnStmt)
	if !ok || len(ret.Results) != 1 {
		return false
	}
	u, ok := ret.Results[0].(*ast.UnaryExpr)
	if !ok || u.Op != token.AND {
		return false
	}
	if _, ok := u.X.(*ast.CompositeLit); !ok {
		return false
	}
	for _, a := range c.Args { // arguments: only error values known to be side-effect free
		ac, ok := a.(*ast.CallExpr)
		if !ok {
			return false
		}
		sel, ok := ac.Fun.(*ast.SelectorExpr)
		if !ok {
			return false
		}
		pk, ok := sel.X.(*ast.Ident)
		if !ok {
			return false
		}
		pn, ok := g.info.Uses[pk].(*types.PkgName)
		if !ok {
			return false
		}
		p := pn.Imported().Path()
		if !((p == "fmt" && sel.Sel.Name == "Errorf") || (p == "errors" && sel.Sel.Name == "New")) {
			return false
		}
	}
	return true
}
