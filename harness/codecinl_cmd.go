//go:build verif

package main

// codecinl_cmd.go — C06/C07 for data slabs WITH INLINED CHILDREN (shared inlined-extra-data section,
// inlined arrays / maps, compact maps): lock-step trace for the byte-level model CodecInl.v.
//
// The histories are those of `codec` (same World generators, same extra steps codecPut /
// codecInjectCompact / codecSmallScalar, same storage and digesters) restricted to the nested
// flavours, plus one directed step that gives child arrays and child maps the SAME type info (so
// that the section's type-info hoisting is exercised across entry kinds).  Every slab visible in
// storage after every k-th operation and every register after a commit goes through the Go-side
// oracles of `codec` (codecChecker.checkSlab); every DATA slab with at least one inlined child
// is written to trace.txt: operation = structural dump (VerifDumper, children dumped in place),
// answer = the bytes EncodeSlab produced.  The model (engine `codecinl`) must produce the same
// bytes by its own two-pass encoder and checks decode/size/content on its side.

import (
	"fmt"
	"sort"

	"github.com/onflow/atree"
	testutils "github.com/onflow/atree/test_utils"
)

// codecinlInjectShared creates a small child array or child map whose type info is drawn from a
// set shared by both kinds (the World itself types arrays 40..42 and maps 50..52).
func codecinlInjectShared(w *World, depthLeft int) (atree.Value, SV) {
	r := w.Rng
	ti := []uint64{41, 51}[r.Intn(2)]
	fill := func() (atree.Value, SV) {
		if depthLeft > 0 && r.Chance(25) {
			return codecinlInjectShared(w, depthLeft-1)
		}
		v := codecSmallScalar(r)
		return v, &svScalar{v}
	}
	if r.Bool() {
		a, err := atree.NewArray(w.St, w.Addr, w.ti(ti))
		must(err)
		sa := &svArr{arr: a, ti: ti, vid: a.ValueID()}
		for k := r.Intn(3); k > 0; k-- {
			v, s := fill()
			must(a.Append(v))
			sa.elems = append(sa.elems, s)
		}
		return a, sa
	}
	m, err := atree.NewMap(w.St, w.Addr, w.Opts.Digester(), w.ti(ti))
	must(err)
	sm := &svMap{m: m, vals: map[string]SV{}, ti: ti, vid: m.ValueID()}
	for k := r.Intn(3); k > 0; k-- {
		key := testutils.Uint64Value(uint64(r.Intn(1000)))
		if _, dup := sm.vals[keyStr(key)]; dup {
			continue
		}
		v, s := fill()
		old, err := m.Set(testutils.CompareValue, testutils.GetHashInput, key, v)
		must(err)
		if old != nil {
			panic("codecinl: fresh key had a previous value")
		}
		sm.keys = append(sm.keys, key)
		sm.vals[keyStr(key)] = s
	}
	return m, sm
}

type codecinlTracer struct {
	rep    *Report
	tr     *Trace
	seen   map[uint64]bool
	traced int
	maxTr  int
}

// trace writes one data slab with inlined children to the trace (once per distinct state).
func (t *codecinlTracer) trace(ck *codecChecker, slab atree.Slab) {
	defer func() {
		if r := recover(); r != nil {
			ck.bad("C07: panic while dumping/encoding a slab", fmt.Sprint(r))
		}
	}()
	kind := atree.VerifSlabKind(slab)
	if kind != 1 && kind != 3 && kind != 6 {
		return
	}
	cw := codecWalkSlab(slab)
	if cw.inlined == 0 {
		return
	}
	raw, unknown := codecDumpSlab(slab, false)
	if unknown || cw.unknown {
		t.rep.Event("inl_unknown_storable")
		return
	}
	b, err := atree.EncodeSlab(slab, encMode)
	if err != nil {
		return // reported by checkSlab
	}
	fp := hashWords(hashBytes(uint64(kind), b), raw)
	if t.seen[fp] {
		return
	}
	t.seen[fp] = true
	t.rep.Event("inl_distinct_state")
	if t.traced >= t.maxTr {
		t.rep.Event("inl_not_traced")
		return
	}
	t.traced++
	t.rep.Event("inl_traced:" + codecKindNames[kind])
	t.rep.Event(fmt.Sprintf("inl_traced_depth:%d", cw.maxDepth))
	if cw.compact > 0 {
		t.rep.Event("inl_traced_with_compact_map")
	}
	if sec, err := atree.VerifEncodeSections(slab, encMode); err == nil {
		if sec.InlinedExtraDataCount < cw.inlined {
			t.rep.Event("inl_traced_sharing_extra_data")
		}
		t.rep.EventN("inl_section_bytes", sec.EncInlinedExtraData)
	}
	obs := make([]uint64, len(b))
	for i, x := range b {
		obs[i] = uint64(x)
	}
	t.tr.StepU(raw, nil, obs)
}

func init() { register("codecinl", cmdCodecInl) }

// codecinlCommaKeys is the directed reproduction of the finding "makeCompactMapTypeID is not
// injective": two composite-typed child maps of one type whose key names differ but join to the
// same comma-separated string.  The parent slab cannot be encoded (Commit fails).
func codecinlCommaKeys(a Args, rep *Report) {
	cases := [][2][]string{
		{{"a,b"}, {"a", "b"}},
		{{"a,b", "c"}, {"a", "b,c"}},
	}
	for h, cs := range cases {
		tag := fmt.Sprintf("comma%d", h)
		if !want(tag) {
			continue
		}
		func() {
			defer func() {
				if r := recover(); r != nil {
					rep.Violate(h, tag, 0, "C07: panic in implementation", fmt.Sprint(r))
				}
			}()
			base := NewLogBase()
			st := codecStorage(base)
			addr := mkAddr(1)
			parent, err := atree.NewArray(st, addr, testutils.NewSimpleTypeInfo(42))
			must(err)
			for _, keys := range cs {
				m, err := atree.NewMap(st, addr, atree.NewDefaultDigesterBuilder(), codecCompositeTI{1})
				must(err)
				for i, k := range keys {
					_, err := m.Set(testutils.CompareValue, testutils.GetHashInput, testutils.NewStringValue(k), testutils.Uint64Value(i))
					must(err)
				}
				must(parent.Append(m))
			}
			rep.Op("append.compositemap")
			root, found, err := st.Retrieve(parent.SlabID())
			if err != nil || !found {
				rep.Violate(h, tag, 0, "C07: a slab visible in storage cannot be retrieved", fmt.Sprint(err))
				return
			}
			if _, err := atree.EncodeSlab(root, encMode); err != nil {
				rep.Violate(h, tag, 1, "C07: a slab visible in storage cannot be encoded", fmt.Sprintf("child maps with keys %q and %q of one composite type: %v", cs[0], cs[1], err))
			} else {
				rep.Event("comma_keys_encodable")
			}
			if err := st.FastCommit(1); err != nil {
				rep.Violate(h, tag, 2, "C07: commit fails on a storage whose operations all succeeded", err.Error())
			}
			rep.Distinct(tag)
		}()
		rep.Histories++
		rep.Steps += 2
	}
}

func cmdCodecInl(a Args) {
	prop := a.Prop
	if prop == "" {
		prop = "C07"
	}
	rep := NewReport(prop, a.Seed)
	if a.Mode == "commakeys" {
		rep.Rule = "directed: two composite-typed child maps of one type whose key-name sets differ but join to the same comma-separated string (makeCompactMapTypeID); the parent slab must be encodable and the commit must succeed"
		codecinlCommaKeys(a, rep)
		NewTrace(a.Out + "/trace.txt").Close()
		rep.Write(a.Out + "/report.json")
		fmt.Printf("codecinl(commakeys): histories=%d violations=%d\n", rep.Histories, len(rep.Violations))
		return
	}
	rep.Rule = "random World histories (nested flavours of `codec`: nested depth<=3 with wrappers and large values, composite-typed child maps = compact encoding, mixed with forced digest collisions; plus child arrays and maps sharing one type info) at slab sizes {256,300,512,1024,4096}; every slab visible in storage after every k-th operation and every register after each commit: the Go-side oracles of `codec` (size equation with the exact hoisted amount, decode / re-encode / content, head flags); every data slab with inlined children is replayed by the byte-level model (engine codecinl): model bytes == EncodeSlab bytes, decode(bytes) == dump; non-trivial = history with at least one traced slab with inlined children"
	tr := NewTrace(a.Out + "/trace.txt")
	rng := NewRng(a.Seed)
	sizes := []uint32{256, 300, 512, 1024, 4096}
	every := 2
	maxTracePerHist := 150
	if a.Mode == "thorough" {
		maxTracePerHist = 30 // keeps the trace of the thorough tier at a replayable size
	}
	if a.Depth > 2 {
		every = a.Depth
	}
	defer atree.VerifSetThreshold(1024)
	total := 0
	for h := 0; h < a.N; h++ {
		hr := rng.Fork(uint64(h))
		tag := fmt.Sprintf("h%d", h)
		if !want(tag) {
			continue
		}
		T := sizes[hr.Intn(len(sizes))]
		atree.VerifSetThreshold(T)
		flavour := []int{1, 3, 4, 5}[h%4] // codec's 1 nested, 3 compact, 4 mixed; 5 = nested with shared type infos
		opts := WorldOpts{Addr: 1 + uint64(hr.Intn(3)), Maps: true, Wrap: hr.Chance(60), LargeVals: hr.Chance(60), PopChild: true, KeySpace: 60, SelfSet: hr.Chance(40)}
		compact := false
		collide := false
		shared := false
		switch flavour {
		case 1:
			opts.MaxDepth = 1 + hr.Intn(3)
		case 3:
			opts.MaxDepth = 1 + hr.Intn(3)
			compact = true
		case 4:
			opts.MaxDepth = 1 + hr.Intn(2)
			collide = true
			compact = hr.Bool()
		case 5:
			opts.MaxDepth = 1 + hr.Intn(3)
			shared = true
			compact = hr.Chance(30)
		}
		if collide {
			alph := [4]uint64{uint64(2 + hr.Intn(4)), uint64(1 + hr.Intn(3)), uint64(1 + hr.Intn(2)), uint64(1 + hr.Intn(2))}
			opts.Digester = func() atree.DigesterBuilder { return &codecDigesterBuilder{alph: alph} }
			opts.KeySpace = 90
		}
		base := NewLogBase()
		w := NewWorld(base, hr, opts, rep)
		w.St = codecStorage(base)
		// the Go-side oracles of `codec`; maxTr = 0: it never writes to the trace itself
		ck := &codecChecker{rep: rep, tr: tr, hist: h, tag: tag, T: T, compact: compact, seen: map[uint64]bool{}, maxTr: 0}
		it := &codecinlTracer{rep: rep, tr: tr, seen: map[uint64]bool{}, maxTr: maxTracePerHist}
		tr.Hist(tag, codecCompositeTag, uint64(T), uint64(flavour))
		w.Fail = func(what, detail string) {
			rep.Err("workload: " + what)
			panic(codecAbort{})
		}
		checkAll := func() {
			for _, id := range w.LiveIDs() {
				slab, found, err := w.St.Retrieve(id)
				if err != nil {
					ck.bad("C07: a slab visible in storage cannot be retrieved (decode failure)", fmt.Sprintf("%s: %v", id, err))
					continue
				}
				if !found {
					continue
				}
				ck.checkSlab(slab, "mem")
				it.trace(ck, slab)
			}
		}
		checkRegisters := func() {
			ck.checkRegisters(w)
			for _, id := range w.Base.SortedIDs() {
				d, err := atree.DecodeSlab(id, w.Base.Segs[id], codecDecMode, testutils.DecodeStorable, codecDecodeTypeInfo)
				if err != nil {
					continue // reported by checkRegisters
				}
				it.trace(ck, d)
			}
		}
		step := 0
		func() {
			defer func() {
				if r := recover(); r != nil {
					if _, ok := r.(codecAbort); ok {
						return
					}
					ck.bad("C07: panic in implementation", fmt.Sprint(r))
				}
			}()
			nroots := 1 + hr.Intn(2)
			for i := 0; i < nroots; i++ {
				if hr.Bool() {
					w.NewArrayRoot()
				} else {
					w.NewMapRoot()
				}
			}
			for step = 0; step < a.Steps; step++ {
				ck.step = step
				switch {
				case compact && hr.Chance(25):
					codecPut(w, true, func(dl int) (atree.Value, SV) { return codecInjectCompact(w, dl) })
					rep.Op("put.compositemap")
				case shared && hr.Chance(25):
					codecPut(w, true, func(dl int) (atree.Value, SV) { return codecinlInjectShared(w, dl) })
					rep.Op("put.sharedtype")
				case hr.Chance(8):
					codecPut(w, false, func(int) (atree.Value, SV) { v := codecSmallScalar(hr); return v, &svScalar{v} })
					rep.Op("put.smallscalar")
				default:
					w.Step()
				}
				if step%every == every-1 {
					checkAll()
				}
				if step%17 == 16 {
					w.Commit(1 + hr.Intn(3))
					checkRegisters()
					rep.Op("commit")
					if !collide && hr.Chance(40) {
						codecReopen(w)
						rep.Op("reopen")
						codecCompareAll(w)
					}
				}
			}
			checkAll()
		}()
		total += ck.checks
		rep.Histories++
		rep.Steps += step
		if it.traced > 0 {
			rep.Distinct(tag)
		}
	}
	rep.Events["slab_checks"] = total
	tr.Close()
	keys := make([]string, 0, len(rep.Events))
	for k := range rep.Events {
		keys = append(keys, k)
	}
	sort.Strings(keys)
	rep.Sample(fmt.Sprintf("slab checks %d; distinct states with inlined children %d; traced %d steps", total, rep.Events["inl_distinct_state"], tr.Steps))
	rep.Write(a.Out + "/report.json")
	fmt.Printf("codecinl: histories=%d slab_checks=%d inl_distinct=%d traced=%d compact_traced=%d violations=%d\n",
		rep.Histories, total, rep.Events["inl_distinct_state"], tr.Steps, rep.Events["inl_traced_with_compact_map"], len(rep.Violations))
}
