//go:build verif

package main

// gen-go, expressions.  Accepted (everything else is a fatal error naming the construct):
//   - constant expressions of integer/bool type: the value computed by go/types (exact arithmetic,
//     iota, typed constants); a bare reference to a named constant keeps its name (k_<name>);
//   - variables: parameters, receiver, locals, package-level variables (g_<name>);
//   - unsigned arithmetic at the Go type's width w in {8,16,32,64} (`uint` is refused: its width is
//     platform dependent):  + * << are emitted with `mod 2^w` unless the operands' static upper bounds
//     (type bound, constant value, bounds of sub-expressions) prove that the result fits;  - is always
//     `(a + 2^w - b) mod 2^w`;  / % & | ^ &^ >> cannot overflow;  / and % by a non-constant need b <> 0
//     (a definedness guard: the enclosing function becomes partial);
//   - signed integers (Z): constants, variables, comparisons only (no signed arithmetic);
//   - comparisons, && || ! on bool (operands are pure, so short-circuit = andb/orb);
//   - conversions between unsigned types (narrowing = mod 2^w), between types of equal representation;
//   - h[0], h[1] on a [2]T array (or pointer receiver to one), composite literal T{a, b};
//   - calls of functions/methods of the package that are themselves translated, total and free of effects;
//   - float64: ONLY  float64(u) * c  (u unsigned of at most 32 bits, c a constant exactly representable
//     as a dyadic rational) compared with a constant or converted back to an unsigned type.  Such a value
//     is an exact rational num/den (den a power of two, num < 2^53, so float64 arithmetic is exact);
//     comparison is cross-multiplication; uintN(f) is num/den (truncation) guarded by num/den < 2^N
//     because Go leaves the out-of-range conversion implementation-defined;
//   - uintN(math.Ceil(float64(u) / c))  with u an unsigned integer expression below 2^32 and c an integer
//     constant, 0 < c <= 2^20: emitted as the ceiling division (u + (c - 1)) / c.  This is exact although
//     float64(u)/c is ROUNDED: if c divides u the quotient is an integer below 2^53 and exact; otherwise
//     u/c lies at least 1/c >= 2^-20 away from the integers q < u/c < q+1, the rounding error of a
//     correctly rounded float64 below 2^32 is at most 2^-22, so q < fl(u/c) < q+1 and Ceil gives q+1.
//     (GoFuncs_proofs.v: gen_ceil_div_is_ceiling, gen_ceil_div_gap prove the integer side of this argument;
//     the translator also evaluates both sides on some 70000 arguments per divisor on every run.)
//   - r.f.g and len(r.f) where r is the STRUCT receiver of the method being translated (pointer or value
//     receiver), every selection is a direct (not promoted) field selection through struct-typed (not
//     pointer-typed) fields, and the selected field is a sized integer / bool (for len: a slice, map or
//     string): the method gets one parameter per path read (r_f_g, len_r_f), see gengo_stmt.go.
//     Assigning to a field, using the receiver or a struct-typed field as a value, calling a method on it
//     are outside the subset.

import (
	"fmt"
	"go/ast"
	"go/constant"
	"go/token"
	"go/types"
	"math"
	"math/big"
	"sort"
	"strings"
)

type ggRepKind int

const (
	ggN ggRepKind = iota
	ggZ
	ggB
	ggArr2
)

// ggRep is the Gallina representation of a Go type. w = width in bits for N/Z (0: int/uint or untyped),
// for ggArr2 the element width.
type ggRep struct {
	k ggRepKind
	w int
}

func ggCoqType(r ggRep) string {
	switch r.k {
	case ggN:
		return "N"
	case ggZ:
		return "Z"
	case ggB:
		return "bool"
	}
	return "(N * N)"
}

func ggLit(r ggRep, v *big.Int) string {
	if r.k == ggZ {
		if v.Sign() < 0 {
			return "(" + v.String() + ")%Z"
		}
		return v.String() + "%Z"
	}
	return v.String()
}

func ggPow2(w int) *big.Int   { return new(big.Int).Lsh(big.NewInt(1), uint(w)) }
func ggTypeUB(w int) *big.Int { return new(big.Int).Sub(ggPow2(w), big.NewInt(1)) }
func ggMin(a, b *big.Int) *big.Int {
	if a.Cmp(b) <= 0 {
		return a
	}
	return b
}
func ggAllOnes(a, b *big.Int) *big.Int { // smallest 2^k-1 >= max(a,b)
	m := a
	if b.Cmp(a) > 0 {
		m = b
	}
	return ggTypeUB(m.BitLen())
}

func (g *ggGen) repOf(t types.Type, pos token.Pos) ggRep {
	switch u := t.Underlying().(type) {
	case *types.Basic:
		switch u.Kind() {
		case types.Bool, types.UntypedBool:
			return ggRep{k: ggB}
		case types.Uint8:
			return ggRep{ggN, 8}
		case types.Uint16:
			return ggRep{ggN, 16}
		case types.Uint32:
			return ggRep{ggN, 32}
		case types.Uint64:
			return ggRep{ggN, 64}
		case types.Uint:
			return ggRep{ggN, 0}
		case types.Int8:
			return ggRep{ggZ, 8}
		case types.Int16:
			return ggRep{ggZ, 16}
		case types.Int32:
			return ggRep{ggZ, 32}
		case types.Int64:
			return ggRep{ggZ, 64}
		case types.Int:
			return ggRep{ggZ, 0}
		}
	case *types.Array:
		if u.Len() == 2 {
			if e := g.repOf(u.Elem(), pos); e.k == ggN && e.w > 0 {
				return ggRep{ggArr2, e.w}
			}
		}
		g.fail(pos, "array type %s (only [2]<sized unsigned integer> is in the subset)", t)
	case *types.Pointer:
		if _, ok := u.Elem().Underlying().(*types.Array); ok {
			return g.repOf(u.Elem(), pos)
		}
	}
	g.fail(pos, "type %s is outside the subset (sized integers, bool, [2]byte-like arrays)", t)
	panic("unreachable")
}

// ggVal is a translated expression.
type ggVal struct {
	s      string   // Gallina term; compound terms are parenthesised
	rep    ggRep    //
	ub     *big.Int // ggN: inclusive static upper bound
	cst    *big.Int // constant integer value, if known
	guards []string // definedness conditions (bool terms) under which s means what Go computes
}

func ggIsFloat(t types.Type) bool {
	b, ok := t.Underlying().(*types.Basic)
	return ok && b.Info()&types.IsFloat != 0
}

func ggIsUntyped(t types.Type) bool {
	b, ok := t.(*types.Basic)
	return ok && b.Info()&types.IsUntyped != 0
}

func (f *ggFn) tv(e ast.Expr) types.TypeAndValue {
	tv, ok := f.g.info.Types[e]
	if !ok || tv.Type == nil {
		f.g.fail(e.Pos(), "no type information for expression %s", f.g.text(e.Pos(), e.End()))
	}
	return tv
}

// constVal: an expression with a compile-time value.
func (f *ggFn) constVal(e ast.Expr, tv types.TypeAndValue) ggVal {
	g := f.g
	if tv.Value.Kind() == constant.Bool {
		if constant.BoolVal(tv.Value) {
			return ggVal{s: "true", rep: ggRep{k: ggB}}
		}
		return ggVal{s: "false", rep: ggRep{k: ggB}}
	}
	if ggIsFloat(tv.Type) {
		g.fail(e.Pos(), "floating-point constant %s outside the pattern float64(u)*c", g.text(e.Pos(), e.End()))
	}
	iv := constant.ToInt(tv.Value)
	if iv.Kind() != constant.Int {
		g.fail(e.Pos(), "constant %s of kind %s (only integer and bool constants)", g.text(e.Pos(), e.End()), tv.Value.Kind())
	}
	v := ggBig(iv)
	var rep ggRep
	if ggIsUntyped(tv.Type) {
		rep = ggRep{k: ggN}
		if v.Sign() < 0 {
			rep = ggRep{k: ggZ}
		}
	} else {
		rep = g.repOf(tv.Type, e.Pos())
	}
	if rep.k != ggN && rep.k != ggZ {
		g.fail(e.Pos(), "constant %s of type %s", g.text(e.Pos(), e.End()), tv.Type)
	}
	if rep.k == ggN && v.Sign() < 0 {
		g.fail(e.Pos(), "negative constant in unsigned context")
	}
	out := ggVal{rep: rep, cst: v, ub: v}
	if name, ok := f.constRef(e, v, rep.k); ok {
		out.s = name
		return out
	}
	out.s = ggLit(rep, v)
	return out
}

// constRef: e is a bare (parenthesised) reference to a named constant, possibly under value-preserving
// conversions such as uint32(digestSize): the constant keeps its name (its value is re-checked against v,
// the value go/types computed for e).  want = representation (ggN / ggZ) the context needs.
func (f *ggFn) constRef(e ast.Expr, v *big.Int, want ggRepKind) (string, bool) {
	g := f.g
	x := e
	for {
		if p, ok := x.(*ast.ParenExpr); ok {
			x = p.X
			continue
		}
		if c, ok := x.(*ast.CallExpr); ok && len(c.Args) == 1 {
			if ftv, ok := g.info.Types[c.Fun]; ok && ftv.IsType() {
				x = c.Args[0]
				continue
			}
		}
		break
	}
	var id *ast.Ident
	switch y := x.(type) {
	case *ast.Ident:
		id = y
	case *ast.SelectorExpr:
		if pk, ok := y.X.(*ast.Ident); ok {
			if _, isPkg := g.info.Uses[pk].(*types.PkgName); isPkg {
				id = y.Sel
			}
		}
	}
	if id == nil {
		return "", false
	}
	c, ok := g.info.Uses[id].(*types.Const)
	if !ok || c.Pkg() == nil {
		return "", false
	}
	crep, cv := g.constRep(c, e.Pos())
	if cv.Cmp(v) != 0 {
		g.fail(e.Pos(), "internal: constant %s evaluates to %s here but %s at its declaration", c.Name(), v, cv)
	}
	name := g.constName(c)
	if c.Pkg() == g.pkg {
		g.usedConsts[c] = true
	} else {
		g.extConsts[name] = c
	}
	switch {
	case crep.k == want:
		return name, true
	case crep.k == ggN && want == ggZ:
		return "(Z.of_N " + name + ")", true
	default: // Z constant (>= 0 here) in unsigned context
		return "(Z.to_N " + name + ")", true
	}
}

func (f *ggFn) expr(e ast.Expr, env *ggEnv) ggVal {
	g := f.g
	tv := f.tv(e)
	if tv.Value != nil {
		return f.constVal(e, tv)
	}
	if tv.IsNil() {
		g.fail(e.Pos(), "nil outside a return statement")
	}
	if ggIsFloat(tv.Type) {
		g.fail(e.Pos(), "floating-point expression %s outside the pattern float64(u)*c {compared with a constant | converted to an unsigned type}", g.text(e.Pos(), e.End()))
	}
	switch x := e.(type) {
	case *ast.ParenExpr:
		return f.expr(x.X, env)
	case *ast.Ident:
		return f.variable(x, env, false)
	case *ast.SelectorExpr:
		return f.recvField(x, false)
	case *ast.BinaryExpr:
		return f.binary(x, env)
	case *ast.UnaryExpr:
		return f.unary(x, env)
	case *ast.CallExpr:
		return f.call(x, env)
	case *ast.IndexExpr:
		base := f.arrBase(x.X, env)
		i := f.constIndex(x.Index)
		sel := "fst"
		if i == 1 {
			sel = "snd"
		}
		return ggVal{s: "(" + sel + " " + base.s + ")", rep: ggRep{ggN, base.rep.w}, ub: ggTypeUB(base.rep.w)}
	case *ast.CompositeLit:
		rep := g.repOf(tv.Type, e.Pos())
		if rep.k != ggArr2 {
			g.fail(e.Pos(), "composite literal of type %s", tv.Type)
		}
		if len(x.Elts) == 0 {
			return ggVal{s: "(0, 0)", rep: rep}
		}
		if len(x.Elts) != 2 {
			g.fail(e.Pos(), "composite literal with %d elements for a 2-element array", len(x.Elts))
		}
		var parts []string
		var guards []string
		for _, el := range x.Elts {
			if _, kv := el.(*ast.KeyValueExpr); kv {
				g.fail(el.Pos(), "keyed composite literal")
			}
			v := f.expr(el, env)
			parts = append(parts, v.s)
			guards = append(guards, v.guards...)
		}
		return ggVal{s: "(" + parts[0] + ", " + parts[1] + ")", rep: rep, guards: guards}
	}
	g.fail(e.Pos(), "expression form %T (%s) is outside the subset", e, g.text(e.Pos(), e.End()))
	panic("unreachable")
}

func (f *ggFn) constIndex(e ast.Expr) int {
	tv := f.tv(e)
	if tv.Value == nil {
		f.g.fail(e.Pos(), "non-constant array index")
	}
	i, ok := constant.Int64Val(constant.ToInt(tv.Value))
	if !ok || i < 0 || i > 1 {
		f.g.fail(e.Pos(), "array index %s out of range for a 2-element array", tv.Value)
	}
	return int(i)
}

// arrBase: the array operand of an index expression / method call: a variable of array type or the
// pointer receiver.
func (f *ggFn) arrBase(e ast.Expr, env *ggEnv) ggVal {
	for {
		p, ok := e.(*ast.ParenExpr)
		if !ok {
			break
		}
		e = p.X
	}
	id, ok := e.(*ast.Ident)
	if !ok {
		f.g.fail(e.Pos(), "array operand %s is not a plain variable", f.g.text(e.Pos(), e.End()))
	}
	v := f.variable(id, env, true)
	if v.rep.k != ggArr2 {
		f.g.fail(e.Pos(), "%s is not a 2-element array", id.Name)
	}
	return v
}

func (f *ggFn) varObj(id *ast.Ident) *types.Var {
	o := f.g.info.Uses[id]
	if o == nil {
		o = f.g.info.Defs[id]
	}
	v, ok := o.(*types.Var)
	if !ok {
		f.g.fail(id.Pos(), "identifier %s does not denote a variable or constant (%T)", id.Name, o)
	}
	if v.IsField() {
		f.g.fail(id.Pos(), "struct field %s", id.Name)
	}
	return v
}

func (f *ggFn) isGlobal(v *types.Var) bool { return v.Parent() == f.g.pkg.Scope() }

func (f *ggFn) variable(id *ast.Ident, env *ggEnv, asArray bool) ggVal {
	g := f.g
	v := f.varObj(id)
	if _, isPtr := v.Type().Underlying().(*types.Pointer); isPtr && !asArray {
		g.fail(id.Pos(), "pointer %s used as a value", id.Name)
	}
	rep := g.repOf(v.Type(), id.Pos())
	out := ggVal{rep: rep}
	if rep.k == ggN && rep.w > 0 {
		out.ub = ggTypeUB(rep.w)
	}
	if f.isGlobal(v) {
		if _, known := g.varPos[v]; !known {
			g.fail(id.Pos(), "package-level variable %s has no declaration in the parsed files", id.Name)
		}
		if !env.bound[v] {
			f.readGlobals[v] = true
		}
		out.s = "g_" + v.Name()
		return out
	}
	out.s = f.nameOf(v, id.Pos())
	return out
}

func (f *ggFn) needWidth(v ggVal, pos token.Pos, what string) int {
	if v.rep.k != ggN {
		f.g.fail(pos, "%s on a signed integer type (only unsigned arithmetic is in the subset)", what)
	}
	if v.rep.w == 0 {
		f.g.fail(pos, "%s on `uint`, whose width is platform dependent", what)
	}
	return v.rep.w
}

func ggCmp(op token.Token, a, b string, z bool) string {
	sfx := ""
	if z {
		sfx = "%Z"
	}
	switch op {
	case token.EQL:
		return "(" + a + " =? " + b + ")" + sfx
	case token.NEQ:
		return "(negb (" + a + " =? " + b + ")" + sfx + ")"
	case token.LSS:
		return "(" + a + " <? " + b + ")" + sfx
	case token.LEQ:
		return "(" + a + " <=? " + b + ")" + sfx
	case token.GTR:
		return "(" + b + " <? " + a + ")" + sfx
	case token.GEQ:
		return "(" + b + " <=? " + a + ")" + sfx
	}
	panic("ggCmp")
}

func (f *ggFn) binary(x *ast.BinaryExpr, env *ggEnv) ggVal {
	g := f.g
	switch x.Op {
	case token.LAND, token.LOR:
		a, b := f.expr(x.X, env), f.expr(x.Y, env)
		if a.rep.k != ggB || b.rep.k != ggB {
			g.fail(x.Pos(), "%s on non-boolean operands", x.Op)
		}
		if len(b.guards) > 0 {
			g.fail(x.Y.Pos(), "right operand of %s can fail (division / float conversion): short-circuit evaluation would be needed", x.Op)
		}
		fn := "andb"
		if x.Op == token.LOR {
			fn = "orb"
		}
		return ggVal{s: "(" + fn + " " + a.s + " " + b.s + ")", rep: ggRep{k: ggB}, guards: a.guards}
	case token.EQL, token.NEQ, token.LSS, token.LEQ, token.GTR, token.GEQ:
		if ggIsFloat(f.tv(x.X).Type) || ggIsFloat(f.tv(x.Y).Type) {
			return f.floatCmp(x, env)
		}
		if x.Op == token.EQL || x.Op == token.NEQ { // r.f == nil / r.f != nil on a field of the struct receiver
			var other ast.Expr
			if f.tv(x.Y).IsNil() {
				other = x.X
			} else if f.tv(x.X).IsNil() {
				other = x.Y
			}
			if other != nil {
				v := f.recvNil(other)
				if x.Op == token.NEQ {
					v.s = "(negb " + v.s + ")"
				}
				return v
			}
		}
		a, b := f.expr(x.X, env), f.expr(x.Y, env)
		guards := append(append([]string{}, a.guards...), b.guards...)
		if a.rep.k != b.rep.k {
			g.fail(x.Pos(), "comparison of operands with different representations (%s)", g.text(x.Pos(), x.End()))
		}
		switch a.rep.k {
		case ggN, ggZ:
			return ggVal{s: ggCmp(x.Op, a.s, b.s, a.rep.k == ggZ), rep: ggRep{k: ggB}, guards: guards}
		case ggB:
			if x.Op == token.EQL {
				return ggVal{s: "(Bool.eqb " + a.s + " " + b.s + ")", rep: ggRep{k: ggB}, guards: guards}
			}
			if x.Op == token.NEQ {
				return ggVal{s: "(xorb " + a.s + " " + b.s + ")", rep: ggRep{k: ggB}, guards: guards}
			}
		}
		g.fail(x.Pos(), "comparison %s on type %s", x.Op, f.tv(x.X).Type)
	}
	// arithmetic
	tv := f.tv(x)
	rep := g.repOf(tv.Type, x.Pos())
	a := f.expr(x.X, env)
	var b ggVal
	if x.Op == token.SHL || x.Op == token.SHR {
		b = f.expr(x.Y, env)
		if b.rep.k != ggN && !(b.cst != nil && b.cst.Sign() >= 0) {
			g.fail(x.Y.Pos(), "shift count of signed non-constant type")
		}
		if b.rep.k == ggZ { // non-negative constant
			b = ggVal{s: b.cst.String(), rep: ggRep{k: ggN}, cst: b.cst, ub: b.cst}
		}
	} else {
		b = f.expr(x.Y, env)
		if b.rep != a.rep && !(b.rep.k == a.rep.k && (b.cst != nil || a.cst != nil)) {
			g.fail(x.Pos(), "operands of %s have different types", x.Op)
		}
	}
	return f.arith(x.Op, a, b, rep, x.Pos())
}

// arith: unsigned arithmetic at width rep.w.
func (f *ggFn) arith(op token.Token, a, b ggVal, rep ggRep, pos token.Pos) ggVal {
	g := f.g
	w := f.needWidth(ggVal{rep: rep}, pos, "operator "+op.String())
	tub := ggTypeUB(w)
	if a.ub == nil || (b.ub == nil && b.rep.k == ggN && b.rep.w == 0 && b.cst == nil) {
		g.fail(pos, "operator %s: operand without a static bound", op)
	}
	if a.ub.Cmp(tub) > 0 {
		a.ub = tub
	}
	out := ggVal{rep: rep, guards: append(append([]string{}, a.guards...), b.guards...)}
	mod := func(s string) string { return "((" + s + ") mod " + ggPow2(w).String() + ")" }
	switch op {
	case token.ADD:
		s := new(big.Int).Add(a.ub, b.ub)
		if s.Cmp(tub) <= 0 {
			out.s, out.ub = "("+a.s+" + "+b.s+")", s
		} else {
			out.s, out.ub = mod(a.s+" + "+b.s), tub
		}
	case token.SUB:
		out.s, out.ub = mod(a.s+" + "+ggPow2(w).String()+" - "+b.s), tub
	case token.MUL:
		s := new(big.Int).Mul(a.ub, b.ub)
		if s.Cmp(tub) <= 0 {
			out.s, out.ub = "("+a.s+" * "+b.s+")", s
		} else {
			out.s, out.ub = mod(a.s+" * "+b.s), tub
		}
	case token.QUO, token.REM:
		if b.cst != nil {
			if b.cst.Sign() == 0 {
				g.fail(pos, "division by the constant 0")
			}
		} else {
			out.guards = append(out.guards, "(negb ("+b.s+" =? 0))")
		}
		if op == token.QUO {
			out.s, out.ub = "("+a.s+" / "+b.s+")", a.ub
			if b.cst != nil {
				out.ub = new(big.Int).Quo(a.ub, b.cst)
			}
		} else {
			out.s, out.ub = "("+a.s+" mod "+b.s+")", ggMin(a.ub, b.ub)
		}
	case token.AND:
		out.s, out.ub = "(N.land "+a.s+" "+b.s+")", ggMin(a.ub, b.ub)
	case token.OR:
		out.s, out.ub = "(N.lor "+a.s+" "+b.s+")", ggAllOnes(a.ub, b.ub)
	case token.XOR:
		out.s, out.ub = "(N.lxor "+a.s+" "+b.s+")", ggAllOnes(a.ub, b.ub)
	case token.AND_NOT:
		out.s, out.ub = "(N.ldiff "+a.s+" "+b.s+")", a.ub
	case token.SHL:
		sh := "(N.shiftl " + a.s + " " + b.s + ")"
		if b.cst != nil && b.cst.IsInt64() && b.cst.Int64() < 4096 {
			s := new(big.Int).Lsh(a.ub, uint(b.cst.Int64()))
			if s.Cmp(tub) <= 0 {
				out.s, out.ub = sh, s
				break
			}
		}
		out.s, out.ub = "("+sh+" mod "+ggPow2(w).String()+")", tub
	case token.SHR:
		out.s, out.ub = "(N.shiftr "+a.s+" "+b.s+")", a.ub
		if b.cst != nil && b.cst.IsInt64() && b.cst.Int64() < 4096 {
			out.ub = new(big.Int).Rsh(a.ub, uint(b.cst.Int64()))
		}
	default:
		g.fail(pos, "operator %s is outside the subset", op)
	}
	return out
}

func (f *ggFn) unary(x *ast.UnaryExpr, env *ggEnv) ggVal {
	g := f.g
	switch x.Op {
	case token.NOT:
		a := f.expr(x.X, env)
		if a.rep.k != ggB {
			g.fail(x.Pos(), "! on a non-boolean")
		}
		return ggVal{s: "(negb " + a.s + ")", rep: a.rep, guards: a.guards}
	case token.ADD:
		return f.expr(x.X, env)
	case token.XOR: // bitwise complement
		a := f.expr(x.X, env)
		w := f.needWidth(a, x.Pos(), "operator ^")
		return ggVal{s: "(N.lxor " + a.s + " " + ggTypeUB(w).String() + ")", rep: a.rep, ub: ggTypeUB(w), guards: a.guards}
	case token.SUB:
		a := f.expr(x.X, env)
		w := f.needWidth(a, x.Pos(), "unary -")
		return ggVal{s: "((" + ggPow2(w).String() + " - " + a.s + ") mod " + ggPow2(w).String() + ")", rep: a.rep, ub: ggTypeUB(w), guards: a.guards}
	case token.AND:
		g.fail(x.Pos(), "address-of outside `return &x`")
	}
	g.fail(x.Pos(), "unary operator %s is outside the subset", x.Op)
	panic("unreachable")
}

// ---------------------------------------------------------------------------------------------
// float64(u) * c

type ggRat struct {
	num    string
	numUB  *big.Int
	den    *big.Int
	guards []string
}

var ggTwo53 = ggPow2(53)

func (f *ggFn) ratOfConst(e ast.Expr, v constant.Value) ggRat {
	fv, exact := constant.Float64Val(constant.ToFloat(v))
	r := new(big.Rat)
	if !exact || r.SetFloat64(fv) == nil || r.Sign() < 0 {
		f.g.fail(e.Pos(), "constant %s is not a non-negative value exactly representable in float64", f.g.text(e.Pos(), e.End()))
	}
	if r.Num().Cmp(ggTwo53) >= 0 {
		f.g.fail(e.Pos(), "constant %s needs more than 53 bits", f.g.text(e.Pos(), e.End()))
	}
	return ggRat{num: r.Num().String(), numUB: new(big.Int).Set(r.Num()), den: new(big.Int).Set(r.Denom())}
}

func (f *ggFn) floatExpr(e ast.Expr, env *ggEnv) ggRat {
	g := f.g
	tv := f.tv(e)
	if tv.Value != nil {
		return f.ratOfConst(e, tv.Value)
	}
	switch x := e.(type) {
	case *ast.ParenExpr:
		return f.floatExpr(x.X, env)
	case *ast.CallExpr:
		if ftv, ok := g.info.Types[x.Fun]; ok && ftv.IsType() && len(x.Args) == 1 {
			if b, ok := ftv.Type.Underlying().(*types.Basic); !ok || b.Kind() != types.Float64 {
				g.fail(e.Pos(), "conversion to %s (only float64)", ftv.Type)
			}
			a := f.expr(x.Args[0], env)
			if a.rep.k != ggN || a.ub == nil || a.ub.Cmp(ggPow2(32)) >= 0 {
				g.fail(e.Pos(), "float64(x) where x is not an unsigned integer below 2^32")
			}
			return ggRat{num: a.s, numUB: a.ub, den: big.NewInt(1), guards: a.guards}
		}
	case *ast.BinaryExpr:
		if x.Op == token.MUL {
			l, r := f.tv(x.X), f.tv(x.Y)
			var c, v ggRat
			switch {
			case r.Value != nil:
				c, v = f.ratOfConst(x.Y, r.Value), f.floatExpr(x.X, env)
			case l.Value != nil:
				c, v = f.ratOfConst(x.X, l.Value), f.floatExpr(x.Y, env)
			default:
				g.fail(e.Pos(), "product of two non-constant floating-point values")
			}
			ub := new(big.Int).Mul(c.numUB, v.numUB)
			if ub.Cmp(ggTwo53) >= 0 {
				g.fail(e.Pos(), "floating-point product may need more than 53 bits: float64 arithmetic would round")
			}
			num := v.num
			if c.numUB.Cmp(big.NewInt(1)) != 0 {
				num = "(" + c.num + " * " + v.num + ")"
			}
			return ggRat{num: num, numUB: ub, den: new(big.Int).Mul(c.den, v.den), guards: v.guards}
		}
	}
	g.fail(e.Pos(), "floating-point expression %s outside the pattern float64(u)*c", g.text(e.Pos(), e.End()))
	panic("unreachable")
}

func ggScale(num string, k *big.Int) string {
	if k.Cmp(big.NewInt(1)) == 0 {
		return num
	}
	return "(" + num + " * " + k.String() + ")"
}

func (f *ggFn) floatCmp(x *ast.BinaryExpr, env *ggEnv) ggVal {
	a, b := f.floatExpr(x.X, env), f.floatExpr(x.Y, env)
	// a.num/a.den OP b.num/b.den  <=>  a.num*b.den OP b.num*a.den   (denominators positive)
	l, r := ggScale(a.num, b.den), ggScale(b.num, a.den)
	return ggVal{s: ggCmp(x.Op, l, r, false), rep: ggRep{k: ggB}, guards: append(append([]string{}, a.guards...), b.guards...)}
}

// ---------------------------------------------------------------------------------------------
// conversions and calls

func (f *ggFn) call(x *ast.CallExpr, env *ggEnv) ggVal {
	g := f.g
	if x.Ellipsis.IsValid() {
		g.fail(x.Pos(), "variadic call")
	}
	if ftv, ok := g.info.Types[x.Fun]; ok && ftv.IsType() {
		if len(x.Args) != 1 {
			g.fail(x.Pos(), "conversion with %d arguments", len(x.Args))
		}
		to := g.repOf(ftv.Type, x.Pos())
		if ggIsFloat(f.tv(x.Args[0]).Type) && f.tv(x.Args[0]).Value == nil {
			if to.k != ggN || to.w == 0 {
				g.fail(x.Pos(), "conversion of a floating-point value to %s (only sized unsigned types)", ftv.Type)
			}
			if v, ok := f.ceilDiv(x.Args[0], env, to, x.Pos()); ok {
				return v
			}
			r := f.floatExpr(x.Args[0], env)
			q := "(" + r.num + " / " + r.den.String() + ")"
			if r.den.Cmp(big.NewInt(1)) == 0 {
				q = r.num
			}
			ub := new(big.Int).Quo(r.numUB, r.den)
			guards := append([]string{}, r.guards...)
			if ub.Cmp(ggTypeUB(to.w)) > 0 {
				// Go: "if the value cannot be represented by the type the behavior is implementation-dependent"
				guards = append(guards, "("+q+" <? "+ggPow2(to.w).String()+")")
				ub = ggTypeUB(to.w)
			}
			return ggVal{s: q, rep: to, ub: ub, guards: guards}
		}
		a := f.expr(x.Args[0], env)
		switch {
		case a.rep.k == ggN && to.k == ggN:
			if to.w == 0 {
				g.fail(x.Pos(), "conversion to `uint`, whose width is platform dependent")
			}
			if a.ub == nil {
				g.fail(x.Pos(), "conversion from `uint`, whose width is platform dependent")
			}
			out := ggVal{s: a.s, rep: to, ub: a.ub, cst: a.cst, guards: a.guards}
			if a.ub.Cmp(ggTypeUB(to.w)) > 0 {
				out.s, out.ub, out.cst = "("+a.s+" mod "+ggPow2(to.w).String()+")", ggTypeUB(to.w), nil
			}
			return out
		case a.rep.k == ggZ && to.k == ggZ && (to.w == a.rep.w || (a.rep.w != 0 && to.w >= a.rep.w)):
			return ggVal{s: a.s, rep: to, cst: a.cst, guards: a.guards}
		case a.rep.k == to.k && (a.rep.k == ggB || a.rep == to):
			a.rep = to
			return a
		}
		g.fail(x.Pos(), "conversion %s (signed/unsigned or narrowing signed conversions are outside the subset)", g.text(x.Pos(), x.End()))
	}
	if id, ok := ggUnparen(x.Fun).(*ast.Ident); ok && len(x.Args) == 1 {
		if b, ok := g.info.Uses[id].(*types.Builtin); ok && b.Name() == "len" {
			return f.recvField(x.Args[0], true)
		}
	}
	callee, recv := f.callee(x)
	out := g.translate(callee, x.Pos())
	if out.partial {
		g.fail(x.Pos(), "call of %s, which can panic or fail, inside an expression", callee.Name())
	}
	if out.recvMut || len(out.assigned) > 0 {
		g.fail(x.Pos(), "call of %s, which has effects (receiver / package variables), inside an expression", callee.Name())
	}
	if len(out.results) != 1 {
		g.fail(x.Pos(), "call of %s with %d results inside an expression", callee.Name(), len(out.results))
	}
	s, guards := f.callText(out, recv, x.Args, env)
	v := ggVal{s: s, rep: out.results[0], guards: guards}
	if v.rep.k == ggN && v.rep.w > 0 {
		v.ub = ggTypeUB(v.rep.w)
	}
	return v
}

// callee resolves the function object of a call and its receiver expression (nil for plain functions).
func (f *ggFn) callee(x *ast.CallExpr) (*types.Func, ast.Expr) {
	g := f.g
	fun := x.Fun
	for {
		p, ok := fun.(*ast.ParenExpr)
		if !ok {
			break
		}
		fun = p.X
	}
	switch y := fun.(type) {
	case *ast.Ident:
		switch o := g.info.Uses[y].(type) {
		case *types.Func:
			if o.Pkg() == g.pkg {
				return o, nil
			}
		case *types.Builtin:
			g.fail(x.Pos(), "builtin %s is outside the subset", o.Name())
		}
	case *ast.SelectorExpr:
		if o, ok := g.info.Uses[y.Sel].(*types.Func); ok {
			if o.Pkg() != g.pkg {
				g.fail(x.Pos(), "call of external function %s.%s", o.Pkg().Name(), o.Name())
			}
			if sig := o.Type().(*types.Signature); sig.Recv() != nil {
				return o, y.X
			}
			return o, nil
		}
	}
	g.fail(x.Pos(), "call %s is not a call of a function or method of the package", g.text(x.Pos(), x.End()))
	panic("unreachable")
}

// callText: "(name g_implicit... recv args...)".
func (f *ggFn) callText(out *ggFnOut, recv ast.Expr, args []ast.Expr, env *ggEnv) (string, []string) {
	if out.recvStruct {
		pos := token.NoPos
		if recv != nil {
			pos = recv.Pos()
		}
		f.g.fail(pos, "call of %s, a method on a struct receiver, from translated code (only top-level translation of such methods is in the subset)", out.name)
	}
	parts := []string{out.name}
	var guards []string
	for _, gv := range out.implicit {
		if !env.bound[gv] {
			f.readGlobals[gv] = true
		}
		parts = append(parts, "g_"+gv.Name())
	}
	if recv != nil {
		parts = append(parts, f.arrBase(recv, env).s)
	}
	if len(args) != len(out.params) {
		f.g.fail(token.NoPos, "call of %s with %d arguments for %d parameters", out.name, len(args), len(out.params))
	}
	for i, a := range args {
		v := f.expr(a, env)
		if v.rep.k != out.params[i].k {
			f.g.fail(a.Pos(), "argument %d of %s has a different representation", i+1, out.name)
		}
		parts = append(parts, v.s)
		guards = append(guards, v.guards...)
	}
	return "(" + strings.Join(parts, " ") + ")", guards
}

func ggUnparen(e ast.Expr) ast.Expr {
	for {
		p, ok := e.(*ast.ParenExpr)
		if !ok {
			return e
		}
		e = p.X
	}
}

// ---------------------------------------------------------------------------------------------
// uintN(math.Ceil(float64(u) / c))

var ggTwo20 = ggPow2(20)

// ceilDiv: ok = false when e is not a call of math.Ceil (the caller goes on with the float64(u)*c
// pattern); a call of math.Ceil that does not fit the pattern exactly is a fatal error.
func (f *ggFn) ceilDiv(e ast.Expr, env *ggEnv, to ggRep, pos token.Pos) (ggVal, bool) {
	g := f.g
	c, ok := ggUnparen(e).(*ast.CallExpr)
	if !ok || len(c.Args) != 1 {
		return ggVal{}, false
	}
	sel, ok := ggUnparen(c.Fun).(*ast.SelectorExpr)
	if !ok {
		return ggVal{}, false
	}
	fn, ok := g.info.Uses[sel.Sel].(*types.Func)
	if !ok || fn.Pkg() == nil || fn.Pkg().Path() != "math" || fn.Name() != "Ceil" {
		return ggVal{}, false
	}
	const pat = "math.Ceil(float64(u) / c) with u an unsigned integer below 2^32 and c an integer constant, 0 < c <= 2^20"
	q, ok := ggUnparen(c.Args[0]).(*ast.BinaryExpr)
	if !ok || q.Op != token.QUO {
		g.fail(c.Pos(), "%s is outside the pattern %s", g.text(c.Pos(), c.End()), pat)
	}
	dtv := f.tv(q.Y)
	if dtv.Value == nil {
		g.fail(q.Y.Pos(), "divisor %s is not a constant (pattern: %s)", g.text(q.Y.Pos(), q.Y.End()), pat)
	}
	dc := constant.ToInt(dtv.Value)
	if dc.Kind() != constant.Int {
		g.fail(q.Y.Pos(), "divisor %s is not an integer (pattern: %s)", g.text(q.Y.Pos(), q.Y.End()), pat)
	}
	d := ggBig(dc)
	if d.Sign() <= 0 || d.Cmp(ggTwo20) > 0 {
		g.fail(q.Y.Pos(), "divisor %s out of range (pattern: %s)", d, pat)
	}
	if f.tv(q.X).Value != nil {
		g.fail(q.X.Pos(), "constant dividend (pattern: %s)", pat)
	}
	num := f.floatExpr(q.X, env)
	if num.den.Cmp(big.NewInt(1)) != 0 || num.numUB.Cmp(ggPow2(32)) >= 0 {
		g.fail(q.X.Pos(), "dividend %s is not an integer below 2^32 (pattern: %s)", g.text(q.X.Pos(), q.X.End()), pat)
	}
	ggCeilSelfCheck(g, d.Uint64(), q.Pos())
	dn, named := f.constRef(q.Y, d, ggN)
	if !named {
		dn = d.String()
	}
	s := "((" + num.num + " + (" + dn + " - 1)) / " + dn + ")"
	ub := new(big.Int).Add(new(big.Int).Quo(num.numUB, d), big.NewInt(1))
	guards := append([]string{}, num.guards...)
	if ub.Cmp(ggTypeUB(to.w)) > 0 {
		guards = append(guards, "("+s+" <? "+ggPow2(to.w).String()+")")
		ub = ggTypeUB(to.w)
	}
	return ggVal{s: s, rep: to, ub: ub, guards: guards}, true
}

var ggCeilChecked = map[uint64]bool{}

// ggCeilSelfCheck evaluates uint64(math.Ceil(float64(u)/c)) and (u + c - 1) / c on the arguments where a
// rounding problem would show first (around every multiple of c near 0 and near 2^32, around the powers of
// two, and the first 2^16 values) with the float64 arithmetic of the machine that runs the translator.
func ggCeilSelfCheck(g *ggGen, c uint64, pos token.Pos) {
	if ggCeilChecked[c] {
		return
	}
	ggCeilChecked[c] = true
	check := func(u uint64) {
		if u >= 1<<32 {
			return
		}
		if got, want := uint64(math.Ceil(float64(uint32(u))/float64(c))), (u+c-1)/c; got != want {
			g.fail(pos, "internal: math.Ceil(float64(%d) / %d) = %d but the ceiling division gives %d", u, c, got, want)
		}
	}
	for u := uint64(0); u < 1<<16; u++ {
		check(u)
		check(1<<32 - 1 - u)
	}
	top := (uint64(1)<<32 - 1) / c
	for k := uint64(0); k < 1<<12; k++ {
		for _, m := range []uint64{k, top - k} {
			if m*c >= 1 {
				check(m*c - 1)
			}
			check(m * c)
			check(m*c + 1)
		}
	}
	for b := uint(0); b <= 32; b++ {
		for d := uint64(0); d <= 2*c+2; d++ {
			check(uint64(1)<<b + d)
			if uint64(1)<<b >= d {
				check(uint64(1)<<b - d)
			}
		}
	}
}

// ---------------------------------------------------------------------------------------------
// scalar fields of a struct receiver

type ggRecvField struct {
	name  string // Gallina parameter
	text  string // Go expression it stands for
	idx   []int  // field indices from the receiver's struct type down
	isLen bool
	rep   ggRep
}

// recvPath: the field names / indices of a selector chain rooted at the struct receiver; ok = false if e is
// not such a chain.
func (f *ggFn) recvPath(e ast.Expr) (names []string, idx []int, ok bool) {
	g := f.g
	switch x := ggUnparen(e).(type) {
	case *ast.Ident:
		if v, isVar := g.info.Uses[x].(*types.Var); isVar && f.recvStruct && v == f.recv {
			return nil, nil, true
		}
	case *ast.SelectorExpr:
		sel := g.info.Selections[x]
		if sel == nil || sel.Kind() != types.FieldVal {
			return nil, nil, false
		}
		names, idx, ok = f.recvPath(x.X)
		if !ok {
			return nil, nil, false
		}
		if len(sel.Index()) != 1 {
			g.fail(x.Sel.Pos(), "field %s is promoted through an embedded field", x.Sel.Name)
		}
		if len(names) > 0 { // below the receiver itself: no pointer hops (a nil pointer would panic)
			if _, isStruct := f.tv(x.X).Type.Underlying().(*types.Struct); !isStruct {
				g.fail(x.X.Pos(), "field selection through %s of type %s (only struct-typed fields)", g.text(x.X.Pos(), x.X.End()), f.tv(x.X).Type)
			}
		}
		return append(names, x.Sel.Name), append(idx, sel.Index()[0]), true
	}
	return nil, nil, false
}

// recvField: r.f.g (isLen: the argument of len) as a parameter of the function being translated.
func (f *ggFn) recvField(e ast.Expr, isLen bool) ggVal {
	g := f.g
	names, idx, ok := f.recvPath(e)
	txt := g.text(e.Pos(), e.End())
	if !ok || len(names) == 0 {
		if isLen {
			g.fail(e.Pos(), "len(%s): only len of a slice/map/string field of the struct receiver is in the subset", txt)
		}
		g.fail(e.Pos(), "selector expression %s is outside the subset (only scalar fields read from the method's own struct receiver)", txt)
	}
	t := f.tv(e).Type
	var rep ggRep
	if isLen {
		switch u := t.Underlying().(type) {
		case *types.Slice, *types.Map:
		case *types.Basic:
			if u.Info()&types.IsString == 0 {
				g.fail(e.Pos(), "len(%s) of type %s", txt, t)
			}
		default:
			g.fail(e.Pos(), "len(%s) of type %s (only slices, maps, strings)", txt, t)
		}
		rep = ggRep{ggZ, 0}
		txt = "len(" + txt + ")"
	} else {
		rep = g.repOf(t, e.Pos())
		if rep.k == ggArr2 {
			g.fail(e.Pos(), "receiver field %s of array type %s (only sized integers and bool)", txt, t)
		}
	}
	key := strings.Join(names, ".")
	if isLen {
		key = "len " + key
	}
	rf := f.recvFields[key]
	if rf == nil {
		base := ggSafeName(f.recv.Name() + "_" + strings.Join(names, "_"))
		if isLen {
			base = "len_" + base
		}
		n := base
		for i := 1; f.used[n]; i++ {
			n = fmt.Sprintf("%s_%d", base, i)
		}
		f.used[n] = true
		rf = &ggRecvField{name: n, text: ggComment(txt), idx: idx, isLen: isLen, rep: rep}
		f.recvFields[key] = rf
	}
	out := ggVal{s: rf.name, rep: rep}
	if rep.k == ggN && rep.w > 0 {
		out.ub = ggTypeUB(rep.w)
	}
	return out
}

// recvNil: `r.f == nil` for a pointer / slice / map / interface / func field reached from the struct receiver
// through struct-typed fields only, as ONE boolean parameter r_f_isnil of the function being translated (the
// value behind the pointer is never read by the subset: any other use of r.f fails in recvField / expr).
func (f *ggFn) recvNil(e ast.Expr) ggVal {
	g := f.g
	names, idx, ok := f.recvPath(e)
	txt := g.text(e.Pos(), e.End())
	if !ok || len(names) == 0 {
		g.fail(e.Pos(), "comparison of %s with nil (only fields of the method's own struct receiver)", txt)
	}
	switch f.tv(e).Type.Underlying().(type) {
	case *types.Pointer, *types.Slice, *types.Map, *types.Interface, *types.Signature:
	default:
		g.fail(e.Pos(), "comparison of %s of type %s with nil", txt, f.tv(e).Type)
	}
	key := "nil " + strings.Join(names, ".")
	rf := f.recvFields[key]
	if rf == nil {
		base := ggSafeName(f.recv.Name() + "_" + strings.Join(names, "_") + "_isnil")
		n := base
		for i := 1; f.used[n]; i++ {
			n = fmt.Sprintf("%s_%d", base, i)
		}
		f.used[n] = true
		rf = &ggRecvField{name: n, text: ggComment(txt + " == nil"), idx: idx, rep: ggRep{k: ggB}}
		f.recvFields[key] = rf
	}
	return ggVal{s: rf.name, rep: ggRep{k: ggB}}
}

// recvFieldList: the receiver's parameters in struct declaration order (len(r.f) after r.f...).
func (f *ggFn) recvFieldList() []*ggRecvField {
	var l []*ggRecvField
	for _, rf := range f.recvFields {
		l = append(l, rf)
	}
	sort.Slice(l, func(i, j int) bool {
		a, b := l[i], l[j]
		for k := 0; k < len(a.idx) && k < len(b.idx); k++ {
			if a.idx[k] != b.idx[k] {
				return a.idx[k] < b.idx[k]
			}
		}
		if len(a.idx) != len(b.idx) {
			return len(a.idx) < len(b.idx)
		}
		return !a.isLen && b.isLen
	})
	return l
}

var _ = fmt.Sprintf
