//go:build verif

package main

// C08: one history, nine placements of {commit, DropCache, reopen, BatchPreload}; per-step results
// as returned by the library, structural validity and the final registers must not depend on it.

import (
	"fmt"

	"github.com/onflow/atree"
)

var cacheScheds = []string{
	"end",        // 0 never commit until the end (reference)
	"every",      // 1 commit after every op
	"every+drop", // 2 commit + DropCache after every op
	"reopen3",    // 3 commit + reopen (fresh storage, every container re-handled) every 3rd op
	"random",     // 4 independently 10% commit, 10% DropCache, 10% commit+reopen
	"droponly",   // 5 DropCache after every op, no commit until the end
	"preload7",   // 6 commit every 7 ops, reopen with BatchPreload of all ledger ids (before re-handling / after it, alternating)
	"nondet5",    // 7 NondeterministicFastCommit every 5 ops
	"mid+drop",   // 8 one commit at the midpoint, DropCache after every op (evicts committed slabs under live handles while changes are pending)
}

type cacheResult struct {
	fps      []string
	final    *LogBase
	what     string
	detail   string
	failStep int
	commits  int
	reopens  int
	drops    int
	maxExtra int
}

func runCacheSched(sp histSpec, k int, rep *Report) (res cacheResult) {
	e := newExec(sp, rep)
	sr := NewRng(sp.Seed ^ (0xCAC8E + uint64(k)*7919))
	vr := NewRng(sp.Seed ^ 0x7E57)
	w := e.w
	// CheckStorageHealth on a PersistentSlabStorage only sees the write set, the read cache and what
	// is reachable from them.  After DropCache the root slabs are held by the container handles only,
	// so the health check is structurally blind there: it is run only in the schedules that never
	// evict under live handles (a reopen re-fetches every root).  The evicting schedules are covered
	// by the byte comparison of their final ledger with the reference, whose health is checked.
	health := k != 2 && k != 4 && k != 5 && k != 8
	commit := func(nondet bool) {
		err, _ := e.Commit(nondet, 1+sr.Intn(4))
		if err != nil {
			e.fail("commit failed", err.Error())
		}
		res.commits++
		if x := len(e.base.Segs) - len(w.Roots); x > res.maxExtra {
			res.maxExtra = x
		}
	}
	// content as returned by the library must not be changed by a schedule action
	// (sampled at 30%: the check re-warms the cache, the other 70% leave it cold for the next op)
	acted := func(name, before string) {
		if e.failed || !vr.Chance(30) {
			return
		}
		e.Verify(health)
		if after := e.libFingerprint(); !e.failed && after != before {
			e.fail("content read through the library changed across "+name, before+" -> "+after)
		}
	}
	nPre := 0
	for e.step < sp.Steps && !e.failed {
		op := e.Step()
		if e.failed {
			break
		}
		fp := e.libFingerprint()
		res.fps = append(res.fps, op+" "+fp)
		e.Verify(health)
		if e.failed {
			break
		}
		i := e.step
		switch k {
		case 1:
			commit(false)
		case 2:
			commit(false)
			w.St.DropCache()
			res.drops++
			acted("commit+DropCache", fp)
		case 3:
			if i%3 == 0 {
				commit(false)
				if !e.failed {
					e.Reopen(nil, 0)
					res.reopens++
					acted("commit+reopen", fp)
				}
			}
		case 4:
			if sr.Chance(10) {
				commit(false)
			}
			if sr.Chance(10) {
				w.St.DropCache()
				res.drops++
				acted("DropCache", fp)
			}
			if sr.Chance(10) {
				commit(false)
				if !e.failed {
					e.Reopen(nil, 0)
					res.reopens++
					acted("commit+reopen", fp)
				}
			}
		case 5:
			w.St.DropCache()
			res.drops++
		case 6:
			if i%7 == 0 {
				commit(false)
				if !e.failed {
					ids := e.base.SortedIDs()
					if nPre%2 == 0 {
						e.Reopen(ids, 1+sr.Intn(8))
					} else {
						e.Reopen(nil, 0)
						if err := w.St.BatchPreload(ids, 1+sr.Intn(8)); err != nil {
							e.fail("BatchPreload failed", err.Error())
						}
					}
					nPre++
					res.reopens++
					acted("commit+reopen+BatchPreload", fp)
				}
			}
		case 7:
			if i%5 == 0 {
				commit(true)
			}
		case 8:
			if i == sp.Steps/2 {
				commit(false)
			}
			w.St.DropCache()
			res.drops++
			acted("DropCache", fp)
		}
	}
	if !e.failed {
		err, _ := e.Commit(false, 2)
		if err != nil {
			e.fail("final commit failed", err.Error())
		}
		res.commits++
		if x := len(e.base.Segs) - len(w.Roots); x > res.maxExtra {
			res.maxExtra = x
		}
		e.Verify(health)
		if !e.failed && !health {
			// whole-ledger health on a fresh storage over a copy of the registers
			if what, detail := checkDurable(e.base, takeSnap(w), sp.Opts, e.aux); what != "" {
				e.fail("final ledger: "+what, detail)
			}
		}
	}
	res.final = e.base
	res.what, res.detail, res.failStep = e.what, e.detail, e.step
	return res
}

func cmdCache(a Args) {
	rep := NewReport(a.Prop, a.Seed)
	rep.Rule = fmt.Sprintf("random World histories (30..-steps ops, 1-3 roots each empty (40%%) / prefilled with ~10-50 (30%%) / ~60-260 (30%%) random elements incl. nested containers, arrays+maps, depth<=3, wrappers, large values, child handles; no composite type infos, so the compact-map exception does not apply) at T in {256,300,512,1024}; "+
		"each run under %d schedules %v; operation stream fixed by the history seed, schedule decisions from a separate generator. Per step and schedule: VerifyArray/VerifyMap + deep shadow comparison (+ health check in the schedules without DropCache under live handles; the others get a whole-ledger health check on a fresh storage at the end), and a fingerprint "+
		"(op name, root count, hash of counts/value ids/types/keys/scalars returned by read-only traversal through the library) compared with schedule 'end'; the fingerprint is recomputed after 30%% of the DropCache/reopen actions and must not change (the other 70%% leave the cache cold for the next op); "+
		"after a final commit the registers of all schedules must be byte-identical. non-trivial = reference history ends with more registers than roots and the reopen3 schedule performed >=2 reopens; distinct by final ledger digest", len(cacheScheds), cacheScheds)
	rng := NewRng(a.Seed)
	defer atree.VerifSetThreshold(1024)
	for h := 0; h < a.N; h++ {
		hr := rng.Fork(uint64(h))
		tag := fmt.Sprintf("ca%d", h)
		if !want(tag) {
			continue
		}
		lo := 30
		if a.Steps < lo {
			lo = a.Steps
		}
		sp := newSpec(hr, lo, a.Steps, false)
		atree.VerifSetThreshold(sp.T)
		viol := func(step int, what, detail string) {
			rep.Violate(h, tag, step, what, sp.String()+" | "+clip(detail, 700))
		}
		ref := runCacheSched(sp, 0, rep)
		rep.Histories++
		rep.Steps += len(ref.fps)
		if ref.what != "" {
			viol(ref.failStep, "C08: schedule end: "+ref.what, ref.detail)
			continue
		}
		scratch := NewReport("", 0)
		reopens3 := 0
		for k := 1; k < len(cacheScheds); k++ {
			name := cacheScheds[k]
			r := runCacheSched(sp, k, scratch)
			rep.EventN("commits_"+name, r.commits)
			rep.EventN("reopens_"+name, r.reopens)
			rep.EventN("dropcache_"+name, r.drops)
			if k == 3 {
				reopens3 = r.reopens
			}
			if r.what != "" {
				viol(r.failStep, "C08: schedule "+name+": "+r.what, r.detail)
				continue
			}
			if len(r.fps) != len(ref.fps) {
				viol(len(r.fps), "C08: history length differs under schedule "+name, "")
				continue
			}
			diff := false
			for i := range r.fps {
				if r.fps[i] != ref.fps[i] {
					viol(i+1, "C08: operation result differs between schedule "+name+" and schedule end", r.fps[i]+" vs "+ref.fps[i])
					diff = true
					break
				}
			}
			if diff {
				continue
			}
			if d := SameRegisters(ref.final, r.final); d != "" {
				viol(len(r.fps), "C08: final registers differ between schedule "+name+" and schedule end", d)
			}
		}
		if ref.maxExtra > 0 && reopens3 >= 2 {
			rep.Distinct(ledgerDigest(ref.final))
		}
		if h < 2 {
			rep.Sample(fmt.Sprintf("%s: %s registers=%d last step: %s", tag, sp, len(ref.final.Segs), ref.fps[len(ref.fps)-1]))
		}
	}
	rep.Write(a.Out + "/report.json")
}
