//go:build verif

package main

// Subcommand "mapelems": element level of OrderedMap (collision groups, collision limit,
// canonical order).  One map per history driven through Set/Get/Has/Remove/Count/iterators/
// PopIterate with a table-driven digester; after every step the answer and (for mutations) the
// flattened structural dump from atree.VerifMapElements are written for the engine
// chk_mapelems (coq/theories/MapTrace.v), and model-independent oracles are evaluated.
//
// The digester of a history has 1..8 levels (8 = the library's maxDigestLevel).  Commits, reopening
// from the ledger bytes (comparison with the shadow dictionary and with the last structural dump,
// optionally continuing the history on the reopened map) are interleaved at random points and right
// after group transitions; they are no trace steps (the model's state does not depend on them).
// "wide" histories put more keys with pairwise distinct level-1 digests under one level-0 digest
// than the collision limit admits, with the limit left at the library's default.

import (
	"errors"
	"fmt"
	"sort"
	"strconv"
	"strings"

	"github.com/onflow/atree"
	testutils "github.com/onflow/atree/test_utils"
)

func init() { register("mapelems", cmdMapElems) }

const mpeLevels = 4

// mpeMaxLevels is the largest number of digest levels a caller-supplied digester may have (maxDigestLevel).
const mpeMaxLevels = 8

// mpeDocumentedDefaultLimit is the documented default of maxCollisionLimitPerDigest (property C12, errors.go).
const mpeDocumentedDefaultLimit = 255

// mpeLibDefaultLimit is the value of maxCollisionLimitPerDigest the library starts with; it is read
// once per process (before anything configures the limit) and is what "not configured" restores.
var (
	mpeLibDefaultLimit     uint32
	mpeLibDefaultLimitRead bool
)

func mpeReadLibDefaultLimit() uint32 {
	if !mpeLibDefaultLimitRead {
		mpeLibDefaultLimit = atree.VerifSetMaxCollisionLimitPerDigest(mpeDocumentedDefaultLimit)
		atree.VerifSetMaxCollisionLimitPerDigest(mpeLibDefaultLimit)
		mpeLibDefaultLimitRead = true
	}
	return mpeLibDefaultLimit
}

// ---------- table-driven digester ----------

type mpeBuilder struct {
	table map[uint64][mpeLevels]uint64
}

type mpeDigester struct {
	d [mpeLevels]uint64
}

func (b *mpeBuilder) SetSeed(_ uint64, _ uint64) {}

func (b *mpeBuilder) Digest(_ atree.HashInputProvider, v atree.Value) (atree.Digester, error) {
	id, _, ok := mpeIdent(v)
	if !ok {
		return nil, fmt.Errorf("mapelems digester: value %T has no key identity", v)
	}
	d, ok := b.table[id]
	if !ok {
		return nil, fmt.Errorf("mapelems digester: key identity %d has no digests", id)
	}
	return &mpeDigester{d: d}, nil
}

func (g *mpeDigester) DigestPrefix(level uint) ([]atree.Digest, error) {
	if level > mpeLevels {
		return nil, atree.NewHashLevelErrorf("cannot get digest < level %d: level must be [0, %d]", level, mpeLevels)
	}
	var p []atree.Digest
	for i := uint(0); i < level; i++ {
		p = append(p, atree.Digest(g.d[i]))
	}
	return p, nil
}

func (g *mpeDigester) Digest(level uint) (atree.Digest, error) {
	if level >= mpeLevels {
		return 0, atree.NewHashLevelErrorf("cannot get digest at level %d: level must be [0, %d)", level, mpeLevels)
	}
	return atree.Digest(g.d[level]), nil
}

func (g *mpeDigester) Reset()       {}
func (g *mpeDigester) Levels() uint { return mpeLevels }

// ---------- table-driven digester with a configurable number of levels (1..8) ----------

type mpeVBuilder struct {
	table  map[uint64][mpeMaxLevels]uint64
	levels uint
}

type mpeVDigester struct {
	d      [mpeMaxLevels]uint64
	levels uint
}

func (b *mpeVBuilder) SetSeed(_ uint64, _ uint64) {}

func (b *mpeVBuilder) Digest(_ atree.HashInputProvider, v atree.Value) (atree.Digester, error) {
	id, _, ok := mpeIdent(v)
	if !ok {
		return nil, fmt.Errorf("mapelems digester: value %T has no key identity", v)
	}
	d, ok := b.table[id]
	if !ok {
		return nil, fmt.Errorf("mapelems digester: key identity %d has no digests", id)
	}
	return &mpeVDigester{d: d, levels: b.levels}, nil
}

func (g *mpeVDigester) DigestPrefix(level uint) ([]atree.Digest, error) {
	if level > g.levels {
		return nil, atree.NewHashLevelErrorf("cannot get digest < level %d: level must be [0, %d]", level, g.levels)
	}
	var p []atree.Digest
	for i := uint(0); i < level; i++ {
		p = append(p, atree.Digest(g.d[i]))
	}
	return p, nil
}

func (g *mpeVDigester) Digest(level uint) (atree.Digest, error) {
	if level >= g.levels {
		return 0, atree.NewHashLevelErrorf("cannot get digest at level %d: level must be [0, %d)", level, g.levels)
	}
	return atree.Digest(g.d[level]), nil
}

func (g *mpeVDigester) Reset()       {}
func (g *mpeVDigester) Levels() uint { return g.levels }

// mpeIdent returns the numeric identity and encoded size of a key/value (as Value or Storable):
// Uint64Value -> the number; StringValue -> the decimal prefix before '|'.
func mpeIdent(x any) (id uint64, size uint64, ok bool) {
	switch v := x.(type) {
	case testutils.Uint64Value:
		return uint64(v), uint64(v.ByteSize()), true
	case testutils.StringValue:
		s := v.String()
		i := strings.IndexByte(s, '|')
		if i <= 0 {
			return ^uint64(0), uint64(v.ByteSize()), false
		}
		n, err := strconv.ParseUint(s[:i], 10, 64)
		if err != nil {
			return ^uint64(0), uint64(v.ByteSize()), false
		}
		return n, uint64(v.ByteSize()), true
	case atree.Storable:
		return ^uint64(0), uint64(v.ByteSize()), false
	}
	return ^uint64(0), 0, false
}

// ---------- history state ----------

type mpeKey struct {
	id    uint64
	val   atree.Value
	ksz   uint64
	d     [mpeMaxLevels]uint64 // levels >= the history's number of levels stay 0 and are never read
	probe bool                 // never inserted
}

type mpeEntry struct {
	k   *mpeKey
	vid uint64
	vsz uint64
	seq uint64
}

type mpeDumpInfo struct {
	ext    map[atree.SlabID]uint64 // external groups in the dump -> normalised index
	kinds  map[uint64]int          // level-0 digest -> element kind
	nSL    int                     // number of singleElements groups
	depth  int                     // deepest group nesting (0 = no group)
	groups int                     // number of collision groups of any kind
	newExt int                     // external groups seen for the first time
	count  int                     // number of key/value pairs
}

type mpeRun struct {
	rep  *Report
	tr   *Trace
	hist int
	tag  string
	step int
	rng  *Rng

	T         uint32
	maxInline uint64
	maxKey    uint64
	limit     uint64
	defLimit  bool // the collision limit is not configured: the library's default is in force
	levels    int  // digest levels of this history's digester (1..8)
	wide      bool // more distinct level-1 digests under one level-0 digest than the limit admits
	durq      int  // chance (percent) of a commit after a mutation; 0 = the history never commits
	mode      string
	profile   int // 0 small, 1 mixed, 2 large values

	base *LogBase
	st   *atree.PersistentSlabStorage
	addr atree.Address
	ti   atree.TypeInfo
	m    *atree.OrderedMap
	b    *mpeVBuilder

	pool    []*mpeKey
	probes  []*mpeKey
	live    []*mpeKey
	livePos map[uint64]int
	shadow  map[uint64]*mpeEntry
	seq     uint64
	vctr    uint64

	extIdx     map[atree.SlabID]uint64
	lastEnc    []uint64
	lastInfo   *mpeDumpInfo
	transition bool // the last mutation changed the group structure
	roExt      bool // dumping a reopened map: unknown external slabs are not registered

	nCommit, nReopen, nAdopt int

	sawInline, sawExt, sawCollIn, sawCollExt, sawList, sawRefused, sawDepth2, sawMulti bool
	dead                                                                               bool
}

func (r *mpeRun) viol(what, detail string) {
	if len(detail) > 400 {
		detail = detail[:400] + "..."
	}
	r.rep.Violate(r.hist, r.tag, r.step, what, detail)
}

func (r *mpeRun) emit(op []uint64, obs []uint64) {
	r.tr.StepU(op, nil, obs)
	r.step++
}

func mpeClass(err error) int {
	var knf *atree.KeyNotFoundError
	if errors.As(err, &knf) {
		return 1
	}
	var cl *atree.CollisionLimitError
	if errors.As(err, &cl) {
		return 2
	}
	return 3
}

// call runs one library call; a panic is turned into an error and reported by the caller.
func mpeCall(f func() error) (err error, panicked bool) {
	defer func() {
		if p := recover(); p != nil {
			err = fmt.Errorf("panic: %v", p)
			panicked = true
		}
	}()
	return f(), false
}

func (r *mpeRun) unexpected(op string, err error, panicked bool) {
	kind := "error"
	if panicked {
		kind = "panic"
		r.rep.Err("panic")
	} else {
		r.rep.Err("other")
	}
	r.viol("C02: unexpected error ("+kind+") in "+op, fmt.Sprint(err))
	r.dead = true
}

// ---------- digest tables ----------

var mpeSpecial = []uint64{0, 1, 2, 3, 7, 23, 24, 255, 256, 65536, 1 << 32, 1 << 62, 1<<63 - 1, 1 << 63, 1<<63 + 1,
	1<<63 + 12345, ^uint64(0) - 1, ^uint64(0)}

func mpeAlphabet(rng *Rng, n int) []uint64 {
	seen := map[uint64]bool{}
	var out []uint64
	for len(out) < n {
		var v uint64
		if rng.Chance(65) {
			v = mpeSpecial[rng.Intn(len(mpeSpecial))]
		} else {
			v = rng.U64()
		}
		if !seen[v] {
			seen[v] = true
			out = append(out, v)
		}
	}
	return out
}

// genDigests fills k.d[0..levels-1] for all pool keys according to the digest mode.
func (r *mpeRun) genDigests() {
	rng := r.rng
	L := r.levels
	n := len(r.pool)
	alpha := make([][]uint64, L)
	distinct := make([]bool, L)
	deep := false
	switch m := rng.Pick(9, 28, 14, 16, 8, 25); m {
	case 0:
		r.mode = "list"
		for l := 0; l < L; l++ {
			alpha[l] = mpeAlphabet(rng, 1)
		}
	case 1:
		j := rng.Intn(L) // all keys collide on levels 0..j (j = L-1: on every level)
		r.mode = fmt.Sprintf("upto%d", j)
		for l := 0; l < L; l++ {
			if l <= j {
				alpha[l] = mpeAlphabet(rng, 1)
			} else {
				distinct[l] = true
			}
		}
	case 2:
		r.mode = "deep"
		deep = true
	case 3:
		r.mode = "small"
		for l := 0; l < L; l++ {
			alpha[l] = mpeAlphabet(rng, 1+rng.Intn(4))
		}
	case 4:
		r.mode = "nocoll"
		distinct[0] = true
		for l := 1; l < L; l++ {
			alpha[l] = mpeAlphabet(rng, 1+rng.Intn(3))
		}
	default:
		r.mode = "mix"
		alpha[0] = mpeAlphabet(rng, 2+rng.Intn(7))
		for l := 1; l < L; l++ {
			alpha[l] = mpeAlphabet(rng, 1+rng.Intn(3))
		}
		if L >= 2 && rng.Chance(40) {
			alpha[L-1] = nil
			distinct[L-1] = true
		}
	}
	if deep {
		// a few classes of keys colliding on EVERY level; a key either stays in its class (full-depth
		// collision: the insertion-ordered list below the last level) or leaves it at a random level
		nc := 1 + rng.Intn(3)
		classes := make([][mpeMaxLevels]uint64, nc)
		for c := range classes {
			for l := 0; l < L; l++ {
				classes[c][l] = mpeAlphabet(rng, 1)[0]
			}
			if c > 0 && rng.Chance(50) { // classes sharing a prefix: nested groups above the lists
				j := 1 + rng.Intn(L)
				for l := 0; l < j && l < L; l++ {
					classes[c][l] = classes[0][l]
				}
			}
		}
		for _, k := range r.pool {
			k.d = classes[rng.Intn(nc)]
			if rng.Chance(50) {
				j := rng.Intn(L)
				for l := j; l < L; l++ {
					if l == j || rng.Chance(70) {
						k.d[l] = rng.U64()
						if rng.Chance(30) {
							k.d[l] = mpeSpecial[rng.Intn(len(mpeSpecial))]
						}
					}
				}
			}
		}
		return
	}
	for l := 0; l < L; l++ {
		if distinct[l] {
			alpha[l] = mpeAlphabet(rng, n)
		}
	}
	for i, k := range r.pool {
		for l := 0; l < L; l++ {
			if distinct[l] {
				k.d[l] = alpha[l][i]
			} else {
				k.d[l] = alpha[l][rng.Intn(len(alpha[l]))]
			}
		}
	}
	if r.mode == "mix" {
		// a few keys with a level-0 digest of their own
		for _, k := range r.pool {
			if rng.Chance(25) {
				k.d[0] = rng.U64()
			}
		}
	}
}

// genWideDigests: one hot level-0 digest shared by (almost) all keys; level-1 digests pairwise distinct
// except for a few keys that repeat another key's (those do not add to the fan-out the limit counts).
func (r *mpeRun) genWideDigests() {
	rng := r.rng
	L := r.levels
	n := len(r.pool)
	r.mode = "wide"
	hot := mpeAlphabet(rng, 1)[0]
	lvl := make([][]uint64, L)
	for l := 1; l < L; l++ {
		lvl[l] = mtrDistinct(rng, n, true)
	}
	core := int(r.limit) + 4 // the first limit+4 keys: hot level-0 digest, level-1 digests of their own
	for i, k := range r.pool {
		k.d[0] = hot
		for l := 1; l < L; l++ {
			k.d[l] = lvl[l][i]
		}
		if i >= core {
			switch rng.Pick(40, 30, 30) {
			case 1:
				k.d[0] = rng.U64() // a bystander under its own level-0 digest
			case 2:
				if L >= 2 { // repeats a level-1 digest: no additional fan-out
					k.d[1] = r.pool[rng.Intn(core)].d[1]
				}
			}
		}
	}
	for i := len(r.pool) - 1; i > 0; i-- {
		j := rng.Intn(i + 1)
		r.pool[i], r.pool[j] = r.pool[j], r.pool[i]
	}
}

// genProbes creates keys that are never inserted, with digests placed relative to the pool's.
func (r *mpeRun) genProbes(used map[uint64]bool) {
	rng := r.rng
	L := r.levels
	d0s := []uint64{}
	seen := map[uint64]bool{}
	for _, k := range r.pool {
		if !seen[k.d[0]] {
			seen[k.d[0]] = true
			d0s = append(d0s, k.d[0])
		}
	}
	sort.Slice(d0s, func(i, j int) bool { return d0s[i] < d0s[j] })
	rnd := func() [mpeMaxLevels]uint64 {
		var d [mpeMaxLevels]uint64
		for l := 0; l < L; l++ {
			d[l] = rng.U64()
		}
		return d
	}
	var ds [][mpeMaxLevels]uint64
	if d0s[0] > 0 { // below all
		d := rnd()
		d[0] = d0s[0] - 1
		if rng.Bool() {
			d[0] = uint64(rng.Intn(int(min(d0s[0], 1<<30))))
		}
		ds = append(ds, d)
	}
	if d0s[len(d0s)-1] < ^uint64(0) { // above all
		d := rnd()
		d[0] = d0s[len(d0s)-1] + 1
		if rng.Bool() {
			d[0] = ^uint64(0)
		}
		ds = append(ds, d)
	}
	for t := 0; t < 2; t++ { // between
		if len(d0s) < 2 {
			break
		}
		i := rng.Intn(len(d0s) - 1)
		if d0s[i+1]-d0s[i] > 1 {
			d := rnd()
			d[0] = d0s[i] + 1 + (d0s[i+1]-d0s[i]-1)/2
			ds = append(ds, d)
		}
	}
	for j := 1; j < L; j++ { // equal up to level j-1, different from there
		if L > 4 && j > 2 && j < L-1 && !rng.Chance(50) {
			continue
		}
		src := r.pool[rng.Intn(len(r.pool))]
		d := src.d
		for l := j; l < L; l++ {
			if l == j || rng.Bool() {
				nv := rng.U64()
				if rng.Bool() {
					nv = mpeSpecial[rng.Intn(len(mpeSpecial))]
				}
				if nv == src.d[l] {
					nv++
				}
				d[l] = nv
			}
		}
		ds = append(ds, d)
	}
	for t := 0; t < 2; t++ { // equal on all levels
		ds = append(ds, r.pool[rng.Intn(len(r.pool))].d)
	}
	for _, d := range ds {
		k := r.newKey(used)
		k.d = d
		k.probe = true
		r.probes = append(r.probes, k)
	}
}

// ---------- keys and values ----------

func mpePad(rng *Rng, n int) string {
	const letters = "abcdefghijklmnopqrstuvwxyz"
	b := make([]byte, n)
	for i := range b {
		b[i] = letters[rng.Intn(len(letters))]
	}
	return string(b)
}

func mpeStrSize(n int) uint64 { return uint64(atree.GetUintCBORSize(uint64(n))) + uint64(n) }

func (r *mpeRun) newKey(used map[uint64]bool) *mpeKey {
	rng := r.rng
	for {
		var id uint64
		switch rng.Pick(20, 20, 20, 20, 20) {
		case 0:
			id = uint64(rng.Intn(24))
		case 1:
			id = 24 + uint64(rng.Intn(232))
		case 2:
			id = 256 + uint64(rng.Intn(65536-256))
		case 3:
			id = 65536 + rng.U64()%(1<<32-65536)
		default:
			id = 1<<32 + rng.U64()%(1<<62-1<<32)
		}
		if used[id] {
			continue
		}
		used[id] = true
		k := &mpeKey{id: id}
		if rng.Chance(55) {
			v := testutils.Uint64Value(id)
			k.val, k.ksz = v, uint64(v.ByteSize())
		} else {
			head := fmt.Sprintf("%d|", id)
			maxLen := int(r.maxKey) - 2 // string of length >= 24 costs 2+len
			padMax := maxLen - len(head)
			if padMax < 0 {
				padMax = 0
			}
			pad := 0
			switch rng.Pick(40, 40, 20) {
			case 0:
				pad = rng.Intn(min(padMax, 6) + 1)
			case 1:
				pad = rng.Intn(padMax + 1)
			default:
				pad = padMax
			}
			v := testutils.NewStringValue(head + mpePad(rng, pad))
			k.val, k.ksz = v, uint64(v.ByteSize())
		}
		if k.ksz > r.maxKey {
			panic(fmt.Sprintf("mapelems: key size %d > %d", k.ksz, r.maxKey))
		}
		return k
	}
}

// newValue builds a fresh value (unique identity) for key k; avoid is a size to stay away from.
func (r *mpeRun) newValue(k *mpeKey, avoid uint64) (atree.Value, uint64, uint64) {
	rng := r.rng
	vmax := r.maxInline - k.ksz - 1
	r.vctr++
	c := r.vctr
	for try := 0; ; try++ {
		var v atree.Value
		var vid uint64
		kind := 0 // 0 small uint, 1 wide uint, 2 short string, 3 long string, 4 maximal string
		switch r.profile {
		case 0:
			kind = rng.Pick(55, 15, 30, 0, 0)
		case 1:
			kind = rng.Pick(25, 15, 25, 30, 5)
		default:
			kind = rng.Pick(8, 7, 10, 55, 20)
		}
		switch kind {
		case 0:
			vid = c
			v = testutils.Uint64Value(vid)
		case 1:
			if rng.Bool() {
				vid = 70000 + c
			} else {
				vid = 1<<33 + c
			}
			v = testutils.Uint64Value(vid)
		default:
			vid = c
			head := fmt.Sprintf("%d|", vid)
			// longest string whose encoded size is <= vmax
			maxLen := int(vmax) - 1
			if maxLen >= 24 {
				maxLen = int(vmax) - 2
			}
			if maxLen >= 256 {
				maxLen = int(vmax) - 3
				if maxLen < 255 {
					maxLen = 255
				}
			}
			padMax := maxLen - len(head)
			if padMax < 0 {
				// no room for a string: fall back to a number
				v = testutils.Uint64Value(vid)
				break
			}
			pad := 0
			switch kind {
			case 2:
				pad = rng.Intn(min(padMax, 12) + 1)
			case 3:
				pad = padMax/3 + rng.Intn(padMax-padMax/3+1)
			default:
				pad = padMax - rng.Intn(min(padMax, 3)+1)
			}
			v = testutils.NewStringValue(head + mpePad(rng, pad))
		}
		_, vsz, _ := mpeIdent(v)
		if vsz > vmax {
			if try > 20 {
				vid = c
				v = testutils.Uint64Value(vid)
				_, vsz, _ = mpeIdent(v)
				return v, vid, vsz
			}
			continue
		}
		if vsz == avoid && try < 6 {
			continue
		}
		return v, vid, vsz
	}
}

// ---------- dump encoding and structural oracles ----------

func (r *mpeRun) encElems(g *atree.VerifMapElems, level int, out *[]uint64, info *mpeDumpInfo) {
	if g == nil {
		r.viol("C12: element dump holds a nil group", "")
		return
	}
	if int(g.Level) != level {
		r.viol("C12: elements carry the wrong digest level", fmt.Sprintf("cached level %d at depth %d", g.Level, level))
	}
	if g.IsHkey {
		*out = append(*out, 0, uint64(g.Level), uint64(len(g.Elems)), uint64(g.Size))
		if len(g.Hkeys) != len(g.Elems) {
			r.viol("C12: hkeys and elements differ in length", "")
		}
		if level >= r.levels {
			r.viol("C12: hkeyElements below the last digest level", fmt.Sprintf("level %d of %d", level, r.levels))
		}
		for i, h := range g.Hkeys {
			*out = append(*out, uint64(h))
			if i > 0 && g.Hkeys[i-1] >= h {
				r.viol("C13: hkeys are not strictly ascending (unsigned)", fmt.Sprintf("level %d: %d then %d", level, g.Hkeys[i-1], h))
			}
		}
		for i, e := range g.Elems {
			if level == 0 && i < len(g.Hkeys) {
				info.kinds[uint64(g.Hkeys[i])] = e.Kind
			}
			r.encElem(&e, level, out, info)
		}
		return
	}
	*out = append(*out, 1, uint64(g.Level), uint64(len(g.Elems)), uint64(g.Size))
	info.nSL++
	if level != r.levels {
		r.viol("C12: singleElements group above the last digest level", fmt.Sprintf("level %d of %d", level, r.levels))
	}
	for _, e := range g.Elems {
		if e.Kind != 0 {
			r.viol("C12: singleElements holds a group", "")
			continue
		}
		kid, ksz, vid, vsz := r.pairIdent(&e)
		*out = append(*out, kid, ksz, vid, vsz)
		info.count++
	}
}

func (r *mpeRun) pairIdent(e *atree.VerifMapElem) (kid, ksz, vid, vsz uint64) {
	var ok1, ok2 bool
	kid, ksz, ok1 = mpeIdent(e.Key)
	vid, vsz, ok2 = mpeIdent(e.Value)
	if !ok1 || !ok2 {
		r.viol("C02: stored key or value is not one of the harness's scalar storables", fmt.Sprintf("%T %T", e.Key, e.Value))
	}
	return
}

func (r *mpeRun) encElem(e *atree.VerifMapElem, level int, out *[]uint64, info *mpeDumpInfo) {
	switch e.Kind {
	case 0:
		kid, ksz, vid, vsz := r.pairIdent(e)
		*out = append(*out, 0, kid, ksz, vid, vsz, uint64(e.Size))
		info.count++
		return
	case 1:
		*out = append(*out, 1, uint64(e.Size))
		if level == 0 && uint64(e.Size) > r.maxInline {
			r.viol("C12: oversized inline collision group was not moved to its own slab", fmt.Sprintf("size %d > %d", e.Size, r.maxInline))
		}
	case 2:
		idx, ok := r.extIdx[e.SlabID]
		if !ok && r.roExt {
			r.viol("C12: reopened map refers to an external group slab the map never had", e.SlabID.String())
			idx = ^uint64(0)
		} else if !ok {
			idx = uint64(len(r.extIdx))
			r.extIdx[e.SlabID] = idx
			info.newExt++
		}
		info.ext[e.SlabID] = idx
		*out = append(*out, 2, idx, uint64(e.Size))
		if level != 0 {
			r.viol("C12: external collision group below the first level", fmt.Sprintf("level %d", level))
		}
	default:
		r.viol("C12: unknown element kind in dump", fmt.Sprint(e.Kind))
		return
	}
	if d := level + 1; d > info.depth {
		info.depth = d
	}
	info.groups++
	if e.Group != nil && len(e.Group.Elems) == 1 && e.Group.Elems[0].Kind == 0 {
		r.viol("C12: collision group with one remaining element was not collapsed", fmt.Sprintf("kind %d at level %d", e.Kind, level))
	}
	if e.Group != nil && len(e.Group.Elems) == 0 {
		r.viol("C12: empty collision group", fmt.Sprintf("kind %d at level %d", e.Kind, level))
	}
	r.encElems(e.Group, level+1, out, info)
}

// dump takes the structural dump of the history's map; ok=false if the hook failed.
func (r *mpeRun) dump() (enc []uint64, info *mpeDumpInfo, ok bool) { return r.dumpOf(r.m) }

func (r *mpeRun) dumpOf(m *atree.OrderedMap) (enc []uint64, info *mpeDumpInfo, ok bool) {
	var d *atree.VerifMapElems
	err, pan := mpeCall(func() error {
		var e error
		d, e = atree.VerifMapElements(m)
		return e
	})
	if err != nil {
		r.viol("C12: structural dump failed", fmt.Sprintf("panic=%v %v", pan, err))
		r.dead = true
		return nil, nil, false
	}
	info = &mpeDumpInfo{ext: map[atree.SlabID]uint64{}, kinds: map[uint64]int{}}
	enc = make([]uint64, 0, 256)
	r.encElems(d, 0, &enc, info)
	if info.newExt > 1 {
		r.viol("C12: two external groups created by one op", fmt.Sprint(info.newExt))
	}
	return enc, info, true
}

func mpeSameEnc(a, b []uint64) bool {
	if len(a) != len(b) {
		return false
	}
	for i := range a {
		if a[i] != b[i] {
			return false
		}
	}
	return true
}

// afterMutation dumps the structure, computes the removed external slabs, classifies the
// structural transition for the touched level-0 digest and returns S.
func (r *mpeRun) afterMutation(d0 uint64, keyed bool) (s []uint64, enc []uint64, ok bool) {
	enc, info, ok := r.dump()
	if !ok {
		return nil, nil, false
	}
	var removed []uint64
	for id, idx := range r.lastInfo.ext {
		var found bool
		err, _ := mpeCall(func() error {
			_, f, e := r.st.Retrieve(id)
			found = f
			return e
		})
		if err != nil {
			r.viol("C12: retrieving an external group slab failed", err.Error())
			continue
		}
		if !found {
			removed = append(removed, idx)
			if _, still := info.ext[id]; still {
				r.viol("C12: external group is referenced but its slab is gone", id.String())
			}
		} else if _, still := info.ext[id]; !still {
			r.viol("C12: external group slab left in storage after the group disappeared", id.String())
		}
	}
	sort.Slice(removed, func(i, j int) bool { return removed[i] < removed[j] })
	s = append(append([]uint64{}, enc...), uint64(len(removed)))
	s = append(s, removed...)

	// events
	r.transition = info.groups != r.lastInfo.groups || info.nSL != r.lastInfo.nSL || info.depth != r.lastInfo.depth ||
		len(info.ext) != len(r.lastInfo.ext)
	if keyed {
		before, hadB := r.lastInfo.kinds[d0]
		after, hasA := info.kinds[d0]
		if hadB && hasA && before != after {
			r.transition = true
		}
		if hadB && hasA {
			switch {
			case before == 0 && after == 1:
				r.rep.Event("inline_group_created")
				r.sawInline = true
			case (before == 0 || before == 1) && after == 2:
				r.rep.Event("spill_to_external")
				r.sawExt = true
				if before == 0 {
					r.rep.Event("spill_directly_from_single")
				}
			case before == 1 && after == 0:
				r.rep.Event("collapse_inline")
				r.sawCollIn = true
			case before == 2 && after == 0:
				r.rep.Event("collapse_external")
				r.sawCollExt = true
			case before == 2 && after == 1:
				r.viol("C12: external group turned back into an inline group", "")
			}
		}
	}
	if info.nSL > r.lastInfo.nSL {
		r.rep.Event("list_mode")
		r.sawList = true
	}
	if info.depth >= 2 && r.lastInfo.depth < 2 {
		r.rep.Event("depth>=2 group")
		r.sawDepth2 = true
	}
	if uint64(info.count) != r.m.Count() {
		r.viol("C02: Count() differs from the number of stored pairs", fmt.Sprintf("%d vs %d", r.m.Count(), info.count))
	}
	if !r.sawMulti {
		if n, e := atree.VerifMapDataSlabCount(r.m); e == nil && n > 1 {
			r.sawMulti = true
		}
	}
	r.lastEnc, r.lastInfo = enc, info
	return s, enc, true
}

func (r *mpeRun) verify(where string) {
	err, pan := mpeCall(func() error {
		return atree.VerifyMap(r.m, r.addr, r.ti, testutils.CompareTypeInfo, testutils.GetHashInput, true)
	})
	if err != nil {
		r.viol("C12: VerifyMap failed after "+where, fmt.Sprintf("panic=%v %v", pan, err))
	}
}

func (r *mpeRun) health(where string) {
	err, pan := mpeCall(func() error {
		_, e := atree.CheckStorageHealth(r.st, 1)
		return e
	})
	if err != nil {
		r.viol("C12: CheckStorageHealth failed "+where, fmt.Sprintf("panic=%v %v", pan, err))
	}
}

// ---------- shadow helpers ----------

func (r *mpeRun) addLive(k *mpeKey) {
	r.livePos[k.id] = len(r.live)
	r.live = append(r.live, k)
}

func (r *mpeRun) delLive(k *mpeKey) {
	p, ok := r.livePos[k.id]
	if !ok {
		return
	}
	last := r.live[len(r.live)-1]
	r.live[p] = last
	r.livePos[last.id] = p
	r.live = r.live[:len(r.live)-1]
	delete(r.livePos, k.id)
}

// fanout: number of distinct level-1 digests among live keys sharing k's level-0 digest (what the
// group below the level-0 digest counts); with a one-level digester the group is the
// insertion-ordered list, which counts its keys
func (r *mpeRun) fanout(k *mpeKey) int {
	seen := map[uint64]bool{}
	n := 0
	for _, x := range r.live {
		if x.d[0] == k.d[0] {
			seen[x.d[1]] = true
			n++
		}
	}
	if r.levels == 1 {
		return n
	}
	return len(seen)
}

func (r *mpeRun) expectedOrder() []*mpeEntry {
	out := make([]*mpeEntry, 0, len(r.shadow))
	for _, e := range r.shadow {
		out = append(out, e)
	}
	sort.Slice(out, func(i, j int) bool {
		a, b := out[i], out[j]
		for l := 0; l < r.levels; l++ {
			if a.k.d[l] != b.k.d[l] {
				return a.k.d[l] < b.k.d[l]
			}
		}
		return a.seq < b.seq
	})
	return out
}

// keyOp: an operation naming a key carries the key's digests for levels 0..levels-1
func (r *mpeRun) keyOp(code uint64, k *mpeKey) []uint64 {
	return append([]uint64{code, k.id}, k.d[:r.levels]...)
}

// ---------- operations ----------

func (r *mpeRun) doSet(k *mpeKey) {
	cur, present := r.shadow[k.id]
	name := "set_new"
	avoid := uint64(0)
	if present {
		name = "set_existing"
		avoid = cur.vsz
	}
	r.rep.Op(name)
	v, vid, vsz := r.newValue(k, avoid)
	op := append([]uint64{1, k.id, k.ksz, vid, vsz}, k.d[:r.levels]...)

	n := r.fanout(k)
	wantRefused := !present && n >= 1 && uint64(n-1) >= r.limit
	countBefore := r.m.Count()
	deltasBefore := r.st.Deltas()

	var prev atree.Storable
	err, pan := mpeCall(func() error {
		var e error
		prev, e = r.m.Set(testutils.CompareValue, testutils.GetHashInput, k.val, v)
		return e
	})
	if err != nil {
		if pan || mpeClass(err) != 2 {
			r.unexpected(name, err, pan)
			r.emit(op, []uint64{3})
			return
		}
		// refused
		r.rep.Err("CollisionLimitError")
		r.rep.Event("refused")
		r.sawRefused = true
		if present {
			r.viol("C12: update of an existing key was refused by the collision limit", fmt.Sprintf("key %d limit %s", k.id, r.limitText()))
		} else if !wantRefused {
			r.viol("C12: insert refused although the collision limit is not reached", fmt.Sprintf("key %d fanout %d limit %s", k.id, n, r.limitText()))
		}
		before := r.lastEnc
		s, enc, ok := r.afterMutation(k.d[0], true)
		if !ok {
			r.emit(op, []uint64{3})
			return
		}
		if r.m.Count() != countBefore {
			r.viol("C12: refused insert changed Count()", fmt.Sprintf("%d -> %d", countBefore, r.m.Count()))
		}
		if !mpeSameEnc(before, enc) {
			r.viol("C12: refused insert changed the element structure", "")
		}
		if d := r.st.Deltas(); d != deltasBefore {
			r.viol("C12: refused insert changed the storage write set", fmt.Sprintf("%d -> %d", deltasBefore, d))
		}
		r.emit(op, append([]uint64{2}, s...))
		return
	}
	if wantRefused {
		r.viol("C12: insert beyond the collision limit was accepted", fmt.Sprintf("key %d fanout %d limit %s", k.id, n, r.limitText()))
	}
	var ans []uint64
	if prev == nil {
		if present {
			r.viol("C02: Set on a present key returned no previous value", fmt.Sprintf("key %d", k.id))
		}
		ans = []uint64{0, 0}
	} else {
		pvid, pvsz, ok := mpeIdent(prev)
		if !ok {
			r.viol("C02: Set returned an unexpected previous storable", fmt.Sprintf("%T", prev))
		}
		if !present {
			r.viol("C02: Set on an absent key returned a previous value", fmt.Sprintf("key %d prev %d", k.id, pvid))
		} else if pvid != cur.vid || pvsz != cur.vsz {
			r.viol("C02: Set returned the wrong previous value", fmt.Sprintf("key %d got (%d,%d) want (%d,%d)", k.id, pvid, pvsz, cur.vid, cur.vsz))
		}
		ans = []uint64{0, 1, pvid, pvsz}
	}
	// the shadow follows the implementation's answer
	if e, ok := r.shadow[k.id]; ok {
		e.vid, e.vsz = vid, vsz
	} else {
		r.seq++
		r.shadow[k.id] = &mpeEntry{k: k, vid: vid, vsz: vsz, seq: r.seq}
		r.addLive(k)
	}
	s, _, ok := r.afterMutation(k.d[0], true)
	if !ok {
		r.emit(op, []uint64{3})
		return
	}
	r.emit(op, append(ans, s...))
	r.verify(name)
	r.durable()
}

func (r *mpeRun) doRemove(k *mpeKey) {
	cur, present := r.shadow[k.id]
	name := "remove_absent"
	if present {
		name = "remove_present"
	}
	r.rep.Op(name)
	op := r.keyOp(4, k)
	var ks, vs atree.Storable
	err, pan := mpeCall(func() error {
		var e error
		ks, vs, e = r.m.Remove(testutils.CompareValue, testutils.GetHashInput, k.val)
		return e
	})
	if err != nil {
		if pan || mpeClass(err) != 1 {
			r.unexpected(name, err, pan)
			r.emit(op, []uint64{3})
			return
		}
		r.rep.Err("KeyNotFoundError")
		if present {
			r.viol("C02: Remove of a present key reported key-not-found", fmt.Sprintf("key %d", k.id))
		}
		before := r.lastEnc
		s, enc, ok := r.afterMutation(k.d[0], true)
		if !ok {
			r.emit(op, []uint64{3})
			return
		}
		if !mpeSameEnc(before, enc) {
			r.viol("C02: failed Remove changed the element structure", "")
		}
		r.emit(op, append([]uint64{1}, s...))
		return
	}
	kid, ksz, ok1 := mpeIdent(ks)
	vid, vsz, ok2 := mpeIdent(vs)
	if !ok1 || !ok2 {
		r.viol("C02: Remove returned unexpected storables", fmt.Sprintf("%T %T", ks, vs))
	}
	if !present {
		r.viol("C02: Remove of an absent key succeeded", fmt.Sprintf("key %d -> (%d,%d)", k.id, kid, vid))
	} else {
		if kid != k.id || ksz != k.ksz || vid != cur.vid || vsz != cur.vsz {
			r.viol("C02: Remove returned the wrong pair", fmt.Sprintf("key %d got (%d,%d,%d,%d) want (%d,%d,%d,%d)", k.id, kid, ksz, vid, vsz, k.id, k.ksz, cur.vid, cur.vsz))
		}
		delete(r.shadow, k.id)
		r.delLive(k)
	}
	s, _, ok := r.afterMutation(k.d[0], true)
	if !ok {
		r.emit(op, []uint64{3})
		return
	}
	r.emit(op, append([]uint64{0, kid, ksz, vid, vsz}, s...))
	r.verify(name)
	r.durable()
}

func (r *mpeRun) doGet(k *mpeKey) {
	cur, present := r.shadow[k.id]
	name := "get_absent"
	if present {
		name = "get_present"
	}
	r.rep.Op(name)
	op := r.keyOp(2, k)
	var v atree.Value
	err, pan := mpeCall(func() error {
		var e error
		v, e = r.m.Get(testutils.CompareValue, testutils.GetHashInput, k.val)
		return e
	})
	if err != nil {
		if pan || mpeClass(err) != 1 {
			r.unexpected(name, err, pan)
			r.emit(op, []uint64{3})
			return
		}
		r.rep.Err("KeyNotFoundError")
		if present {
			r.viol("C02: Get of a present key reported key-not-found", fmt.Sprintf("key %d", k.id))
		}
		r.emit(op, []uint64{1})
		return
	}
	vid, vsz, ok := mpeIdent(v)
	if !ok {
		r.viol("C02: Get returned an unexpected value", fmt.Sprintf("%T", v))
	}
	if !present {
		r.viol("C02: Get of an absent key returned a value", fmt.Sprintf("key %d -> %d", k.id, vid))
	} else if vid != cur.vid || vsz != cur.vsz {
		r.viol("C02: Get returned the wrong value", fmt.Sprintf("key %d got (%d,%d) want (%d,%d)", k.id, vid, vsz, cur.vid, cur.vsz))
	}
	r.emit(op, []uint64{0, vid, vsz})
}

func (r *mpeRun) doHas(k *mpeKey) {
	_, present := r.shadow[k.id]
	name := "has_absent"
	if present {
		name = "has_present"
	}
	r.rep.Op(name)
	op := r.keyOp(3, k)
	var b bool
	err, pan := mpeCall(func() error {
		var e error
		b, e = r.m.Has(testutils.CompareValue, testutils.GetHashInput, k.val)
		return e
	})
	if err != nil {
		r.unexpected(name, err, pan)
		r.emit(op, []uint64{3})
		return
	}
	if b != present {
		r.viol("C02: Has disagrees with the dictionary", fmt.Sprintf("key %d got %v", k.id, b))
	}
	x := uint64(0)
	if b {
		x = 1
	}
	r.emit(op, []uint64{0, x})
}

func (r *mpeRun) doCount() {
	r.rep.Op("count")
	n := r.m.Count()
	if n != uint64(len(r.shadow)) {
		r.viol("C02: Count disagrees with the dictionary", fmt.Sprintf("got %d want %d", n, len(r.shadow)))
	}
	r.emit([]uint64{5}, []uint64{0, n})
}

type mpePair struct{ kid, vid, vsz uint64 }

func (r *mpeRun) checkOrder(what string, got []mpePair, reverse bool) {
	want := r.expectedOrder()
	if reverse {
		for i, j := 0, len(want)-1; i < j; i, j = i+1, j-1 {
			want[i], want[j] = want[j], want[i]
		}
	}
	if len(got) != len(want) {
		r.viol("C13: "+what+" yielded the wrong number of pairs", fmt.Sprintf("got %d want %d", len(got), len(want)))
		return
	}
	for i := range got {
		if got[i].kid != want[i].k.id {
			r.viol("C13: "+what+" yielded keys out of canonical order", fmt.Sprintf("position %d: key %d, want %d", i, got[i].kid, want[i].k.id))
			return
		}
		if got[i].vid != want[i].vid || got[i].vsz != want[i].vsz {
			r.viol("C02: "+what+" yielded a stale value", fmt.Sprintf("position %d key %d: got (%d,%d) want (%d,%d)", i, got[i].kid, got[i].vid, got[i].vsz, want[i].vid, want[i].vsz))
			return
		}
	}
}

func (r *mpeRun) doIterate(mutable bool) {
	name, code := "iterate_readonly", uint64(6)
	if mutable {
		name, code = "iterate_mutable", 7
	}
	r.rep.Op(name)
	var got []mpePair
	fn := func(k, v atree.Value) (bool, error) {
		kid, _, ok1 := mpeIdent(k)
		vid, vsz, ok2 := mpeIdent(v)
		if !ok1 || !ok2 {
			r.viol("C02: iterator yielded unexpected values", fmt.Sprintf("%T %T", k, v))
		}
		got = append(got, mpePair{kid, vid, vsz})
		if len(got) > 4*len(r.pool)+16 {
			return false, fmt.Errorf("iterator does not terminate")
		}
		return true, nil
	}
	err, pan := mpeCall(func() error {
		if mutable {
			return r.m.Iterate(testutils.CompareValue, testutils.GetHashInput, fn)
		}
		return r.m.IterateReadOnly(fn)
	})
	if err != nil {
		r.unexpected(name, err, pan)
		r.emit([]uint64{code}, []uint64{3})
		return
	}
	r.checkOrder(name, got, false)
	obs := []uint64{0, uint64(len(got))}
	for _, p := range got {
		obs = append(obs, p.kid, p.vid)
	}
	r.emit([]uint64{code}, obs)
}

func (r *mpeRun) doPop() {
	r.rep.Op("pop_iterate")
	var got []mpePair
	err, pan := mpeCall(func() error {
		return r.m.PopIterate(func(ks, vs atree.Storable) {
			kid, _, ok1 := mpeIdent(ks)
			vid, vsz, ok2 := mpeIdent(vs)
			if !ok1 || !ok2 {
				r.viol("C02: PopIterate yielded unexpected storables", fmt.Sprintf("%T %T", ks, vs))
			}
			got = append(got, mpePair{kid, vid, vsz})
		})
	})
	if err != nil {
		r.unexpected("pop_iterate", err, pan)
		r.emit([]uint64{8}, []uint64{3})
		return
	}
	r.checkOrder("PopIterate", got, true)
	r.shadow = map[uint64]*mpeEntry{}
	r.live = r.live[:0]
	r.livePos = map[uint64]int{}
	s, enc, ok := r.afterMutation(0, false)
	if !ok {
		r.emit([]uint64{8}, []uint64{3})
		return
	}
	if r.m.Count() != 0 {
		r.viol("C13: Count() is not 0 after PopIterate", fmt.Sprint(r.m.Count()))
	}
	if len(enc) != 4 || enc[2] != 0 {
		r.viol("C13: map is not empty after PopIterate", fmt.Sprint(enc))
	}
	obs := []uint64{0, uint64(len(got))}
	for _, p := range got {
		obs = append(obs, p.kid, p.vid)
	}
	r.emit([]uint64{8}, append(obs, s...))
	r.verify("pop_iterate")
	r.transition = true
	r.durable()
}

// ---------- key choice ----------

func (r *mpeRun) pickLive() *mpeKey {
	if len(r.live) == 0 {
		return nil
	}
	return r.live[r.rng.Intn(len(r.live))]
}

func (r *mpeRun) pickDead() *mpeKey {
	if len(r.live) >= len(r.pool) {
		return nil
	}
	for t := 0; t < 8; t++ {
		k := r.pool[r.rng.Intn(len(r.pool))]
		if _, ok := r.shadow[k.id]; !ok {
			return k
		}
	}
	for _, k := range r.pool {
		if _, ok := r.shadow[k.id]; !ok {
			return k
		}
	}
	return nil
}

func (r *mpeRun) pickAbsent() *mpeKey {
	if r.rng.Chance(55) && len(r.probes) > 0 {
		return r.probes[r.rng.Intn(len(r.probes))]
	}
	if k := r.pickDead(); k != nil {
		return k
	}
	if len(r.probes) > 0 {
		return r.probes[r.rng.Intn(len(r.probes))]
	}
	return nil
}

func (r *mpeRun) randomOp(phase int) {
	rng := r.rng
	var w []int
	switch phase {
	case 0: // grow
		w = []int{46, 14, 5, 3, 8, 4, 5, 4, 3, 4, 4}
	case 1: // churn
		w = []int{20, 20, 20, 5, 8, 5, 5, 5, 3, 5, 4}
	default: // shrink
		w = []int{4, 10, 52, 5, 7, 5, 4, 4, 3, 3, 3}
	}
	var k *mpeKey
	switch rng.Pick(w...) {
	case 0:
		if k = r.pickDead(); k == nil {
			k = r.pickLive()
		}
		if k != nil {
			r.doSet(k)
		}
	case 1:
		if k = r.pickLive(); k == nil {
			k = r.pickDead()
		}
		if k != nil {
			r.doSet(k)
		}
	case 2:
		if k = r.pickLive(); k == nil {
			k = r.pickAbsent()
		}
		if k != nil {
			r.doRemove(k)
		}
	case 3:
		if k = r.pickAbsent(); k != nil {
			r.doRemove(k)
		}
	case 4:
		if k = r.pickLive(); k == nil {
			k = r.pickAbsent()
		}
		if k != nil {
			r.doGet(k)
		}
	case 5:
		if k = r.pickAbsent(); k != nil {
			r.doGet(k)
		}
	case 6:
		if k = r.pickLive(); k == nil {
			k = r.pickAbsent()
		}
		if k != nil {
			r.doHas(k)
		}
	case 7:
		if k = r.pickAbsent(); k != nil {
			r.doHas(k)
		}
	case 8:
		r.doCount()
	case 9:
		r.doIterate(false)
	default:
		r.doIterate(true)
	}
}

// ---------- durability: commit, reopen from the ledger, compare with the shadow ----------

func (r *mpeRun) limitText() string {
	if r.defLimit {
		return fmt.Sprintf("%d (the documented default; the limit was never configured, the library runs with its own default)", r.limit)
	}
	return fmt.Sprint(r.limit)
}

// commit writes the write set to the ledger.  FastCommit encodes in worker goroutines, where a
// panic cannot be recovered, so every slab of the write set is encoded here first.
func (r *mpeRun) commit() bool {
	r.rep.Event("commit")
	r.nCommit++
	err, pan := mpeCall(func() error {
		deltas, _ := atree.VerifStorageKeys(r.st)
		for id, live := range deltas {
			if !live {
				continue
			}
			if slab, ok := atree.VerifStorageDeltaSlab(r.st, id); ok && slab != nil {
				if _, e := atree.EncodeSlab(slab, encMode); e != nil {
					return fmt.Errorf("slab %s: %w", id, e)
				}
			}
		}
		return nil
	})
	if err != nil {
		r.viol("C02: a slab of the map cannot be encoded, the history cannot be committed", fmt.Sprintf("levels=%d mode=%s panic=%v %v", r.levels, r.mode, pan, err))
		r.dead = true
		return false
	}
	kind := r.rng.Intn(2)
	workers := 1 + r.rng.Intn(3)
	err, pan = mpeCall(func() error {
		if kind == 0 {
			return r.st.FastCommit(workers)
		}
		return r.st.NondeterministicFastCommit(workers)
	})
	if err != nil {
		r.viol("C02: commit failed", fmt.Sprintf("levels=%d mode=%s kind=%d panic=%v %v", r.levels, r.mode, kind, pan, err))
		r.dead = true
		return false
	}
	if d := r.st.Deltas(); d != 0 {
		r.viol("C02: write set is not empty after a successful commit", fmt.Sprint(d))
	}
	return true
}

// reopenCompare loads the map by its root identifier into a brand-new storage over the ledger
// bytes and compares it with the shadow dictionary (count, canonical order, values, absent keys)
// and with the last structural dump of the live map.  adopt: the history continues on the
// reopened map (the old wrapper and storage are dropped: one wrapper per container).
func (r *mpeRun) reopenCompare(adopt bool) {
	r.rep.Event("reopen_compare")
	r.nReopen++
	// dictionary semantics of a map holding collision groups or lists is C12's claim, otherwise C02's
	pid := "C02"
	if r.lastInfo != nil && (r.lastInfo.groups > 0 || r.lastInfo.nSL > 0) {
		pid = "C12"
	}
	nv := len(r.rep.Violations)
	defer func() {
		if len(r.rep.Violations) > nv {
			r.durq = 0 // one report per history: no further commits and comparisons
			r.rep.Event("hist_reopen_mismatch")
		}
	}()
	base := r.base
	if !adopt {
		base = r.base.Clone()
	}
	st2 := newStorage(base)
	b2 := &mpeVBuilder{table: r.b.table, levels: r.b.levels}
	var m2 *atree.OrderedMap
	err, pan := mpeCall(func() error {
		var e error
		m2, e = atree.NewMapWithRootID(st2, r.m.SlabID(), b2)
		return e
	})
	if err != nil {
		r.viol(pid+": map cannot be reopened by its root identifier after a commit", fmt.Sprintf("levels=%d mode=%s panic=%v %v", r.levels, r.mode, pan, err))
		r.dead = adopt
		return
	}
	if m2.Count() != uint64(len(r.shadow)) {
		r.viol(pid+": reopened map has a different count than the dictionary", fmt.Sprintf("%d vs %d", m2.Count(), len(r.shadow)))
	}
	want := r.expectedOrder()
	j, bad := 0, false
	err, pan = mpeCall(func() error {
		return m2.IterateReadOnly(func(k, v atree.Value) (bool, error) {
			kid, _, _ := mpeIdent(k)
			vid, vsz, _ := mpeIdent(v)
			if j >= len(want) {
				if !bad {
					r.viol(pid+": reopened map yields more pairs than the dictionary holds (a removed key is back)", fmt.Sprintf("extra key %d after %d pairs", kid, j))
				}
				bad = true
				return false, nil
			}
			if kid != want[j].k.id || vid != want[j].vid || vsz != want[j].vsz {
				if !bad {
					r.viol(pid+": reopened map content differs from the dictionary", fmt.Sprintf("pos %d: (%d,%d,%d) want (%d,%d,%d)", j, kid, vid, vsz, want[j].k.id, want[j].vid, want[j].vsz))
				}
				bad = true
				return false, nil
			}
			j++
			return true, nil
		})
	})
	if err != nil {
		r.viol(pid+": iterating the reopened map failed", fmt.Sprintf("levels=%d panic=%v %v", r.levels, pan, err))
		r.dead = adopt
		return
	}
	if !bad && j < len(want) {
		r.viol(pid+": reopened map yields fewer pairs than the dictionary holds", fmt.Sprintf("%d of %d", j, len(want)))
		bad = true
	}
	// point lookups: a few live keys, a few absent ones (removed pool keys, probes)
	for t := 0; t < 4 && len(r.live) > 0 && !bad; t++ {
		k := r.live[r.rng.Intn(len(r.live))]
		cur := r.shadow[k.id]
		var v atree.Value
		err, pan = mpeCall(func() error {
			var e error
			v, e = m2.Get(testutils.CompareValue, testutils.GetHashInput, k.val)
			return e
		})
		if err != nil {
			r.viol(pid+": reopened map does not find a key of the dictionary", fmt.Sprintf("key %d panic=%v %v", k.id, pan, err))
			bad = true
		} else if vid, vsz, _ := mpeIdent(v); vid != cur.vid || vsz != cur.vsz {
			r.viol(pid+": reopened map returns the wrong value", fmt.Sprintf("key %d got (%d,%d) want (%d,%d)", k.id, vid, vsz, cur.vid, cur.vsz))
			bad = true
		}
	}
	for t := 0; t < 4 && !bad; t++ {
		k := r.pickAbsent()
		if k == nil {
			break
		}
		var has bool
		err, pan = mpeCall(func() error {
			var e error
			has, e = m2.Has(testutils.CompareValue, testutils.GetHashInput, k.val)
			return e
		})
		if err != nil {
			r.viol(pid+": membership test on the reopened map failed", fmt.Sprintf("key %d panic=%v %v", k.id, pan, err))
			bad = true
		} else if has {
			r.viol(pid+": reopened map reports an absent key as present", fmt.Sprintf("key %d", k.id))
			bad = true
		}
	}
	// structure: the reopened map is the live map (groups, levels, cached sizes, external slabs)
	if !bad {
		r.roExt = true
		enc2, _, ok := r.dumpOf(m2)
		r.roExt = false
		if !ok {
			r.dead = false // the live map is intact; only the reopened copy could not be walked
			bad = true
		} else if !mpeSameEnc(enc2, r.lastEnc) {
			r.viol("C12: reopened map has a different element structure than the live map (some group, level, cached size or external slab did not survive the ledger)", "")
			bad = true
		}
	}
	if !bad {
		err, pan = mpeCall(func() error {
			return atree.VerifyMap(m2, r.addr, r.ti, testutils.CompareTypeInfo, testutils.GetHashInput, true)
		})
		if err != nil {
			r.viol("C12: VerifyMap failed on the reopened map", fmt.Sprintf("panic=%v %v", pan, err))
			bad = true
		}
	}
	if adopt {
		if bad {
			r.dead = true
			return
		}
		r.rep.Event("continue_on_reopened_map")
		r.nAdopt++
		r.st, r.m, r.b = st2, m2, b2
	}
}

// durable is called after every successful mutation: in a history with commit density durq the
// mutation is committed with that chance (at least 60% right after a change of the group
// structure), and the ledger is then reopened and compared with chance 60%.
func (r *mpeRun) durable() {
	if r.dead || r.durq == 0 {
		return
	}
	p := r.durq
	if r.transition && p < 60 {
		p = 60
	}
	if !r.rng.Chance(p) {
		return
	}
	if r.transition {
		r.rep.Event("commit_right_after_group_transition")
	}
	if !r.commit() {
		return
	}
	if r.rng.Chance(60) {
		r.reopenCompare(r.rng.Chance(20))
	}
}

// ---------- one history ----------

func (r *mpeRun) params() {
	rng := r.rng
	lib := mpeReadLibDefaultLimit()
	r.T = []uint32{256, 512, 1024}[rng.Pick(40, 30, 30)]
	r.levels = 1 + rng.Pick(7, 8, 8, 38, 6, 6, 7, 20)
	r.limit = []uint64{0, 1, 2, 3, 255}[rng.Pick(8, 14, 14, 14, 50)]
	r.defLimit = r.limit == mpeDocumentedDefaultLimit && rng.Bool()
	r.profile = rng.Pick(30, 40, 30)
	r.durq = []int{0, 4, 30, 100}[rng.Pick(15, 30, 30, 25)]
	if r.wide {
		// two of three wide histories leave the limit at the library's default
		r.limit, r.defLimit = mpeDocumentedDefaultLimit, true
		if (r.hist/mpeWideEvery)%3 == 2 {
			r.limit, r.defLimit = uint64(16+rng.Intn(240)), false
		}
		r.profile = 0
		r.durq = []int{0, 4, 30, 100}[rng.Pick(20, 45, 25, 10)]
	}
	set := atree.VerifSetThreshold(r.T)
	r.maxInline, r.maxKey = uint64(set[4]), uint64(set[5])
	if r.defLimit {
		// not configured: exactly the value the library started with is in force
		atree.VerifSetMaxCollisionLimitPerDigest(lib)
	} else {
		atree.VerifSetMaxCollisionLimitPerDigest(uint32(r.limit))
	}
}

func (r *mpeRun) setup() bool {
	rng := r.rng
	nk := 4 + rng.Intn(22)
	if rng.Chance(30) {
		nk = 26 + rng.Intn(35)
	}
	if r.wide {
		nk = int(r.limit) + 5 + rng.Intn(12) // limit+1 distinct level-1 digests are admitted
	}
	used := map[uint64]bool{}
	for i := 0; i < nk; i++ {
		r.pool = append(r.pool, r.newKey(used))
	}
	if r.wide {
		r.genWideDigests()
	} else {
		r.genDigests()
	}
	r.genProbes(used)
	r.b = &mpeVBuilder{table: map[uint64][mpeMaxLevels]uint64{}, levels: uint(r.levels)}
	for _, k := range r.pool {
		r.b.table[k.id] = k.d
	}
	for _, k := range r.probes {
		r.b.table[k.id] = k.d
	}

	r.base = NewLogBase()
	r.st = newStorage(r.base)
	r.addr = mkAddr(1)
	r.ti = testutils.NewSimpleTypeInfo(42)
	r.livePos = map[uint64]int{}
	r.shadow = map[uint64]*mpeEntry{}
	r.extIdx = map[atree.SlabID]uint64{}
	err, pan := mpeCall(func() error {
		var e error
		r.m, e = atree.NewMap(r.st, r.addr, r.b, r.ti)
		return e
	})
	if err != nil {
		r.unexpected("NewMap", err, pan)
		return false
	}
	enc, info, ok := r.dump()
	if !ok {
		return false
	}
	r.lastEnc, r.lastInfo = enc, info
	return true
}

func (r *mpeRun) checkpoint() {
	r.doCount()
	r.doIterate(false)
	if !r.dead {
		r.doIterate(true)
	}
	r.health("at a checkpoint")
	if r.durq > 0 && r.rng.Chance(35) && !r.dead {
		if r.commit() && r.rng.Chance(50) {
			r.reopenCompare(r.rng.Chance(25))
		}
	}
}

func (r *mpeRun) run(maxSteps int) {
	rng := r.rng
	hi := min(600, maxSteps)
	steps := hi
	if hi > 100 {
		steps = 100 + rng.Intn(hi-100+1)
	}
	r.params()
	r.tr.Hist(r.tag, uint64(r.T), r.maxInline, r.limit, uint64(r.levels))
	if !r.setup() {
		return
	}
	nextCheck := 20 + rng.Intn(10)
	if r.wide {
		// fill the hot digest up to and beyond the limit (the pool is in random order), a few other
		// operations in between; then churn around the boundary
		for pass := 0; pass < 2; pass++ { // second pass: the keys removed or refused meanwhile
			for _, k := range r.pool {
				if _, stored := r.shadow[k.id]; r.dead || (pass == 1 && stored) {
					continue
				}
				r.doSet(k)
				if rng.Chance(6) && !r.dead {
					r.randomOp(1)
				}
				if r.step >= nextCheck && !r.dead {
					nextCheck = r.step + 50 + rng.Intn(30)
					r.checkpoint()
				}
			}
		}
		churn := 50 + rng.Intn(60)
		for c := 0; c < churn && !r.dead; c++ {
			r.randomOp([]int{1, 1, 2, 0}[(c/12)%4])
			if r.step >= nextCheck && !r.dead {
				nextCheck = r.step + 40 + rng.Intn(20)
				r.checkpoint()
			}
		}
	}
	// phase plan: grow, churn, shrink, regrow, churn
	cut := []int{steps * 33 / 100, steps * 53 / 100, steps * 70 / 100, steps * 90 / 100}
	phaseOf := func(s int) int {
		switch {
		case s < cut[0]:
			return 0
		case s < cut[1]:
			return 1
		case s < cut[2]:
			return 2
		case s < cut[3]:
			return 0
		default:
			return 1
		}
	}
	for !r.wide && r.step < steps && !r.dead {
		r.randomOp(phaseOf(r.step))
		if r.dead {
			break
		}
		if r.step >= nextCheck {
			nextCheck = r.step + 18 + rng.Intn(10)
			r.checkpoint()
		}
	}
	if !r.dead {
		r.health("before PopIterate")
		r.doCount()
		r.doIterate(false)
	}
	if !r.dead && r.durq > 0 && r.commit() {
		r.reopenCompare(rng.Chance(30))
	}
	if !r.dead {
		r.doPop()
	}
	if !r.dead {
		r.doCount()
		r.doIterate(false)
	}
	if !r.dead {
		r.doIterate(true)
	}
	// the emptied map must remain usable
	for i := 0; i < 4 && !r.dead; i++ {
		if k := r.pickDead(); k != nil {
			r.doSet(k)
		}
	}
	if !r.dead {
		r.doCount()
		r.doIterate(true)
		r.health("at the end")
	}
	if !r.dead && r.durq > 0 && r.commit() {
		r.reopenCompare(false)
	}
}

func (r *mpeRun) summarize() {
	flag := func(b bool, name string) string {
		if b {
			r.rep.Event("hist_saw_" + name)
			return "1"
		}
		return "0"
	}
	lim := fmt.Sprint(r.limit)
	if r.defLimit {
		lim = "default"
	}
	fp := fmt.Sprintf("T%d L%d lim%s %s p%d q%d in%s ex%s ci%s ce%s ls%s rf%s d2%s ms%s", r.T, r.levels, lim, r.mode, r.profile, r.durq,
		flag(r.sawInline, "inline_group"), flag(r.sawExt, "external_spill"), flag(r.sawCollIn, "collapse_inline"),
		flag(r.sawCollExt, "collapse_external"), flag(r.sawList, "list_mode"), flag(r.sawRefused, "refusal"),
		flag(r.sawDepth2, "depth2"), flag(r.sawMulti, "multi_slab"))
	r.rep.Event("mode_" + r.mode)
	r.rep.Event(fmt.Sprintf("T_%d", r.T))
	r.rep.Event(fmt.Sprintf("levels_%d", r.levels))
	r.rep.Event("limit_" + lim)
	r.rep.Event(fmt.Sprintf("commit_density_%d", r.durq))
	if r.levels == mpeMaxLevels && r.sawList && r.nCommit > 0 {
		r.rep.Event("hist_committed_a_full_depth_list_under_8_levels")
	}
	if r.wide && r.sawRefused {
		r.rep.Event("hist_wide_reached_the_limit")
	}
	if r.dead {
		r.rep.Event("hist_aborted")
	}
	if r.sawInline || r.sawExt || r.sawList || r.sawRefused {
		r.rep.Distinct(fp)
	}
	r.rep.Sample(fmt.Sprintf("history %s: %d steps, %d keys + %d probes, %d commits, %d reopen-compares (%d continued on the reopened map), %s", r.tag, r.step, len(r.pool), len(r.probes), r.nCommit, r.nReopen, r.nAdopt, fp))
}

// every mpeWideEvery-th history (from history mpeWideEvery/2 on, so that the first histories,
// which are also evaluated inside Coq, stay small) is a wide one
const mpeWideEvery = 128

func cmdMapElems(a Args) {
	lib := mpeReadLibDefaultLimit() // before anything configures the limit
	tr := NewTrace(a.Out + "/trace.txt")
	rep := NewReport(a.Prop, a.Seed)
	rep.Rule = "one OrderedMap per history under a table digester with 1..8 levels (8 = maxDigestLevel; list / collide-up-to-level-j / classes colliding on EVERY level with " +
		"keys leaving at random levels / small alphabets / no collision / mixed; digest values include 0 and values >= 2^63), T in {256,512,1024}, collision limit in " +
		"{0,1,2,3,255, not configured = library default}; random Set/Get/Has/Remove/Count/IterateReadOnly/Iterate, one PopIterate; per history a commit density " +
		"(never / 4% / 30% / 100% of the mutations, at least 60% right after a change of the group structure: inline group <-> external group, collapse, nested group, list) " +
		"with commits of both kinds, after 60% of the commits the map is reopened from the ledger bytes in a brand-new storage and compared with the shadow " +
		"dictionary (count, order, values, absent keys), with the live map's structural dump and by VerifyMap, in 20% of those the history continues on the reopened map; " +
		"every 128th history (64, 192, ...) is WIDE: limit+5..16 keys, limit+4 of them under one level-0 digest with pairwise distinct level-1 digests, limit not configured (two of three) or 16..255, about limit+100 operations whatever -steps says; " +
		"oracles: shadow dictionary (previous value, got value, has, removed pair, count, key-not-found), " +
		"refusal <=> key absent and #distinct level-1 digests among live keys with the same level-0 digest >= limit+1, where an unconfigured limit is the documented default 255 " +
		"(refusal leaves count, structure and write set unchanged), iteration order = sort by (d0..dL-1,insertion seq) and PopIterate its reverse, groups collapsed/spilled canonically, " +
		"VerifyMap after every mutation, CheckStorageHealth(1 root) every ~20 ops; non-trivial = history with a collision group, list mode or refusal " +
		"(distinct by T, levels, limit, digest mode, value profile, commit density and the structural events seen)"
	defer func() {
		atree.VerifSetThreshold(1024)
		atree.VerifSetMaxCollisionLimitPerDigest(lib)
	}()
	root := NewRng(a.Seed)
	for h := 0; h < a.N; h++ {
		hr := root.Fork(uint64(h))
		tag := fmt.Sprintf("h%d", h)
		if !want(tag) {
			continue
		}
		r := &mpeRun{rep: rep, tr: tr, hist: h, tag: tag, rng: hr, wide: h%mpeWideEvery == mpeWideEvery/2}
		func() {
			defer func() {
				if p := recover(); p != nil {
					r.viol("C02: unexpected error (panic outside a library call)", fmt.Sprint(p))
					r.dead = true
				}
				atree.VerifSetThreshold(1024)
				atree.VerifSetMaxCollisionLimitPerDigest(lib)
			}()
			r.run(a.Steps)
		}()
		r.summarize()
	}
	tr.Close()
	rep.Histories = tr.Hists
	rep.Steps = tr.Steps
	rep.Write(a.Out + "/report.json")
}
