//go:build verif

package main

// gen-errors regenerates coq/gen/ErrCat.v from the implementation as it is now (C18):
// for every constructor function of errors.go (func New<X>Error..., func new<X>Error...)
//   - the category its body assigns, read from the source with go/parser (transitively through
//     constructors that delegate to another constructor, e.g. NewSlabIDErrorf -> NewSlabIDError),
//   - the category observed at run time on the error the exported constructor returns
//     (type of the outermost wrapper; errors.As against the three category types).
// The two columns must agree; props/C18.v proves agreement with theories/ErrSpec.v, so a changed
// category in errors.go makes the Coq build fail.  The `errors` subcommand repeats the comparison
// as a model-independent oracle (a violation per mismatch).

import (
	"errors"
	"fmt"
	"go/ast"
	"go/parser"
	"go/token"
	"os"
	"path/filepath"
	"reflect"
	"regexp"
	"runtime/debug"
	"sort"
	"strings"

	"github.com/onflow/atree"
)

func init() { register("gen-errors", func(a Args) { cmdGenErrors(a.Out) }) }

const (
	ercUser   = "User"
	ercFatal  = "Fatal"
	ercExtern = "External"
	ercNone   = "Uncategorised"
)

// ercRepoDir is the directory the atree module was built from (the go.mod replace target).
func ercRepoDir() string {
	if d := os.Getenv("ATREE_DIR"); d != "" {
		return d
	}
	if bi, ok := debug.ReadBuildInfo(); ok {
		for _, d := range bi.Deps {
			if d.Path == "github.com/onflow/atree" && d.Replace != nil && filepath.IsAbs(d.Replace.Path) {
				if _, err := os.Stat(filepath.Join(d.Replace.Path, "errors.go")); err == nil {
					return d.Replace.Path
				}
			}
		}
	}
	return "/repo"
}

type ercCtor struct {
	Name    string // constructor function
	Type    string // error type it builds ("" if not found)
	Static  string // category assigned by the body
	Runtime string // category observed ("" = not constructed: unexported or unknown to the harness)
	RunType string // type observed under the category wrapper
	Ambig   bool   // more than one category matches with errors.As
}

var ercCtorName = regexp.MustCompile(`^[Nn]ew[A-Za-z0-9]*Errorf?$`)

var ercCatCtor = map[string]string{"NewUserError": ercUser, "NewFatalError": ercFatal, "NewExternalError": ercExtern}

// ercParse reads errors.go and returns the constructors in source order with the static columns.
func ercParse(dir string) ([]ercCtor, error) {
	fset := token.NewFileSet()
	f, err := parser.ParseFile(fset, filepath.Join(dir, "errors.go"), nil, parser.SkipObjectResolution)
	if err != nil {
		return nil, err
	}
	type info struct {
		cats  map[string]bool
		typ   string
		calls []string // other constructors called
	}
	infos := map[string]*info{}
	var order []string
	for _, d := range f.Decls {
		fd, ok := d.(*ast.FuncDecl)
		if !ok || fd.Recv != nil || fd.Body == nil || !ercCtorName.MatchString(fd.Name.Name) {
			continue
		}
		if _, isCat := ercCatCtor[fd.Name.Name]; isCat {
			continue
		}
		// result must be exactly `error`
		if fd.Type.Results == nil || len(fd.Type.Results.List) != 1 {
			continue
		}
		if id, ok := fd.Type.Results.List[0].Type.(*ast.Ident); !ok || id.Name != "error" {
			continue
		}
		in := &info{cats: map[string]bool{}}
		ast.Inspect(fd.Body, func(n ast.Node) bool {
			switch x := n.(type) {
			case *ast.CallExpr:
				if id, ok := x.Fun.(*ast.Ident); ok {
					if c, ok := ercCatCtor[id.Name]; ok {
						in.cats[c] = true
					} else if ercCtorName.MatchString(id.Name) {
						in.calls = append(in.calls, id.Name)
					}
				}
			case *ast.CompositeLit:
				if id, ok := x.Type.(*ast.Ident); ok && strings.HasSuffix(id.Name, "Error") && in.typ == "" {
					in.typ = id.Name
				}
			}
			return true
		})
		infos[fd.Name.Name] = in
		order = append(order, fd.Name.Name)
	}
	// resolve delegation (a constructor that only calls another constructor inherits from it)
	var resolve func(name string, depth int) (string, string)
	resolve = func(name string, depth int) (string, string) {
		in := infos[name]
		if in == nil || depth > 8 {
			return ercNone, ""
		}
		cat, typ := ercNone, in.typ
		switch len(in.cats) {
		case 1:
			for c := range in.cats {
				cat = c
			}
		case 0:
			for _, callee := range in.calls {
				c, t := resolve(callee, depth+1)
				if c != ercNone {
					cat = c
					if typ == "" {
						typ = t
					}
					break
				}
			}
		default: // two different categories in one body: nothing definite is assigned
			cat = ercNone
		}
		return cat, typ
	}
	out := make([]ercCtor, 0, len(order))
	for _, n := range order {
		c, t := resolve(n, 0)
		out = append(out, ercCtor{Name: n, Type: t, Static: c})
	}
	return out, nil
}

// ercClassify: category of the outermost wrapper, the error type directly below it, and whether more
// than one category type is found in the chain.
func ercClassify(err error) (cat, typ string, ambiguous bool) {
	cat = ercNone
	inner := err
	switch e := err.(type) {
	case *atree.UserError:
		cat, inner = ercUser, e.Unwrap()
	case *atree.FatalError:
		cat, inner = ercFatal, e.Unwrap()
	case *atree.ExternalError:
		cat, inner = ercExtern, e.Unwrap()
	}
	n := 0
	var ue *atree.UserError
	var fe *atree.FatalError
	var ee *atree.ExternalError
	if errors.As(err, &ue) {
		n++
	}
	if errors.As(err, &fe) {
		n++
	}
	if errors.As(err, &ee) {
		n++
	}
	if inner != nil {
		t := reflect.TypeOf(inner)
		if t.Kind() == reflect.Ptr {
			t = t.Elem()
		}
		typ = t.Name()
	}
	return cat, typ, n > 1
}

// ercAsCategory: the category as a caller would test it (errors.As anywhere in the chain).
func ercAsCategory(err error) string {
	var ue *atree.UserError
	var fe *atree.FatalError
	var ee *atree.ExternalError
	var cs []string
	if errors.As(err, &ue) {
		cs = append(cs, ercUser)
	}
	if errors.As(err, &fe) {
		cs = append(cs, ercFatal)
	}
	if errors.As(err, &ee) {
		cs = append(cs, ercExtern)
	}
	if len(cs) == 0 {
		return ercNone
	}
	return strings.Join(cs, "+")
}

var errErcInner = errors.New("inner")

// ercRuntimeCtors: every exported constructor of errors.go that can be called with simple arguments.
func ercRuntimeCtors() map[string]func() error {
	e := errErcInner
	var id atree.SlabID
	var vid atree.ValueID
	return map[string]func() error{
		"NewArrayElementCannotExceedMaxElementCountError": func() error { return atree.NewArrayElementCannotExceedMaxElementCountError(1) },
		"NewSliceOutOfBoundsError":                        func() error { return atree.NewSliceOutOfBoundsError(1, 2, 0, 1) },
		"NewInvalidSliceIndexError":                       func() error { return atree.NewInvalidSliceIndexError(2, 1) },
		"NewIndexOutOfBoundsError":                        func() error { return atree.NewIndexOutOfBoundsError(1, 0, 1) },
		"NewNotValueError":                                func() error { return atree.NewNotValueError(id) },
		"NewDuplicateKeyError":                            func() error { return atree.NewDuplicateKeyError("k") },
		"NewKeyNotFoundError":                             func() error { return atree.NewKeyNotFoundError("k") },
		"NewHashSeedUninitializedError":                   func() error { return atree.NewHashSeedUninitializedError() },
		"NewHashError":                                    func() error { return atree.NewHashError(e) },
		"NewSlabIDError":                                  func() error { return atree.NewSlabIDError("m") },
		"NewSlabIDErrorf":                                 func() error { return atree.NewSlabIDErrorf("m %d", 1) },
		"NewSlabNotFoundError":                            func() error { return atree.NewSlabNotFoundError(id, e) },
		"NewSlabNotFoundErrorf":                           func() error { return atree.NewSlabNotFoundErrorf(id, "m %d", 1) },
		"NewSlabSplitError":                               func() error { return atree.NewSlabSplitError(e) },
		"NewSlabSplitErrorf":                              func() error { return atree.NewSlabSplitErrorf("m %d", 1) },
		"NewSlabMergeError":                               func() error { return atree.NewSlabMergeError(e) },
		"NewSlabMergeErrorf":                              func() error { return atree.NewSlabMergeErrorf("m %d", 1) },
		"NewSlabRebalanceError":                           func() error { return atree.NewSlabRebalanceError(e) },
		"NewSlabRebalanceErrorf":                          func() error { return atree.NewSlabRebalanceErrorf("m %d", 1) },
		"NewSlabDataError":                                func() error { return atree.NewSlabDataError(e) },
		"NewSlabDataErrorf":                               func() error { return atree.NewSlabDataErrorf("m %d", 1) },
		"NewEncodingError":                                func() error { return atree.NewEncodingError(e) },
		"NewEncodingErrorf":                               func() error { return atree.NewEncodingErrorf("m %d", 1) },
		"NewDecodingError":                                func() error { return atree.NewDecodingError(e) },
		"NewDecodingErrorf":                               func() error { return atree.NewDecodingErrorf("m %d", 1) },
		"NewNotImplementedError":                          func() error { return atree.NewNotImplementedError("m") },
		"NewHashLevelErrorf":                              func() error { return atree.NewHashLevelErrorf("m %d", 1) },
		"NewNotApplicableError":                           func() error { return atree.NewNotApplicableError("t", "i", "m") },
		"NewUnreachableError":                             func() error { return atree.NewUnreachableError() },
		"NewCollisionLimitError":                          func() error { return atree.NewCollisionLimitError(1) },
		"NewMapElementCountError":                         func() error { return atree.NewMapElementCountError("m") },
		"NewReadOnlyIteratorElementMutationError":         func() error { return atree.NewReadOnlyIteratorElementMutationError(vid, vid) },
		"NewUnexpectedElementTypeError": func() error {
			return atree.NewUnexpectedElementTypeError(reflect.TypeOf(0), reflect.TypeOf(""))
		},
	}
}

// ercTable = static columns from the source + runtime columns from the built library.
func ercTable() ([]ercCtor, error) {
	rows, err := ercParse(ercRepoDir())
	if err != nil {
		return nil, err
	}
	rt := ercRuntimeCtors()
	for i := range rows {
		f, ok := rt[rows[i].Name]
		if !ok {
			continue
		}
		func() {
			defer func() {
				if p := recover(); p != nil {
					rows[i].Runtime, rows[i].RunType = ercNone, fmt.Sprintf("panic: %v", p)
				}
			}()
			e := f()
			if e == nil {
				rows[i].Runtime = ercNone
				return
			}
			rows[i].Runtime, rows[i].RunType, rows[i].Ambig = ercClassify(e)
		}()
	}
	return rows, nil
}

// ercExpected mirrors theories/ErrSpec.v [expected_table] (used by the `errors` oracle; the Coq
// theorem is the authority, this copy only makes the harness report the mismatch with a message).
var ercExpected = map[string]string{
	"IndexOutOfBoundsError": ercUser, "SliceOutOfBoundsError": ercUser, "InvalidSliceIndexError": ercUser,
	"KeyNotFoundError": ercUser, "CollisionLimitError": ercFatal, "SlabIDError": ercFatal,
	"HashSeedUninitializedError": ercFatal, "HashError": ercFatal, "SlabNotFoundError": ercFatal,
	"SlabSplitError": ercFatal, "SlabMergeError": ercFatal, "SlabRebalanceError": ercFatal,
	"SlabDataError": ercFatal, "EncodingError": ercFatal, "DecodingError": ercFatal,
	"NotImplementedError": ercFatal, "HashLevelError": ercFatal, "NotApplicableError": ercFatal,
	"MapElementCountError": ercFatal,
}

func cmdGenErrors(out string) {
	rows, err := ercTable()
	must(err)
	var sb strings.Builder
	sb.WriteString("(* GENERATED from errors.go by `harness gen-errors`: do not edit.\n" +
		"   errcat_rows: (constructor, error type, category assigned by the constructor body [parsed],\n" +
		"                 category observed at run time [None = constructor not callable from the harness]).\n" +
		"   errcat_table / errcat_runtime: (error type, category), one row per constructor. *)\n" +
		"From Coq Require Import String List.\nFrom AtreeModel Require Import ErrSpec.\nImport ListNotations.\nLocal Open Scope string_scope.\n\n")
	opt := func(s string) string {
		if s == "" {
			return "None"
		}
		return "Some " + s
	}
	var l1, l2, l3 []string
	for _, r := range rows {
		l1 = append(l1, fmt.Sprintf("  (%q, %q, %s, %s)", r.Name, r.Type, r.Static, opt(r.Runtime)))
		l2 = append(l2, fmt.Sprintf("  (%q, %s)", r.Type, r.Static))
		if r.Runtime != "" {
			t := r.RunType
			if strings.HasPrefix(t, "panic") {
				t = ""
			}
			l3 = append(l3, fmt.Sprintf("  (%q, %s)", t, r.Runtime))
		}
	}
	fmt.Fprintf(&sb, "Definition errcat_rows : list (string * string * ecat * option ecat) := [\n%s\n].\n\n", strings.Join(l1, ";\n"))
	fmt.Fprintf(&sb, "Definition errcat_table : list (string * ecat) := [\n%s\n].\n\n", strings.Join(l2, ";\n"))
	fmt.Fprintf(&sb, "Definition errcat_runtime : list (string * ecat) := [\n%s\n].\n", strings.Join(l3, ";\n"))
	writeIfChanged(out+"/ErrCat.v", sb.String())

	// tell the operator at once (the Coq build and the `errors` check are what fails the run)
	var bad []string
	for _, r := range rows {
		if r.Runtime != "" && (r.Runtime != r.Static || (r.RunType != r.Type)) {
			bad = append(bad, fmt.Sprintf("%s: parsed %s/%s, observed %s/%s", r.Name, r.Type, r.Static, r.RunType, r.Runtime))
		}
	}
	sort.Strings(bad)
	for _, b := range bad {
		fmt.Fprintln(os.Stderr, "gen-errors: MISMATCH", b)
	}
}
