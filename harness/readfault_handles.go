//go:build verif

package main

// readfault_handles.go — child handles obtained BEFORE a parent request that hits a transient ledger
// read failure (`readfault -prop C10`).
//
// A scenario is a committed parent container (array or map over several slabs, the root itself or an
// element of a small root container) that holds several child containers (arrays and maps; one element,
// empty, around the inline limit, stand-alone over several slabs; some wrapped in SomeValue) at several
// positions (first, last, adjacent, random) / keys.  A case
//
//   1. opens a copy of the ledger with a FRESH storage, obtains live handles to some / all children
//      (Get in a random order, or the mutable iteration), creates further children in this session and
//      puts them into the parent (Insert / Set over a scalar / Set of a new key), optionally drops the
//      read cache;
//   2. executes ONE parent request (Array Remove/Insert/Set/Append at positions before, at and behind
//      the children; OrderedMap Set/Remove of child keys, other keys, absent keys) with the k-th ledger
//      read failing once, for every k in the DESCENT of the request (the reads the lookup of the same
//      position / key performs: the library refuses the request there without having changed anything),
//      and retries it (in a second run the first read of the retry fails as well);
//   3. THEN mutates through every handle obtained in step 1 in three stages (two elements more; over
//      the inline limit; down to one element, i.e. back under the limit), commits and reopens after
//      every stage.
//
// Oracles (none knows what the requests are supposed to do; the reference is the twin that executed the
// same session without a fault, plus statements about the session alone):
//   * the refused request left the hook view of the parent's cached child positions
//     (mutableElementIndex) as it was; after the retry that view equals the twin's and every cached
//     position is the position at which the read-only iteration of the parent yields the child;
//   * every mutation through a handle returns what it returned in the twin; the child read through the
//     parent (read-only iteration, by value identifier) shows exactly what the handle shows; the handle
//     keeps / loses its parent updater as in the twin;
//   * VerifyArray / VerifyMap of the root hold after every stage; content (read-only and Get), deep slab
//     dump and the committed registers equal the twin's; the tree reopened from the registers reads as
//     the live tree did.

import (
	"fmt"
	"sort"
	"strings"

	"github.com/onflow/atree"
	testutils "github.com/onflow/atree/test_utils"
)

// ---------- scenario ----------

type hfScenario struct {
	*rfScenario
	ppath  []rfStep // path of the parent (nil: the parent is the root)
	parent *rfSpec
	kids   []int // positions / key indexes of the parent's child containers, ascending
}

func hfScalars(r *Rng, isMap bool, n int) *rfSpec {
	c := &rfSpec{kind: rfArr}
	if isMap {
		c.kind = rfMap
	}
	for i := 0; i < n; i++ {
		e := rfScalar(r, r.Chance(8))
		e.some = r.Chance(4)
		c.elems = append(c.elems, e)
		if isMap {
			c.keys = append(c.keys, rfKey(r, i, true))
		}
	}
	return c
}

func hfChildSpec(r *Rng, kind int, scale int) *rfSpec {
	isMap := r.Chance(40)
	var c *rfSpec
	switch kind {
	case 0: // one element, inlined
		c = rfCont(r, isMap, 1, 0, scale)
	case 1: // 0..3 elements, inlined
		c = rfCont(r, isMap, r.Intn(4), 0, scale)
	case 2: // around the inline limit
		c = rfCont(r, isMap, 6+r.Intn(10), 0, scale)
	default: // stand-alone, several slabs
		c = rfCont(r, isMap, (40+r.Intn(60))*scale, 0, scale)
	}
	c.some = r.Chance(15)
	return c
}

func hfNewScenario(r *Rng, mode string) *hfScenario {
	sc := &rfScenario{addr: mkAddr(22)}
	sc.T = []uint32{256, 256, 256, 512}[r.Intn(4)]
	scale := int(sc.T / 256)
	atree.VerifSetThreshold(sc.T)
	pIsMap := r.Chance(35)
	switch mode {
	case "array":
		pIsMap = false
	case "map":
		pIsMap = true
	}
	n := (60 + r.Intn(200)) * scale
	if r.Chance(25) {
		n = (300 + r.Intn(300)) * scale // arrays: two levels of index slabs at T=256
	}
	p := hfScalars(r, pIsMap, n)
	pos := map[int]bool{}
	nc := 3 + r.Intn(5)
	if r.Chance(50) {
		pos[0] = true
	}
	if r.Chance(60) {
		pos[n-1] = true
	}
	if r.Chance(60) {
		m := 1 + r.Intn(n-3)
		pos[m], pos[m+1] = true, true
	}
	for len(pos) < nc {
		pos[r.Intn(n)] = true
	}
	hs := &hfScenario{rfScenario: sc, parent: p}
	for q := range pos {
		hs.kids = append(hs.kids, q)
	}
	sort.Ints(hs.kids)
	order := hfPerm(r, len(hs.kids))
	for j, oi := range order {
		kind := r.Pick(25, 25, 20, 30)
		if j == 0 {
			kind = r.Intn(2) // at least one inlined child ...
		} else if j == 1 {
			kind = 3 // ... and one stand-alone child
		}
		p.elems[hs.kids[oi]] = hfChildSpec(r, kind, scale)
	}
	sc.kind = "parent array"
	if pIsMap {
		sc.kind = "parent map"
	}
	sc.root = p
	if r.Chance(45) { // root -> parent -> children
		rootIsMap := r.Chance(40)
		m := 2 + r.Intn(30)
		root := hfScalars(r, rootIsMap, m)
		at := r.Intn(m)
		root.elems[at] = p
		sc.root = root
		hs.ppath = []rfStep{{at}}
		if rootIsMap {
			sc.kind += " in a root map"
		} else {
			sc.kind += " in a root array"
		}
	}
	if sc.root.kind == rfMap && r.Chance(40) {
		sc.mod = uint64(3 + r.Intn(20))
	}
	sc.base = NewLogBase()
	st := newStorage(sc.base)
	var db atree.DigesterBuilder
	if sc.root.kind == rfMap {
		db = sc.digester()
	}
	root := rfBuild(st, sc.addr, sc.root, db)
	switch x := root.(type) {
	case *atree.Array:
		sc.rootID = x.SlabID()
	case *atree.OrderedMap:
		sc.rootID = x.SlabID()
	}
	must(st.FastCommit(2))
	return hs
}

// hfPerm: a permutation of 0..n-1 from the seeded stream.
func hfPerm(r *Rng, n int) []int {
	p := make([]int, n)
	for i := range p {
		p[i] = i
	}
	for i := n - 1; i > 0; i-- {
		j := r.Intn(i + 1)
		p[i], p[j] = p[j], p[i]
	}
	return p
}

// ---------- plan: which handles are obtained how, before the request ----------

type hfFresh struct {
	spec *rfSpec
	at   int  // array parent: position of the Insert / Set
	set  bool // array parent: Set over a scalar instead of Insert
}

type hfPlan struct {
	get      []int // positions / key indexes of the children obtained by Get, in this order
	iter     bool  // array parent: all children obtained by the mutable iteration instead
	fresh    []hfFresh
	drop     bool
	mutOrder []int // order in which the handles are mutated afterwards
	// bookkeeping of where things were put (array parent): layout[i] = index into the parent's
	// specification, or -1-j for the j-th child created in this session
	layout []int
}

func (hs *hfScenario) isChildAt(pl *hfPlan, i int) bool {
	if i < 0 || i >= len(pl.layout) {
		return false
	}
	l := pl.layout[i]
	return l < 0 || hs.parent.elems[l].isCont()
}

// staleAt: the slot holds a child whose handle is held while the read cache was dropped.  The handle then
// works on another object than the one the parent re-reads from the ledger; a request that takes the
// child OUT of the parent (Remove / Set of that very slot) uninlines the parent's object, and the held
// handle is an outdated reference to a stale object (mutating it afterwards is a mistake of the client:
// seen on the unchanged library as "failed to encode non-root map data slab as inlined" at commit).
// Such requests are generated only for plans that keep the read cache.
func (hs *hfScenario) staleAt(pl *hfPlan, i int) bool {
	if !pl.drop || !hs.isChildAt(pl, i) {
		return false
	}
	return pl.layout[i] < 0 || pl.iter || hs.heldByGet(pl, pl.layout[i])
}

func (hs *hfScenario) heldByGet(pl *hfPlan, q int) bool {
	for _, g := range pl.get {
		if g == q {
			return true
		}
	}
	return false
}

func (hs *hfScenario) newPlan(r *Rng) *hfPlan {
	scale := int(hs.T / 256)
	pl := &hfPlan{}
	isArr := hs.parent.kind == rfArr
	if isArr && r.Chance(20) {
		pl.iter = true
	} else {
		for _, oi := range hfPerm(r, len(hs.kids)) {
			if r.Chance(70) || len(pl.get) == 0 {
				pl.get = append(pl.get, hs.kids[oi])
			}
		}
	}
	pl.layout = make([]int, len(hs.parent.elems))
	for i := range pl.layout {
		pl.layout[i] = i
	}
	nf := r.Pick(40, 40, 20)
	for j := 0; j < nf; j++ {
		f := hfFresh{spec: hfChildSpec(r, r.Pick(50, 30, 20), scale)}
		if isArr {
			L := len(pl.layout)
			f.at = r.Intn(L + 1)
			switch r.Intn(6) {
			case 0:
				f.at = 0
			case 1:
				f.at = L
			}
			if r.Chance(30) && f.at < L && !hs.isChildAt(pl, f.at) {
				f.set = true
				pl.layout[f.at] = -1 - j
			} else {
				pl.layout = append(pl.layout, 0)
				copy(pl.layout[f.at+1:], pl.layout[f.at:])
				pl.layout[f.at] = -1 - j
			}
		}
		pl.fresh = append(pl.fresh, f)
	}
	pl.drop = r.Chance(60)
	nh := len(pl.get) + len(pl.fresh)
	if pl.iter {
		nh = len(hs.kids) + len(pl.fresh)
	}
	pl.mutOrder = hfPerm(r, nh)
	return pl
}

func (hs *hfScenario) planName(pl *hfPlan) string {
	var sb strings.Builder
	if pl.iter {
		fmt.Fprintf(&sb, "live handles to all %d child containers obtained by Iterate", len(hs.kids))
	} else {
		fmt.Fprintf(&sb, "live handles obtained by Get of the children at %v", pl.get)
	}
	for _, f := range pl.fresh {
		switch {
		case hs.parent.kind != rfArr:
			fmt.Fprintf(&sb, ", %s created and Set under a new key", rfSpecName(f.spec))
		case f.set:
			fmt.Fprintf(&sb, ", %s created and Set at %d", rfSpecName(f.spec), f.at)
		default:
			fmt.Fprintf(&sb, ", %s created and Inserted at %d", rfSpecName(f.spec), f.at)
		}
	}
	if pl.drop {
		sb.WriteString(", read cache dropped")
	}
	return sb.String()
}

func hfFreshKey(j int) atree.Value { return testutils.NewStringValue(fmt.Sprintf("fresh-child-%d", j)) }

// ---------- instance ----------

type hfHandle struct {
	c    atree.Value // *atree.Array or *atree.OrderedMap
	vid  atree.ValueID
	spec *rfSpec
	how  string
}

type hfInst struct {
	*rfInst
	hs []*hfHandle
}

func hfVID(c atree.Value) atree.ValueID {
	switch x := c.(type) {
	case *atree.Array:
		return x.ValueID()
	case *atree.OrderedMap:
		return x.ValueID()
	}
	return atree.ValueID{}
}

func (x *hfInst) hold(v atree.Value, spec *rfSpec, how string) {
	c := unwrapValueAll(v)
	switch c.(type) {
	case *atree.Array, *atree.OrderedMap:
	default:
		panic(fmt.Sprintf("readfault handles: %s yields %T, not a container", how, v))
	}
	x.hs = append(x.hs, &hfHandle{c: c, vid: hfVID(c), spec: spec, how: how})
}

var (
	hfCmp = atree.ValueComparator(testutils.CompareValue)
	hfHip = atree.HashInputProvider(testutils.GetHashInput)
)

func (hs *hfScenario) setup(pl *hfPlan) *hfInst {
	x := &hfInst{rfInst: hs.open(hs.ppath, false)}
	ps := hs.parent
	switch p := x.tgt.(type) {
	case *atree.Array:
		if pl.iter {
			i := 0
			must(p.Iterate(func(v atree.Value) (bool, error) {
				if ps.elems[i].isCont() {
					x.hold(v, ps.elems[i], fmt.Sprintf("Iterate, position %d", i))
				}
				i++
				return true, nil
			}))
		}
		for _, q := range pl.get {
			v, err := p.Get(uint64(q))
			must(err)
			x.hold(v, ps.elems[q], fmt.Sprintf("Get(%d)", q))
		}
		for _, f := range pl.fresh {
			v := rfBuild(x.st, hs.addr, f.spec, nil)
			if f.set {
				_, err := p.Set(uint64(f.at), v)
				must(err)
				x.hold(v, f.spec, fmt.Sprintf("created, Set(%d)", f.at))
			} else {
				must(p.Insert(uint64(f.at), v))
				x.hold(v, f.spec, fmt.Sprintf("created, Insert(%d)", f.at))
			}
		}
	case *atree.OrderedMap:
		for _, q := range pl.get {
			v, err := p.Get(hfCmp, hfHip, ps.keys[q].scalarValue())
			must(err)
			x.hold(v, ps.elems[q], fmt.Sprintf("Get(key #%d)", q))
		}
		for j, f := range pl.fresh {
			v := rfBuild(x.st, hs.addr, f.spec, nil)
			old, err := p.Set(hfCmp, hfHip, hfFreshKey(j), v)
			must(err)
			if old != nil {
				panic("readfault handles: fresh key exists")
			}
			x.hold(v, f.spec, fmt.Sprintf("created, Set(fresh key %d)", j))
		}
	}
	if pl.drop {
		x.st.DropCache()
	}
	return x
}

// indexView: hook view of the cached child positions of the parent (and of the root above it).
func (x *hfInst) indexView() string {
	var sb strings.Builder
	seen := map[atree.Value]bool{}
	for _, c := range []atree.Value{x.root, x.tgt} {
		a, ok := c.(*atree.Array)
		if !ok || seen[c] {
			continue
		}
		seen[c] = true
		m := atree.VerifArrayIndexMap(a)
		lines := make([]string, 0, len(m))
		for vid, i := range m {
			lines = append(lines, fmt.Sprintf("%x@%d", vid[8:], i))
		}
		sort.Strings(lines)
		fmt.Fprintf(&sb, "[%s]", strings.Join(lines, " "))
	}
	return sb.String()
}

// seenThroughParent: the child as the read-only iteration of the parent yields it (no callback is
// installed, no cached position is touched), with its position in an array parent.
func (x *hfInst) seenThroughParent(vid atree.ValueID) (v atree.Value, at int, err error) {
	at = -1
	switch p := x.tgt.(type) {
	case *atree.Array:
		i := 0
		bound := int(p.Count()) + 4
		err = p.IterateReadOnly(func(e atree.Value) (bool, error) {
			if c := unwrapValueAll(e); at < 0 && hfVID(c) == vid && vid != (atree.ValueID{}) {
				v, at = c, i
			}
			i++
			return i <= bound, nil
		})
	case *atree.OrderedMap:
		i := 0
		bound := int(p.Count()) + 4
		err = p.IterateReadOnly(func(_, e atree.Value) (bool, error) {
			if c := unwrapValueAll(e); v == nil && hfVID(c) == vid && vid != (atree.ValueID{}) {
				v, at = c, i
			}
			i++
			return i <= bound, nil
		})
	}
	return
}

func hfAttached(c atree.Value) bool {
	switch h := c.(type) {
	case *atree.Array:
		return atree.VerifArrayHasParentUpdater(h)
	case *atree.OrderedMap:
		return atree.VerifMapHasParentUpdater(h)
	}
	return false
}

// ---------- mutations through a handle ----------

func hfGrowKey(j int) atree.Value { return testutils.NewStringValue(fmt.Sprintf("g%03d", j)) }

// hfMutate: stage 0: two elements more (and the first one overwritten); stage 1: over the inline limit;
// stage 2: down to one element.  The script depends on the handle's own Count() only.
func hfMutate(h *hfHandle, stage int, big int) (res string) {
	defer func() {
		if p := recover(); p != nil {
			res = fmt.Sprintf("panic: %v", p)
		}
	}()
	switch c := h.c.(type) {
	case *atree.Array:
		switch stage {
		case 0:
			if c.Count() > 0 {
				if _, err := c.Set(0, testutils.Uint64Value(1<<41)); err != nil {
					return "Set(0): " + err.Error()
				}
			}
			for j := 0; j < 2; j++ {
				if err := c.Append(testutils.Uint64Value(1<<40 + uint64(j))); err != nil {
					return "Append: " + err.Error()
				}
			}
		case 1:
			for j := 0; j < big; j++ {
				var err error
				if j%3 == 1 {
					err = c.Insert(0, testutils.Uint64Value(1<<42+uint64(j)))
				} else {
					err = c.Append(testutils.Uint64Value(1<<42 + uint64(j)))
				}
				if err != nil {
					return fmt.Sprintf("growth %d: %v", j, err)
				}
			}
		default:
			for j := 0; c.Count() > 1 && j < 5000; j++ {
				i := c.Count() - 1
				if j%4 == 2 {
					i = 0
				}
				if _, err := c.Remove(i); err != nil {
					return fmt.Sprintf("Remove(%d) at count %d: %v", i, c.Count(), err)
				}
			}
		}
		return fmt.Sprintf("ok count=%d inlined=%t", c.Count(), c.Inlined())
	case *atree.OrderedMap:
		switch stage {
		case 0:
			for j := 0; j < 2; j++ {
				if _, err := c.Set(hfCmp, hfHip, hfGrowKey(j), testutils.Uint64Value(1<<40+uint64(j))); err != nil {
					return "Set: " + err.Error()
				}
			}
		case 1:
			for j := 2; j < 2+big; j++ {
				if _, err := c.Set(hfCmp, hfHip, hfGrowKey(j), testutils.Uint64Value(1<<42+uint64(j))); err != nil {
					return fmt.Sprintf("growth %d: %v", j, err)
				}
			}
		default:
			var keys []atree.Value
			for j := 0; j < 2+big; j++ {
				keys = append(keys, hfGrowKey(j))
			}
			for _, k := range h.spec.keys {
				keys = append(keys, k.scalarValue())
			}
			for _, k := range keys {
				if c.Count() <= 1 {
					break
				}
				if _, _, err := c.Remove(hfCmp, hfHip, k); err != nil {
					return fmt.Sprintf("Remove(%v) at count %d: %v", k, c.Count(), err)
				}
			}
		}
		return fmt.Sprintf("ok count=%d inlined=%t", c.Count(), c.Inlined())
	}
	return "not a container"
}

// ---------- requests on the parent ----------

type hfReq struct {
	name    string
	plan    *hfPlan
	prep    func(x *hfInst) any
	run     func(x *hfInst, p any, o *rfOut) error
	descent func(x *hfInst)
}

func (hs *hfScenario) arrayReqs(r *Rng, pl *hfPlan) []hfReq {
	scale := int(hs.T / 256)
	L := len(pl.layout)
	cand := map[int]bool{0: true, L - 1: true, r.Intn(L): true, r.Intn(L): true, r.Intn(L): true, r.Intn(L): true}
	var cps []int
	for i := 0; i < L; i++ {
		if hs.isChildAt(pl, i) {
			cps = append(cps, i)
			for _, d := range []int{-1, 0, 1} {
				if i+d >= 0 && i+d < L {
					cand[i+d] = true
				}
			}
		}
	}
	var is []int
	for i := range cand {
		is = append(is, i)
	}
	sort.Ints(is)
	arr := func(x *hfInst) *atree.Array { return x.tgt.(*atree.Array) }
	lookup := func(i int) func(x *hfInst) {
		return func(x *hfInst) { _, _ = atree.VerifArrayGetStorable(arr(x), uint64(i)) }
	}
	where := func(i int) string {
		s := fmt.Sprintf("parent array of %d elements with children at %v; ", L, cps)
		return s + hs.planName(pl)
	}
	var out []hfReq
	for _, i := range is {
		i := i
		if !hs.staleAt(pl, i) {
			q := hfReq{name: fmt.Sprintf("Array.Remove(%d) on the %s", i, where(i)), plan: pl}
			q.run = func(x *hfInst, _ any, o *rfOut) error {
				old, err := arr(x).Remove(uint64(i))
				if err == nil {
					o.add(old)
				}
				return err
			}
			q.descent = lookup(i)
			out = append(out, q)
		}
		{
			vs := rfNewValSpec(r, scale)
			q := hfReq{name: fmt.Sprintf("Array.Insert(%d, %s) on the %s", i, rfSpecName(vs), where(i)), plan: pl}
			q.prep = func(x *hfInst) any { return rfBuild(x.st, hs.addr, vs, nil) }
			q.run = func(x *hfInst, p any, _ *rfOut) error { return arr(x).Insert(uint64(i), p.(atree.Value)) }
			q.descent = lookup(i)
			out = append(out, q)
		}
		if !hs.staleAt(pl, i) {
			vs := rfNewValSpec(r, scale)
			q := hfReq{name: fmt.Sprintf("Array.Set(%d, %s) on the %s", i, rfSpecName(vs), where(i)), plan: pl}
			q.prep = func(x *hfInst) any { return rfBuild(x.st, hs.addr, vs, nil) }
			q.run = func(x *hfInst, p any, o *rfOut) error {
				old, err := arr(x).Set(uint64(i), p.(atree.Value))
				if err == nil {
					o.add(old)
				}
				return err
			}
			q.descent = lookup(i)
			out = append(out, q)
		}
	}
	{
		vs := rfNewValSpec(r, scale)
		q := hfReq{name: fmt.Sprintf("Array.Append(%s) on the %s", rfSpecName(vs), where(L)), plan: pl}
		q.prep = func(x *hfInst) any { return rfBuild(x.st, hs.addr, vs, nil) }
		q.run = func(x *hfInst, p any, _ *rfOut) error { return arr(x).Append(p.(atree.Value)) }
		q.descent = lookup(L - 1)
		out = append(out, q)
	}
	return out
}

func (hs *hfScenario) mapReqs(r *Rng, pl *hfPlan) []hfReq {
	scale := int(hs.T / 256)
	ps := hs.parent
	type kk struct {
		k    atree.Value
		what string
	}
	var ks []kk
	for _, q := range hs.kids {
		if pl.drop && hs.heldByGet(pl, q) {
			continue // see staleAt
		}
		ks = append(ks, kk{ps.keys[q].scalarValue(), fmt.Sprintf("key #%d of a child", q)})
	}
	for j := range pl.fresh {
		if pl.drop {
			continue // see staleAt
		}
		ks = append(ks, kk{hfFreshKey(j), "key of a child created in this session"})
	}
	for j := 0; j < 6; j++ {
		q := r.Intn(len(ps.keys))
		if !ps.elems[q].isCont() {
			ks = append(ks, kk{ps.keys[q].scalarValue(), fmt.Sprintf("key #%d of a scalar", q)})
		}
	}
	ks = append(ks, kk{testutils.Uint64Value(1<<62 + r.U64()%100000), "absent key"},
		kk{testutils.NewStringValue("absent-" + randStr(r, 1+r.Intn(12))), "absent key"})
	m := func(x *hfInst) *atree.OrderedMap { return x.tgt.(*atree.OrderedMap) }
	where := fmt.Sprintf("parent map of %d elements with children under the keys #%v; %s", len(ps.keys), hs.kids, hs.planName(pl))
	var out []hfReq
	for _, e := range ks {
		k := e.k
		lookup := func(x *hfInst) { _, _ = m(x).Has(hfCmp, hfHip, k) }
		{
			q := hfReq{name: fmt.Sprintf("OrderedMap.Remove(%s) on the %s", e.what, where), plan: pl}
			q.run = func(x *hfInst, _ any, o *rfOut) error {
				ko, vo, err := m(x).Remove(hfCmp, hfHip, k)
				if err == nil {
					o.add(ko)
					o.add(vo)
				}
				return err
			}
			q.descent = lookup
			out = append(out, q)
		}
		{
			vs := rfNewValSpec(r, scale)
			q := hfReq{name: fmt.Sprintf("OrderedMap.Set(%s, %s) on the %s", e.what, rfSpecName(vs), where), plan: pl}
			q.prep = func(x *hfInst) any { return rfBuild(x.st, hs.addr, vs, nil) }
			q.run = func(x *hfInst, p any, o *rfOut) error {
				old, err := m(x).Set(hfCmp, hfHip, k, p.(atree.Value))
				if err == nil {
					o.add(old)
				}
				return err
			}
			q.descent = lookup
			out = append(out, q)
		}
	}
	return out
}

// ---------- one session: setup, (faulted) request, retry, mutations through the handles ----------

type hfObs struct{ what, val string }

type hfSession struct {
	obs  []hfObs
	regs []*LogBase
	nr   int
	want string
}

type hfRun struct {
	rep   *Report
	hist  int
	tag   string
	hs    *hfScenario
	nviol int
	all   bool
	rng   *Rng
}

func (r *hfRun) viol(step int, what, detail string) {
	r.nviol++
	if r.nviol <= hfMaxViol {
		r.rep.Violate(r.hist, r.tag, step, what, clip(fmt.Sprintf("scenario %s T=%d digester-fold=%d | %s", r.hs.kind, r.hs.T, r.hs.mod, detail), 1100))
	}
}

// hfMaxViol: violations recorded per scenario (one session can report the hook view three times before
// the first statement about the public API)
const hfMaxViol = 6

const (
	hfWhatIndexTrace = "C10: a parent request refused because of a failed ledger read changed the parent's cached positions of live child handles (hook view of mutableElementIndex)"
	hfWhatIndexTwin  = "C10: the parent's cached positions of live child handles (hook view of mutableElementIndex) after a failed and retried parent request differ from the fault-free twin"
	hfWhatIndexPos   = "C10: after a failed and retried parent request the parent's cached position of a live child handle (hook view of mutableElementIndex) is not the position at which the parent holds the child"
	hfWhatResult     = "C10: a mutation through a child handle obtained before a failed and retried parent request returns something else than in the fault-free twin"
	hfWhatLink       = "C10: after a failed and retried parent request and a mutation through a child handle obtained before it, the handle's link to the parent (child still an element of the parent / parent updater still installed) differs from the fault-free twin"
	hfWhatVisible    = "C10: a mutation made through a child handle obtained before a failed and retried parent request is not visible through the parent"
	hfWhatVerify     = "C10: the tree is structurally invalid (VerifyArray/VerifyMap of the root) after mutations through child handles obtained before a failed and retried parent request"
	hfWhatContent    = "C10: content read through the root after mutations through child handles obtained before a failed and retried parent request differs from the fault-free twin"
	hfWhatDeep       = "C10: slab tree (cached counts, sizes, elements) after mutations through child handles obtained before a failed and retried parent request differs from the fault-free twin"
	hfWhatCommit     = "C10: commit after mutations through child handles obtained before a failed and retried parent request behaves differently than in the fault-free twin"
	hfWhatRegs       = "C10: registers committed after mutations through child handles obtained before a failed and retried parent request differ from the fault-free twin"
	hfWhatReopen     = "C10: mutations made through child handles obtained before a failed and retried parent request are not persisted: the tree reopened from the committed registers reads differently than the live tree"
	hfWhatRetry      = "C10: the retry of a parent request that failed on a transient ledger read failure (child handles live) does not behave like the request on the fault-free twin"
)

// play runs one session.  twin == nil: this is the twin (k ignored, nothing can be compared; a failing
// session-local oracle ends the session).  Returns nil if the session was
// cut short.
func (r *hfRun) play(opIdx int, q *hfReq, k int, double bool, twin *hfSession) *hfSession {
	rep := r.rep
	hs := r.hs
	isTwin := twin == nil
	ses := &hfSession{}
	x := hs.setup(q.plan)
	var p any
	if q.prep != nil {
		p = q.prep(x)
	}
	ctx := q.name
	// local: an oracle about this session alone
	local := func(what, detail string) {
		if isTwin {
			// no fault was injected in this session: the statement fails for the plain sequence of requests.
			// Reported only for sessions that keep the read cache (nothing but ordinary requests then).
			rep.Event("fault_free_session_fails_a_session_oracle")
			rep.Sample("fault-free session fails: " + what + " | " + ctx + ": " + detail)
			if !q.plan.drop {
				r.viol(opIdx, strings.Replace(what, "a failed and retried parent request", "a parent request (no fault injected)", 1), ctx+": "+detail)
			}
			return
		}
		r.viol(opIdx, what, ctx+": "+detail)
	}
	// note: an observation compared with the twin's at the same point of the session
	note := func(what, val string) bool {
		ses.obs = append(ses.obs, hfObs{what, val})
		if isTwin {
			return true
		}
		i := len(ses.obs) - 1
		if i >= len(twin.obs) || twin.obs[i].what != what {
			r.viol(opIdx, what, ctx+": the session takes another course than the fault-free twin")
			return false
		}
		if twin.obs[i].val != val {
			r.viol(opIdx, what, ctx+": "+rfDiff(val, twin.obs[i].val))
			return false
		}
		return true
	}

	idx0 := x.indexView()
	x.base.LogReads = true
	x.base.ResetLog()
	if isTwin {
		x.base.ArmRead(-1)
	} else {
		x.base.ArmRead(k)
	}
	var o1 rfOut
	err1, pan := rfCall(func() error { return q.run(x, p, &o1) })
	ses.nr = x.base.nRead
	fired := !isTwin && x.base.nRead > k
	x.base.ArmRead(-1)
	if isTwin {
		if pan != "" {
			r.viol(opIdx, "C10: a parent request panicked without any fault (child handles live)", ctx+": "+pan)
			return nil
		}
		ses.want = rfRenderOut(x.st, &o1) + rfErrSig(err1)
	} else {
		var failedID atree.SlabID
		for _, c := range x.base.Log {
			if c.Fail {
				failedID = c.ID
			}
		}
		ctx = fmt.Sprintf("%s; ledger read %d of %d (register %s) failing once", q.name, k, twin.nr, failedID)
		if double {
			ctx += ", the first ledger read of the retry failing as well"
		}
		rep.Event("cases")
		if pan != "" {
			r.viol(opIdx, "C10: the implementation panicked on a transient ledger read failure in a parent request (child handles live)", ctx+": "+pan)
			return nil
		}
		if !fired {
			rep.Event("armed_fault_not_reached")
			return nil
		}
		rep.Event("strict_cases")
		if err1 == nil {
			rep.Event("fault_absorbed_by_the_request")
			if got := rfRenderOut(x.st, &o1); got != twin.want {
				r.viol(opIdx, hfWhatRetry, ctx+": (fault absorbed) "+rfDiff(got, twin.want))
				return nil
			}
		} else {
			if !rfIsInjected(err1) {
				rep.Event("faulted_request_failed_with_another_error")
			}
			if v := x.indexView(); v != idx0 {
				r.viol(opIdx, hfWhatIndexTrace, ctx+": "+rfDiff(v, idx0))
			}
			if double {
				x.base.ArmRead(0)
				var ox rfOut
				errx, panx := rfCall(func() error { return q.run(x, p, &ox) })
				again := x.base.nRead > 0
				x.base.ArmRead(-1)
				if panx != "" {
					r.viol(opIdx, "C10: the retried parent request panicked on a second transient ledger read failure (child handles live)", ctx+": "+panx)
					return nil
				}
				if !again || errx == nil {
					// the retry needed no ledger read (everything was loaded by the first attempt): it is the retry
					rep.Event("retry_without_ledger_read")
					if got := rfRenderOut(x.st, &ox) + rfErrSig(errx); got != twin.want {
						r.viol(opIdx, hfWhatRetry, ctx+": "+rfDiff(got, twin.want))
						return nil
					}
					goto requestDone
				}
				rep.Event("second_fault_in_the_retry")
				if v := x.indexView(); v != idx0 {
					r.viol(opIdx, hfWhatIndexTrace, ctx+": (second refusal) "+rfDiff(v, idx0))
				}
			}
			var o2 rfOut
			err2, pan2 := rfCall(func() error { return q.run(x, p, &o2) })
			if pan2 != "" {
				r.viol(opIdx, "C10: the retried parent request panicked (child handles live)", ctx+": "+pan2)
				return nil
			}
			if got := rfRenderOut(x.st, &o2) + rfErrSig(err2); got != twin.want {
				r.viol(opIdx, hfWhatRetry, ctx+": "+rfDiff(got, twin.want))
				return nil
			}
			rep.Event("retried_requests")
		}
	}
requestDone:
	// hook view of the cached positions: against the twin, and against the positions at which the
	// parent really holds the children (read-only iteration: nothing is repaired by looking)
	okIdx := note(hfWhatIndexTwin, x.indexView())
	if a, isArr := x.tgt.(*atree.Array); isArr {
		im := atree.VerifArrayIndexMap(a)
		for _, h := range x.hs {
			_, at, err := x.seenThroughParent(h.vid)
			if err != nil {
				local(hfWhatVisible, "read-only iteration of the parent failed: "+err.Error())
				return nil
			}
			if ci, ok := im[h.vid]; ok && at >= 0 && uint64(at) != ci {
				local(hfWhatIndexPos, fmt.Sprintf("child %s (%s, handle by %s): cached position %d, the parent holds it at position %d", h.vid, rfSpecName(h.spec), h.how, ci, at))
				okIdx = false
				break
			}
		}
	}
	_ = okIdx // the session goes on: the oracles below speak about the public API

	big := int(atree.MaxInlineArrayElementSize())/9 + 4
	for stage := 0; stage < 3; stage++ {
		stageName := []string{"two elements more", "growth over the inline limit", "shrinking to one element"}[stage]
		for _, hi := range q.plan.mutOrder {
			h := x.hs[hi]
			hctx := fmt.Sprintf("stage %q, child %s (%s, handle by %s)", stageName, h.vid, rfSpecName(h.spec), h.how)
			res := hfMutate(h, stage, big)
			if !note(hfWhatResult, res) {
				if !isTwin {
					rep.Sample(hctx + ": " + res)
				}
				return nil
			}
			rep.Event("mutations_through_previously_obtained_handles")
			seen, at, err := x.seenThroughParent(h.vid)
			if err != nil {
				local(hfWhatVisible, hctx+": read-only iteration of the parent failed: "+err.Error())
				return nil
			}
			if seen != nil {
				if g, w := rfRenderValue(seen, 1), rfRenderValue(h.c, 1); g != w {
					local(hfWhatVisible, hctx+": through the parent vs through the handle: "+rfDiff(g, w))
					return nil
				}
				rep.Event("mutations_seen_through_the_parent")
			}
			if !note(hfWhatLink, fmt.Sprintf("%s: element of the parent=%t at=%d parent updater installed=%t", hctx, seen != nil, at, hfAttached(h.c))) {
				return nil
			}
		}
		if err := x.verify(); err != nil {
			local(hfWhatVerify, fmt.Sprintf("after stage %q: %v", stageName, err))
			return nil
		}
		live := rfRenderValue(x.root, 0)
		if !note(hfWhatContent, live) {
			return nil
		}
		if !note(hfWhatDeep, x.deep()) {
			return nil
		}
		cerr := x.st.FastCommit(2)
		if !note(hfWhatCommit, rfErrSig(cerr)) {
			return nil
		}
		if cerr != nil {
			rep.Event("commit_fails_in_the_twin_as_well")
			rep.Sample(fmt.Sprintf("commit fails without any fault: %s | after stage %q: %v", ctx, stageName, cerr))
			return nil
		}
		ses.regs = append(ses.regs, x.base.Clone())
		if !isTwin {
			if d := SameRegisters(x.base, twin.regs[len(ses.regs)-1]); d != "" {
				r.viol(opIdx, hfWhatRegs, fmt.Sprintf("%s: after stage %q: %s", ctx, stageName, clip(d, 300)))
				return nil
			}
		}
		// a fresh process reads the committed registers
		re := &rfInst{sc: hs.rfScenario, base: x.base.Clone()}
		re.st = newStorage(re.base)
		var rerr error
		if hs.root.kind == rfArr {
			re.root, rerr = atree.NewArrayWithRootID(re.st, hs.rootID)
		} else {
			re.root, rerr = atree.NewMapWithRootID(re.st, hs.rootID, hs.digester())
		}
		if rerr != nil {
			local(hfWhatReopen, fmt.Sprintf("after stage %q: root cannot be opened: %v", stageName, rerr))
			return nil
		}
		if got := rfRenderValue(re.root, 0); got != live {
			local(hfWhatReopen, fmt.Sprintf("after stage %q: reopened vs live: %s", stageName, rfDiff(got, live)))
			return nil
		}
		rep.Event("stages_committed_and_reopened")
	}
	// finally through Get as well (this re-obtains every child: last, so that nothing is repaired before)
	pub := rfPublic(x.root, nil)
	if len(hs.ppath) > 0 {
		pub += " parent: " + rfPublic(x.tgt, nil)
	}
	if !note(hfWhatContent, pub) {
		return nil
	}
	if err := x.verify(); err != nil {
		local(hfWhatVerify, "after reading every element through Get: "+err.Error())
		return nil
	}
	return ses
}

func (r *hfRun) doReq(opIdx int, q *hfReq) {
	rep := r.rep
	// the reads of the descent
	ref := r.hs.setup(q.plan)
	ref.base.ArmRead(-1)
	q.descent(ref)
	nDesc := ref.base.nRead

	tw := r.play(opIdx, q, -1, false, nil)
	rep.Op(strings.SplitN(q.name, "(", 2)[0])
	if tw == nil {
		rep.Event("twin_session_cut_short")
		return
	}
	rep.EventN("ledger_reads_of_fault_free_requests", tw.nr)
	n := tw.nr
	if nDesc < n {
		rep.EventN("fault_positions_after_the_point_of_mutation_skipped", n-nDesc)
		n = nDesc
	}
	if n == 0 {
		rep.Event("request_without_ledger_read_in_its_descent")
		return
	}
	var ks []int
	if n <= 8 || r.all {
		for k := 0; k < n; k++ {
			ks = append(ks, k)
		}
	} else {
		seen := map[int]bool{0: true, 1: true, n - 1: true}
		ks = []int{0, 1, n - 1}
		for len(ks) < 8 {
			k := r.rng.Intn(n)
			if !seen[k] {
				seen[k] = true
				ks = append(ks, k)
			}
		}
		rep.Event("fault_positions_sampled")
	}
	for _, k := range ks {
		for _, double := range []bool{false, true} {
			if r.nviol >= hfMaxViol {
				return
			}
			r.play(opIdx, q, k, double, tw)
		}
	}
}

// ---------- the subcommand variant ----------

func cmdReadFaultHandles(a Args, mode string, all bool) {
	rep := NewReport("C10", a.Seed)
	rep.Rule = "committed parent (array or map over several slabs and index levels; the root or an element of a small root array/map) holding 3..7 child containers (arrays and maps: one element, empty, around the inline limit, stand-alone over several slabs; some in SomeValue) at first/last/adjacent/random positions or keys, T in {256,512}; " +
		"per case a fresh storage on a copy of the ledger: live handles to the children by Get in random order (or Array.Iterate), 0..2 more children created and Inserted / Set in the session, read cache dropped in 60% of the plans; " +
		"then ONE parent request (Array Remove/Insert/Set at 0, last, random and before/at/behind every child, Append; OrderedMap Set/Remove of child keys, scalar keys, absent keys) with ledger read k failing once for every k in the descent of the request (8 sampled incl. 0,1,last if more), retried (second run: first read of the retry fails too); " +
		"then every handle obtained BEFORE is mutated in three stages (two more elements; over the inline limit; down to one element) with commit and reopen after each stage. " +
		"oracles: refused request leaves the hook view of mutableElementIndex unchanged; after the retry it equals the twin's and each cached position is where the read-only iteration of the parent yields the child; every mutation returns what it returned in the fault-free twin; the child found by value ID in the read-only iteration of the parent renders as the handle does; presence in the parent and parent-updater flag as in the twin; VerifyArray/VerifyMap of the root; read-only content, deep dump, registers equal the twin's; reopened tree reads as the live tree; finally Count/Get/iteration of everything equal the twin's. non-trivial = scenario with >= 6 strict cases and no violation"
	master := NewRng(a.Seed)
	defer atree.VerifSetThreshold(1024)
	nOps := a.Steps
	if nOps <= 0 || nOps >= 300 {
		nOps = 10
	}
	for h := 0; h < a.N; h++ {
		hr := master.Fork(uint64(h) + 1)
		tag := fmt.Sprintf("hh%d", h)
		if !want(tag) {
			continue
		}
		strict0 := rep.Events["strict_cases"]
		r := &hfRun{rep: rep, hist: h, tag: tag, all: all, rng: hr.Fork(7)}
		func() {
			defer func() {
				if p := recover(); p != nil {
					if r.hs == nil {
						r.hs = &hfScenario{rfScenario: &rfScenario{}}
					}
					r.viol(0, "C10: the harness or the implementation panicked outside a request (child handles live)", fmt.Sprint(p))
				}
				atree.VerifSetThreshold(1024)
			}()
			hs := hfNewScenario(hr, mode)
			r.hs = hs
			gr := hr.Fork(3)
			var reqs []hfReq
			for pi := 0; pi < 3; pi++ {
				pl := hs.newPlan(gr)
				if hs.parent.kind == rfArr {
					reqs = append(reqs, hs.arrayReqs(gr, pl)...)
				} else {
					reqs = append(reqs, hs.mapReqs(gr, pl)...)
				}
			}
			for i := len(reqs) - 1; i > 0; i-- {
				j := gr.Intn(i + 1)
				reqs[i], reqs[j] = reqs[j], reqs[i]
			}
			if len(reqs) > nOps && !all {
				reqs = reqs[:nOps]
			}
			for i := range reqs {
				if r.nviol >= hfMaxViol {
					break
				}
				r.doReq(i, &reqs[i])
				rep.Steps++
			}
			if h < 3 && len(reqs) > 0 {
				rep.Sample(fmt.Sprintf("%s: %s T=%d fold=%d, %d registers, first request: %s", tag, hs.kind, hs.T, hs.mod, len(hs.base.Segs), reqs[0].name))
			}
		}()
		rep.Histories++
		if rep.Events["strict_cases"]-strict0 >= 6 && r.nviol == 0 {
			rep.Distinct(fmt.Sprintf("%s/T%d/fold%t/regs%d/kids%d", r.hs.kind, r.hs.T, r.hs.mod != 0, len(r.hs.base.Segs)/8, len(r.hs.kids)))
		}
	}
	rep.Write(a.Out + "/report.json")
	fmt.Printf("readfault handles: %d scenarios, %d requests, %d cases (%d strict), %d mutations through held handles, %d violations, %d distinct\n",
		rep.Histories, rep.Steps, rep.Events["cases"], rep.Events["strict_cases"], rep.Events["mutations_through_previously_obtained_handles"], len(rep.Violations), rep.Nontrivial)
}
