//go:build verif

package main

// codecflags_cmd.go — C07, head flags: "the three flags readable from the raw register bytes
// (IsRootOfAnObject / HasPointers / HasSizeLimit) describe the slab's content", for every slab kind
// and for every PLACE a reference to another slab can sit in.
//
// The random World histories of `codec` reach most of those places only by luck and one of them not
// at all (a large-value slab whose storable holds a reference: none of test_utils' storables can be
// that).  Here every history is built around a small number of CARRIERS — values chosen from a
// catalogue of "where is the reference" situations — placed among reference-free fillers in a root
// array / root map / root map with forced digest collisions, of one slab or of many slabs:
//
//	scalar            no reference at all
//	bigstring         string above the inline limit          -> large-value slab WITHOUT references, parent refers to it
//	tuple+ref/big     tuple(ref-to-array/map, ..., long str)  -> large-value slab WITH references (plain, Some-wrapped, in a nested tuple)
//	tuple-ref/big     tuple(long strings)                     -> large-value slab without references
//	tuple+ref/small   in-line container storable with a reference inside
//	tuple-ref/small   in-line container storable without
//	some(...)         1..3 SomeValue levels around any of the above
//	bigkey            map KEY above the inline key limit with a small value (the only reference is a key)
//	child(...)        child array/map holding carriers, to depth 3: inlined children of inlined children
//	bigchild          child container too large to be inlined (reference to its root)
//
// After construction and after every mutation of the root (insert / overwrite / remove carriers and
// fillers: a flag has to follow the content in BOTH directions) every slab visible in the storage,
// and after every commit every register, goes through the model-independent oracles of `codec`
// (codecChecker.checkSlab: flags vs content found by walking ChildStorables, size equation,
// decode / re-encode / content).  After a commit the ledger is reopened with a fresh storage and the
// content read back is compared with renderings taken when the values were created.
// Handle discipline: only the root is mutated, through its creation wrapper (after a reopen: through
// the wrapper obtained from the root identifier); children are filled before they are attached.

import (
	"fmt"
	"strings"

	"github.com/onflow/atree"
	testutils "github.com/onflow/atree/test_utils"
)

type flagsHist struct {
	w     *World
	r     *Rng
	rep   *Report
	ck    *codecChecker
	alph  *[4]uint64 // root map digester alphabet (nil: default digester)
	arr   *atree.Array
	m     *atree.OrderedMap
	elems []string          // root array: rendering per index
	keys  []atree.Value     // root map: keys
	vals  map[string]string // root map: rendering per key
	used  map[string]bool   // carrier kinds used
	nkey  uint64
}

func (f *flagsHist) st() *atree.PersistentSlabStorage { return f.w.St }

func (f *flagsHist) digester() atree.DigesterBuilder {
	if f.alph != nil {
		return &codecDigesterBuilder{alph: *f.alph}
	}
	return atree.NewDefaultDigesterBuilder()
}

// limit: inline limit of an element of the kind of container the value goes into
func flagsLimit(intoMap bool) int {
	if intoMap {
		// the value limit depends on the key size: between half the element limit and nearly all of it
		return int(atree.MaxInlineMapElementSize()) / 2
	}
	return int(atree.MaxInlineArrayElementSize())
}

func (f *flagsHist) bigString(lim int) atree.Value {
	return testutils.NewStringValue(randStr(f.r, 2*lim+8+f.r.Intn(80)))
}

var flagsCarrierNames = []string{"scalar", "bigstring", "tuple+ref/big", "tuple-ref/big", "tuple+ref/small", "tuple-ref/small", "tuple?ref/edge", "some", "child", "bigchild"}

// carrier creates a value of the given catalogue entry for a place with inline limit lim.
func (f *flagsHist) carrier(kind int, intoMap bool, depthLeft int) atree.Value {
	r := f.r
	lim := flagsLimit(intoMap)
	f.used[flagsCarrierNames[kind]] = true
	switch kind {
	case 0:
		return codecSmallScalar(r)
	case 1:
		return f.bigString(lim)
	case 2:
		return codecNewTuple(f.st(), f.w.Addr, r, 1+r.Intn(2), 2*lim+8+r.Intn(80))
	case 3:
		return codecNewTuple(f.st(), f.w.Addr, r, 0, 2*lim+8+r.Intn(80))
	case 4:
		return newCodecTuple(flagsRefComponent(f, r))
	case 5:
		return newCodecTuple(codecSmallScalar(r))
	case 6: // size around the limit: in line or large-value slab, with or without reference
		pad := lim - 45 + r.Intn(60)
		if pad < 1 {
			pad = 1
		}
		return codecNewTuple(f.st(), f.w.Addr, r, r.Intn(2), pad)
	case 7:
		inner := []int{1, 2, 3, 4, 5, 6}
		if depthLeft > 0 {
			inner = append(inner, 8, 9)
		}
		v := f.carrier(inner[r.Intn(len(inner))], intoMap, depthLeft-1)
		for k := 1 + r.Intn(3); k > 0; k-- {
			v = testutils.NewSomeValue(v)
		}
		return v
	case 8:
		return f.child(depthLeft, false)
	default:
		return f.child(depthLeft, true)
	}
}

func flagsRefComponent(f *flagsHist, r *Rng) atree.Value {
	var v atree.Value = codecRefTarget(f.st(), f.w.Addr, r)
	if r.Chance(30) {
		for k := 1 + r.Intn(2); k > 0; k-- {
			v = testutils.NewSomeValue(v)
		}
	}
	return v
}

// child creates a child array or map, filled before it is attached: a few fillers and 1..2
// carriers (possibly children again).  big: enough fillers that it cannot be inlined.
func (f *flagsHist) child(depthLeft int, big bool) atree.Value {
	r := f.r
	isMap := r.Chance(45)
	kinds := []int{0, 1, 2, 3, 4, 5, 6, 7}
	if depthLeft > 0 {
		kinds = append(kinds, 8, 8, 8)
	}
	ncar := r.Intn(3)
	nfill := r.Intn(3)
	if big {
		nfill = 8 + int(atree.MaxInlineArrayElementSize())/6 + r.Intn(20)
	}
	var items []atree.Value
	for i := 0; i < ncar; i++ {
		items = append(items, f.carrier(kinds[r.Intn(len(kinds))], isMap, depthLeft-1))
	}
	for i := 0; i < nfill; i++ {
		items = append(items, codecSmallScalar(r))
	}
	for i := range items {
		j := i + r.Intn(len(items)-i)
		items[i], items[j] = items[j], items[i]
	}
	if isMap {
		m, err := atree.NewMap(f.st(), f.w.Addr, atree.NewDefaultDigesterBuilder(), testutils.NewSimpleTypeInfo(uint64(50+r.Intn(3))))
		must(err)
		for _, it := range items {
			k := f.freshKey(r.Chance(12))
			old, err := m.Set(testutils.CompareValue, testutils.GetHashInput, k, it)
			must(err)
			if old != nil {
				f.ck.bad("C02: Set of a key never used before returned a previous value", trunc(keyStr(k)))
				panic(codecAbort{})
			}
		}
		return m
	}
	a, err := atree.NewArray(f.st(), f.w.Addr, testutils.NewSimpleTypeInfo(uint64(40+r.Intn(3))))
	must(err)
	for _, it := range items {
		must(a.Append(it))
	}
	return a
}

// freshKey: a key not used before in this history; big = above the inline key limit.
func (f *flagsHist) freshKey(big bool) atree.Value {
	f.nkey++
	if big {
		f.used["bigkey"] = true
		return testutils.NewStringValue(fmt.Sprintf("K%05d%s", f.nkey, strings.Repeat("y", int(atree.MaxInlineMapKeySize())+int(f.nkey%9))))
	}
	if f.nkey%3 == 0 {
		return testutils.NewStringValue(fmt.Sprintf("k%05d%s", f.nkey, strings.Repeat("x", int(f.nkey%13))))
	}
	// distinct per nkey (nkey < 2^20), all CBOR widths
	return testutils.Uint64Value(f.nkey | []uint64{0, 1 << 20, 1 << 40, 1 << 60}[f.nkey%4])
}

// dispose removes everything a storable handed back by the library owns.
func (f *flagsHist) dispose(s atree.Storable) {
	switch x := s.(type) {
	case testutils.SomeStorable:
		f.dispose(x.Storable)
	case codecTupleStorable:
		for _, e := range x.elems {
			f.dispose(e)
		}
	case *atree.ArrayDataSlab: // an inlined child handed back while its parent is emptied
		for _, e := range x.ChildStorables() {
			f.dispose(e)
		}
	case *atree.MapDataSlab:
		for _, e := range x.ChildStorables() {
			f.dispose(e)
		}
	case atree.SlabIDStorable:
		id := atree.SlabID(x)
		slab, found, err := f.st().Retrieve(id)
		if err != nil || !found {
			f.ck.bad("C07: a slab referred to by a returned storable cannot be retrieved", fmt.Sprintf("%s: found %v, %v", id, found, err))
			return
		}
		if atree.VerifSlabKind(slab) == 5 || !atree.VerifSlabHasExtraData(slab) {
			// a large-value slab (or an external collision group slab of an inlined map): not a value of its own
			for _, c := range slab.ChildStorables() {
				f.dispose(c)
			}
			must(f.st().Remove(id))
			return
		}
		v, err := x.StoredValue(f.st())
		must(err)
		switch c := v.(type) {
		case *atree.Array:
			must(c.PopIterate(func(e atree.Storable) { f.dispose(e) }))
		case *atree.OrderedMap:
			must(c.PopIterate(func(k, e atree.Storable) { f.dispose(k); f.dispose(e) }))
		}
		must(f.st().Remove(id))
	}
}

// ---------- root operations ----------

func (f *flagsHist) isMap() bool { return f.m != nil }

func (f *flagsHist) newValue(carrierPct int) atree.Value {
	r := f.r
	if !r.Chance(carrierPct) {
		return codecSmallScalar(r)
	}
	return f.carrier(1+r.Intn(len(flagsCarrierNames)-1), f.isMap(), 1+r.Intn(3))
}

func (f *flagsHist) add(v atree.Value, bigKey bool) {
	render := codecRenderValue(v)
	if f.isMap() {
		k := f.freshKey(bigKey)
		old, err := f.m.Set(testutils.CompareValue, testutils.GetHashInput, k, v)
		must(err)
		if old != nil {
			f.ck.bad("C02: Set of a key never used before returned a previous value", trunc(keyStr(k)))
			panic(codecAbort{})
		}
		f.keys = append(f.keys, k)
		f.vals[keyStr(k)] = render
		f.rep.Op("map.set_new")
		return
	}
	i := uint64(f.r.Intn(len(f.elems) + 1))
	if i == uint64(len(f.elems)) {
		must(f.arr.Append(v))
	} else {
		must(f.arr.Insert(i, v))
	}
	f.elems = append(f.elems, "")
	copy(f.elems[i+1:], f.elems[i:])
	f.elems[i] = render
	f.rep.Op("arr.insert")
}

func (f *flagsHist) overwrite(v atree.Value) {
	render := codecRenderValue(v)
	if f.isMap() {
		if len(f.keys) == 0 {
			return
		}
		k := f.keys[f.r.Intn(len(f.keys))]
		old, err := f.m.Set(testutils.CompareValue, testutils.GetHashInput, k, v)
		must(err)
		if old == nil {
			f.ck.bad("C07: overwriting a present key returned no previous value", keyStr(k))
		}
		f.vals[keyStr(k)] = render
		f.dispose(old)
		f.rep.Op("map.set_existing")
		return
	}
	if len(f.elems) == 0 {
		return
	}
	i := f.r.Intn(len(f.elems))
	old, err := f.arr.Set(uint64(i), v)
	must(err)
	f.elems[i] = render
	f.dispose(old)
	f.rep.Op("arr.set")
}

func (f *flagsHist) remove() {
	if f.isMap() {
		if len(f.keys) == 0 {
			return
		}
		i := f.r.Intn(len(f.keys))
		k := f.keys[i]
		ks, vs, err := f.m.Remove(testutils.CompareValue, testutils.GetHashInput, k)
		must(err)
		f.keys = append(f.keys[:i], f.keys[i+1:]...)
		delete(f.vals, keyStr(k))
		f.dispose(ks)
		f.dispose(vs)
		f.rep.Op("map.remove")
		return
	}
	if len(f.elems) == 0 {
		return
	}
	i := f.r.Intn(len(f.elems))
	old, err := f.arr.Remove(uint64(i))
	must(err)
	f.elems = append(f.elems[:i], f.elems[i+1:]...)
	f.dispose(old)
	f.rep.Op("arr.remove")
}

// compare reads the root's content back and compares it with the renderings taken at creation.
func (f *flagsHist) compare(when string) {
	if f.isMap() {
		if f.m.Count() != uint64(len(f.keys)) {
			f.ck.bad("C07: content read back differs from what was stored", fmt.Sprintf("%s: map count %d, stored %d", when, f.m.Count(), len(f.keys)))
			return
		}
		for _, k := range f.keys {
			v, err := f.m.Get(testutils.CompareValue, testutils.GetHashInput, k)
			if err != nil {
				f.ck.bad("C07: content read back differs from what was stored", fmt.Sprintf("%s: key %s: %v", when, trunc(keyStr(k)), err))
				continue
			}
			if got := codecRenderValue(v); got != f.vals[keyStr(k)] {
				f.ck.bad("C07: content read back differs from what was stored", fmt.Sprintf("%s: key %s: got %s want %s", when, trunc(keyStr(k)), trunc(got), trunc(f.vals[keyStr(k)])))
			}
		}
		return
	}
	if f.arr.Count() != uint64(len(f.elems)) {
		f.ck.bad("C07: content read back differs from what was stored", fmt.Sprintf("%s: array count %d, stored %d", when, f.arr.Count(), len(f.elems)))
		return
	}
	i := 0
	err := f.arr.IterateReadOnly(func(v atree.Value) (bool, error) {
		if got := codecRenderValue(v); got != f.elems[i] {
			f.ck.bad("C07: content read back differs from what was stored", fmt.Sprintf("%s: index %d: got %s want %s", when, i, trunc(got), trunc(f.elems[i])))
		}
		i++
		return true, nil
	})
	if err != nil || i != len(f.elems) {
		f.ck.bad("C07: content read back differs from what was stored", fmt.Sprintf("%s: iteration yielded %d of %d: %v", when, i, len(f.elems), err))
	}
}

func (f *flagsHist) reopen() {
	f.w.St = codecStorageT(f.w.Base)
	if f.isMap() {
		m, err := atree.NewMapWithRootID(f.w.St, f.m.SlabID(), f.digester())
		if err != nil {
			f.ck.bad("C07: root map cannot be reopened from its committed registers", err.Error())
			panic(codecAbort{})
		}
		f.m = m
		f.w.Roots = []SV{&svMap{m: m}}
		return
	}
	a, err := atree.NewArrayWithRootID(f.w.St, f.arr.SlabID())
	if err != nil {
		f.ck.bad("C07: root array cannot be reopened from its committed registers", err.Error())
		panic(codecAbort{})
	}
	f.arr = a
	f.w.Roots = []SV{&svArr{arr: a}}
}

func init() { register("codecflags", cmdCodecFlags) }

func cmdCodecFlags(a Args) {
	prop := a.Prop
	if prop == "" {
		prop = "C07"
	}
	rep := NewReport(prop, a.Seed)
	rep.Rule = "directed-random histories at slab sizes {256,300,512,1024,4096}: a root array / root map / root map with forced digest collisions (inline and external collision groups), of one or of many slabs, built from reference-free fillers and CARRIERS drawn from a catalogue of where a reference to another slab can sit (large string = large-value slab without references; immutable tuple of the harness' own value type holding references to stand-alone arrays/maps plain / Some-wrapped / inside a nested tuple, in line or as a large-value slab WITH references; tuples without references; 1..3 SomeValue levels around any of them; map KEY above the inline key limit; child arrays/maps holding carriers to depth 3 = inlined children of inlined children; children too large to inline), then insert / overwrite / remove on the root so that flags must follow the content in both directions; every slab visible in storage after construction and after every k-th operation, and every register after each commit: head flags read from the raw bytes (root / has-pointers / size-limit) vs the content found by walking ChildStorables, plus the size, decode, re-encode and content oracles of `codec`; after a commit a fresh storage reads the content back (compared with renderings taken at creation); non-trivial = history in which a has-pointers flag was checked for both content values on at least two slab kinds"
	NewTrace(a.Out + "/trace.txt").Close()
	rng := NewRng(a.Seed)
	sizes := []uint32{256, 300, 512, 1024, 4096}
	every := 1
	if a.Depth > 2 {
		every = a.Depth
	}
	defer atree.VerifSetThreshold(1024)
	total := 0
	for h := 0; h < a.N; h++ {
		hr := rng.Fork(uint64(h))
		tag := fmt.Sprintf("h%d", h)
		if !want(tag) {
			continue
		}
		T := sizes[hr.Intn(len(sizes))]
		atree.VerifSetThreshold(T)
		base := NewLogBase()
		w := NewWorld(base, hr, WorldOpts{Addr: 1 + uint64(hr.Intn(3)), Maps: true}, rep)
		w.St = codecStorageT(base)
		ck := &codecChecker{rep: rep, hist: h, tag: tag, T: T, seen: map[uint64]bool{}, maxTr: 0,
			dec: codecDecodeStorable, ptrTrue: map[int]int{}, ptrFals: map[int]int{}}
		f := &flagsHist{w: w, r: hr, rep: rep, ck: ck, vals: map[string]string{}, used: map[string]bool{}}
		w.Fail = func(what, detail string) {
			ck.bad("C07: "+what+" on a storage whose operations all succeeded", detail)
			panic(codecAbort{})
		}
		rootKind := h % 3 // 0 array, 1 map, 2 map with forced collisions
		step := 0
		func() {
			defer func() {
				if r := recover(); r != nil {
					if _, ok := r.(codecAbort); ok {
						return
					}
					ck.bad("C07: panic in implementation", fmt.Sprint(r))
				}
			}()
			switch rootKind {
			case 0:
				arr, err := atree.NewArray(w.St, w.Addr, testutils.NewSimpleTypeInfo(uint64(40+hr.Intn(3))))
				must(err)
				f.arr = arr
				w.Roots = []SV{&svArr{arr: arr}}
			default:
				if rootKind == 2 {
					// level 0: 1..3 digests (1 = every entry in one collision group), deeper levels small too,
					// so that groups nest, go to list mode and grow into external collision group slabs
					f.alph = &[4]uint64{uint64(1 + hr.Intn(3)), uint64(1 + hr.Intn(4)), uint64(1 + hr.Intn(2)), uint64(1 + hr.Intn(2))}
				}
				m, err := atree.NewMap(w.St, w.Addr, f.digester(), testutils.NewSimpleTypeInfo(uint64(50+hr.Intn(3))))
				must(err)
				f.m = m
				w.Roots = []SV{&svMap{m: m}}
			}
			// shape of the root: how many fillers (one slab / many slabs), how many carriers and of which kind
			nfill := []int{0, 1 + hr.Intn(4), 6 + hr.Intn(12), 30 + hr.Intn(120)}[hr.Intn(4)]
			ncar := 1 + hr.Intn(3)
			focus := hr.Intn(len(flagsCarrierNames)) // most carriers of one kind: that kind is then often the ONLY place of a reference
			onlyBigKey := f.isMap() && hr.Chance(15) // the only references are KEYS
			type item struct {
				v      atree.Value
				bigKey bool
			}
			var items []item
			for i := 0; i < ncar; i++ {
				if onlyBigKey {
					items = append(items, item{codecSmallScalar(hr), true})
					continue
				}
				k := focus
				if hr.Chance(25) {
					k = hr.Intn(len(flagsCarrierNames))
				}
				items = append(items, item{f.carrier(k, f.isMap(), 1+hr.Intn(3)), false})
			}
			for i := 0; i < nfill; i++ {
				items = append(items, item{codecSmallScalar(hr), false})
			}
			for i := range items {
				j := i + hr.Intn(len(items)-i)
				items[i], items[j] = items[j], items[i]
			}
			for _, it := range items {
				f.add(it.v, it.bigKey)
			}
			if onlyBigKey {
				rep.Event("hist_built_with_references_only_as_keys")
			}
			if f.alph != nil && f.alph[0] == 1 {
				rep.Event("hist_with_every_entry_in_one_collision_group")
			}
			ck.checkAll(w)
			ck.checkSerialization(w)
			for step = 0; step < a.Steps; step++ {
				ck.step = step + 1
				switch hr.Pick(30, 25, 35, 10) {
				case 0:
					f.add(f.newValue(50), f.isMap() && hr.Chance(8))
				case 1:
					f.overwrite(f.newValue(60))
				case 2:
					f.remove()
				default:
					// strip: remove until (nearly) nothing is left — every flag has to go back to "no references"
					for k := hr.Intn(6); k > 0; k-- {
						f.remove()
					}
				}
				if step%every == every-1 {
					ck.checkAll(w)
				}
				if step%7 == 6 {
					w.Commit(1 + hr.Intn(3))
					ck.checkRegisters(w)
					rep.Op("commit")
					if hr.Chance(50) {
						f.reopen()
						rep.Op("reopen")
						f.compare("after reopen")
						ck.checkAll(w)
					}
				}
				if step%11 == 10 {
					ck.checkSerialization(w)
				}
			}
			f.compare("at the end")
			w.Commit(1)
			ck.checkRegisters(w)
			f.reopen()
			f.compare("after the final reopen")
			ck.checkAll(w)
			ck.checkSerialization(w)
		}()
		total += ck.checks
		rep.Histories++
		rep.Steps += step
		both := 0
		for kind, name := range codecKindNames {
			if ck.ptrTrue[kind] > 0 {
				rep.Event("hist_with_pointer_content_true:" + name)
			}
			if ck.ptrFals[kind] > 0 {
				rep.Event("hist_with_pointer_content_false:" + name)
			}
			if ck.ptrTrue[kind] > 0 && ck.ptrFals[kind] > 0 {
				both++
			}
			rep.EventN("checked_pointer_content_true:"+name, ck.ptrTrue[kind])
			rep.EventN("checked_pointer_content_false:"+name, ck.ptrFals[kind])
		}
		for k := range f.used {
			rep.Event("hist_with_carrier:" + k)
		}
		if both >= 2 {
			rep.Distinct(tag)
		}
	}
	rep.Events["slab_checks"] = total
	rep.Sample(fmt.Sprintf("slab checks %d; distinct slab states %d", total, rep.Events["distinct_state"]))
	rep.Write(a.Out + "/report.json")
	fmt.Printf("codecflags: histories=%d slab_checks=%d distinct=%d violations=%d\n", rep.Histories, total, rep.Events["distinct_state"], len(rep.Violations))
}
