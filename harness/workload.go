//go:build verif

package main

// workload.go — a random container workload with shadow values, shared by the history-based
// checks.  Handle discipline (DESIGN 2.5): every container is mutated through ONE wrapper, the
// one obtained at creation, or — after Reopen — the one obtained top-down from the reopened root.

import (
	"fmt"
	"sort"
	"strings"

	"github.com/onflow/atree"
	testutils "github.com/onflow/atree/test_utils"
)

// ---------- shadow values ----------

type SV interface{}

type svScalar struct{ v atree.Value } // Uint64Value or StringValue
type svSome struct{ inner SV }

type svArr struct {
	arr   *atree.Array
	elems []SV
	ti    uint64
	vid   atree.ValueID
}

type svMap struct {
	m    *atree.OrderedMap
	keys []atree.Value // insertion order (re-insert = new)
	vals map[string]SV
	ti   uint64
	vid  atree.ValueID
	top  bool // created as a top-level map (with Opts.RootDigester); nested and detached maps use Opts.Digester
}

func keyStr(k atree.Value) string { return fmt.Sprintf("%T:%v", k, k) }

// ---------- world ----------

type WorldOpts struct {
	Addr      uint64
	MaxDepth  int
	Wrap      bool // allow SomeValue wrappers
	Maps      bool
	Detach    bool                         // keep removed child containers alive as detached roots (C11)
	LargeVals bool                         // strings above the inline limit (StorableSlab)
	PopChild  bool                         // PopIterate / SetType through child handles
	Digester  func() atree.DigesterBuilder // one builder per map: the builder carries the map's seed
	// RootDigester is used for top-level maps only (nested maps are re-created by the library with its
	// default builder, so a custom digester is only consistent at the root); defaults to Digester
	RootDigester func() atree.DigesterBuilder
	KeySpace     int
	// SelfSet: now and then write a child container back into the slot it already occupies (Array.Set /
	// OrderedMap.Set with the live handle, wrapped as it is stored): the library keeps the child attached
	SelfSet bool
	// PooledCollide > 0: percentage of the key space drawn from colliding hash-input families.  EVERY map of
	// the world (top-level, nested, detached, reopened) then uses the library's default POOLED digester
	// (atree.NewDefaultDigesterBuilder; Digester/RootDigester are overridden) and the world's own
	// HashInputProvider (World.Hip), which forces REAL first-level digest collisions (see worldpool.go).
	// The storage then decodes with MaxNestedLevels 1024 (collision groups inside nested inlined maps nest
	// deeper than the CBOR default of 32, DESIGN 7.3).  0 = current behaviour (testutils.GetHashInput).
	PooledCollide int
}

type World struct {
	St    *atree.PersistentSlabStorage
	Base  *LogBase
	Rng   *Rng
	Opts  WorldOpts
	Roots []SV // top-level containers (including detached ones)
	Addr  atree.Address
	nextV uint64
	Rep   *Report
	// hooks
	Fail func(what, detail string)
	// pooled-collision mode (Opts.PooledCollide > 0), see worldpool.go
	pool *worldPool
}

func NewWorld(base *LogBase, rng *Rng, opts WorldOpts, rep *Report) *World {
	if opts.KeySpace == 0 {
		opts.KeySpace = 60
	}
	if opts.Digester == nil {
		opts.Digester = func() atree.DigesterBuilder { return atree.NewDefaultDigesterBuilder() }
	}
	if opts.RootDigester == nil {
		opts.RootDigester = opts.Digester
	}
	if opts.PooledCollide > 0 {
		opts.Digester = func() atree.DigesterBuilder { return atree.NewDefaultDigesterBuilder() }
		opts.RootDigester = opts.Digester
	}
	w := &World{Base: base, Rng: rng, Opts: opts, Addr: mkAddr(opts.Addr), Rep: rep}
	w.Fail = func(what, detail string) { panic(what + ": " + detail) }
	if opts.PooledCollide > 0 {
		w.setupPool()
	}
	w.St = w.openStorage()
	return w
}

func (w *World) ti(n uint64) atree.TypeInfo { return testutils.NewSimpleTypeInfo(n) }

func (w *World) NewArrayRoot() *svArr {
	ti := uint64(40 + w.Rng.Intn(3))
	a, err := atree.NewArray(w.St, w.Addr, w.ti(ti))
	must(err)
	s := &svArr{arr: a, ti: ti, vid: a.ValueID()}
	w.Roots = append(w.Roots, s)
	return s
}

func (w *World) NewMapRoot() *svMap {
	ti := uint64(50 + w.Rng.Intn(3))
	m, err := atree.NewMap(w.St, w.Addr, w.Opts.RootDigester(), w.ti(ti))
	must(err)
	s := &svMap{m: m, vals: map[string]SV{}, ti: ti, vid: m.ValueID(), top: true}
	w.Roots = append(w.Roots, s)
	return s
}

// scalar sizes concentrate where the code branches: small ints, strings around the inline limits
func (w *World) randScalar(forKey bool) atree.Value {
	r := w.Rng
	w.nextV++
	switch r.Pick(40, 25, 20, 10, 5) {
	case 0:
		if r.Chance(40) { // exact CBOR width boundaries
			bs := []uint64{0, 23, 24, 255, 256, 65535, 65536, 1<<32 - 1, 1 << 32, 1<<64 - 1}
			return testutils.Uint64Value(bs[r.Intn(len(bs))])
		}
		vs := []uint64{0, 23, 24, 255, 256, 65535, 65536, 1 << 32}
		return testutils.Uint64Value(vs[r.Intn(len(vs))] + w.nextV%7)
	case 1:
		return testutils.NewStringValue(randStr(r, 1+r.Intn(24)))
	case 2: // near the inline limits
		lim := int(atree.MaxInlineArrayElementSize())
		if forKey {
			lim = int(atree.MaxInlineMapKeySize())
		} else if r.Bool() {
			lim = int(atree.MaxInlineMapElementSize()) / 2
		}
		n := lim - 4 + r.Intn(6)
		if n < 1 {
			n = 1
		}
		if !w.Opts.LargeVals && n > lim-3 {
			n = lim - 3
		}
		return testutils.NewStringValue(randStr(r, n))
	case 3:
		return testutils.NewStringValue(randStr(r, 40+r.Intn(80)))
	default:
		if w.Opts.LargeVals {
			return testutils.NewStringValue(randStr(r, int(atree.MaxInlineArrayElementSize())+r.Intn(300)))
		}
		return testutils.Uint64Value(w.nextV)
	}
}

func randStr(r *Rng, n int) string {
	const cs = "abcdefghijklmnopqrstuvwxyz0123456789"
	var sb strings.Builder
	for i := 0; i < n; i++ {
		sb.WriteByte(cs[r.Intn(len(cs))])
	}
	return sb.String()
}

func (w *World) randKey() atree.Value {
	return w.keyFor(w.Rng.Intn(w.Opts.KeySpace))
}

// keyFor is the k-th key of the world's key space (a pure function of k and the options).
func (w *World) keyFor(k int) atree.Value {
	if w.Opts.LargeVals && k%11 == 5 {
		// a key above the inline key limit: stored in its own slab, the element holds a reference as KEY
		return testutils.NewStringValue(fmt.Sprintf("K%03d%s", k, strings.Repeat("y", int(atree.MaxInlineMapKeySize())+k%9)))
	}
	if k%3 == 0 {
		return testutils.NewStringValue(fmt.Sprintf("k%03d%s", k, strings.Repeat("x", k%17)))
	}
	return testutils.Uint64Value(uint64(k) * 1000003 % 65521 * uint64(1+k%5))
}

// newValue creates a value and its shadow; containers are created empty or prefilled.
func (w *World) newValue(depth int) (atree.Value, SV) {
	r := w.Rng
	if depth < w.Opts.MaxDepth && r.Chance(30) {
		var v atree.Value
		var s SV
		if w.Opts.Maps && r.Chance(45) {
			ti := uint64(50 + r.Intn(3))
			m, err := atree.NewMap(w.St, w.Addr, w.Opts.Digester(), w.ti(ti))
			must(err)
			sm := &svMap{m: m, vals: map[string]SV{}, ti: ti, vid: m.ValueID()}
			for k := r.Intn(4); k > 0; k-- {
				w.mapSet(sm, w.randKey(), depth+1)
			}
			v, s = m, sm
		} else {
			ti := uint64(40 + r.Intn(3))
			a, err := atree.NewArray(w.St, w.Addr, w.ti(ti))
			must(err)
			sa := &svArr{arr: a, ti: ti, vid: a.ValueID()}
			for k := r.Intn(4); k > 0; k-- {
				w.arrInsert(sa, uint64(len(sa.elems)), depth+1)
			}
			v, s = a, sa
		}
		if w.Opts.Wrap && r.Chance(30) {
			for k := 1 + r.Intn(2); k > 0; k-- {
				v, s = testutils.NewSomeValue(v), &svSome{s}
			}
		}
		return v, s
	}
	v := w.randScalar(false)
	var s SV = &svScalar{v}
	if w.Opts.Wrap && r.Chance(15) {
		v, s = testutils.NewSomeValue(v), &svSome{s}
	}
	return v, s
}

func unwrapSV(s SV) SV {
	for {
		if x, ok := s.(*svSome); ok {
			s = x.inner
			continue
		}
		return s
	}
}

func unwrapStorableAll(s atree.Storable) atree.Storable {
	for {
		if ws, ok := s.(atree.WrapperStorable); ok {
			s = ws.UnwrapAtreeStorable()
			continue
		}
		return s
	}
}

func unwrapValueAll(v atree.Value) atree.Value {
	for {
		if wv, ok := v.(atree.WrapperValue); ok {
			v, _ = wv.UnwrapAtreeValue()
			continue
		}
		return v
	}
}

// dispose removes everything a returned storable owns (DESIGN: the caller disposes of every
// value the library hands back).  Containers are emptied recursively, then their root removed.
func (w *World) dispose(st atree.Storable) {
	if st == nil {
		return
	}
	v, err := st.StoredValue(w.St)
	if err != nil {
		w.Fail("dispose: StoredValue failed", err.Error())
		return
	}
	switch c := unwrapValueAll(v).(type) {
	case *atree.Array:
		err = c.PopIterate(func(s atree.Storable) { w.dispose(s) })
	case *atree.OrderedMap:
		err = c.PopIterate(func(k, s atree.Storable) { w.dispose(k); w.dispose(s) })
	}
	if err != nil {
		w.Fail("dispose: PopIterate failed", err.Error())
	}
	if sid, ok := unwrapStorableAll(st).(atree.SlabIDStorable); ok {
		must(w.St.Remove(atree.SlabID(sid)))
	}
}

// handleRemoved decides what happens to a value the library handed back: dispose of it, or keep a
// removed container alive as a detached root (its creation wrapper stays the only wrapper).
func (w *World) handleRemoved(st atree.Storable, s SV) {
	u := unwrapSV(s)
	_, isWrapped := s.(*svSome)
	if w.Opts.Detach && !isWrapped && w.Rng.Chance(50) {
		switch u.(type) {
		case *svArr, *svMap:
			if _, ok := st.(atree.SlabIDStorable); !ok {
				w.Fail("C11: removed/overwritten container was not returned as a stored standalone slab", fmt.Sprintf("%T", st))
			}
			w.Roots = append(w.Roots, u)
			w.Rep.Event("detached_kept")
			return
		}
	}
	w.dispose(st)
}

// ---------- operations ----------

// liveValue returns the value to hand to the library for the container (possibly wrapped) recorded in s
func liveValue(s SV) (atree.Value, bool) {
	switch x := s.(type) {
	case *svArr:
		return x.arr, true
	case *svMap:
		return x.m, true
	case *svSome:
		if v, ok := liveValue(x.inner); ok {
			return testutils.NewSomeValue(v), true
		}
	}
	return nil, false
}

// selfSet writes the child container held in a slot back into that slot; the returned "previous" element is
// the child itself and must not be disposed of; the shadow does not change
func (w *World) selfSetArr(sa *svArr) bool {
	var idx []int
	for i, e := range sa.elems {
		if _, ok := liveValue(e); ok {
			idx = append(idx, i)
		}
	}
	if len(idx) == 0 {
		return false
	}
	i := idx[w.Rng.Intn(len(idx))]
	v, _ := liveValue(sa.elems[i])
	old, err := sa.arr.Set(uint64(i), v)
	if err != nil || old == nil {
		w.Fail("C10: writing a child container back into its own array slot failed", fmt.Sprint(err))
	}
	return true
}

func (w *World) selfSetMap(sm *svMap) bool {
	var ks []atree.Value
	for _, k := range sm.keys {
		if _, ok := liveValue(sm.vals[keyStr(k)]); ok {
			ks = append(ks, k)
		}
	}
	if len(ks) == 0 {
		return false
	}
	k := ks[w.Rng.Intn(len(ks))]
	v, _ := liveValue(sm.vals[keyStr(k)])
	old, err := sm.m.Set(testutils.CompareValue, w.Hip(), k, v)
	if err != nil || old == nil {
		w.Fail("C10: writing a child container back under its own map key failed", fmt.Sprint(err))
	}
	return true
}

func (w *World) arrInsert(sa *svArr, i uint64, depth int) {
	v, s := w.newValue(depth)
	var err error
	if i == uint64(len(sa.elems)) && w.Rng.Bool() {
		err = sa.arr.Append(v)
	} else {
		err = sa.arr.Insert(i, v)
	}
	if err != nil {
		w.Fail("C01: in-range insert failed", err.Error())
		return
	}
	sa.elems = append(sa.elems, nil)
	copy(sa.elems[i+1:], sa.elems[i:])
	sa.elems[i] = s
}

func (w *World) arrSet(sa *svArr, i uint64, depth int) {
	v, s := w.newValue(depth)
	old, err := sa.arr.Set(i, v)
	if err != nil {
		w.Fail("C01: in-range set failed", err.Error())
		return
	}
	prev := sa.elems[i]
	sa.elems[i] = s
	w.handleRemoved(old, prev)
}

func (w *World) arrRemove(sa *svArr, i uint64) {
	old, err := sa.arr.Remove(i)
	if err != nil {
		w.Fail("C01: in-range remove failed", err.Error())
		return
	}
	prev := sa.elems[i]
	sa.elems = append(sa.elems[:i], sa.elems[i+1:]...)
	w.handleRemoved(old, prev)
}

func (w *World) mapSet(sm *svMap, k atree.Value, depth int) {
	v, s := w.newValue(depth)
	old, err := sm.m.Set(testutils.CompareValue, w.Hip(), k, v)
	if err != nil {
		w.Fail("C02: map set failed", err.Error())
		return
	}
	ks := keyStr(k)
	prev, had := sm.vals[ks]
	if had != (old != nil) {
		w.Fail("C02: Set returned previous value inconsistently", ks)
	}
	if !had {
		sm.keys = append(sm.keys, k)
	}
	sm.vals[ks] = s
	if had {
		w.handleRemoved(old, prev)
	}
}

func (w *World) mapRemove(sm *svMap, k atree.Value) {
	ks := keyStr(k)
	prev, had := sm.vals[ks]
	kst, vst, err := sm.m.Remove(testutils.CompareValue, w.Hip(), k)
	if !had {
		var knf *atree.KeyNotFoundError
		if err == nil || !asErr(err, &knf) {
			w.Fail("C02: removing an absent key did not report KeyNotFoundError", fmt.Sprint(err))
		}
		return
	}
	if err != nil {
		w.Fail("C02: removing a present key failed", err.Error())
		return
	}
	delete(sm.vals, ks)
	for i, kk := range sm.keys {
		if keyStr(kk) == ks {
			sm.keys = append(sm.keys[:i], sm.keys[i+1:]...)
			break
		}
	}
	w.dispose(kst)
	w.handleRemoved(vst, prev)
}

// containers enumerates every live container (any depth) with its depth.
type contRef struct {
	s     SV
	depth int
	pmap  *svMap      // parent map (nil: root, or element of an array)
	pkey  atree.Value // key of the slot in pmap
}

func (w *World) containers() []contRef {
	var out []contRef
	var rec func(s SV, d int, pm *svMap, pk atree.Value)
	rec = func(s SV, d int, pm *svMap, pk atree.Value) {
		switch c := unwrapSV(s).(type) {
		case *svArr:
			out = append(out, contRef{c, d, pm, pk})
			for _, e := range c.elems {
				rec(e, d+1, nil, nil)
			}
		case *svMap:
			out = append(out, contRef{c, d, pm, pk})
			for _, k := range c.keys {
				rec(c.vals[keyStr(k)], d+1, c, k)
			}
		}
	}
	for _, r := range w.Roots {
		rec(r, 0, nil, nil)
	}
	return out
}

// Step performs one random mutation on a random live container; returns a short description.
func (w *World) Step() string {
	r := w.Rng
	cs := w.containers()
	if len(cs) == 0 {
		w.NewArrayRoot()
		return "newroot"
	}
	// bias towards nested containers so that child handles are exercised
	c := cs[r.Intn(len(cs))]
	if r.Chance(40) {
		for k := 0; k < 4 && c.depth == 0; k++ {
			c = cs[r.Intn(len(cs))]
		}
	}
	if w.pool != nil {
		w.notePooledTarget(c)
	}
	switch x := c.s.(type) {
	case *svArr:
		n := uint64(len(x.elems))
		if w.Opts.SelfSet && r.Chance(3) && w.selfSetArr(x) {
			w.Rep.Op("arr.selfset")
			return "arr.selfset"
		}
		if r.Chance(3) {
			// a request that must be rejected and leave no trace: insert beyond the end of a value whose
			// Storable() would have side effects (a large string, a fresh small container)
			var v atree.Value
			var fresh *atree.Array
			if r.Bool() && w.Opts.LargeVals {
				v = testutils.NewStringValue(randStr(r, int(atree.MaxInlineArrayElementSize())+20+r.Intn(40)))
			} else {
				a, err := atree.NewArray(w.St, w.Addr, w.ti(41))
				must(err)
				must(a.Append(testutils.Uint64Value(1)))
				v, fresh = a, a
			}
			err := x.arr.Insert(n+1+uint64(r.Intn(3)), v)
			var ioe *atree.IndexOutOfBoundsError
			if err == nil || !asErr(err, &ioe) {
				w.Fail("C18: insert beyond the end of the array was not rejected with IndexOutOfBoundsError", fmt.Sprint(err))
			}
			if fresh != nil {
				// the container was never attached: it is still the caller's stand-alone value; dispose of it
				if fresh.Inlined() {
					w.Fail("C18: a rejected insert inlined the value (its stand-alone slab is gone)", "")
				}
				w.dispose(atree.SlabIDStorable(fresh.SlabID()))
			}
			w.Rep.Op("arr.insert_rejected")
			return "arr.insert_rejected"
		}
		switch op := r.Pick(40, 15, 25, 2, 1); {
		case op == 0 || n == 0:
			i := uint64(0)
			switch r.Intn(3) {
			case 0:
				i = n
			case 1:
				i = uint64(r.Intn(int(n) + 1))
			}
			w.arrInsert(x, i, c.depth+1)
			w.Rep.Op("arr.insert")
			return "arr.insert"
		case op == 1:
			w.arrSet(x, uint64(r.Intn(int(n))), c.depth+1)
			w.Rep.Op("arr.set")
			return "arr.set"
		case op == 2:
			w.arrRemove(x, uint64(r.Intn(int(n))))
			w.Rep.Op("arr.remove")
			return "arr.remove"
		case op == 3 && (c.depth == 0 || w.Opts.PopChild):
			olds := x.elems
			k := len(olds)
			err := x.arr.PopIterate(func(s atree.Storable) {
				k--
				w.dispose(s)
			})
			if err != nil {
				w.Fail("PopIterate failed", err.Error())
			}
			if k != 0 {
				w.Fail("C13: PopIterate did not visit every element once", fmt.Sprint(k))
			}
			x.elems = nil
			w.Rep.Op("arr.pop")
			return "arr.pop"
		default:
			if c.depth == 0 || w.Opts.PopChild {
				x.ti = uint64(40 + r.Intn(3))
				if err := x.arr.SetType(w.ti(x.ti)); err != nil {
					w.Fail("SetType failed", err.Error())
				}
				w.Rep.Op("arr.settype")
				return "arr.settype"
			}
			return "skip"
		}
	case *svMap:
		if w.Opts.SelfSet && r.Chance(3) && w.selfSetMap(x) {
			w.Rep.Op("map.selfset")
			return "map.selfset"
		}
		switch op := r.Pick(50, 28, 2, 1); {
		case op == 0 || len(x.keys) == 0:
			w.mapSet(x, w.randKey(), c.depth+1)
			w.Rep.Op("map.set")
			return "map.set"
		case op == 1:
			var k atree.Value
			if r.Chance(85) {
				k = x.keys[r.Intn(len(x.keys))]
			} else {
				k = w.randKey()
			}
			w.mapRemove(x, k)
			w.Rep.Op("map.remove")
			return "map.remove"
		case op == 2 && (c.depth == 0 || w.Opts.PopChild):
			n := len(x.keys)
			err := x.m.PopIterate(func(k, s atree.Storable) {
				n--
				w.dispose(k)
				w.dispose(s)
			})
			if err != nil {
				w.Fail("map PopIterate failed", err.Error())
			}
			if n != 0 {
				w.Fail("C13: map PopIterate did not visit every entry once", fmt.Sprint(n))
			}
			x.keys, x.vals = nil, map[string]SV{}
			w.Rep.Op("map.pop")
			return "map.pop"
		default:
			if c.depth == 0 || w.Opts.PopChild {
				x.ti = uint64(50 + r.Intn(3))
				if err := x.m.SetType(w.ti(x.ti)); err != nil {
					w.Fail("map SetType failed", err.Error())
				}
				w.Rep.Op("map.settype")
				return "map.settype"
			}
			return "skip"
		}
	}
	return "skip"
}

// ---------- oracles ----------

func scalarEq(a, b atree.Value) bool { return keyStr(a) == keyStr(b) }

// Compare checks that the value read from the library equals the shadow, recursively, through
// fresh read-only wrappers (which are discarded).
func (w *World) Compare(s SV, v atree.Value, path string) {
	switch x := s.(type) {
	case *svScalar:
		if !scalarEq(x.v, v) {
			w.Fail("content differs from shadow", fmt.Sprintf("%s: want %v got %v", path, x.v, v))
		}
	case *svSome:
		sv, ok := v.(testutils.SomeValue)
		if !ok {
			w.Fail("content differs from shadow", fmt.Sprintf("%s: want SomeValue got %T", path, v))
			return
		}
		w.Compare(x.inner, sv.Value, path+"?")
	case *svArr:
		a, ok := v.(*atree.Array)
		if !ok {
			w.Fail("content differs from shadow", fmt.Sprintf("%s: want array got %T", path, v))
			return
		}
		if a.Count() != uint64(len(x.elems)) {
			w.Fail("content differs from shadow", fmt.Sprintf("%s: array count %d, shadow %d", path, a.Count(), len(x.elems)))
			return
		}
		if a.ValueID() != x.vid {
			w.Fail("C10: value identifier changed", path)
		}
		if ti, ok := a.Type().(testutils.SimpleTypeInfo); !ok || ti.Value() != x.ti {
			w.Fail("type differs from shadow", path)
		}
		i := 0
		err := a.IterateReadOnly(func(e atree.Value) (bool, error) {
			if i < len(x.elems) {
				w.Compare(x.elems[i], e, fmt.Sprintf("%s[%d]", path, i))
			}
			i++
			return true, nil
		})
		if err != nil || i != len(x.elems) {
			w.Fail("C13: read-only iteration does not yield every element once", fmt.Sprintf("%s: %d of %d, %v", path, i, len(x.elems), err))
		}
		// positional reads agree with sequential traversal (sampled)
		for k := 0; k < 3 && len(x.elems) > 0; k++ {
			j := w.Rng.Intn(len(x.elems))
			e, err := a.Get(uint64(j))
			if err != nil {
				w.Fail("C01: in-range Get failed", err.Error())
				continue
			}
			w.Compare(x.elems[j], e, fmt.Sprintf("%s[%d]", path, j))
		}
	case *svMap:
		m, ok := v.(*atree.OrderedMap)
		if !ok {
			w.Fail("content differs from shadow", fmt.Sprintf("%s: want map got %T", path, v))
			return
		}
		if m.Count() != uint64(len(x.keys)) {
			w.Fail("content differs from shadow", fmt.Sprintf("%s: map count %d, shadow %d", path, m.Count(), len(x.keys)))
			return
		}
		if m.ValueID() != x.vid {
			w.Fail("C10: value identifier changed", path)
		}
		if ti, ok := m.Type().(testutils.SimpleTypeInfo); ok && ti.Value() != x.ti {
			w.Fail("type differs from shadow", path)
		}
		n := 0
		err := m.IterateReadOnly(func(k, e atree.Value) (bool, error) {
			sv, ok := x.vals[keyStr(k)]
			if !ok {
				w.Fail("content differs from shadow", fmt.Sprintf("%s: unexpected key %v", path, k))
			} else {
				w.Compare(sv, e, fmt.Sprintf("%s{%v}", path, k))
			}
			n++
			return true, nil
		})
		if err != nil || n != len(x.keys) {
			w.Fail("C13: map iteration does not yield every entry once", fmt.Sprintf("%s: %d of %d, %v", path, n, len(x.keys), err))
		}
		for k := 0; k < 3 && len(x.keys) > 0; k++ {
			key := x.keys[w.Rng.Intn(len(x.keys))]
			e, err := m.Get(testutils.CompareValue, w.Hip(), key)
			if err != nil {
				w.Fail("C02: Get of a present key failed", err.Error())
				continue
			}
			w.Compare(x.vals[keyStr(key)], e, fmt.Sprintf("%s{%v}", path, key))
		}
		if w.pool != nil {
			w.pooledProbes(x, m, path)
		}
	}
}

func rootValue(s SV) atree.Value {
	switch x := s.(type) {
	case *svArr:
		return x.arr
	case *svMap:
		return x.m
	}
	return nil
}

func rootID(s SV) atree.SlabID {
	switch x := s.(type) {
	case *svArr:
		return x.arr.SlabID()
	case *svMap:
		return x.m.SlabID()
	}
	return atree.SlabIDUndefined
}

// VerifyAll runs the in-repo structural verifiers, the content comparison and the health check.
func (w *World) VerifyAll(health bool) {
	for i, r := range w.Roots {
		switch x := r.(type) {
		case *svArr:
			if err := atree.VerifyArray(x.arr, w.Addr, w.ti(x.ti), testutils.CompareTypeInfo, w.Hip(), true); err != nil {
				w.Fail("C05: VerifyArray failed", err.Error())
			}
		case *svMap:
			if err := atree.VerifyMap(x.m, w.Addr, w.ti(x.ti), testutils.CompareTypeInfo, w.Hip(), true); err != nil {
				w.Fail("C05: VerifyMap failed", err.Error())
			}
		}
		w.Compare(r, rootValue(r), fmt.Sprintf("root%d", i))
		w.checkLoaded(r, i)
	}
	if health {
		roots, err := atree.CheckStorageHealth(w.St, len(w.Roots))
		if err != nil {
			w.Fail("C09: CheckStorageHealth failed", err.Error())
			return
		}
		for _, r := range w.Roots {
			if _, ok := roots[rootID(r)]; !ok {
				w.Fail("C09: a live root is not among the roots found by the health check", rootID(r).String())
			}
		}
	}
}

// Commit commits with the deterministic commit.
func (w *World) Commit(workers int) {
	if err := w.St.FastCommit(workers); err != nil {
		w.Fail("commit failed", err.Error())
	}
}

// Reopen abandons the storage object and re-handles every container top-down from a brand-new
// storage over the same ledger (only valid directly after a successful commit).
func (w *World) Reopen() {
	w.St = w.openStorage()
	for _, r := range w.Roots {
		switch x := r.(type) {
		case *svArr:
			a, err := atree.NewArrayWithRootID(w.St, x.arr.SlabID())
			if err != nil {
				w.Fail("C03: array cannot be reopened by its root identifier", err.Error())
				continue
			}
			w.rehandle(x, a)
		case *svMap:
			dig := w.Opts.Digester
			if x.top {
				dig = w.Opts.RootDigester
			}
			m, err := atree.NewMapWithRootID(w.St, x.m.SlabID(), dig())
			if err != nil {
				w.Fail("C03: map cannot be reopened by its root identifier", err.Error())
				continue
			}
			w.rehandle(x, m)
		}
	}
}

func (w *World) rehandle(s SV, v atree.Value) {
	switch x := unwrapSV(s).(type) {
	case *svArr:
		a, ok := unwrapValueAll(v).(*atree.Array)
		if !ok {
			w.Fail("reopen: expected array", fmt.Sprintf("%T", v))
			return
		}
		x.arr = a
		for i, e := range x.elems {
			switch unwrapSV(e).(type) {
			case *svArr, *svMap:
				c, err := a.Get(uint64(i))
				if err != nil {
					w.Fail("reopen: Get failed", err.Error())
					continue
				}
				w.rehandle(e, c)
			}
		}
	case *svMap:
		m, ok := unwrapValueAll(v).(*atree.OrderedMap)
		if !ok {
			w.Fail("reopen: expected map", fmt.Sprintf("%T", v))
			return
		}
		x.m = m
		for _, k := range x.keys {
			e := x.vals[keyStr(k)]
			switch unwrapSV(e).(type) {
			case *svArr, *svMap:
				c, err := m.Get(testutils.CompareValue, w.Hip(), k)
				if err != nil {
					w.Fail("reopen: map Get failed", err.Error())
					continue
				}
				w.rehandle(e, c)
			}
		}
	}
}

// DisposeAll empties and removes every root; afterwards the storage must hold nothing.
func (w *World) DisposeAll() {
	for _, r := range w.Roots {
		w.dispose(atree.SlabIDStorable(rootID(r)))
	}
	w.Roots = nil
}

// LiveIDs returns the identifiers visible in the storage (write set over cache over ledger).
func (w *World) LiveIDs() []atree.SlabID {
	deltas, cache := atree.VerifStorageKeys(w.St)
	seen := map[atree.SlabID]bool{}
	var out []atree.SlabID
	add := func(id atree.SlabID) {
		if !seen[id] {
			seen[id] = true
			out = append(out, id)
		}
	}
	for id, live := range deltas {
		seen[id] = true
		if live {
			out = append(out, id)
		}
	}
	for id, live := range cache {
		if seen[id] {
			continue
		}
		seen[id] = true
		if live {
			out = append(out, id)
		}
	}
	for id := range w.Base.Segs {
		add(id)
	}
	sort.Slice(out, func(i, j int) bool { return out[i].Compare(out[j]) < 0 })
	return out
}

// ---------- real digests with forced first-level collisions ----------

// collideL0Builder wraps the library's default DigesterBuilder: every key is hashed by the REAL
// pooled digester (CircleHash64 + lazily cached BLAKE3 for levels 1..3), the digester is returned to
// the library's pool right away, and only the first-level digest is folded into a small alphabet so
// that collision groups (and therefore the deeper, BLAKE3-based levels) are actually used.
type collideL0Builder struct {
	inner atree.DigesterBuilder
	mod   uint64
}

func newCollideL0Builder(mod uint64) atree.DigesterBuilder {
	return &collideL0Builder{inner: atree.NewDefaultDigesterBuilder(), mod: mod}
}
func (b *collideL0Builder) SetSeed(k0, k1 uint64) { b.inner.SetSeed(k0, k1) }
func (b *collideL0Builder) Digest(hip atree.HashInputProvider, v atree.Value) (atree.Digester, error) {
	d, err := b.inner.Digest(hip, v)
	if err != nil {
		return nil, err
	}
	out := &fixedDigester{}
	for l := uint(0); l < d.Levels(); l++ {
		x, err := d.Digest(l)
		if err != nil {
			return nil, err
		}
		if l == 0 {
			x = atree.Digest(uint64(x) % b.mod)
		}
		out.ds = append(out.ds, x)
	}
	atree.VerifPutDigester(d)
	return out, nil
}

type fixedDigester struct{ ds []atree.Digest }

func (f *fixedDigester) DigestPrefix(level uint) ([]atree.Digest, error) {
	if level > uint(len(f.ds)) {
		return nil, fmt.Errorf("level %d out of range", level)
	}
	return f.ds[:level], nil
}
func (f *fixedDigester) Digest(level uint) (atree.Digest, error) {
	if level >= uint(len(f.ds)) {
		return 0, fmt.Errorf("level %d out of range", level)
	}
	return f.ds[level], nil
}
func (f *fixedDigester) Reset()       {}
func (f *fixedDigester) Levels() uint { return uint(len(f.ds)) }

// Retype changes the type of up to k random live containers (any depth) through their handles.
func (w *World) Retype(k int) {
	cs := w.containers()
	for ; k > 0 && len(cs) > 0; k-- {
		c := cs[w.Rng.Intn(len(cs))]
		switch x := c.s.(type) {
		case *svArr:
			x.ti = uint64(40 + (int(x.ti)-40+1+w.Rng.Intn(2))%3)
			if err := x.arr.SetType(w.ti(x.ti)); err != nil {
				w.Fail("SetType failed", err.Error())
			}
			w.Rep.Op("arr.settype")
		case *svMap:
			if _, simple := x.m.Type().(testutils.SimpleTypeInfo); !simple {
				continue
			}
			x.ti = uint64(50 + (int(x.ti)-50+1+w.Rng.Intn(2))%3)
			if err := x.m.SetType(w.ti(x.ti)); err != nil {
				w.Fail("map SetType failed", err.Error())
			}
			w.Rep.Op("map.settype")
		}
	}
}

// checkLoaded: right after Compare has walked (and thereby loaded) every slab of a root, the
// loaded-value iteration must yield every element of the root (C13: "loaded-values with all slabs
// loaded" equals the full enumeration), also when a newer version of a slab sits in the write set
// while an older one is still in the read cache.
func (w *World) checkLoaded(s SV, i int) {
	n := 0
	var err error
	var want int
	switch x := s.(type) {
	case *svArr:
		want = len(x.elems)
		err = x.arr.IterateReadOnlyLoadedValues(func(atree.Value) (bool, error) { n++; return true, nil })
	case *svMap:
		want = len(x.keys)
		err = x.m.IterateReadOnlyLoadedValues(func(atree.Value, atree.Value) (bool, error) { n++; return true, nil })
	default:
		return
	}
	if err != nil {
		w.Fail("C13: loaded-value iteration failed although every slab is loaded", fmt.Sprintf("root%d: %v", i, err))
		return
	}
	if n != want {
		w.Fail("C13: loaded-value iteration with every slab loaded does not yield every element", fmt.Sprintf("root%d: %d of %d", i, n, want))
	}
}
