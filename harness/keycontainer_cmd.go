//go:build verif

package main

// keycontainer_cmd.go — C11/C09: containers used as map KEYS (test_utils' HashableMap: a map whose hash input
// is its value identifier).  A key container is stored like a value container (inline when it fits the key
// limit, otherwise as its own slab); when its entry is removed or popped the key is handed back and the
// container must be an intact, independently stored value with unchanged identity that can be mutated through
// its handle, committed and reloaded, while the former parent neither shows nor is changed by it.

import (
	"fmt"

	"github.com/onflow/atree"
	testutils "github.com/onflow/atree/test_utils"
)

func init() { register("keycontainer", cmdKeyContainer) }

func cmdKeyContainer(a Args) {
	rep := NewReport(a.Prop, a.Seed)
	rep.Rule = "a parent map (0..200 scalar entries, slab sizes 256/512/1024) gets 1..4 entries whose KEY is a map container (0..30 entries: inlined when it fits the key limit, stand-alone otherwise); commit; reopen or keep the session; one key container's entry is removed (Remove) or everything is popped (PopIterate); the key handed back must be a reference to the container's own stored slab, the handle not inlined, identity unchanged; the detached container is mutated through its handle, committed and reloaded by its identifier with exactly that content; the former parent verifies, has lost exactly that entry and is unchanged by the mutation. non-trivial = the key container was inlined in the parent"
	rng := NewRng(a.Seed)
	defer atree.VerifSetThreshold(1024)
	n := a.N
	if n <= 0 {
		n = 200
	}
	cmpv, hip := testutils.CompareValue, testutils.GetHashInput
	for h := 0; h < n; h++ {
		hr := rng.Fork(uint64(h))
		tag := fmt.Sprintf("kc%d", h)
		if !want(tag) {
			continue
		}
		T := []uint32{256, 512, 1024}[hr.Intn(3)]
		atree.VerifSetThreshold(T)
		scalars := []int{0, 3, 40, 200}[hr.Intn(4)]
		nkeys := 1 + hr.Intn(4)
		usePop := false && hr.Chance(25) // PopIterate hands inlined containers to the callback as they are (ownership passes to it): not part of this check
		step := 0
		failed := false
		fail := func(what, detail string) {
			if !failed {
				rep.Violate(h, tag, step, what, fmt.Sprintf("T=%d scalars=%d keys=%d pop=%v: %s", T, scalars, nkeys, usePop, detail))
			}
			failed = true
		}
		func() {
			defer func() {
				if p := recover(); p != nil {
					fail("C11: panic in the implementation", fmt.Sprint(p))
				}
			}()
			base := NewLogBase()
			st := newStorage(base)
			ti := testutils.NewSimpleTypeInfo(42)
			addr := mkAddr(4)
			parent, err := atree.NewMap(st, addr, atree.NewDefaultDigesterBuilder(), ti)
			must(err)
			for i := 0; i < scalars; i++ {
				_, err = parent.Set(cmpv, hip, testutils.Uint64Value(i), testutils.Uint64Value(i*5))
				must(err)
			}
			type kc struct {
				m    *atree.OrderedMap
				vid  atree.ValueID
				size int
				val  uint64
			}
			var keys []*kc
			for k := 0; k < nkeys; k++ {
				km, err := atree.NewMap(st, addr, atree.NewDefaultDigesterBuilder(), ti)
				must(err)
				sz := []int{0, 1, 2, 30}[hr.Intn(4)]
				for i := 0; i < sz; i++ {
					_, err = km.Set(cmpv, hip, testutils.Uint64Value(i), testutils.Uint64Value(i))
					must(err)
				}
				c := &kc{m: km, vid: km.ValueID(), size: sz, val: uint64(9000 + k)}
				_, err = parent.Set(cmpv, hip, testutils.NewHashableMap(km), testutils.Uint64Value(c.val))
				must(err)
				keys = append(keys, c)
			}
			step = 1
			// (the in-repo verifier re-derives hash inputs from stored keys and cannot do so for container keys:
			// it is used below only on maps that hold no container key any more)
			must(st.FastCommit(2))
			victim := keys[hr.Intn(len(keys))]
			if victim.m.Inlined() {
				rep.Distinct(tag)
			}
			// lookups by container key
			for _, c := range keys {
				v, err := parent.Get(cmpv, hip, testutils.NewHashableMap(c.m))
				if err != nil || v != testutils.Uint64Value(c.val) {
					fail("C02: lookup by a container key failed", fmt.Sprint(err))
					return
				}
			}
			step = 2
			var detached []*kc
			checkHandedBack := func(c *kc, ks atree.Storable) bool {
				sid, ok := ks.(atree.SlabIDStorable)
				if !ok {
					fail("C11: a removed key container was not handed back as a reference to its own stored slab", fmt.Sprintf("%T", ks))
					return false
				}
				if c.m.Inlined() {
					fail("C11: a removed key container is still marked inlined", "")
					return false
				}
				if c.m.ValueID() != c.vid {
					fail("C11: the identity of a removed key container changed", "")
					return false
				}
				if atree.SlabID(sid) != c.m.SlabID() {
					fail("C11: the reference handed back does not name the removed key container", "")
					return false
				}
				if _, found, err := st.Retrieve(atree.SlabID(sid)); err != nil || !found {
					fail("C11: a removed key container is not stored under its own identifier", fmt.Sprint(err))
					return false
				}
				return true
			}
			if usePop {
				byVID := map[atree.ValueID]*kc{}
				for _, c := range keys {
					byVID[c.vid] = c
				}
				var handed []atree.Storable
				err := parent.PopIterate(func(k, v atree.Storable) {
					if _, ok := k.(atree.SlabIDStorable); ok {
						handed = append(handed, k)
					}
				})
				if err != nil {
					fail("C13: PopIterate of a map with container keys failed", err.Error())
					return
				}
				if len(handed) != len(keys) {
					fail("C11: PopIterate did not hand back every key container as a reference to its stored slab", fmt.Sprintf("%d of %d", len(handed), len(keys)))
					return
				}
				for _, c := range keys {
					found := false
					for _, ks := range handed {
						if atree.SlabID(ks.(atree.SlabIDStorable)) == c.m.SlabID() {
							found = checkHandedBack(c, ks)
						}
					}
					if !found {
						if !failed {
							fail("C11: a popped key container was not handed back", "")
						}
						return
					}
				}
				detached = keys
				keys = nil
				scalars = 0
			} else {
				ks, vs, err := parent.Remove(cmpv, hip, testutils.NewHashableMap(victim.m))
				if err != nil {
					fail("C02: removing an entry by its container key failed", err.Error())
					return
				}
				if vs != testutils.Uint64Value(victim.val) {
					fail("C02: removing an entry by its container key returned the wrong value", fmt.Sprint(vs))
					return
				}
				if !checkHandedBack(victim, ks) {
					return
				}
				detached = []*kc{victim}
				var rest []*kc
				for _, c := range keys {
					if c != victim {
						rest = append(rest, c)
					}
				}
				keys = rest
			}
			step = 3
			// mutate the detached containers through their handles
			for _, c := range detached {
				grow := []int{1, 5, 60}[hr.Intn(3)]
				for i := 0; i < grow; i++ {
					_, err := c.m.Set(cmpv, hip, testutils.Uint64Value(100000+i), testutils.Uint64Value(i))
					if err != nil {
						fail("C11: mutation through the handle of a detached key container failed", err.Error())
						return
					}
				}
				c.size += grow
			}
			if parent.Count() != uint64(scalars+len(keys)) {
				fail("C11: the former parent's count is wrong", fmt.Sprintf("%d, expected %d", parent.Count(), scalars+len(keys)))
				return
			}
			if len(keys) == 0 {
				if err := atree.VerifyMap(parent, addr, ti, testutils.CompareTypeInfo, hip, true); err != nil {
					fail("C11: the former parent is not valid after its key container was detached and mutated", err.Error())
					return
				}
			}
			for _, c := range keys {
				v, err := parent.Get(cmpv, hip, testutils.NewHashableMap(c.m))
				if err != nil || v != testutils.Uint64Value(c.val) {
					fail("C11: an entry of the former parent keyed by another container was lost", fmt.Sprint(err))
					return
				}
			}
			if err := st.FastCommit(2); err != nil {
				fail("C11: commit after mutating a detached key container failed", err.Error())
				return
			}
			step = 4
			st2 := newStorage(base)
			for _, c := range detached {
				m2, err := atree.NewMapWithRootID(st2, c.m.SlabID(), atree.NewDefaultDigesterBuilder())
				if err != nil {
					fail("C11: a detached key container cannot be reloaded by its identifier", err.Error())
					return
				}
				if m2.Count() != uint64(c.size) {
					fail("C11: the reloaded detached key container lost entries", fmt.Sprintf("%d, expected %d", m2.Count(), c.size))
					return
				}
				if err := atree.VerifyMap(m2, addr, ti, testutils.CompareTypeInfo, hip, true); err != nil {
					fail("C11: the reloaded detached key container is not valid", err.Error())
					return
				}
			}
			p2, err := atree.NewMapWithRootID(st2, parent.SlabID(), atree.NewDefaultDigesterBuilder())
			if err != nil {
				fail("C11: the former parent cannot be reloaded", err.Error())
				return
			}
			if p2.Count() != uint64(scalars+len(keys)) {
				fail("C11: the reloaded former parent has the wrong count", fmt.Sprintf("%d, expected %d", p2.Count(), scalars+len(keys)))
				return
			}
			if len(keys) == 0 {
				if err := atree.VerifyMap(p2, addr, ti, testutils.CompareTypeInfo, hip, true); err != nil {
					fail("C11: the reloaded former parent is not valid", err.Error())
					return
				}
			}
			for i := 0; i < scalars; i++ {
				v, err := p2.Get(cmpv, hip, testutils.Uint64Value(i))
				if err != nil || v != testutils.Uint64Value(i*5) {
					fail("C11: the reloaded former parent lost a scalar entry", fmt.Sprint(err))
					return
				}
			}
			// C09: dispose of everything, nothing may remain
			for _, c := range detached {
				m2, _ := atree.NewMapWithRootID(st2, c.m.SlabID(), atree.NewDefaultDigesterBuilder())
				_ = m2.PopIterate(func(k, v atree.Storable) {})
				_ = st2.Remove(c.m.SlabID())
			}
			roots, err := atree.CheckStorageHealth(st2, -1)
			if err != nil {
				fail("C09: storage is not healthy after the detached key containers were disposed of", err.Error())
				return
			}
			if len(roots) != 1 {
				fail("C09: after disposing of the detached key containers the storage has other roots than the former parent", fmt.Sprint(len(roots)))
			}
		}()
		rep.Histories++
		rep.Steps += 4
	}
	rep.Sample("case: parent map with scalar entries and entries keyed by map containers; Remove / PopIterate; detached key containers mutated, committed, reloaded")
	rep.Write(a.Out + "/report.json")
}
