//go:build verif

package main

// gen-go: a TRANSLATOR from the Go source text of selected pure functions of the library to Gallina.
//
//	harness gen-go -out <coq/gen> [-src <library source dir>]
//
// It parses every non-test .go file of the library directory (go/parser), type-checks the package
// with go/types (imports are stubbed: only `math` integer limits, math.Ceil and fmt.Errorf/Sprintf are known;
// type errors elsewhere in the package are ignored, a type error INSIDE a translated declaration
// is fatal) and transcribes the functions listed in ggSelected (plus their callees) into
// coq/gen/GoFuncs.v.  proofs/GoFuncs_proofs.v proves each generated definition extensionally equal
// to the hand-written model function the property theorems are about, so an edit of such a Go
// function changes GoFuncs.v and breaks a proof obligation directly.
//
// The accepted subset and the treatment of integer widths are described in gengo_expr.go /
// gengo_stmt.go; anything outside the subset stops the translator with a message naming the
// construct and its position (exit status 1, GoFuncs.v left untouched).
//
// The library directory is (in this order) the `-src` flag, $ATREE_DIR, the go.mod replace target
// of github.com/onflow/atree recorded in the binary's build info, /repo.

import (
	"crypto/sha256"
	"fmt"
	"go/ast"
	"go/constant"
	"go/parser"
	"go/token"
	"go/types"
	"math/big"
	"os"
	"path/filepath"
	"sort"
	"strings"
)

var ggSrcFlag string

func init() {
	// `-src <dir>` is private to gen-go; main.go's shared flag set does not know it, so it is taken
	// out of the argument list before main() parses the flags.
	if len(os.Args) >= 2 && os.Args[1] == "gen-go" {
		var rest []string
		for i := 0; i < len(os.Args); i++ {
			a := os.Args[i]
			switch {
			case i >= 2 && (a == "-src" || a == "--src") && i+1 < len(os.Args):
				ggSrcFlag = os.Args[i+1]
				i++
			case i >= 2 && strings.HasPrefix(a, "-src="):
				ggSrcFlag = strings.TrimPrefix(a, "-src=")
			case i >= 2 && strings.HasPrefix(a, "--src="):
				ggSrcFlag = strings.TrimPrefix(a, "--src=")
			default:
				rest = append(rest, a)
			}
		}
		os.Args = rest
	}
	register("gen-go", func(a Args) { cmdGenGo(a.Out) })
}

// ggSel names one function to translate. Recv is the receiver's type name for methods.
type ggSel struct{ File, Recv, Name string }

// The functions whose Gallina transcription is proved equal to a model function.
// A listed function that no longer exists (renamed, moved) is a fatal error, not a silent omission.
var ggSelected = []ggSel{
	{"encode.go", "", "GetUintCBORSize"},
	{"math_utils.go", "", "safeAdd2Uint32"},
	{"math_utils.go", "", "safeAdd3Uint32"},
	{"flag.go", "", "newArraySlabHead"},
	{"flag.go", "", "newMapSlabHead"},
	{"flag.go", "", "newStorableSlabHead"},
	{"flag.go", "head", "version"},
	{"flag.go", "head", "isRoot"},
	{"flag.go", "head", "setRoot"},
	{"flag.go", "head", "hasPointers"},
	{"flag.go", "head", "setHasPointers"},
	{"flag.go", "head", "hasSizeLimit"},
	{"flag.go", "head", "setNoSizeLimit"},
	{"flag.go", "head", "hasInlinedSlabs"},
	{"flag.go", "head", "setHasInlinedSlabs"},
	{"flag.go", "head", "hasNextSlabID"},
	{"flag.go", "head", "setHasNextSlabID"},
	{"flag.go", "head", "getSlabType"},
	{"flag.go", "head", "getSlabArrayType"},
	{"flag.go", "head", "getSlabMapType"},
	{"settings.go", "", "setThreshold"},
	{"settings.go", "", "maxInlineMapValueSize"},
	{"cbor_tag_nums.go", "", "ReservedCBORTagNumberRange"},
	{"cbor_tag_nums.go", "", "IsCBORTagNumberRangeAvailable"},
	// the rebalancing decision predicates of the slab trees (property C05): struct receivers read
	// through scalar fields only (see gengo_stmt.go, "struct receivers").  Not listed because they are
	// outside the subset (loops over a slice of interface values / calls through an interface):
	// ArrayDataSlab.CanLendToLeft/CanLendToRight, MapDataSlab.CanLendToLeft/CanLendToRight
	// (m.elements.CanLendTo...), every Split/Merge/LendToRight/BorrowFromRight.
	{"array_data_slab.go", "ArrayDataSlab", "Inlinable"},
	{"array_metadata_slab.go", "ArrayMetaDataSlab", "Inlinable"},
	{"array_data_slab.go", "ArrayDataSlab", "IsFull"},
	{"array_data_slab.go", "ArrayDataSlab", "IsUnderflow"},
	{"array_metadata_slab.go", "ArrayMetaDataSlab", "IsFull"},
	{"array_metadata_slab.go", "ArrayMetaDataSlab", "IsUnderflow"},
	{"array_metadata_slab.go", "ArrayMetaDataSlab", "CanLendToLeft"},
	{"array_metadata_slab.go", "ArrayMetaDataSlab", "CanLendToRight"},
	{"map_data_slab.go", "MapDataSlab", "IsFull"},
	{"map_data_slab.go", "MapDataSlab", "IsUnderflow"},
	{"map_metadata_slab.go", "MapMetaDataSlab", "IsFull"},
	{"map_metadata_slab.go", "MapMetaDataSlab", "IsUnderflow"},
	{"map_metadata_slab.go", "MapMetaDataSlab", "CanLendToLeft"},
	{"map_metadata_slab.go", "MapMetaDataSlab", "CanLendToRight"},
}

// Package-level constants emitted even when no translated function mentions them (the size
// formulas of array_size_consts.go / map_size_consts.go are constant expressions, not functions).
// proofs/GoFuncs_proofs.v ties them to gen/Consts.v / gen/CodecConsts.v (values observed at run time).
var ggSelectedConsts = []string{
	"defaultSlabSize", "minSlabSize", "maxSlabSize", "minElementCountInSlab",
	"versionAndFlagSize", "SlabAddressLength", "SlabIndexLength", "SlabIDLength",
	"arraySlabHeaderSize", "arrayMetaDataSlabPrefixSize", "arrayDataSlabElementHeadSize",
	"arrayDataSlabPrefixSize", "arrayRootDataSlabPrefixSize", "inlinedArrayDataSlabPrefixSize",
	"maxInlinedExtraDataIndex", "digestSize", "singleElementPrefixSize",
	"inlineCollisionGroupPrefixSize", "externalCollisionGroupPrefixSize", "digestPrefixSize",
	"elementPrefixSize", "hkeyElementsPrefixSize", "singleElementsPrefixSize", "mapSlabHeaderSize",
	"mapMetaDataSlabPrefixSize", "mapDataSlabPrefixSize", "mapRootDataSlabPrefixSize", "maxDigestLevel",
	"inlinedMapDataSlabPrefixSize",
	"maskVersion", "maskHasNextSlabID", "maskHasInlinedSlabs", "maskSlabRoot", "maskSlabHasPointers",
	"maskSlabAnySize", "maskArrayData", "maskArrayMeta", "maskMapData", "maskMapMeta",
	"maskCollisionGroup", "maskStorable", "maxVersion",
	"slabTypeUndefined", "slabArray", "slabMap", "slabStorable",
	"slabArrayUndefined", "slabArrayData", "slabArrayMeta", "slabLargeImmutableArray",
	"slabMapUndefined", "slabMapData", "slabMapMeta", "slabMapLargeEntry", "slabMapCollisionGroup",
	"minInternalCBORTagNumber", "maxInternalCBORTagNumber",
}

// ---------------------------------------------------------------------------------------------
// errors

type ggError struct{ msg string }

func (g *ggGen) fail(pos token.Pos, format string, a ...any) {
	where := "?"
	if pos.IsValid() {
		p := g.fset.Position(pos)
		where = fmt.Sprintf("%s:%d:%d", filepath.Base(p.Filename), p.Line, p.Column)
	}
	panic(ggError{where + ": " + fmt.Sprintf(format, a...)})
}

// ---------------------------------------------------------------------------------------------
// loading and type checking

type ggImporter struct{ pk map[string]*types.Package }

func (im *ggImporter) Import(path string) (*types.Package, error) {
	if p, ok := im.pk[path]; ok {
		return p, nil
	}
	name := path[strings.LastIndex(path, "/")+1:]
	if name == "v2" { // github.com/fxamacker/cbor/v2
		rest := strings.TrimSuffix(path, "/v2")
		name = rest[strings.LastIndex(rest, "/")+1:]
	}
	p := types.NewPackage(path, name)
	switch path {
	case "math":
		add := func(n string, v constant.Value) {
			p.Scope().Insert(types.NewConst(token.NoPos, p, n, types.Typ[types.UntypedInt], v))
		}
		pow := func(k uint) *big.Int { return new(big.Int).Lsh(big.NewInt(1), k) }
		for _, k := range []uint{8, 16, 32, 64} {
			add(fmt.Sprintf("MaxUint%d", k), constant.Make(new(big.Int).Sub(pow(k), big.NewInt(1))))
			add(fmt.Sprintf("MaxInt%d", k), constant.Make(new(big.Int).Sub(pow(k-1), big.NewInt(1))))
			add(fmt.Sprintf("MinInt%d", k), constant.Make(new(big.Int).Neg(pow(k-1))))
		}
		// math.Ceil: accepted by the translator only in  uintN(math.Ceil(float64(u) / c))  (gengo_expr.go)
		f64 := types.Typ[types.Float64]
		p.Scope().Insert(types.NewFunc(token.NoPos, p, "Ceil", types.NewSignatureType(nil, nil, nil,
			types.NewTuple(types.NewVar(token.NoPos, p, "x", f64)), types.NewTuple(types.NewVar(token.NoPos, p, "", f64)), false)))
	case "fmt":
		anyT := types.Universe.Lookup("any").Type()
		errT := types.Universe.Lookup("error").Type()
		params := func() *types.Tuple {
			return types.NewTuple(types.NewVar(token.NoPos, p, "format", types.Typ[types.String]),
				types.NewVar(token.NoPos, p, "a", types.NewSlice(anyT)))
		}
		p.Scope().Insert(types.NewFunc(token.NoPos, p, "Errorf", types.NewSignatureType(nil, nil, nil, params(),
			types.NewTuple(types.NewVar(token.NoPos, p, "", errT)), true)))
		p.Scope().Insert(types.NewFunc(token.NoPos, p, "Sprintf", types.NewSignatureType(nil, nil, nil, params(),
			types.NewTuple(types.NewVar(token.NoPos, p, "", types.Typ[types.String])), true)))
	}
	p.MarkComplete()
	im.pk[path] = p
	return p, nil
}

type ggConstInfo struct {
	obj  *types.Const
	file string
	text string // source text of its ValueSpec
	pos  token.Pos
}

type ggGen struct {
	dir   string
	fset  *token.FileSet
	files map[string]*ast.File // base name -> file
	src   map[string][]byte
	info  *types.Info
	pkg   *types.Package
	terrs []types.Error

	funcs    map[*types.Func]*ast.FuncDecl
	funcFile map[*types.Func]string
	consts   map[*types.Const]*ggConstInfo // constants of the package, by object
	varPos   map[*types.Var]int            // package-level variables: declaration order

	usedConsts map[*types.Const]bool
	extConsts  map[string]*types.Const // imported constants in use (math.MaxUint32), by emitted name
	done       map[*types.Func]*ggFnOut
	busy       map[*types.Func]bool
	order      []*ggFnOut
}

func ggSourceDir() string {
	if ggSrcFlag != "" {
		return ggSrcFlag
	}
	return ercRepoDir() // $ATREE_DIR, go.mod replace target from the build info, /repo
}

func (g *ggGen) load() {
	ents, err := os.ReadDir(g.dir)
	must(err)
	var names []string
	for _, e := range ents {
		n := e.Name()
		if e.IsDir() || !strings.HasSuffix(n, ".go") || strings.HasSuffix(n, "_test.go") {
			continue
		}
		names = append(names, n)
	}
	sort.Strings(names)
	var files []*ast.File
	for _, n := range names {
		b, err := os.ReadFile(filepath.Join(g.dir, n))
		must(err)
		f, err := parser.ParseFile(g.fset, filepath.Join(g.dir, n), b, parser.ParseComments)
		if err != nil {
			panic(ggError{fmt.Sprintf("%s does not parse: %v", n, err)})
		}
		g.files[n], g.src[n] = f, b
		files = append(files, f)
	}
	conf := types.Config{
		Importer: &ggImporter{pk: map[string]*types.Package{}},
		Error: func(err error) {
			if te, ok := err.(types.Error); ok {
				g.terrs = append(g.terrs, te)
			}
		},
	}
	g.info = &types.Info{
		Types:      map[ast.Expr]types.TypeAndValue{},
		Defs:       map[*ast.Ident]types.Object{},
		Uses:       map[*ast.Ident]types.Object{},
		Selections: map[*ast.SelectorExpr]*types.Selection{},
	}
	g.pkg, _ = conf.Check("github.com/onflow/atree", g.fset, files, g.info)
	if g.pkg == nil {
		panic(ggError{"type checking produced no package"})
	}
	nvar := 0
	for _, n := range names {
		for _, d := range g.files[n].Decls {
			switch d := d.(type) {
			case *ast.FuncDecl:
				if fo, ok := g.info.Defs[d.Name].(*types.Func); ok {
					g.funcs[fo], g.funcFile[fo] = d, n
				}
			case *ast.GenDecl:
				for _, sp := range d.Specs {
					vs, ok := sp.(*ast.ValueSpec)
					if !ok {
						continue
					}
					for _, id := range vs.Names {
						switch o := g.info.Defs[id].(type) {
						case *types.Const:
							g.consts[o] = &ggConstInfo{obj: o, file: n, text: g.text(vs.Pos(), vs.End()), pos: vs.Pos()}
						case *types.Var:
							g.varPos[o] = nvar
							nvar++
						}
					}
				}
			}
		}
	}
}

func (g *ggGen) text(from, to token.Pos) string {
	p, q := g.fset.Position(from), g.fset.Position(to)
	return string(g.src[filepath.Base(p.Filename)][p.Offset:q.Offset])
}

// checkTyped: a type error reported inside [from,to) means go/types could not type the declaration
// completely (for instance it uses something of a stubbed import): refuse to translate it.
func (g *ggGen) checkTyped(what string, from, to token.Pos) {
	for _, e := range g.terrs {
		if e.Fset == g.fset && e.Pos >= from && e.Pos < to {
			g.fail(e.Pos, "%s does not type-check on its own: %s", what, e.Msg)
		}
	}
}

// ---------------------------------------------------------------------------------------------
// driver and output

func cmdGenGo(out string) {
	g := &ggGen{
		dir: ggSourceDir(), fset: token.NewFileSet(), files: map[string]*ast.File{}, src: map[string][]byte{},
		funcs: map[*types.Func]*ast.FuncDecl{}, funcFile: map[*types.Func]string{}, consts: map[*types.Const]*ggConstInfo{},
		varPos: map[*types.Var]int{}, usedConsts: map[*types.Const]bool{}, extConsts: map[string]*types.Const{},
		done: map[*types.Func]*ggFnOut{}, busy: map[*types.Func]bool{},
	}
	defer func() {
		if p := recover(); p != nil {
			if ge, ok := p.(ggError); ok {
				fmt.Fprintln(os.Stderr, "gen-go: CANNOT TRANSLATE:", ge.msg)
				os.Exit(1)
			}
			panic(p)
		}
	}()
	g.load()
	for _, s := range ggSelected {
		fo := g.lookupFunc(s)
		g.translate(fo, token.NoPos)
	}
	for _, n := range ggSelectedConsts {
		c, ok := g.pkg.Scope().Lookup(n).(*types.Const)
		if !ok {
			panic(ggError{"constant " + n + " (listed in ggSelectedConsts) is not a package-level constant of " + g.dir})
		}
		g.usedConsts[c] = true
	}
	writeIfChanged(filepath.Join(out, "GoFuncs.v"), g.render())
}

func (g *ggGen) lookupFunc(s ggSel) *types.Func {
	for fo, fd := range g.funcs {
		if fd.Name.Name != s.Name || g.funcFile[fo] != s.File {
			continue
		}
		recv := ""
		if fd.Recv != nil && len(fd.Recv.List) == 1 {
			t := fd.Recv.List[0].Type
			if st, ok := t.(*ast.StarExpr); ok {
				t = st.X
			}
			if id, ok := t.(*ast.Ident); ok {
				recv = id.Name
			}
		}
		if recv == s.Recv {
			return fo
		}
	}
	what := s.Name
	if s.Recv != "" {
		what = "(" + s.Recv + ")." + s.Name
	}
	panic(ggError{fmt.Sprintf("function %s not found in %s/%s (renamed or moved? update ggSelected and proofs/GoFuncs_proofs.v)", what, g.dir, s.File)})
}

// ggComment makes a text safe inside a Coq comment (comment delimiters and string quotes are lexed there).
func ggComment(s string) string {
	s = strings.ReplaceAll(s, "(*", "( *")
	s = strings.ReplaceAll(s, "*)", "* )")
	s = strings.ReplaceAll(s, "\"", "'")
	s = strings.Join(strings.Fields(s), " ")
	return s
}

func (g *ggGen) constName(c *types.Const) string {
	if c.Pkg() != nil && c.Pkg() != g.pkg {
		return "k_" + c.Pkg().Name() + "_" + c.Name()
	}
	return "k_" + c.Name()
}

// constRep: typed constants have the representation of their type; untyped ones N when >= 0, Z otherwise.
func (g *ggGen) constRep(c *types.Const, pos token.Pos) (ggRep, *big.Int) {
	v := constant.ToInt(c.Val())
	if v.Kind() != constant.Int {
		g.fail(pos, "constant %s is not an integer constant (%s)", c.Name(), c.Val().Kind())
	}
	bi := ggBig(v)
	if b, ok := c.Type().Underlying().(*types.Basic); ok && b.Info()&types.IsUntyped != 0 {
		if bi.Sign() >= 0 {
			return ggRep{k: ggN}, bi
		}
		return ggRep{k: ggZ}, bi
	}
	r := g.repOf(c.Type(), pos)
	if r.k != ggN && r.k != ggZ {
		g.fail(pos, "constant %s has non-integer type %s", c.Name(), c.Type())
	}
	return r, bi
}

func ggBig(v constant.Value) *big.Int {
	switch x := constant.Val(v).(type) {
	case int64:
		return big.NewInt(x)
	case *big.Int:
		return new(big.Int).Set(x)
	}
	panic(ggError{"unexpected constant representation " + v.String()})
}

func (g *ggGen) render() string {
	var sb strings.Builder
	sb.WriteString("(* GENERATED from the Go source text of the library by `harness gen-go`: do not edit.\n" +
		"   Gallina transcription of selected pure functions (go/parser + go/types; see harness/gengo_*.go).\n" +
		"   unsigned Go integers : N (wrap-around written as explicit `mod 2^width` wherever the operand bounds\n" +
		"   do not exclude overflow); signed integers (enumeration types) : Z; [2]byte : N * N;\n" +
		"   a function that can panic / return a non-nil error : option, None = panic or error.\n" +
		"   a method on a struct (slab) type that only READS scalar fields of its receiver r : one parameter per\n" +
		"   field path read, r.f.g -> r_f_g (len(r.f) -> len_r_f : Z), in struct declaration order, in the\n" +
		"   receiver's position (after the package variables g_..., before the Go parameters).\n" +
		"   uintN(math.Ceil(float64(u) / c)), u < 2^32, c an integer constant : the ceiling division (u + (c - 1)) / c.\n" +
		"   k_<name> = Go constant <name> (value computed by go/types), g_<name> = package-level variable <name>. *)\n" +
		"From Coq Require Import NArith ZArith Bool.\nLocal Open Scope N_scope.\n\n")
	// constants: package constants in source order (file, offset), imported ones first by name
	var ext []string
	for n := range g.extConsts {
		ext = append(ext, n)
	}
	sort.Strings(ext)
	for _, n := range ext {
		c := g.extConsts[n]
		r, v := g.constRep(c, token.NoPos)
		fmt.Fprintf(&sb, "(* const %s.%s *)\nDefinition %s : %s := %s.\n", c.Pkg().Name(), c.Name(), n, ggCoqType(r), ggLit(r, v))
	}
	var cs []*ggConstInfo
	for c := range g.usedConsts {
		ci := g.consts[c]
		if ci == nil {
			panic(ggError{"constant " + c.Name() + " has no declaration in the parsed files"})
		}
		cs = append(cs, ci)
	}
	sort.Slice(cs, func(i, j int) bool {
		if cs[i].file != cs[j].file {
			return cs[i].file < cs[j].file
		}
		if cs[i].pos != cs[j].pos {
			return cs[i].pos < cs[j].pos
		}
		return cs[i].obj.Name() < cs[j].obj.Name()
	})
	for _, ci := range cs {
		r, v := g.constRep(ci.obj, ci.pos)
		fmt.Fprintf(&sb, "(* const %s: %s *)\nDefinition %s : %s := %s.\n", ci.file, ggComment(ci.text), g.constName(ci.obj), ggCoqType(r), ggLit(r, v))
	}
	for _, fo := range g.order {
		sb.WriteString("\n")
		sb.WriteString(fo.text)
	}
	return sb.String()
}

func ggHash(s string) string {
	h := sha256.Sum256([]byte(s))
	return fmt.Sprintf("%x", h[:8])
}
