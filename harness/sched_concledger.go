//go:build verif

package main

// C16 (iii): independent clients over the PRODUCTION ledger adapter.  Every client owns an in-memory
// atree.Ledger, an atree.LedgerBaseStorage over it, a PersistentSlabStorage and a World; nothing is
// shared between clients except the library's package-level state.  The same history is run alone
// and on concurrent goroutines; what the library returns per step, the registers after every commit,
// the final registers and the set of register keys the ledger is asked for must be the same.
//
// A concLedger is used by exactly one goroutine at a time (LedgerBaseStorage is only called from the
// goroutine that calls the storage: commits encode in workers but write from the caller, BatchPreload
// reads from the caller and decodes in workers), so it needs no locking and the race detector stays
// silent on the harness side.

import (
	"crypto/sha256"
	"encoding/binary"
	"encoding/hex"
	"fmt"
	"hash"
	"hash/fnv"
	"io"
	"runtime"
	"sort"
	"sync"

	"github.com/onflow/atree"
	testutils "github.com/onflow/atree/test_utils"
)

// ---------- ledger ----------

type concLedger struct {
	regs    map[string][]byte // owner ++ key -> value (absent = no entry)
	index   map[string]uint64 // slab indexes allocated per owner, counted from base
	base    uint64            // the first index handed out is base+1: an account that allocated base slabs before
	touched map[string]bool   // every owner ++ key the ledger was ever called with
	allowed map[string]bool   // when non-nil: the keys the same client uses when it runs alone
	jr      *Rng              // when non-nil: the ledger yields now and then BEFORE it consumes the key (as a ledger that blocks on I/O does)
	bad     string            // first anomalous key
	sets    int
	gets    int
	removes int
}

func newConcLedger(base uint64, allowed map[string]bool, jr *Rng) *concLedger {
	return &concLedger{regs: map[string][]byte{}, index: map[string]uint64{}, base: base, touched: map[string]bool{}, allowed: allowed, jr: jr}
}

func regKeyStr(k string) string {
	if len(k) < 8 {
		return hex.EncodeToString([]byte(k))
	}
	return hex.EncodeToString([]byte(k[:8])) + "/" + hex.EncodeToString([]byte(k[8:]))
}

// reg turns (owner, key) into the register name.  The key bytes are read when the ledger gets to
// them, which may be after other goroutines ran: the caller must not reuse them during the call.
func (l *concLedger) reg(kind string, owner, key []byte) string {
	if l.jr != nil && l.jr.Chance(30) {
		runtime.Gosched()
	}
	k := string(owner) + string(key)
	if l.touched[k] {
		return k
	}
	l.touched[k] = true
	if l.bad != "" {
		return k
	}
	// the adapter only ever names slabs whose index this ledger allocated for that owner
	if len(owner) != 8 || len(key) != 1+atree.SlabIndexLength || string(key[:1]) != atree.LedgerBaseStorageSlabPrefix {
		l.bad = fmt.Sprintf("%s of malformed register %s", kind, regKeyStr(k))
		return k
	}
	idx := binary.BigEndian.Uint64(key[1:])
	if idx <= l.base || idx > l.base+l.index[string(owner)] {
		l.bad = fmt.Sprintf("%s of register %s: slab index %#x was never allocated by this ledger for that owner (allocated %#x..%#x)", kind, regKeyStr(k), idx, l.base+1, l.base+l.index[string(owner)])
		return k
	}
	if l.allowed != nil && !l.allowed[k] {
		l.bad = fmt.Sprintf("%s of register %s, which the same history never touches when it runs alone", kind, regKeyStr(k))
	}
	return k
}

func (l *concLedger) GetValue(owner, key []byte) ([]byte, error) {
	l.gets++
	if v, ok := l.regs[l.reg("GetValue", owner, key)]; ok {
		return v, nil
	}
	return []byte{}, nil // absent register: empty, non-nil, as real ledgers answer
}

func (l *concLedger) SetValue(owner, key, value []byte) error {
	if len(value) == 0 {
		l.removes++
		delete(l.regs, l.reg("SetValue(empty)", owner, key))
		return nil
	}
	l.sets++
	k := l.reg("SetValue", owner, key)
	l.regs[k] = append([]byte(nil), value...)
	return nil
}

func (l *concLedger) ValueExists(owner, key []byte) (bool, error) {
	_, ok := l.regs[l.reg("ValueExists", owner, key)]
	return ok, nil
}

func (l *concLedger) AllocateSlabIndex(owner []byte) (atree.SlabIndex, error) {
	l.index[string(owner)]++
	var idx atree.SlabIndex
	binary.BigEndian.PutUint64(idx[:], l.base+l.index[string(owner)])
	return idx, nil
}

func (l *concLedger) sortedKeys() []string {
	ks := make([]string, 0, len(l.regs))
	for k := range l.regs {
		ks = append(ks, k)
	}
	sort.Strings(ks)
	return ks
}

func (l *concLedger) digest() string {
	h := sha256.New()
	for _, k := range l.sortedKeys() {
		fmt.Fprintf(h, "%d:%s:%d:", len(k), k, len(l.regs[k]))
		h.Write(l.regs[k])
	}
	return hex.EncodeToString(h.Sum(nil)[:12])
}

// slabIDs lists the slab identifiers of the well-formed registers in ascending key order.
func (l *concLedger) slabIDs() []atree.SlabID {
	var ids []atree.SlabID
	for _, k := range l.sortedKeys() {
		if len(k) != 8+1+atree.SlabIndexLength {
			continue
		}
		id, err := atree.NewSlabIDFromRawBytes([]byte(k[:8] + k[9:]))
		if err == nil {
			ids = append(ids, id)
		}
	}
	return ids
}

func sameLedgerRegs(alone, conc map[string][]byte) string {
	ks := make([]string, 0, len(alone)+len(conc))
	for k := range alone {
		ks = append(ks, k)
	}
	for k := range conc {
		if _, ok := alone[k]; !ok {
			ks = append(ks, k)
		}
	}
	sort.Strings(ks)
	for _, k := range ks {
		a, inA := alone[k]
		c, inC := conc[k]
		switch {
		case !inC:
			return fmt.Sprintf("register %s (%d bytes alone) is missing after the concurrent run", regKeyStr(k), len(a))
		case !inA:
			return fmt.Sprintf("register %s (%d bytes) exists only after the concurrent run", regKeyStr(k), len(c))
		case string(a) != string(c):
			return fmt.Sprintf("register %s differs: alone %s vs concurrent %s", regKeyStr(k), clip(hex.EncodeToString(a), 120), clip(hex.EncodeToString(c), 120))
		}
	}
	return ""
}

// ---------- what the library returns (same content as hexec.libFingerprint, cheaper under the race detector) ----------

func ledgerHashValue(h hash.Hash64, v atree.Value) error {
	var b [9]byte
	switch x := v.(type) {
	case *atree.Array:
		vid := x.ValueID()
		b[0] = 'A'
		binary.BigEndian.PutUint64(b[1:], x.Count())
		h.Write(b[:])
		h.Write(vid[:])
		fmt.Fprintf(h, "%v[", x.Type())
		err := x.IterateReadOnly(func(e atree.Value) (bool, error) {
			if err := ledgerHashValue(h, e); err != nil {
				return false, err
			}
			return true, nil
		})
		h.Write([]byte{']'})
		return err
	case *atree.OrderedMap:
		vid := x.ValueID()
		b[0] = 'M'
		binary.BigEndian.PutUint64(b[1:], x.Count())
		h.Write(b[:])
		h.Write(vid[:])
		fmt.Fprintf(h, "%v{", x.Type())
		err := x.IterateReadOnly(func(k, e atree.Value) (bool, error) {
			if err := ledgerHashValue(h, k); err != nil {
				return false, err
			}
			h.Write([]byte{'='})
			if err := ledgerHashValue(h, e); err != nil {
				return false, err
			}
			return true, nil
		})
		h.Write([]byte{'}'})
		return err
	case testutils.SomeValue:
		h.Write([]byte{'S', '('})
		err := ledgerHashValue(h, x.Value)
		h.Write([]byte{')'})
		return err
	case testutils.Uint64Value:
		b[0] = 'u'
		binary.BigEndian.PutUint64(b[1:], uint64(x))
		h.Write(b[:])
		return nil
	case testutils.StringValue:
		str := x.String()
		b[0] = 's'
		binary.BigEndian.PutUint64(b[1:], uint64(len(str)))
		h.Write(b[:])
		io.WriteString(h, str)
		return nil
	default:
		io.WriteString(h, keyStr(v))
		h.Write([]byte{';'})
		return nil
	}
}

// ledgerFingerprint hashes what read-only traversal of every root returns: counts, value
// identifiers, types, keys and scalars in iteration order.  Nothing of the shadow enters.
func ledgerFingerprint(e *hexec) string {
	h := fnv.New64a()
	n := 0
	e.guard(func() {
		for i, r := range e.w.Roots {
			fmt.Fprintf(h, "#%d:", i)
			if err := ledgerHashValue(h, rootValue(r)); err != nil {
				e.fail("read-only traversal failed", err.Error())
			}
			n++
		}
	})
	return fmt.Sprintf("r%d:%016x", n, h.Sum64())
}

// ---------- one client ----------

type ledgerMemberResult struct {
	fps     []string // per step: op + what read-only traversal returns; per commit: digest of the registers
	regs    map[string][]byte
	touched map[string]bool
	keyBad  string // the ledger was asked for a register it must never be asked for
	what    string
	detail  string
	steps   int
	commits int
	reloads int // DropCache / reopen / preload after a commit: the following reads build ledger keys
	sets    int
	gets    int
	removes int
	digest  string
}

// newLedgerExec is newExec with the World's storage replaced, before anything is created in it, by a
// storage over atree.NewLedgerBaseStorage(led).  e.base stays an unused, empty LogBase.
func newLedgerExec(sp histSpec, led *concLedger, rep *Report) *hexec {
	e := &hexec{sp: sp, base: NewLogBase(), aux: NewRng(sp.Seed ^ 0xA5A5A5A5)}
	e.w = NewWorld(e.base, NewRng(sp.Seed), sp.Opts, rep)
	e.w.St = newStorage(atree.NewLedgerBaseStorage(led))
	e.w.Fail = e.fail
	e.guard(func() {
		n := 1 + e.w.Rng.Intn(3)
		for i := 0; i < n; i++ {
			if e.w.Rng.Bool() {
				e.w.NewArrayRoot()
			} else {
				e.w.NewMapRoot()
			}
		}
		if sp.Prefill == 0 {
			return
		}
		for _, r := range append([]SV(nil), e.w.Roots...) {
			k := sp.Prefill/2 + e.w.Rng.Intn(sp.Prefill+1)
			for ; k > 0 && !e.failed; k-- {
				switch x := r.(type) {
				case *svArr:
					e.w.arrInsert(x, uint64(len(x.elems)), 1)
				case *svMap:
					e.w.mapSet(x, e.w.randKey(), 1)
				}
			}
		}
	})
	return e
}

// ledgerReopen abandons the storage and re-handles every container top-down from a brand-new storage
// over a brand-new adapter over the same ledger (only valid directly after a successful commit);
// preloadWorkers > 0: BatchPreload of every register of the ledger first.
func ledgerReopen(e *hexec, led *concLedger, preloadWorkers int) {
	e.withAux(func() {
		w := e.w
		ids := make([]atree.SlabID, len(w.Roots))
		for i, r := range w.Roots {
			ids[i] = rootID(r)
		}
		w.St = newStorage(atree.NewLedgerBaseStorage(led))
		if preloadWorkers > 0 {
			if err := w.St.BatchPreload(led.slabIDs(), preloadWorkers); err != nil {
				w.Fail("BatchPreload of the ledger's registers failed", err.Error())
				return
			}
		}
		openRoots(w, w.Roots, ids, w.Opts.RootDigester)
	})
}

// runLedgerMember executes one independent history on its own ledger behind LedgerBaseStorage.
// Everything it touches outside the library is local to the call.  allowed/expect (from the run
// alone) make the run stop at the first step at which it is known to have gone wrong, so that a
// client reading foreign bytes is not driven further.
func runLedgerMember(sp histSpec, base uint64, jitter bool, allowed map[string]bool, expect []string, rep *Report) (res ledgerMemberResult) {
	sched := NewRng(sp.Seed ^ 0x1ED6E8)
	jr := NewRng(sp.Seed ^ 0x71773)
	var ljr *Rng
	if jitter {
		ljr = NewRng(sp.Seed ^ 0x9E1D)
	}
	led := newConcLedger(base, allowed, ljr)
	pc := []int{10, 20, 35}[sched.Intn(3)]
	e := newLedgerExec(sp, led, rep)
	evicted := false // cache dropped under live handles: the health check cannot see the roots
	diverged := false
	ok := func() bool {
		if led.bad != "" && res.keyBad == "" {
			res.keyBad = led.bad
		}
		return !e.failed && res.keyBad == "" && !diverged
	}
	note := func(fp string) {
		res.fps = append(res.fps, fp)
		if expect != nil && (len(res.fps) > len(expect) || expect[len(res.fps)-1] != fp) {
			diverged = true
		}
	}
	commit := func(nondet bool, workers int) {
		err, _ := e.Commit(nondet, workers)
		if err != nil {
			e.fail("commit failed", err.Error())
		}
		if ok() {
			res.commits++
			note("commit " + led.digest())
		}
	}
	for ok() && e.step < sp.Steps {
		op := e.Step()
		if !ok() {
			break
		}
		fp := op + " " + ledgerFingerprint(e)
		if !ok() {
			break
		}
		note(fp)
		if ok() && e.step%16 == 0 {
			e.Verify(!evicted)
		}
		if ok() && sched.Chance(pc) {
			commit(sched.Chance(25), 1+sched.Intn(4))
			if !ok() {
				break
			}
			switch sched.Pick(30, 25, 20, 25) {
			case 0:
				e.w.St.DropCache()
				ledgerReopen(e, led, 0)
				evicted = false
				res.reloads++
			case 1:
				e.w.St.DropCache()
				ledgerReopen(e, led, 1+sched.Intn(8))
				evicted = false
				res.reloads++
			case 2: // live handles keep working; every slab they need next is read back from the ledger
				e.w.St.DropCache()
				evicted = true
				res.reloads++
			}
		}
		if jitter && jr.Chance(20) {
			runtime.Gosched()
		}
	}
	if ok() {
		commit(false, 3)
	}
	if ok() { // what a fresh process finds in the ledger
		e.w.St.DropCache()
		ledgerReopen(e, led, 0)
		if ok() {
			e.Verify(true)
		}
		if ok() {
			note("final " + ledgerFingerprint(e))
		}
	}
	ok()
	res.regs, res.touched, res.digest = led.regs, led.touched, led.digest()
	res.sets, res.gets, res.removes = led.sets, led.gets, led.removes
	res.what, res.detail, res.steps = e.what, e.detail, e.step
	return res
}

// ---------- a group of clients ----------

func ledgerGroup(rep *Report, g int, tag string, gr *Rng, maxSteps int) {
	n := []int{4, 16}[g%2]
	lo, hi := 16, maxSteps/3
	if hi < lo {
		hi = lo
	}
	specs := make([]histSpec, n)
	bases := make([]uint64, n)
	for i := range specs {
		mr := gr.Fork(uint64(i))
		specs[i] = newSpec(mr, lo, hi, false)
		specs[i].T = 1024
		if specs[i].Prefill == 0 && mr.Bool() { // more clients with multi-slab trees: more registers per commit and per reload
			specs[i].Prefill = 40 + mr.Intn(80)
			specs[i].Opts.KeySpace = 600
		}
		if specs[i].Prefill > 120 { // the ledger traffic matters here, not the size of the trees (the whole part runs under the race detector)
			specs[i].Prefill = 60 + specs[i].Prefill%61
		}
		// disjoint slab-index ranges: a register key of one client never names a slab of another one
		bases[i] = uint64(i+1)<<32 | uint64(mr.Intn(1<<16))<<8
	}
	alone := make([]ledgerMemberResult, n)
	good := true
	for i := range specs {
		alone[i] = runLedgerMember(specs[i], bases[i], false, nil, nil, rep)
		rep.Histories++
		rep.Steps += alone[i].steps
		a := alone[i]
		ctx := fmt.Sprintf("member %d of %d, %s", i, n, specs[i])
		if a.what != "" {
			rep.Violate(g, tag, a.steps, "C16: history over LedgerBaseStorage run alone failed: "+a.what, ctx+" | "+clip(a.detail, 600))
			good = false
		}
		if a.keyBad != "" {
			rep.Violate(g, tag, a.steps, "C16: the ledger of a client running alone was asked for a register that does not belong to a slab of that ledger", ctx+" | "+a.keyBad)
			good = false
		}
		rep.EventN("ledger_set", a.sets)
		rep.EventN("ledger_get", a.gets)
		rep.EventN("ledger_remove", a.removes)
		rep.EventN("ledger_commit", a.commits)
		rep.EventN("ledger_reload", a.reloads)
	}
	if !good {
		return
	}
	for _, gmp := range []int{1, 4, 16} {
		conc := make([]ledgerMemberResult, n)
		prev := runtime.GOMAXPROCS(gmp)
		var wg sync.WaitGroup
		start := make(chan struct{})
		for i := 0; i < n; i++ {
			wg.Add(1)
			go func(i int) {
				defer wg.Done()
				<-start
				conc[i] = runLedgerMember(specs[i], bases[i], true, alone[i].touched, alone[i].fps, NewReport("", 0))
			}(i)
		}
		close(start)
		wg.Wait()
		runtime.GOMAXPROCS(prev)
		rep.Event(fmt.Sprintf("ledger_group_n%d_gmp%d", n, gmp))
		for i := range conc {
			c, a := conc[i], alone[i]
			ctx := fmt.Sprintf("member %d of %d, GOMAXPROCS=%d, %s", i, n, gmp, specs[i])
			if c.keyBad != "" {
				rep.Violate(g, tag, c.steps, "C16: a client's own ledger, used by that client only, was asked for a register key it is never asked for when the client runs alone (clients over separate ledgers and LedgerBaseStorage adapters running concurrently)", ctx+" | "+c.keyBad)
				continue
			}
			if c.what != "" {
				rep.Violate(g, tag, c.steps, "C16: history over its own ledger (LedgerBaseStorage) failed when run concurrently with others but not alone: "+c.what, ctx+" | "+clip(c.detail, 600))
				continue
			}
			diff := false
			for s := range c.fps {
				if s >= len(a.fps) || c.fps[s] != a.fps[s] {
					want := "nothing"
					if s < len(a.fps) {
						want = a.fps[s]
					}
					rep.Violate(g, tag, s+1, "C16: operation result or committed registers differ between the concurrent run and the run alone (client over its own ledger behind LedgerBaseStorage)", ctx+" | "+c.fps[s]+" vs "+want)
					diff = true
					break
				}
			}
			if diff {
				continue
			}
			if len(c.fps) != len(a.fps) {
				rep.Violate(g, tag, len(c.fps), "C16: concurrent run over its own ledger has a different length than the run alone", ctx)
				continue
			}
			if d := sameLedgerRegs(a.regs, c.regs); d != "" {
				rep.Violate(g, tag, c.steps, "C16: final ledger registers differ between the concurrent run and the run alone (client over its own ledger behind LedgerBaseStorage)", ctx+" | "+d)
				continue
			}
			for k := range a.touched {
				if !c.touched[k] {
					rep.Violate(g, tag, c.steps, "C16: a register key the ledger is asked for when the client runs alone was never asked for in the concurrent run", ctx+" | "+regKeyStr(k))
					break
				}
			}
		}
	}
	busy := 0
	for _, a := range alone {
		if a.commits >= 2 && a.reloads >= 1 && a.gets > 0 && len(a.regs) >= 3 {
			busy++
		}
	}
	if busy*2 >= n {
		rep.Distinct(fmt.Sprintf("l %d %s", n, alone[0].digest))
	}
	if g < 2 {
		a := alone[0]
		rep.Sample(fmt.Sprintf("%s: %d clients over LedgerBaseStorage; member 0: %s commits=%d reloads=%d SetValue=%d GetValue=%d removals=%d registers=%d", tag, n, specs[0], a.commits, a.reloads, a.sets, a.gets, a.removes, len(a.regs)))
	}
}
