//go:build verif

package main

import (
	"fmt"

	"github.com/onflow/atree"
)

// cmdWorld: random nested histories with shadow values (used by C09, C10, C11 and as the state
// generator of other checks).  After every operation: structural verifiers, content, health.
func init() {
	register("world", func(a Args) { cmdWorld(a.Prop, a.Seed, a.N, a.Steps, a.Out) })
}

func cmdWorld(prop string, seed uint64, n int, steps int, out string) {
	rep := NewReport(prop, seed)
	rep.Rule = "random nested histories (arrays/maps, depth<=3, wrappers, large values, child handles, commit+reopen every 11 ops) at slab sizes {256,257,300,512,1024,4096}; after every op: VerifyArray/VerifyMap, deep content comparison with shadow values, CheckStorageHealth; non-trivial = at least one inlined child mutated through its handle and one detach/dispose"
	tr := NewTrace(out + "/trace.txt")
	rng := NewRng(seed)
	sizes := []uint32{256, 257, 300, 512, 1024, 4096}
	defer atree.VerifSetThreshold(1024)
	for h := 0; h < n; h++ {
		hr := rng.Fork(uint64(h))
		tag := fmt.Sprintf("w%d", h)
		if !want(tag) {
			continue
		}
		T := sizes[hr.Intn(len(sizes))]
		atree.VerifSetThreshold(T)
		base := NewLogBase()
		opts := WorldOpts{Addr: 1 + uint64(hr.Intn(2)), MaxDepth: 1 + hr.Intn(3), Wrap: hr.Bool(), Maps: true,
			Detach: prop == "C11" || hr.Chance(30), LargeVals: hr.Chance(60), PopChild: true, SelfSet: hr.Chance(50)}
		if hr.Chance(35) {
			// real pooled digester with first-level digests folded into a small alphabet (top-level maps only)
			mod := uint64(2 + hr.Intn(12))
			opts.RootDigester = func() atree.DigesterBuilder { return newCollideL0Builder(mod) }
		}
		w := NewWorld(base, hr, opts, rep)
		step := 0
		failed := false
		w.Fail = func(what, detail string) {
			if !failed {
				rep.Violate(h, tag, step, what, fmt.Sprintf("T=%d %s", T, detail))
			}
			failed = true
		}
		func() {
			defer func() {
				if r := recover(); r != nil {
					w.Fail("panic in implementation", fmt.Sprint(r))
				}
			}()
			if hr.Bool() {
				w.NewArrayRoot()
			} else {
				w.NewMapRoot()
			}
			for step = 0; step < steps && !failed; step++ {
				w.Step()
				w.VerifyAll(true)
				if step%11 == 10 {
					w.Commit(1 + hr.Intn(4))
					if hr.Bool() {
						w.Reopen()
						w.VerifyAll(true)
						if hr.Chance(60) {
							// type changes on clean (just reloaded) containers must be persisted too
							w.Retype(1 + hr.Intn(3))
							w.VerifyAll(true)
							w.Commit(1 + hr.Intn(4))
							w.Reopen()
							w.VerifyAll(true)
						}
					}
				}
			}
			if !failed {
				w.DisposeAll()
				if ids := w.LiveIDs(); len(ids) != 0 {
					w.Fail("C09: slabs remain after every container was emptied and removed", fmt.Sprint(ids))
				}
			}
		}()
		rep.Histories++
		rep.Steps += step
		rep.Distinct(tag)
	}
	tr.Close()
	rep.Write(out + "/report.json")
}
