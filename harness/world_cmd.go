//go:build verif

package main

import (
	"fmt"

	"github.com/onflow/atree"
)

// cmdWorld: random nested histories with shadow values (used by C09, C10, C11 and as the state
// generator of other checks).  After every operation: structural verifiers, content, health.
//
// Histories w<h> (h < n) are the general ones.  Histories wp<k> (k < n/3, or n with -mode pooled) are
// "pooled collision" worlds (WorldOpts.PooledCollide, worldpool.go): every map uses the library's default
// POOLED digester and a hash input provider that forces real first-level digest collisions, so nested
// containers live under keys inside collision groups and are mutated through their retained handles.
// Half of them run the whole oracle battery after every operation (incl. Has/Get on every colliding key),
// the other half ("sparse") only at the commit points — ledger walk first — so that a lost parent update is
// seen through its durable consequence and not only through the first keyed read.
func init() {
	register("world", func(a Args) { cmdWorld(a.Prop, a.Seed, a.N, a.Steps, a.Out, a.Mode) })
}

func cmdWorld(prop string, seed uint64, n int, steps int, out string, mode string) {
	rep := NewReport(prop, seed)
	rep.Rule = "random nested histories (arrays/maps, depth<=3, wrappers, large values, child handles, commit+reopen every 11 ops) at slab sizes {256,257,300,512,1024,4096}; after every op: VerifyArray/VerifyMap, deep content comparison with shadow values, CheckStorageHealth; after every commit: walk over the ledger bytes (registers = exactly what the live roots own); non-trivial = at least one inlined child mutated through its handle and one detach/dispose; " +
		"plus n/3 histories wp<k> (all n with -mode pooled) in which EVERY map uses the library's default pooled digester with real first-level collisions forced through the hash input provider (families pi1|X|tail, some keys with identical inputs = collisions on every level), 30..90% of the key space in 1..8 families: nested containers under colliding keys mutated through retained handles, Has on every present key, Get on colliding and absent keys; half of them with the oracles only at commit points (ledger walk, reopen, full battery)"
	tr := NewTrace(out + "/trace.txt")
	rng := NewRng(seed)
	sizes := []uint32{256, 257, 300, 512, 1024, 4096}
	defer atree.VerifSetThreshold(1024)

	run := func(h int, tag string, hr *Rng, pooled bool) {
		T := sizes[hr.Intn(len(sizes))]
		atree.VerifSetThreshold(T)
		base := NewLogBase()
		opts := WorldOpts{Addr: 1 + uint64(hr.Intn(2)), MaxDepth: 1 + hr.Intn(3), Wrap: hr.Bool(), Maps: true,
			Detach: prop == "C11" || hr.Chance(30), LargeVals: hr.Chance(60), PopChild: true, SelfSet: hr.Chance(50)}
		sparse := false
		if pooled {
			opts.PooledCollide = []int{30, 60, 90}[hr.Intn(3)]
			opts.KeySpace = []int{8, 20, 60}[hr.Pick(25, 35, 40)]
			sparse = hr.Bool()
		} else if hr.Chance(35) {
			// real pooled digester with first-level digests folded into a small alphabet (top-level maps only)
			mod := uint64(2 + hr.Intn(12))
			opts.RootDigester = func() atree.DigesterBuilder { return newCollideL0Builder(mod) }
		}
		w := NewWorld(base, hr, opts, rep)
		step := 0
		failed := false
		w.Fail = func(what, detail string) {
			if !failed {
				kind := ""
				if pooled {
					kind = fmt.Sprintf(" pooled=%d%% keyspace=%d sparse=%v", opts.PooledCollide, opts.KeySpace, sparse)
				}
				rep.Violate(h, tag, step, what, fmt.Sprintf("T=%d%s %s", T, kind, detail))
			}
			failed = true
		}
		func() {
			defer func() {
				if r := recover(); r != nil {
					w.Fail("panic in implementation", fmt.Sprint(r))
				}
			}()
			if pooled && hr.Chance(70) || !pooled && !hr.Bool() {
				w.NewMapRoot()
			} else {
				w.NewArrayRoot()
			}
			for step = 0; step < steps && !failed; step++ {
				w.Step()
				if !sparse {
					w.VerifyAll(true)
				}
				if step%11 == 10 {
					if pooled {
						rep.EventN("pooled_nested_under_colliding_key_at_commit", w.countPooledNested())
					}
					w.Commit(1 + hr.Intn(4))
					w.CheckLedger()
					if sparse && hr.Chance(40) {
						w.VerifyAll(true)
					}
					if sparse && !hr.Chance(50) {
						continue // mostly just go on mutating: the next look at the world is the next ledger walk
					}
					if hr.Bool() {
						w.Reopen()
						w.VerifyAll(true)
						if hr.Chance(60) {
							// type changes on clean (just reloaded) containers must be persisted too
							w.Retype(1 + hr.Intn(3))
							w.VerifyAll(true)
							w.Commit(1 + hr.Intn(4))
							w.CheckLedger()
							w.Reopen()
							w.VerifyAll(true)
						}
					}
				}
			}
			if !failed {
				if sparse {
					w.VerifyAll(true)
				}
				w.DisposeAll()
				if ids := w.LiveIDs(); len(ids) != 0 {
					w.Fail("C09: slabs remain after every container was emptied and removed", fmt.Sprint(ids))
				}
			}
		}()
		rep.Histories++
		rep.Steps += step
		rep.Distinct(tag)
	}

	onlyPooled := mode == "pooled"
	for h := 0; h < n; h++ {
		hr := rng.Fork(uint64(h))
		tag := fmt.Sprintf("w%d", h)
		if onlyPooled || !want(tag) {
			continue
		}
		run(h, tag, hr, false)
	}
	// pooled-collision histories: an independent stream, so that the histories above are what they always were
	np := n / 3
	if onlyPooled {
		np = n
	}
	prng := NewRng(seed ^ 0x706f6f6c6564)
	for k := 0; k < np; k++ {
		hr := prng.Fork(uint64(k))
		tag := fmt.Sprintf("wp%d", k)
		if !want(tag) {
			continue
		}
		run(n+k, tag, hr, true)
	}
	tr.Close()
	rep.Write(out + "/report.json")
}
