//go:build verif

package main

// sched_util.go — helpers shared by the container-level schedule checks in sched_cmd.go
// (crash C03, determinism C04, cache C08, faults C14, concurrent C16).

import (
	"crypto/sha256"
	"encoding/hex"
	"fmt"
	"hash/fnv"
	"io"
	"sort"
	"strings"

	"github.com/onflow/atree"
	testutils "github.com/onflow/atree/test_utils"
)

// ---------- shadow copies ----------

// cloneShadow deep-copies a shadow tree; the wrapper pointers (arr/m) of the copy are nil.
// Scalar values are immutable and shared.
func cloneShadow(s SV) SV {
	switch x := s.(type) {
	case *svScalar:
		return &svScalar{x.v}
	case *svSome:
		return &svSome{cloneShadow(x.inner)}
	case *svArr:
		c := &svArr{ti: x.ti, vid: x.vid, elems: make([]SV, len(x.elems))}
		for i, e := range x.elems {
			c.elems[i] = cloneShadow(e)
		}
		return c
	case *svMap:
		c := &svMap{ti: x.ti, vid: x.vid, top: x.top, keys: append([]atree.Value(nil), x.keys...), vals: make(map[string]SV, len(x.vals))}
		for k, v := range x.vals {
			c.vals[k] = cloneShadow(v)
		}
		return c
	}
	return nil
}

// shadowSize counts scalars and containers of a shadow tree.
func shadowSize(s SV) int {
	switch x := s.(type) {
	case *svSome:
		return shadowSize(x.inner)
	case *svArr:
		n := 1
		for _, e := range x.elems {
			n += shadowSize(e)
		}
		return n
	case *svMap:
		n := 1
		for _, v := range x.vals {
			n += 1 + shadowSize(v)
		}
		return n
	}
	return 1
}

// ---------- history specification and execution ----------

// histSpec fixes everything a history's operation stream depends on.  The operation stream is a
// function of Seed and Opts alone: the World's Rng is NewRng(Seed) and is consumed only by
// World.Step; every verification uses a separate generator (hexec.aux), every schedule decision
// another one, so that two executions under different schedules perform the same operations.
type histSpec struct {
	Seed    uint64
	T       uint32
	Opts    WorldOpts
	Steps   int
	Prefill int // every initial root starts with Prefill/2..3*Prefill/2 random elements (multi-slab trees); 0 = empty
}

var schedSizes = []uint32{256, 300, 512, 1024}

func newSpec(hr *Rng, lo, hi int, detach bool) histSpec {
	if hi < lo {
		hi = lo
	}
	sp := histSpec{
		Seed:  hr.U64(),
		T:     schedSizes[hr.Intn(len(schedSizes))],
		Steps: lo + hr.Intn(hi-lo+1),
		Opts: WorldOpts{Addr: 1 + uint64(hr.Intn(3)), MaxDepth: 1 + hr.Intn(3), Wrap: hr.Bool(), Maps: true,
			Detach: detach, LargeVals: hr.Chance(60), PopChild: true, SelfSet: hr.Chance(40)},
	}
	switch hr.Pick(40, 30, 30) {
	case 1:
		sp.Prefill = 10 + hr.Intn(40)
	case 2:
		sp.Prefill = 60 + hr.Intn(200)
	}
	if sp.Prefill > 0 {
		sp.Opts.KeySpace = 600
	}
	// a third of the histories hash with the library's REAL pooled digester but with first-level digests
	// folded into a small alphabet, so that collision groups and the BLAKE3-based deeper levels are used
	if hr.Chance(35) {
		mod := uint64(2 + hr.Intn(12))
		sp.Opts.RootDigester = func() atree.DigesterBuilder { return newCollideL0Builder(mod) }
	}
	return sp
}

func (sp histSpec) String() string {
	return fmt.Sprintf("seed=%d T=%d steps=%d prefill=%d addr=%d depth=%d wrap=%v large=%v detach=%v", sp.Seed, sp.T, sp.Steps, sp.Prefill,
		sp.Opts.Addr, sp.Opts.MaxDepth, sp.Opts.Wrap, sp.Opts.LargeVals, sp.Opts.Detach)
}

type hexec struct {
	sp     histSpec
	w      *World
	base   *LogBase
	aux    *Rng // randomness of the oracles (sampled positional reads), never of the operations
	failed bool
	what   string
	detail string
	step   int
}

// newExec creates the ledger, the storage and 1..3 initial roots (arrays and maps), prefilled
// through the shadow API when sp.Prefill > 0 (values may be nested containers).
// The caller must have set the slab size (process-global) before.
func newExec(sp histSpec, rep *Report) *hexec {
	base := NewLogBase()
	e := &hexec{sp: sp, base: base, aux: NewRng(sp.Seed ^ 0xA5A5A5A5)}
	e.w = NewWorld(base, NewRng(sp.Seed), sp.Opts, rep)
	e.w.Fail = e.fail
	e.guard(func() {
		n := 1 + e.w.Rng.Intn(3)
		for i := 0; i < n; i++ {
			if e.w.Rng.Bool() {
				e.w.NewArrayRoot()
			} else {
				e.w.NewMapRoot()
			}
		}
		if sp.Prefill == 0 {
			return
		}
		for _, r := range append([]SV(nil), e.w.Roots...) {
			k := sp.Prefill/2 + e.w.Rng.Intn(sp.Prefill+1)
			for ; k > 0 && !e.failed; k-- {
				switch x := r.(type) {
				case *svArr:
					e.w.arrInsert(x, uint64(len(x.elems)), 1)
				case *svMap:
					e.w.mapSet(x, e.w.randKey(), 1)
				}
			}
		}
	})
	return e
}

func (e *hexec) fail(what, detail string) {
	if !e.failed {
		e.failed = true
		e.what, e.detail = what, detail
	}
}

// guard turns a panic of the implementation into an observation.
func (e *hexec) guard(f func()) {
	defer func() {
		if r := recover(); r != nil {
			e.fail("panic in implementation", fmt.Sprint(r))
		}
	}()
	f()
}

// Step performs the next operation of the history.
func (e *hexec) Step() string {
	op := "panic"
	e.guard(func() { op = e.w.Step() })
	e.step++
	return op
}

// withAux runs f with the World's generator replaced by the oracle generator.
func (e *hexec) withAux(f func()) {
	saved := e.w.Rng
	e.w.Rng = e.aux
	defer func() { e.w.Rng = saved }()
	e.guard(f)
}

// Verify: in-repo structural verifiers + deep content comparison with the shadow (+ health check).
func (e *hexec) Verify(health bool) { e.withAux(func() { e.w.VerifyAll(health) }) }

// Reopen = World.Reopen (fresh storage, every container re-handled top-down), optionally with a
// BatchPreload of the given ids into the fresh storage before any handle is created.
func (e *hexec) Reopen(preload []atree.SlabID, workers int) {
	e.withAux(func() {
		w := e.w
		if preload == nil {
			w.Reopen()
			return
		}
		ids := make([]atree.SlabID, len(w.Roots))
		for i, r := range w.Roots {
			ids[i] = rootID(r)
		}
		w.St = newStorage(w.Base)
		if err := w.St.BatchPreload(preload, workers); err != nil {
			w.Fail("BatchPreload failed", err.Error())
			return
		}
		openRoots(w, w.Roots, ids, w.Opts.RootDigester)
	})
}

// openRoots opens every root by its slab identifier in w.St and re-handles the shadow top-down.
func openRoots(w *World, roots []SV, ids []atree.SlabID, dig func() atree.DigesterBuilder) {
	for i, r := range roots {
		switch x := r.(type) {
		case *svArr:
			a, err := atree.NewArrayWithRootID(w.St, ids[i])
			if err != nil {
				w.Fail("C03: array cannot be reopened by its root identifier", fmt.Sprintf("%s: %v", ids[i], err))
				continue
			}
			w.rehandle(x, a)
		case *svMap:
			d := dig
			if !x.top {
				d = w.Opts.Digester // detached (formerly nested) maps were created with the default builder
			}
			m, err := atree.NewMapWithRootID(w.St, ids[i], d())
			if err != nil {
				w.Fail("C03: map cannot be reopened by its root identifier", fmt.Sprintf("%s: %v", ids[i], err))
				continue
			}
			w.rehandle(x, m)
		}
	}
}

// Commit runs one of the two commits and returns its error and the ledger calls it issued.
func (e *hexec) Commit(nondet bool, workers int) (error, []BaseCall) {
	e.base.ResetLog()
	var err error
	e.guard(func() {
		if nondet {
			err = e.w.St.NondeterministicFastCommit(workers)
		} else {
			err = e.w.St.FastCommit(workers)
		}
	})
	log := append([]BaseCall(nil), e.base.Log...)
	e.base.ResetLog()
	return err, log
}

// ---------- fingerprints of what the LIBRARY returns ----------

func hashValue(h io.Writer, v atree.Value) error {
	switch x := v.(type) {
	case *atree.Array:
		fmt.Fprintf(h, "A%d,%v,%v[", x.Count(), x.ValueID(), x.Type())
		err := x.IterateReadOnly(func(e atree.Value) (bool, error) {
			if err := hashValue(h, e); err != nil {
				return false, err
			}
			return true, nil
		})
		io.WriteString(h, "]")
		return err
	case *atree.OrderedMap:
		fmt.Fprintf(h, "M%d,%v,%v{", x.Count(), x.ValueID(), x.Type())
		err := x.IterateReadOnly(func(k, e atree.Value) (bool, error) {
			io.WriteString(h, keyStr(k))
			io.WriteString(h, "=")
			if err := hashValue(h, e); err != nil {
				return false, err
			}
			return true, nil
		})
		io.WriteString(h, "}")
		return err
	case testutils.SomeValue:
		io.WriteString(h, "S(")
		err := hashValue(h, x.Value)
		io.WriteString(h, ")")
		return err
	default:
		io.WriteString(h, keyStr(v))
		io.WriteString(h, ";")
		return nil
	}
}

// libFingerprint hashes what read-only traversal of every root returns: counts, value
// identifiers, types, keys and scalars in iteration order.  Nothing of the shadow enters.
func (e *hexec) libFingerprint() string {
	h := fnv.New64a()
	n := 0
	e.guard(func() {
		for i, r := range e.w.Roots {
			fmt.Fprintf(h, "#%d:", i)
			if err := hashValue(h, rootValue(r)); err != nil {
				e.fail("read-only traversal failed", err.Error())
			}
			n++
		}
	})
	return fmt.Sprintf("r%d:%016x", n, h.Sum64())
}

// ---------- ledgers ----------

func ledgerDigest(b *LogBase) string {
	h := sha256.New()
	for _, id := range b.SortedIDs() {
		a, i := idPair(id)
		d := b.Segs[id]
		fmt.Fprintf(h, "%d.%d:%d:", a, i, len(d))
		h.Write(d)
	}
	return hex.EncodeToString(h.Sum(nil))
}

func segSnapshot(b *LogBase) map[atree.SlabID]string {
	m := make(map[atree.SlabID]string, len(b.Segs))
	for k, v := range b.Segs {
		m[k] = string(v)
	}
	return m
}

func callStr(c BaseCall) string {
	a, i := idPair(c.ID)
	s := fmt.Sprintf("%c%d.%d", c.Kind, a, i)
	if c.Fail {
		s += "!"
	}
	return s
}

func logStr(log []BaseCall) string {
	parts := make([]string, len(log))
	for i, c := range log {
		parts[i] = callStr(c)
	}
	return strings.Join(parts, " ")
}

// sortedLogStr is the call log as a multiset (ascending identifiers).
func sortedLogStr(log []BaseCall) string {
	l := append([]BaseCall(nil), log...)
	sort.SliceStable(l, func(i, j int) bool { return l[i].ID.Compare(l[j].ID) < 0 })
	return logStr(l)
}

// ascending reports the first pair of calls that is not strictly ascending by (address, index).
func ascending(log []BaseCall) string {
	for k := 1; k < len(log); k++ {
		if log[k-1].ID.Compare(log[k].ID) >= 0 {
			return fmt.Sprintf("%s before %s", log[k-1].ID, log[k].ID)
		}
	}
	return ""
}

// ownedDeltas returns the pending changes under non-temporary addresses (true = store, false = delete).
func ownedDeltas(st *atree.PersistentSlabStorage) map[atree.SlabID]bool {
	d, _ := atree.VerifStorageKeys(st)
	out := make(map[atree.SlabID]bool, len(d))
	for id, live := range d {
		if !id.HasTempAddress() {
			out[id] = live
		}
	}
	return out
}

func keySetStr(m map[atree.SlabID]bool) string {
	ids := make([]atree.SlabID, 0, len(m))
	for id := range m {
		ids = append(ids, id)
	}
	sortIDs(ids)
	var sb strings.Builder
	for _, id := range ids {
		a, i := idPair(id)
		fmt.Fprintf(&sb, "%d.%d:%v ", a, i, m[id])
	}
	return sb.String()
}

func mergeReport(dst, src *Report) {
	for k, v := range src.Ops {
		dst.Ops[k] += v
	}
	for k, v := range src.Errors {
		dst.Errors[k] += v
	}
	for k, v := range src.Events {
		dst.Events[k] += v
	}
}

func clip(s string, n int) string {
	if len(s) > n {
		return s[:n] + "..."
	}
	return s
}
