//go:build verif

package main

import (
	"fmt"
	"hash/fnv"
	"sort"
	"strings"

	"github.com/onflow/atree"
	testutils "github.com/onflow/atree/test_utils"
)

// Pointer-level check of PersistentSlabStorage (C08, aliasing): slab OBJECTS are shared by pointer
// between the read cache, the write set and the container handles and are mutated in place.
//
// Two kinds of histories, both replayed in lock step by the engine "alias" (AliasTrace.v) over
// the pointer-level model AliasStorage.v:
//
//	s<k>  storage-level: random storage calls on opaque StorableSlabs held in 6 client registers,
//	      including UNdisciplined patterns (in-place mutation without Store, one object under two
//	      identifiers, DropDeltas after in-place mutation, commit faults).  Only lock step.
//	c<k>  container-level: small arrays / maps driven through the real library over a recording
//	      SlabStorage wrapper; every storage call the container makes is replayed on the model with
//	      the object it passed / received (named by pointer identity), in-place mutations are
//	      inferred from the objects' encodings; schedule events {commit, drop cache, preload,
//	      cache-bypassing read, is-loaded probe, re-creation + reopen, reopen of one handle} in
//	      between.  Lock step + model-independent oracles:
//	        O1 no dirty-but-unrecorded object: a cache entry whose identifier has no pending change
//	           encodes to exactly the register's bytes;
//	        O2 every handle's root object encodes to what is visible under its root identifier;
//	        O3 contents read back equal a plain Go shadow.
//
// After every step the observation lists, for every identifier seen so far, the cache slot and the
// write-set slot, and the handles' root objects, as (class, value id, size): two slots show the same
// class iff they hold the SAME object (pointer equality).

type aliasCall struct {
	kind  byte // 'S' store, 'D' remove, 'R' retrieve, 'L' retrieve-if-loaded
	id    atree.SlabID
	slab  atree.Slab
	found bool
}

// aliasStorage records every call a container makes on its SlabStorage.
type aliasStorage struct {
	In    *atree.PersistentSlabStorage
	Calls []aliasCall
}

func (w *aliasStorage) Store(id atree.SlabID, s atree.Slab) error {
	err := w.In.Store(id, s)
	if err == nil {
		w.Calls = append(w.Calls, aliasCall{'S', id, s, true})
	}
	return err
}
func (w *aliasStorage) Remove(id atree.SlabID) error {
	err := w.In.Remove(id)
	if err == nil {
		w.Calls = append(w.Calls, aliasCall{'D', id, nil, true})
	}
	return err
}
func (w *aliasStorage) Retrieve(id atree.SlabID) (atree.Slab, bool, error) {
	s, ok, err := w.In.Retrieve(id)
	if err == nil {
		w.Calls = append(w.Calls, aliasCall{'R', id, s, ok})
	}
	return s, ok, err
}
func (w *aliasStorage) RetrieveIfLoaded(id atree.SlabID) atree.Slab {
	s := w.In.RetrieveIfLoaded(id)
	w.Calls = append(w.Calls, aliasCall{'L', id, s, s != nil})
	return s
}
func (w *aliasStorage) GenerateSlabID(a atree.Address) (atree.SlabID, error) {
	return w.In.GenerateSlabID(a)
}
func (w *aliasStorage) Count() int                                { return w.In.Count() }
func (w *aliasStorage) SlabIterator() (atree.SlabIterator, error) { return w.In.SlabIterator() }

type aliasElem struct {
	v     uint64
	child *aliasHandle // non-nil: the element is a child array (inlined while small)
}

type aliasHandle struct {
	arr    *atree.Array
	m      *atree.OrderedMap
	id     atree.SlabID
	sarr   []aliasElem       // shadow of an array
	smap   map[uint64]uint64 // shadow of a map
	parent *aliasHandle      // child array: the array that holds it
	closed bool
}

// inlined reports whether the container's root slab lives inside its parent's slab (no identifier
// of its own, not held by the storage).
func (h *aliasHandle) inlined() bool { return h.arr != nil && h.arr.Inlined() }

// rootID is the identifier the root slab is stored under now.
func (h *aliasHandle) rootID() atree.SlabID {
	if h.arr != nil {
		return h.arr.SlabID()
	}
	return h.m.SlabID()
}

func (h *aliasHandle) root() atree.Slab {
	if h.arr != nil {
		return atree.VerifArrayRoot(h.arr)
	}
	return atree.VerifMapRoot(h.m)
}

type aliasRun struct {
	base    *LogBase
	st      *atree.PersistentSlabStorage
	ws      *aliasStorage
	tr      *Trace
	rep     *Report
	hist    int
	tag     string
	step    int
	rng     *Rng
	opaque  bool // storage-level history: values are (version, byte size) of StorableSlabs
	regOf   map[atree.Slab]int64
	objOf   map[int64]atree.Slab
	lastVal map[int64][2]int64
	nextReg int64
	ids     map[atree.SlabID]bool
	handles []*aliasHandle
	tainted bool // an undisciplined event happened: oracles are off, lock step continues
	commits int
	drops   int
	splits  int
	failed  bool
}

func (r *aliasRun) viol(what, detail string) {
	if !r.failed {
		r.rep.Violate(r.hist, r.tag, r.step, what, detail)
	}
	r.failed = true
}

func (r *aliasRun) emit(op []int64, obs []int64) {
	r.tr.Step(op, obs)
	r.step++
}

func hash62(b []byte) int64 {
	h := fnv.New64a()
	h.Write(b)
	return int64(h.Sum64() >> 2)
}

// value of an object: (version, size) for opaque slabs, (hash of the encoding, length) otherwise
func (r *aliasRun) valOf(s atree.Slab) [2]int64 {
	if r.opaque {
		x := slabVal(s)
		if x[0] != 1 {
			return [2]int64{-2, -2}
		}
		return [2]int64{x[1], x[2]}
	}
	return r.encVal(s)
}

func (r *aliasRun) encVal(s atree.Slab) (v [2]int64) {
	defer func() {
		if p := recover(); p != nil {
			v = [2]int64{hash62([]byte(fmt.Sprint("panic:", p))), 0}
		}
	}()
	b, err := atree.EncodeSlab(s, encMode)
	if err != nil {
		return [2]int64{hash62([]byte("error:" + err.Error())), 0}
	}
	return [2]int64{hash62(b), int64(len(b))}
}

func (r *aliasRun) regVal(id atree.SlabID) ([2]int64, bool) {
	d, ok := r.base.Segs[id]
	if !ok {
		return [2]int64{}, false
	}
	if r.opaque {
		s, err := atree.DecodeSlab(id, d, decMode, testutils.DecodeStorable, testutils.DecodeTypeInfo)
		if err != nil {
			return [2]int64{-3, -3}, true
		}
		return r.valOf(s), true
	}
	return [2]int64{hash62(d), int64(len(d))}, true
}

func (r *aliasRun) fresh() int64 {
	k := r.nextReg
	r.nextReg++
	return k
}

func (r *aliasRun) bind(s atree.Slab, k int64, v [2]int64) {
	if old, ok := r.objOf[k]; ok {
		delete(r.regOf, old)
	}
	r.regOf[s] = k
	r.objOf[k] = s
	r.lastVal[k] = v
}

// regFor returns the register naming the object and whether it was known.
func (r *aliasRun) regFor(s atree.Slab) (int64, int64) {
	if k, ok := r.regOf[s]; ok {
		return k, 1
	}
	return r.fresh(), 0
}

func (r *aliasRun) see(id atree.SlabID) { r.ids[id] = true }

// replay emits the storage calls a container operation made.
func (r *aliasRun) replay(calls []aliasCall) {
	for _, c := range calls {
		a, i := idArgs(c.id)
		r.see(c.id)
		switch c.kind {
		case 'S':
			k, known := r.regFor(c.slab)
			if known == 0 {
				v := r.valOf(c.slab)
				r.bind(c.slab, k, v)
				r.emit([]int64{15, k, v[0], v[1]}, []int64{2})
			}
			r.emit([]int64{1, a, i, k}, []int64{2})
		case 'D':
			r.emit([]int64{2, a, i}, []int64{2})
		case 'R', 'L':
			code := int64(3)
			if c.kind == 'L' {
				code = 4
			}
			if c.slab == nil {
				r.emit([]int64{code, a, i, r.nextReg}, []int64{0})
				continue
			}
			k, known := r.regFor(c.slab)
			if known == 0 {
				// an object nobody has seen: freshly decoded from the register
				v, _ := r.regVal(c.id)
				r.bind(c.slab, k, v)
			}
			r.emit([]int64{code, a, i, k}, []int64{1, known})
		}
	}
}

func (r *aliasRun) sortedIDs() []atree.SlabID {
	ids := make([]atree.SlabID, 0, len(r.ids))
	for id := range r.ids {
		if id != atree.SlabIDUndefined {
			ids = append(ids, id)
		}
	}
	sortIDs(ids)
	return ids
}

// sync names every object the storage holds that has no register yet, infers in-place mutations,
// forgets unreferenced objects, then dumps and runs the oracles.
func (r *aliasRun) sync(keepRegs map[int64]bool) {
	dk, ck := atree.VerifStorageKeys(r.st)
	for id := range dk {
		r.see(id)
	}
	for id := range ck {
		r.see(id)
	}
	for id := range r.base.Segs {
		r.see(id)
	}
	ids := r.sortedIDs()
	for _, id := range ids {
		a, i := idArgs(id)
		if s, ok := atree.VerifStorageCacheSlab(r.st, id); ok && s != nil {
			if _, known := r.regOf[s]; !known {
				k := r.fresh()
				r.bind(s, k, r.valOf(s))
				r.emit([]int64{18, a, i, k}, []int64{1, 0})
			}
		}
		if s, ok := atree.VerifStorageDeltaSlab(r.st, id); ok && s != nil {
			if _, known := r.regOf[s]; !known {
				k := r.fresh()
				r.bind(s, k, r.valOf(s))
				r.emit([]int64{19, a, i, k}, []int64{1, 0})
			}
		}
	}
	// in-place mutations
	regs := make([]int64, 0, len(r.objOf))
	for k := range r.objOf {
		regs = append(regs, k)
	}
	sort.Slice(regs, func(x, y int) bool { return regs[x] < regs[y] })
	for _, k := range regs {
		v := r.valOf(r.objOf[k])
		if v != r.lastVal[k] {
			r.lastVal[k] = v
			r.emit([]int64{16, k, v[0], v[1]}, []int64{2})
			r.rep.Event("inplace_mutation")
		}
	}
	// forget what nothing refers to any more
	ref := map[atree.Slab]bool{}
	for _, id := range ids {
		if s, ok := atree.VerifStorageCacheSlab(r.st, id); ok && s != nil {
			ref[s] = true
		}
		if s, ok := atree.VerifStorageDeltaSlab(r.st, id); ok && s != nil {
			ref[s] = true
		}
	}
	for _, h := range r.handles {
		if !h.closed {
			ref[h.root()] = true
		}
	}
	if !r.opaque {
		for _, k := range regs {
			if !ref[r.objOf[k]] && !keepRegs[k] {
				s := r.objOf[k]
				delete(r.regOf, s)
				delete(r.objOf, k)
				delete(r.lastVal, k)
				r.emit([]int64{17, k}, []int64{2})
			}
		}
	}
	r.dump(ids)
}

func (r *aliasRun) dump(ids []atree.SlabID) {
	var hregs []int64
	if r.opaque {
		for k := int64(0); k < 6; k++ {
			hregs = append(hregs, k)
		}
	} else {
		for _, h := range r.handles {
			if h.closed || h.inlined() {
				continue
			}
			root := h.root()
			k, known := r.regOf[root]
			if !known {
				// a root object the storage does not hold and no call returned: cannot happen
				r.viol("C08: handle root object unknown to the harness", h.rootID().String())
				k = 1 << 40
			}
			hregs = append(hregs, k)
		}
	}
	op := []int64{20, int64(len(hregs))}
	op = append(op, hregs...)
	for _, id := range ids {
		a, i := idArgs(id)
		op = append(op, a, i)
	}
	class := map[atree.Slab]int64{}
	var obs []int64
	slot := func(s atree.Slab, present bool) {
		if !present {
			obs = append(obs, 0, 0, 0)
			return
		}
		if s == nil {
			obs = append(obs, 1, 0, 0)
			return
		}
		c, ok := class[s]
		if !ok {
			c = int64(len(class)) + 2
			class[s] = c
		}
		v := r.valOf(s)
		obs = append(obs, c, v[0], v[1])
	}
	clean := int64(1)
	for _, id := range ids {
		cs, cok := atree.VerifStorageCacheSlab(r.st, id)
		ds, dok := atree.VerifStorageDeltaSlab(r.st, id)
		slot(cs, cok)
		slot(ds, dok)
		// O1: no dirty-but-unrecorded cached object
		if cok && !dok {
			rv, rok := r.regVal(id)
			okc := false
			if cs == nil {
				okc = !rok
			} else {
				okc = rok && r.valOf(cs) == rv
			}
			if !okc {
				clean = 0
				if !r.tainted {
					r.viol("C08: cached slab differs from its register although nothing is pending for it (dirty but unrecorded)", id.String())
				} else {
					r.rep.Event("dirty_unrecorded_after_undisciplined_event")
				}
			}
		}
	}
	for _, k := range hregs {
		s, ok := r.objOf[k]
		slot(s, ok)
	}
	obs = append(obs, clean)
	r.emit(op, obs)
	if !r.opaque && !r.tainted {
		r.checkHandles()
	}
}

// O2: every handle's root object shows what is visible under its root identifier
func (r *aliasRun) checkHandles() {
	for _, h := range r.handles {
		if h.closed {
			continue
		}
		if h.inlined() {
			r.rep.Event("handle_root_inlined_in_parent")
			continue
		}
		h.id = h.rootID()
		root := h.root()
		var want [2]int64
		have := false
		if ds, ok := atree.VerifStorageDeltaSlab(r.st, h.id); ok {
			if ds == nil {
				r.viol("C08: root slab of a live handle is pending removal", h.id.String())
				continue
			}
			if ds == root {
				r.rep.Event("handle_root_is_delta_object")
				continue
			}
			want, have = r.encVal(ds), true
			r.rep.Event("handle_root_differs_from_delta_object")
		} else if cs, ok := atree.VerifStorageCacheSlab(r.st, h.id); ok {
			if cs == nil {
				r.viol("C08: root slab of a live handle is cached as deleted", h.id.String())
				continue
			}
			if cs == root {
				r.rep.Event("handle_root_is_cache_object")
				continue
			}
			want, have = r.encVal(cs), true
			r.rep.Event("handle_root_detached_from_cache_object")
		} else {
			want, have = r.regVal(h.id)
			r.rep.Event("handle_root_detached_nothing_loaded")
		}
		if !have || r.encVal(root) != want {
			r.viol("C08: handle root object differs from the slab visible under its root identifier", h.id.String())
		}
	}
}

// ---------- schedule events ----------

func (r *aliasRun) doCommit(nondet bool, workers int, fail int) {
	r.commits++
	r.base.ResetLog()
	r.base.Arm(fail)
	var err error
	if nondet {
		r.rep.Op("nondetCommit")
		err = r.st.NondeterministicFastCommit(workers)
	} else {
		r.rep.Op("fastCommit")
		err = r.st.FastCommit(workers)
	}
	r.base.Arm(-1)
	failed := false
	obs := []int64{4, 1}
	var order []int64
	for _, c := range r.base.Log {
		if c.Fail {
			failed = true
		}
		a, i := idArgs(c.ID)
		obs = append(obs, b2i(c.Kind == 'S'), a, i)
		order = append(order, a, i)
	}
	if failed {
		obs[1] = 0
		r.rep.Event("commit_fault")
	} else if err != nil {
		r.viol("commit failed without injected fault", err.Error())
	}
	if nondet {
		op := append([]int64{7, int64(fail)}, order...)
		r.emit(op, obs)
	} else {
		r.emit([]int64{6, int64(fail)}, obs)
	}
}

func (r *aliasRun) doPreload(ids []atree.SlabID, workers int) {
	r.rep.Op("batchPreload")
	op := []int64{10}
	for _, id := range ids {
		a, i := idArgs(id)
		op = append(op, a, i)
	}
	if err := r.st.BatchPreload(ids, workers); err != nil {
		r.viol("BatchPreload failed", err.Error())
	}
	r.emit(op, []int64{2})
}

// readInto performs Retrieve / RetrieveIfLoaded / RetrieveIgnoringDeltas and names the result.
func (r *aliasRun) readInto(code int64, id atree.SlabID, c bool, forceReg int64) int64 {
	a, i := idArgs(id)
	var s atree.Slab
	var err error
	switch code {
	case 3:
		r.rep.Op("retrieve")
		s, _, err = r.st.Retrieve(id)
	case 4:
		r.rep.Op("retrieveIfLoaded")
		s = r.st.RetrieveIfLoaded(id)
	case 5:
		r.rep.Op("retrieveIgnoringDeltas")
		s, _, err = r.st.RetrieveIgnoringDeltas(id, c)
	}
	if err != nil {
		r.viol("read failed", err.Error())
	}
	op := []int64{code, a, i}
	if code == 5 {
		op = append(op, b2i(c))
	}
	if s == nil {
		k := forceReg
		if k < 0 {
			k = r.nextReg
		}
		r.emit(append(op, k), []int64{0})
		return -1
	}
	k, known := r.regOf[s]
	e := int64(1)
	if !known {
		e = 0
		k = forceReg
		if k < 0 {
			k = r.fresh()
		}
		if _, bound := r.objOf[k]; bound {
			e = 2 // the register held another object: the model says so as well
		}
		r.bind(s, k, r.valOf(s))
	}
	r.emit(append(op, k), []int64{1, e})
	return k
}

// ---------- storage-level histories ----------

func (r *aliasRun) storageOp(ids []atree.SlabID) {
	rng := r.rng
	id := ids[rng.Intn(len(ids))]
	if id == atree.SlabIDUndefined && !rng.Chance(10) {
		id = ids[1+rng.Intn(len(ids)-1)]
	}
	a, i := idArgs(id)
	k := int64(rng.Intn(6))
	vs := []uint64{1, 23, 24, 255, 256, 65535, 65536, 1 << 32, 7}
	v := vs[rng.Intn(len(vs))]
	switch rng.Pick(10, 14, 14, 6, 12, 4, 6, 8, 6, 3, 5, 4, 3, 3, 2) {
	case 0: // new object
		r.rep.Op("new")
		slab := atree.VerifNewStorableSlabWithID(id, testutils.Uint64Value(v))
		val := r.valOf(slab)
		r.bind(slab, k, val)
		r.emit([]int64{15, k, val[0], val[1]}, []int64{2})
	case 1: // in-place mutation (with or without a following Store: both happen)
		s, ok := r.objOf[k]
		if !ok {
			return
		}
		r.rep.Op("mutate")
		atree.VerifStorableSlabSet(s.(*atree.StorableSlab), testutils.Uint64Value(v))
		val := r.valOf(s)
		r.lastVal[k] = val
		r.emit([]int64{16, k, val[0], val[1]}, []int64{2})
	case 2: // store
		s, ok := r.objOf[k]
		if !ok {
			return
		}
		r.rep.Op("store")
		err := r.st.Store(id, s)
		if id == atree.SlabIDUndefined {
			if err == nil {
				r.viol("store under undefined id not rejected", "")
			}
			r.emit([]int64{1, a, i, k}, []int64{3})
			return
		}
		if err != nil {
			r.viol("store failed", err.Error())
		}
		r.emit([]int64{1, a, i, k}, []int64{2})
	case 3:
		r.rep.Op("remove")
		err := r.st.Remove(id)
		if id == atree.SlabIDUndefined {
			if err == nil {
				r.viol("remove of undefined id not rejected", "")
			}
			r.emit([]int64{2, a, i}, []int64{3})
			return
		}
		r.emit([]int64{2, a, i}, []int64{2})
	case 4:
		r.readInto(3, id, false, k)
	case 5:
		r.readInto(4, id, false, k)
	case 6:
		r.readInto(5, id, rng.Bool(), k)
	case 7, 8:
		fail := -1
		if rng.Chance(25) {
			fail = rng.Intn(4)
		}
		r.doCommit(rng.Bool(), 1+rng.Intn(4), fail)
	case 9:
		r.rep.Op("dropDeltas")
		r.st.DropDeltas()
		r.emit([]int64{8}, []int64{2})
	case 10:
		r.rep.Op("dropCache")
		r.drops++
		r.st.DropCache()
		r.emit([]int64{9}, []int64{2})
	case 11:
		n := 1 + rng.Intn(3)
		if rng.Chance(15) {
			n = 11 + rng.Intn(3)
		}
		var pids []atree.SlabID
		for j := 0; j < n; j++ {
			x := ids[rng.Intn(len(ids))]
			if x != atree.SlabIDUndefined {
				pids = append(pids, x)
			}
		}
		if len(pids) >= 11 {
			// parallel path: results arrive in any order; with a repeated identifier the surviving
			// object is not determined, but all candidates are fresh and equal — keep ids distinct
			// so that the number of allocations matches the model exactly
			seen := map[atree.SlabID]bool{}
			var u []atree.SlabID
			for _, x := range pids {
				if !seen[x] {
					seen[x] = true
					u = append(u, x)
				}
			}
			pids = u
		}
		r.doPreload(pids, 1+rng.Intn(4))
	case 12:
		r.rep.Op("recreate")
		r.st = newStorage(r.base)
		r.emit([]int64{13}, []int64{2})
	case 13:
		r.rep.Op("baseGet")
		if val, ok := r.regVal(id); ok {
			r.emit([]int64{14, a, i}, []int64{1, val[0], val[1]})
		} else {
			r.emit([]int64{14, a, i}, []int64{0})
		}
	case 14:
		if s, ok := r.objOf[k]; ok {
			r.rep.Op("forget")
			delete(r.regOf, s)
			delete(r.objOf, k)
			delete(r.lastVal, k)
			r.emit([]int64{17, k}, []int64{2})
		}
	}
}

func newAliasRun(tr *Trace, rep *Report, hist int, tag string, rng *Rng, opaque bool) *aliasRun {
	base := NewLogBase()
	st := newStorage(base)
	r := &aliasRun{base: base, st: st, ws: &aliasStorage{In: st}, tr: tr, rep: rep, hist: hist, tag: tag, rng: rng, opaque: opaque,
		regOf: map[atree.Slab]int64{}, objOf: map[int64]atree.Slab{}, lastVal: map[int64][2]int64{}, ids: map[atree.SlabID]bool{}}
	if opaque {
		r.nextReg = 6
		r.tainted = true
	}
	return r
}

func (r *aliasRun) storageHistory(steps int) {
	ids := []atree.SlabID{atree.SlabIDUndefined, mkID(0, 1), mkID(1, 1), mkID(1, 2), mkID(2, 1)}
	for _, id := range ids {
		r.see(id)
	}
	for k := 0; k < steps && !r.failed; k++ {
		r.storageOp(ids)
		r.sync(nil)
	}
}

// ---------- container-level histories ----------

func (r *aliasRun) containerOp(f func() error) {
	r.ws.Calls = r.ws.Calls[:0]
	var err error
	func() {
		defer func() {
			if p := recover(); p != nil {
				err = fmt.Errorf("panic: %v", p)
			}
		}()
		err = f()
	}()
	if err != nil {
		r.viol("C08: container operation failed", err.Error())
	}
	calls := append([]aliasCall(nil), r.ws.Calls...)
	r.replay(calls)
	r.sync(nil)
}

func (r *aliasRun) dispose(st atree.Storable) error {
	if sid, ok := st.(atree.SlabIDStorable); ok {
		return r.ws.Remove(atree.SlabID(sid))
	}
	return nil
}

// element values: 64-bit integers, and (every fifth) strings of 10..160 bytes: the longer ones
// exceed the inline limit at slab size 256 and live in StorableSlabs of their own
func aliasValue(v uint64) atree.Value {
	if v%5 == 0 {
		return testutils.NewStringValue(aliasString(v))
	}
	return testutils.Uint64Value(v)
}

func aliasString(v uint64) string {
	n := 10 + int((v>>3)%150)
	return strings.Repeat(string(rune('a'+v%26)), n) + fmt.Sprint(v)
}

func aliasValueEq(x atree.Value, v uint64) bool {
	if v%5 == 0 {
		s, ok := x.(testutils.StringValue)
		return ok && fmt.Sprint(s) == fmt.Sprint(testutils.NewStringValue(aliasString(v)))
	}
	u, ok := x.(testutils.Uint64Value)
	return ok && uint64(u) == v
}

func (r *aliasRun) newContainer(addr atree.Address) {
	rng := r.rng
	h := &aliasHandle{}
	if rng.Bool() {
		r.rep.Op("newArray")
		r.containerOp(func() error {
			a, err := atree.NewArray(r.ws, addr, testutils.NewSimpleTypeInfo(42))
			if err == nil {
				h.arr, h.id = a, a.SlabID()
			}
			return err
		})
	} else {
		r.rep.Op("newMap")
		r.containerOp(func() error {
			m, err := atree.NewMap(r.ws, addr, atree.NewDefaultDigesterBuilder(), testutils.NewSimpleTypeInfo(43))
			if err == nil {
				h.m, h.id, h.smap = m, m.SlabID(), map[uint64]uint64{}
			}
			return err
		})
	}
	if h.arr != nil || h.m != nil {
		r.handles = append(r.handles, h)
		r.sync(nil) // now with the handle in the observation
	}
}

// newChild creates an array and appends it to the root array h (the creation wrapper is kept as
// the child's handle: one wrapper per container)
func (r *aliasRun) newChild(h *aliasHandle) {
	r.rep.Op("newChildArray")
	c := &aliasHandle{parent: h}
	r.containerOp(func() error {
		a, err := atree.NewArray(r.ws, h.arr.Address(), testutils.NewSimpleTypeInfo(44))
		if err != nil {
			return err
		}
		c.arr = a
		return h.arr.Append(a)
	})
	if c.arr != nil && !r.failed {
		h.sarr = append(h.sarr, aliasElem{child: c})
		r.handles = append(r.handles, c)
		r.sync(nil)
	}
}

func (r *aliasRun) live() []*aliasHandle {
	var l []*aliasHandle
	for _, h := range r.handles {
		if !h.closed {
			l = append(l, h)
		}
	}
	return l
}

func (r *aliasRun) closeTree(e aliasElem) {
	if e.child != nil {
		e.child.closed = true
	}
}

func (r *aliasRun) nChildren(h *aliasHandle) int {
	n := 0
	for _, e := range h.sarr {
		if e.child != nil {
			n++
		}
	}
	return n
}

func (r *aliasRun) mutate(h *aliasHandle) {
	rng := r.rng
	v := rng.U64() >> uint(rng.Intn(60))
	if h.arr != nil {
		n := uint64(len(h.sarr))
		if h.parent == nil && r.nChildren(h) < 2 && rng.Chance(4) {
			r.newChild(h)
			return
		}
		if h.parent != nil && n >= 40 {
			// keep children small enough to stay within two or three slabs
			i := uint64(rng.Intn(int(n)))
			r.rep.Op("arrayRemove")
			r.containerOp(func() error {
				old, err := h.arr.Remove(i)
				if err != nil {
					return err
				}
				return r.dispose(old)
			})
			h.sarr = append(h.sarr[:i], h.sarr[i+1:]...)
			return
		}
		switch c := rng.Pick(30, 20, 15, 25); {
		case c == 0 || n == 0:
			r.rep.Op("arrayAppend")
			r.containerOp(func() error { return h.arr.Append(aliasValue(v)) })
			h.sarr = append(h.sarr, aliasElem{v: v})
		case c == 1:
			i := uint64(rng.Intn(int(n) + 1))
			r.rep.Op("arrayInsert")
			r.containerOp(func() error { return h.arr.Insert(i, aliasValue(v)) })
			h.sarr = append(h.sarr, aliasElem{})
			copy(h.sarr[i+1:], h.sarr[i:])
			h.sarr[i] = aliasElem{v: v}
		case c == 2:
			i := uint64(rng.Intn(int(n)))
			r.rep.Op("arraySet")
			r.closeTree(h.sarr[i]) // an overwritten child is detached: its wrapper is dropped
			r.containerOp(func() error {
				old, err := h.arr.Set(i, aliasValue(v))
				if err != nil {
					return err
				}
				return r.dispose(old)
			})
			h.sarr[i] = aliasElem{v: v}
		default:
			i := uint64(rng.Intn(int(n)))
			if rng.Chance(40) {
				i = n - 1
			}
			r.rep.Op("arrayRemove")
			r.closeTree(h.sarr[i])
			r.containerOp(func() error {
				old, err := h.arr.Remove(i)
				if err != nil {
					return err
				}
				return r.dispose(old)
			})
			h.sarr = append(h.sarr[:i], h.sarr[i+1:]...)
		}
		return
	}
	k := uint64(rng.Intn(40))
	if _, ok := h.smap[k]; ok && rng.Chance(45) {
		r.rep.Op("mapRemove")
		r.containerOp(func() error {
			ks, vs, err := h.m.Remove(testutils.CompareValue, testutils.GetHashInput, testutils.Uint64Value(k))
			if err != nil {
				return err
			}
			if err := r.dispose(ks); err != nil {
				return err
			}
			return r.dispose(vs)
		})
		delete(h.smap, k)
		return
	}
	r.rep.Op("mapSet")
	r.containerOp(func() error {
		old, err := h.m.Set(testutils.CompareValue, testutils.GetHashInput, testutils.Uint64Value(k), aliasValue(v))
		if err != nil {
			return err
		}
		if old != nil {
			return r.dispose(old)
		}
		return nil
	})
	h.smap[k] = v
}

// sameArray compares an array (through any wrapper) with a shadow
func sameArray(a *atree.Array, sh []aliasElem) error {
	if a.Count() != uint64(len(sh)) {
		return fmt.Errorf("count %d, shadow %d", a.Count(), len(sh))
	}
	for i, w := range sh {
		x, err := a.Get(uint64(i))
		if err != nil {
			return err
		}
		if w.child != nil {
			c, ok := x.(*atree.Array)
			if !ok {
				return fmt.Errorf("element %d is %T, shadow is a child array", i, x)
			}
			// a read-only second wrapper of the child, discarded at once
			if err := sameArray(c, w.child.sarr); err != nil {
				return fmt.Errorf("child at %d: %w", i, err)
			}
			continue
		}
		if !aliasValueEq(x, w.v) {
			return fmt.Errorf("element %d is %v, shadow %d", i, x, w.v)
		}
	}
	return nil
}

func sameMap(m *atree.OrderedMap, sh map[uint64]uint64) error {
	if m.Count() != uint64(len(sh)) {
		return fmt.Errorf("count %d, shadow %d", m.Count(), len(sh))
	}
	keys := make([]uint64, 0, len(sh))
	for k := range sh {
		keys = append(keys, k)
	}
	sort.Slice(keys, func(i, j int) bool { return keys[i] < keys[j] })
	for _, k := range keys {
		x, err := m.Get(testutils.CompareValue, testutils.GetHashInput, testutils.Uint64Value(k))
		if err != nil {
			return err
		}
		if !aliasValueEq(x, sh[k]) {
			return fmt.Errorf("key %d is %v, shadow %d", k, x, sh[k])
		}
	}
	return nil
}

// O3: read everything back through the handle (storage calls are replayed as well)
func (r *aliasRun) readBack(h *aliasHandle) {
	r.rep.Op("readBack")
	r.containerOp(func() error {
		if h.arr != nil {
			return sameArray(h.arr, h.sarr)
		}
		return sameMap(h.m, h.smap)
	})
}

// reopen replaces the handle of a root container by a new one obtained from the storage; the old
// wrapper and the wrappers of its children are dropped, children are re-obtained from the new parent
func (r *aliasRun) reopen(h *aliasHandle) {
	if h.parent != nil {
		h = h.parent
	}
	r.rep.Op("reopenHandle")
	id := h.rootID()
	h.closed = true
	nh := &aliasHandle{id: id, sarr: h.sarr, smap: h.smap}
	r.containerOp(func() error {
		if h.arr != nil {
			a, err := atree.NewArrayWithRootID(r.ws, id)
			nh.arr = a
			return err
		}
		m, err := atree.NewMapWithRootID(r.ws, id, atree.NewDefaultDigesterBuilder())
		nh.m = m
		return err
	})
	if nh.arr == nil && nh.m == nil {
		return
	}
	r.handles = append(r.handles, nh)
	for i := range nh.sarr {
		old := nh.sarr[i].child
		if old == nil {
			continue
		}
		old.closed = true
		nc := &aliasHandle{parent: nh, sarr: old.sarr}
		idx := uint64(i)
		r.containerOp(func() error {
			x, err := nh.arr.Get(idx)
			if err != nil {
				return err
			}
			c, ok := x.(*atree.Array)
			if !ok {
				return fmt.Errorf("element %d is %T, shadow is a child array", idx, x)
			}
			nc.arr = c
			return nil
		})
		if nc.arr != nil {
			nh.sarr[i].child = nc
			r.handles = append(r.handles, nc)
		}
	}
	r.sync(nil)
}

func (r *aliasRun) roots() []*aliasHandle {
	var l []*aliasHandle
	for _, h := range r.handles {
		if !h.closed && h.parent == nil {
			l = append(l, h)
		}
	}
	return l
}

func (r *aliasRun) schedule() {
	rng := r.rng
	ids := r.sortedIDs()
	pick := func() atree.SlabID {
		if len(ids) == 0 {
			return mkID(1, 1)
		}
		return ids[rng.Intn(len(ids))]
	}
	switch rng.Pick(22, 10, 22, 12, 8, 6, 8, 12) {
	case 0:
		fail := -1
		if rng.Chance(10) {
			fail = rng.Intn(3)
		}
		r.doCommit(false, 1+rng.Intn(4), fail)
	case 1:
		r.doCommit(true, 1+rng.Intn(4), -1)
	case 2:
		r.rep.Op("dropCache")
		r.drops++
		r.st.DropCache()
		r.emit([]int64{9}, []int64{2})
	case 3:
		n := 1 + rng.Intn(4)
		if rng.Chance(20) && len(ids) >= 11 {
			n = len(ids)
		}
		seen := map[atree.SlabID]bool{}
		var pids []atree.SlabID
		for j := 0; j < n; j++ {
			x := pick()
			if n == len(ids) {
				x = ids[j]
			}
			if !seen[x] {
				seen[x] = true
				pids = append(pids, x)
			}
		}
		r.doPreload(pids, 1+rng.Intn(4))
	case 4:
		k := r.readInto(5, pick(), rng.Bool(), -1)
		r.sync(map[int64]bool{k: true})
		return
	case 5:
		k := r.readInto(4, pick(), false, -1)
		r.sync(map[int64]bool{k: true})
		return
	case 6:
		// re-creation of the storage when nothing is pending, all containers reopened
		if r.st.Deltas() != 0 {
			r.doCommit(false, 2, -1)
			r.sync(nil)
			if r.st.Deltas() != 0 {
				return // temporary-address slabs pending: cannot reopen
			}
		}
		r.rep.Op("recreate")
		r.st = newStorage(r.base)
		r.ws.In = r.st
		r.emit([]int64{13}, []int64{2})
		old := r.roots()
		for _, h := range r.live() {
			h.closed = true
		}
		r.sync(nil)
		for _, h := range old {
			r.reopen(h)
		}
		return
	case 7:
		if l := r.roots(); len(l) > 0 {
			r.reopen(l[rng.Intn(len(l))])
		}
		return
	}
	r.sync(nil)
}

func (r *aliasRun) containerHistory(steps int, density int) {
	rng := r.rng
	addr := mkAddr(1)
	if rng.Chance(12) {
		addr = mkAddr(0) // a container under the temporary address: never committed
	}
	r.newContainer(addr)
	for k := 0; k < steps && !r.failed; k++ {
		l := r.live()
		if len(l) == 0 {
			break
		}
		if len(r.roots()) < 3 && rng.Chance(3) {
			r.newContainer(mkAddr(1))
			continue
		}
		if rng.Chance(density) {
			r.schedule()
			continue
		}
		h := l[rng.Intn(len(l))]
		if rng.Chance(6) {
			r.readBack(h)
		} else {
			r.mutate(h)
		}
	}
	if r.failed {
		return
	}
	for _, h := range r.live() {
		r.readBack(h)
	}
	// final: commit, fresh storage over the registers, contents equal the shadows
	r.doCommit(false, 2, -1)
	r.sync(nil)
	st2 := newStorage(r.base.Clone())
	for _, h := range r.roots() {
		id := h.rootID()
		if id.HasTempAddress() {
			continue
		}
		if h.arr != nil {
			a, err := atree.NewArrayWithRootID(st2, id)
			if err == nil {
				err = sameArray(a, h.sarr)
			}
			if err != nil {
				r.viol("C08: array reconstructed from the registers differs from the shadow", err.Error())
			}
		} else {
			m, err := atree.NewMapWithRootID(st2, id, atree.NewDefaultDigesterBuilder())
			if err == nil {
				err = sameMap(m, h.smap)
			}
			if err != nil {
				r.viol("C08: map reconstructed from the registers differs from the shadow", err.Error())
			}
		}
	}
}

// ---------- directed witnesses (what the model predicts for the patterns outside the discipline) ----------

func aliasWitness(rep *Report) {
	get0 := func(st atree.SlabStorage, id atree.SlabID) string {
		a, err := atree.NewArrayWithRootID(st, id)
		if err != nil {
			return "error " + err.Error()
		}
		x, err := a.Get(0)
		if err != nil {
			return "error " + err.Error()
		}
		return fmt.Sprint(x)
	}
	rootElem0 := func(s atree.Slab) string {
		if s == nil {
			return "nil"
		}
		cs := s.ChildStorables()
		if len(cs) == 0 {
			return "empty"
		}
		return fmt.Sprint(cs[0])
	}
	setup := func() (*LogBase, *atree.PersistentSlabStorage, *atree.Array) {
		base := NewLogBase()
		st := newStorage(base)
		a, err := atree.NewArray(st, mkAddr(1), testutils.NewSimpleTypeInfo(42))
		must(err)
		must(a.Append(testutils.Uint64Value(7)))
		must(st.FastCommit(1))
		_, err = a.Set(0, testutils.Uint64Value(8)) // in-place mutation of the cached root + Store
		must(err)
		return base, st, a
	}
	// W4: the cache-bypassing read returns the pending object when it is the cached one
	{
		_, st, a := setup()
		s1, _, err := st.RetrieveIgnoringDeltas(a.SlabID(), true)
		must(err)
		same := s1 == atree.VerifArrayRoot(a)
		warm := rootElem0(s1)
		st.DropCache()
		s2, _, err := st.RetrieveIgnoringDeltas(a.SlabID(), true)
		must(err)
		cold := rootElem0(s2)
		rep.Sample(fmt.Sprintf("W4 RetrieveIgnoringDeltas(root) after commit(7); Set(0,8): warm cache -> element %s (same object as the handle root: %v), after DropCache -> element %s; model: pending 8 / committed 7", warm, same, cold))
		if warm == "8" && cold == "7" && same {
			rep.Event("witness_W4_rid_returns_pending_object_confirmed")
		} else {
			rep.Event("witness_W4_not_as_predicted")
		}
	}
	// W5: DropDeltas does not roll back the cached object
	{
		base, st, a := setup()
		id := a.SlabID()
		st.DropDeltas()
		pending := st.Deltas()
		warm := get0(st, id)
		must(st.FastCommit(1))
		reg := get0(newStorage(base.Clone()), id)
		st.DropCache()
		cold := get0(st, id)
		rep.Sample(fmt.Sprintf("W5 commit(7); Set(0,8); DropDeltas: pending=%d, Get(0) through the same storage -> %s, committed register -> %s, after DropCache -> %s; model: 8 / 7 / 7", pending, warm, reg, cold))
		if pending == 0 && warm == "8" && reg == "7" && cold == "7" {
			rep.Event("witness_W5_dropdeltas_does_not_roll_back_confirmed")
		} else {
			rep.Event("witness_W5_not_as_predicted")
		}
	}
	// W2: handle kept across DropCache, then mutation through it: harmless
	{
		base, st, a := setup()
		must(st.FastCommit(1))
		st.DropCache()
		_, err := a.Set(0, testutils.Uint64Value(9))
		must(err)
		d, _ := atree.VerifStorageDeltaSlab(st, a.SlabID())
		same := d == atree.VerifArrayRoot(a)
		must(st.FastCommit(1))
		reg := get0(newStorage(base.Clone()), a.SlabID())
		rep.Sample(fmt.Sprintf("W2 handle kept across commit+DropCache, Set(0,9): write set holds the handle's root object: %v; committed register -> %s; model: harmless, 9", same, reg))
		if same && reg == "9" {
			rep.Event("witness_W2_handle_across_dropcache_harmless_confirmed")
		} else {
			rep.Event("witness_W2_not_as_predicted")
		}
	}
	// W3: two wrappers of one container after a cache drop diverge (outside the discipline)
	{
		_, st, a := setup()
		must(st.FastCommit(1))
		st.DropCache()
		b, err := atree.NewArrayWithRootID(st, a.SlabID()) // second wrapper: a freshly decoded root object
		must(err)
		_, err = b.Set(0, testutils.Uint64Value(9))
		must(err)
		xa, _ := a.Get(0)
		xb, _ := b.Get(0)
		rep.Sample(fmt.Sprintf("W3 two wrappers after DropCache: second wrapper Set(0,9); first wrapper reads %v, second reads %v (distinct root objects: %v); model: stale 8 / 9", xa, xb, atree.VerifArrayRoot(a) != atree.VerifArrayRoot(b)))
		if fmt.Sprint(xa) == "8" && fmt.Sprint(xb) == "9" {
			rep.Event("witness_W3_two_wrappers_diverge_confirmed")
		} else {
			rep.Event("witness_W3_not_as_predicted")
		}
	}
}

func init() {
	register("alias", func(a Args) { cmdAlias(a) })
}

func cmdAlias(a Args) {
	tr := NewTrace(a.Out + "/trace.txt")
	rep := NewReport(a.Prop, a.Seed)
	rep.Rule = "pointer-level lock step with the model AliasStorage.v: (s) random storage calls on opaque slabs held in 6 client registers incl. in-place mutation with/without Store, one object under several identifiers, DropDeltas, commit faults; (c) 1-3 root arrays/maps (arrays with up to 2 child arrays, inlined while small) of 64-bit integers and 10..160-byte strings (the long ones in slabs of their own) at slab size 256, driven through the real library over a recording storage wrapper with one wrapper per container; every storage call is replayed with the object it carried (pointer identity), in-place mutations are inferred from the objects' encodings; schedule events {both commits (10% with a fault), drop cache, preload, cache-bypassing read, is-loaded probe, re-creation + reopen of all handles, reopen of one handle} with density 15/40/75%; after every step: per identifier the cache slot and the write-set slot, per handle the root object, as (identity class, content), and the invariant flag; oracles O1 no dirty-but-unrecorded cached object, O2 handle root shows the visible root slab, O3 contents equal a Go shadow (also after commit in a fresh storage); non-trivial = container history with >= 2 commits, >= 1 cache drop and >= 4 slab identifiers"
	rng := NewRng(a.Seed)
	defer atree.VerifSetThreshold(1024)
	hist := 0
	mode := a.Mode
	if mode == "" || mode == "witness" {
		aliasWitness(rep)
	}
	if mode == "" || mode == "storage" {
		for h := 0; h < a.N; h++ {
			hr := rng.Fork(uint64(h))
			tag := fmt.Sprintf("s%d", h)
			if !want(tag) {
				hist++
				continue
			}
			tr.Hist(tag, 0)
			r := newAliasRun(tr, rep, hist, tag, hr, true)
			r.storageHistory(30 + hr.Intn(50))
			rep.Event("storage_histories")
			hist++
		}
	}
	if mode == "" || mode == "containers" {
		atree.VerifSetThreshold(256)
		for h := 0; h < a.N; h++ {
			hr := rng.Fork(uint64(1000000 + h))
			tag := fmt.Sprintf("c%d", h)
			if !want(tag) {
				hist++
				continue
			}
			tr.Hist(tag, 1)
			r := newAliasRun(tr, rep, hist, tag, hr, false)
			density := []int{15, 40, 75}[h%3]
			steps := a.Steps/2 + hr.Intn(a.Steps)
			func() {
				defer func() {
					if p := recover(); p != nil {
						r.viol("panic in harness or implementation", fmt.Sprint(p))
					}
				}()
				r.containerHistory(steps, density)
			}()
			rep.Event("container_histories")
			if r.commits >= 2 && r.drops >= 1 && len(r.ids) >= 4 {
				rep.Distinct(fmt.Sprintf("%s c%d d%d ids%d", tag, r.commits, r.drops, len(r.ids)))
			}
			if h < 2 {
				rep.Sample(fmt.Sprintf("history %s: %d steps, %d commits, %d cache drops, %d slab ids, %d handles", tag, r.step, r.commits, r.drops, len(r.ids), len(r.handles)))
			}
			hist++
		}
	}
	tr.Close()
	rep.Histories = tr.Hists
	rep.Steps = tr.Steps
	rep.Write(a.Out + "/report.json")
}
