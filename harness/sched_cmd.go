//go:build verif

package main

// sched_cmd.go — container-level histories under commit placements, crashes, schedules, ledger
// faults and worker counts.  Registers:
//
//	crash        C03   (this file)
//	determinism  C04   (sched_determinism.go)
//	cache        C08   (sched_cache.go)
//	faults       C14   (sched_faults.go)
//	concurrent   C16   (sched_concurrent.go)
//
// All five reuse World (workload.go) for the operations and shadow values, LogBase (common.go) as
// the ledger, and the helpers of sched_util.go.  Every oracle is model-independent: it compares the
// implementation with itself (another schedule / a fresh storage / a fault-free twin) or with the
// shadow values.

import (
	"fmt"

	"github.com/onflow/atree"
)

func init() {
	register("crash", cmdCrash)
	register("determinism", cmdDeterminism)
	register("cache", cmdCache)
	register("faults", cmdFaults)
	register("concurrent", cmdConcurrent)
}

// ---------- C03: crash ----------

// commitSnap is what was live at a successful commit: a deep copy of the shadow of every root
// (detached roots included) and the roots' slab identifiers.
type commitSnap struct {
	roots []SV
	ids   []atree.SlabID
}

func takeSnap(w *World) commitSnap {
	var s commitSnap
	for _, r := range w.Roots {
		s.roots = append(s.roots, cloneShadow(r))
		s.ids = append(s.ids, rootID(r))
	}
	return s
}

// checkDurable simulates a crash: the PersistentSlabStorage is abandoned, a brand-new one is built
// over a COPY of the registers, every root of the last successful commit is reopened by its slab
// identifier and compared (content, structure, health) with the shadow copy taken at that commit.
func checkDurable(base *LogBase, snap commitSnap, opts WorldOpts, aux *Rng) (what, detail string) {
	cl := base.Clone()
	tw := NewWorld(cl, aux, opts, NewReport("", 0))
	tw.Fail = func(w, d string) {
		if what == "" {
			what, detail = w, d
		}
	}
	defer func() {
		if r := recover(); r != nil {
			tw.Fail("panic while reading the reopened state", fmt.Sprint(r))
		}
	}()
	openRoots(tw, snap.roots, snap.ids, tw.Opts.RootDigester)
	if what != "" {
		return
	}
	tw.Roots = snap.roots
	tw.VerifyAll(false)
	if what != "" {
		return
	}
	// every register must belong to a container that was live at the commit: load all of them so
	// that the health check sees the whole ledger, then count roots.
	for _, id := range cl.SortedIDs() {
		if id.HasTempAddress() {
			tw.Fail("register under the temporary address", id.String())
		}
		if _, found, err := tw.St.Retrieve(id); err != nil || !found {
			tw.Fail("register cannot be decoded by a fresh storage", fmt.Sprintf("%s: %v", id, err))
		}
	}
	roots, err := atree.CheckStorageHealth(tw.St, len(snap.roots))
	if err != nil {
		tw.Fail("health check of the reopened ledger failed", err.Error())
		return
	}
	for _, id := range snap.ids {
		if _, ok := roots[id]; !ok {
			tw.Fail("a root live at the commit is not a root of the reopened ledger", id.String())
		}
	}
	if len(cl.Log) != 0 {
		tw.Fail("reading the reopened state wrote to the ledger", logStr(cl.Log))
	}
	if n := tw.St.Deltas(); n != 0 {
		tw.Fail("reading the reopened state left pending changes", fmt.Sprint(n))
	}
	return
}

func cmdCrash(a Args) {
	rep := NewReport(a.Prop, a.Seed)
	rep.Rule = "random World histories (1-3 initial roots each empty (40%) / prefilled with ~10-50 (30%) / ~60-260 (30%) random elements incl. nested containers, arrays+maps, depth<=3, wrappers, large values, child handles, detached roots in 60%) at T in {256,300,512,1024}; " +
		"commit placement per history: random p in {4,10,25}% / after every op / only at the end / whole history under the zero address; half of the histories have <=40 ops (every crash point checked), " +
		"the others up to -steps ops (20% of crash points sampled, every commit point). After EVERY op: ledger call log empty and register snapshot unchanged; at every commit: calls = owned pending set, no zero-address id; " +
		"at every crash/commit point: fresh storage over a copy of the registers, every root of the last commit reopened by id, deep-compared with the shadow copy of that commit, VerifyArray/VerifyMap, whole-ledger health check with the root count of that commit. " +
		"non-trivial = (>=2 commits and at some commit the ledger held more registers than roots [multi-slab container or external child/large-value slab] and >=3 crash points checked) or (zero-address history with pending slabs at a commit); distinct by (mode, spec, commits, final ledger digest)"
	rng := NewRng(a.Seed)
	defer atree.VerifSetThreshold(1024)
	maxSteps := a.Steps
	for h := 0; h < a.N; h++ {
		hr := rng.Fork(uint64(h))
		tag := fmt.Sprintf("cr%d", h)
		if !want(tag) {
			continue
		}
		crashHistory(rep, h, tag, hr, maxSteps, a.Mode)
	}
	rep.Write(a.Out + "/report.json")
}

func crashHistory(rep *Report, h int, tag string, hr *Rng, maxSteps int, forceMode string) {
	mode := []string{"random", "every", "end", "addr0"}[hr.Pick(55, 15, 15, 15)]
	short := hr.Chance(50)
	lo, hi := 8, 40
	if !short {
		lo, hi = 41, maxSteps
	}
	sp := newSpec(hr, lo, hi, hr.Chance(60))
	pc := []int{4, 10, 25}[hr.Intn(3)]
	if forceMode != "" {
		mode = forceMode
	}
	addr0 := mode == "addr0"
	if addr0 {
		sp.Opts.Addr = 0
	}
	sched := NewRng(sp.Seed ^ 0x5C4ED)
	atree.VerifSetThreshold(sp.T)
	e := newExec(sp, rep)
	base, w := e.base, e.w
	bad := false
	viol := func(what, detail string) {
		if !bad {
			rep.Violate(h, tag, e.step, what, fmt.Sprintf("%s mode=%s p=%d | %s", sp, mode, pc, clip(detail, 700)))
		}
		bad = true
	}
	var snap commitSnap // nothing was live before the first commit
	segSnap := segSnapshot(base)
	commits, crashChecks, maxExtra, pendingTemp := 0, 0, 0, false

	crashPoint := func(kind string) {
		if what, detail := checkDurable(base, snap, sp.Opts, e.aux); what != "" {
			viol("C03: after a crash the ledger does not hold the state of the last commit ("+kind+"): "+what, detail)
		}
		crashChecks++
		rep.Event(kind + "_checked")
	}
	commit := func() {
		pend := ownedDeltas(w.St)
		nondet := sched.Chance(20)
		err, log := e.Commit(nondet, 1+sched.Intn(4))
		if e.failed {
			viol("C03: commit panicked: "+e.what, e.detail)
			return
		}
		if err != nil {
			viol("C03: commit failed", err.Error())
			return
		}
		seen := map[atree.SlabID]bool{}
		for _, c := range log {
			if c.ID.HasTempAddress() {
				viol("C03: slab under the temporary address written to the ledger", callStr(c))
			}
			live, ok := pend[c.ID]
			if !ok {
				viol("C03: commit touched a register without pending change", callStr(c))
			} else if live != (c.Kind == 'S') {
				viol("C03: commit call kind disagrees with the pending change", callStr(c))
			}
			if seen[c.ID] {
				viol("C03: commit touched a register twice", callStr(c))
			}
			seen[c.ID] = true
		}
		for id := range pend {
			if !seen[id] {
				viol("C03: successful commit did not write a pending owned slab", id.String())
			}
		}
		if n := w.St.DeltasWithoutTempAddresses(); n != 0 {
			viol("C03: owned pending changes remain after a successful commit", fmt.Sprint(n))
		}
		for id := range base.Segs {
			if id.HasTempAddress() {
				viol("C03: register under the temporary address", id.String())
			}
		}
		if addr0 {
			if len(log) != 0 || len(base.Segs) != 0 {
				viol("C03: zero-address history wrote to the ledger", logStr(log))
			}
			if w.St.Deltas() > 0 {
				pendingTemp = true
			}
		} else {
			snap = takeSnap(w)
			if x := len(base.Segs) - len(w.Roots); x > maxExtra {
				maxExtra = x
			}
		}
		segSnap = segSnapshot(base)
		commits++
		rep.Event("commit")
		rep.EventN("commit_ledger_calls", len(log))
		e.Verify(true)
		if e.failed {
			viol("C03: live state wrong after commit: "+e.what, e.detail)
			return
		}
		crashPoint("commit_point")
	}

	if len(base.Log) != 0 {
		viol("C03: creating containers wrote to the ledger", logStr(base.Log))
	}
	for !bad && e.step < sp.Steps {
		op := e.Step()
		if e.failed {
			viol("C03: history oracle failed in "+op+": "+e.what, e.detail)
			break
		}
		if len(base.Log) != 0 {
			viol("C03: ledger called outside a commit by "+op, logStr(base.Log))
		}
		if !sameSnap(segSnap, base) {
			viol("C03: registers changed outside a commit by "+op, "")
		}
		if addr0 && w.St.DeltasWithoutTempAddresses() != 0 {
			viol("C03: zero-address history has owned pending changes", "")
		}
		if short || sched.Chance(10) {
			e.Verify(true)
			if e.failed {
				viol("C03: history oracle failed after "+op+": "+e.what, e.detail)
				break
			}
		}
		if short || sched.Chance(20) {
			crashPoint("crash_point")
		}
		switch mode {
		case "every":
			commit()
		case "random", "addr0":
			if sched.Chance(pc) {
				commit()
			}
		}
	}
	if !bad {
		commit()
	}
	rep.Histories++
	rep.Steps += e.step
	rep.Event("mode_" + mode)
	if short {
		rep.Event("short_history_all_crash_points")
	}
	if !bad && ((!addr0 && commits >= 2 && maxExtra > 0 && crashChecks >= 3) || (addr0 && pendingTemp)) {
		rep.Distinct(fmt.Sprintf("%s %s c%d %s", mode, sp, commits, ledgerDigest(base)[:16]))
	}
	if h < 3 {
		rep.Sample(fmt.Sprintf("%s: %s mode=%s commits=%d crash/commit points checked=%d registers=%d roots=%d", tag, sp, mode, commits, crashChecks, len(base.Segs), len(w.Roots)))
	}
}
