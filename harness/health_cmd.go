//go:build verif

package main

// health_cmd.go — C20: CheckStorageHealth accepts exactly the healthy storages, and
// GetAllChildReferences returns exactly the resolvable / broken references below a slab.
//
// Healthy storages come from random World histories (arrays + maps, nested, wrappers, large
// values, several roots, detached roots) at slab sizes 256/512/1024.  The harness computes its
// OWN slab graph (every live slab, references collected depth-first through every storable that
// is not a SlabIDStorable) and its own verdict (dangling / double reference / owner mismatch /
// not hanging below a root / root count).  Then every single corruption of the four kinds is
// applied to a clone of the committed state, at every sampled slab, by every route, and the
// health check is run again.
//
// Oracle (model independent): own verdict "unhealthy" but CheckStorageHealth returned nil, own
// verdict "healthy" but it returned an error, or the returned root set differs from the
// unreferenced slabs.  GetAllChildReferences is compared (as sets) with own reachability.
// Every query is also a trace step for the model engine `health` (HealthTrace.v).

import (
	"fmt"
	"sort"
	"strings"

	"github.com/onflow/atree"
	testutils "github.com/onflow/atree/test_utils"
)

func init() { register("health", cmdHealth) }

// ---------- own graph ----------

type hcGraph struct {
	ids  []atree.SlabID // ascending (owner, index)
	refs map[atree.SlabID][]atree.SlabID
}

// hcCollect gathers the slab references below a list of storables, depth-first, descending
// through everything that is not itself a slab reference (inlined containers, wrappers).
func hcCollect(sts []atree.Storable, out *[]atree.SlabID) {
	for _, s := range sts {
		if s == nil {
			continue
		}
		if id, ok := s.(atree.SlabIDStorable); ok {
			*out = append(*out, atree.SlabID(id))
			continue
		}
		hcCollect(s.ChildStorables(), out)
	}
}

func hcBuild(ids []atree.SlabID, get func(atree.SlabID) atree.Slab) *hcGraph {
	g := &hcGraph{refs: map[atree.SlabID][]atree.SlabID{}}
	for _, id := range ids {
		slab := get(id)
		if slab == nil {
			continue
		}
		var rs []atree.SlabID
		hcCollect(slab.ChildStorables(), &rs)
		g.ids = append(g.ids, id)
		g.refs[id] = rs
	}
	sortIDs(g.ids)
	return g
}

// hcPersistentGraph reads the visible state (write set over cache over ledger) without touching it.
func hcPersistentGraph(st *atree.PersistentSlabStorage, base *LogBase) (*hcGraph, error) {
	deltas, cache := atree.VerifStorageKeys(st)
	seen := map[atree.SlabID]bool{}
	var ids []atree.SlabID
	for id, live := range deltas {
		seen[id] = true
		if live {
			ids = append(ids, id)
		}
	}
	for id, live := range cache {
		if seen[id] {
			continue
		}
		seen[id] = true
		if live {
			ids = append(ids, id)
		}
	}
	for id := range base.Segs {
		if !seen[id] {
			seen[id] = true
			ids = append(ids, id)
		}
	}
	var derr error
	g := hcBuild(ids, func(id atree.SlabID) atree.Slab {
		if s, ok := atree.VerifStorageDeltaSlab(st, id); ok {
			return s
		}
		if s, ok := atree.VerifStorageCacheSlab(st, id); ok {
			return s
		}
		s, err := atree.DecodeSlab(id, base.Segs[id], decMode, testutils.DecodeStorable, testutils.DecodeTypeInfo)
		if err != nil {
			derr = err
			return nil
		}
		return s
	})
	return g, derr
}

func hcBasicGraph(bs *atree.BasicSlabStorage) *hcGraph {
	ids := make([]atree.SlabID, 0, len(bs.Slabs))
	for id := range bs.Slabs {
		ids = append(ids, id)
	}
	return hcBuild(ids, func(id atree.SlabID) atree.Slab { return bs.Slabs[id] })
}

type hcVerdict struct {
	healthy bool
	why     string
	roots   []atree.SlabID
}

func (g *hcGraph) present(id atree.SlabID) bool { _, ok := g.refs[id]; return ok }

// analyse is the harness's own definition of health (independent of the library's algorithm).
func (g *hcGraph) analyse(expected int) hcVerdict {
	v := hcVerdict{healthy: true}
	bad := func(why string) {
		if v.healthy {
			v.healthy, v.why = false, why
		}
	}
	nref := map[atree.SlabID]int{}
	for _, p := range g.ids {
		for _, c := range g.refs[p] {
			if !g.present(c) {
				bad("dangling")
			}
			nref[c]++
			if nref[c] > 1 {
				bad("double")
			}
			ca, _ := idPair(c)
			pa, _ := idPair(p)
			if ca != pa {
				bad("owner")
			}
		}
	}
	for _, id := range g.ids {
		if nref[id] == 0 {
			v.roots = append(v.roots, id)
		}
	}
	// every slab hangs below a root
	seen := map[atree.SlabID]bool{}
	stack := append([]atree.SlabID{}, v.roots...)
	for len(stack) > 0 {
		x := stack[len(stack)-1]
		stack = stack[:len(stack)-1]
		if seen[x] || !g.present(x) {
			continue
		}
		seen[x] = true
		stack = append(stack, g.refs[x]...)
	}
	if len(seen) != len(g.ids) {
		bad("unrooted")
	}
	if expected >= 0 && len(v.roots) != expected {
		bad("rootcount")
	}
	return v
}

// reach: everything reachable from id through at least one reference, split into present / absent.
func (g *hcGraph) reach(id atree.SlabID) (res map[atree.SlabID]bool, broken map[atree.SlabID]bool) {
	res, broken = map[atree.SlabID]bool{}, map[atree.SlabID]bool{}
	stack := append([]atree.SlabID{}, g.refs[id]...)
	for len(stack) > 0 {
		x := stack[len(stack)-1]
		stack = stack[:len(stack)-1]
		if !g.present(x) {
			broken[x] = true
			continue
		}
		if res[x] {
			continue
		}
		res[x] = true
		stack = append(stack, g.refs[x]...)
	}
	return
}

func (g *hcGraph) enc() []int64 {
	out := []int64{int64(len(g.ids))}
	for _, id := range g.ids {
		a, i := idArgs(id)
		out = append(out, a, i, int64(len(g.refs[id])))
		for _, c := range g.refs[id] {
			ca, ci := idArgs(c)
			out = append(out, ca, ci)
		}
	}
	return out
}

func (g *hcGraph) parents() map[atree.SlabID]atree.SlabID {
	m := map[atree.SlabID]atree.SlabID{}
	for _, p := range g.ids {
		for _, c := range g.refs[p] {
			m[c] = p
		}
	}
	return m
}

// ---------- a value whose storable is a bare slab reference ----------

type hcRefValue struct{ id atree.SlabID }

func (v hcRefValue) Storable(atree.SlabStorage, atree.Address, uint32) (atree.Storable, error) {
	return atree.SlabIDStorable(v.id), nil
}

// ---------- the run ----------

type hcRun struct {
	rep      *Report
	tr       *Trace
	hist     int
	tag      string
	step     int
	T        uint32
	verdicts int
}

// trStep records a query for the model engine (histories without a trace have tr == nil).
func (r *hcRun) trStep(op, obs []int64) {
	if r.tr != nil {
		r.tr.Step(op, obs)
	}
}

func (r *hcRun) viol(what, detail string) {
	r.rep.Violate(r.hist, r.tag, r.step, what, fmt.Sprintf("T=%d %s", r.T, detail))
}

var hcClasses = []struct {
	code int
	name string
	sub  string
}{
	{1, "duplicate", "duplicate slab"},
	{2, "two_parents", "two parents are captured"},
	{3, "missing_ref", "referenced slab is missing in storage"},
	{4, "leaf_twice", "at least two references found to the leaf"},
	{5, "child_not_found", "failed to get child slab"},
	{6, "parent_not_found", "failed to get parent slab"},
	{7, "owner", "not owned by the same account"},
	{8, "unreachable", "not reachable from leaves"},
	{9, "root_count", "number of root slabs doesn't match"},
	{11, "iterator", "failed to create slab iterator"},
	{11, "iterator", "slab not found during slab iteration"},
}

func hcClass(err error) (int, string) {
	msg := err.Error()
	for _, c := range hcClasses {
		if strings.Contains(msg, c.sub) {
			return c.code, c.name
		}
	}
	return 0, "other"
}

func hcIDList(ids []atree.SlabID) []int64 {
	out := make([]int64, 0, 2*len(ids))
	for _, id := range ids {
		a, i := idArgs(id)
		out = append(out, a, i)
	}
	return out
}

// check runs the library's health check on st, compares with the harness's own verdict on g and
// records the query for the model.
func (r *hcRun) check(label string, st atree.SlabStorage, g *hcGraph, expected int) {
	r.rep.Op(label)
	var roots map[atree.SlabID]struct{}
	var err error
	panicked := ""
	func() {
		defer func() {
			if p := recover(); p != nil {
				panicked = fmt.Sprint(p)
			}
		}()
		roots, err = atree.CheckStorageHealth(st, expected)
	}()
	r.verdicts++
	defer func() { r.step++ }()
	if panicked != "" {
		r.viol("C20: health check panics", label+": "+panicked)
		return
	}
	v := g.analyse(expected)
	op := append([]int64{1, 0, int64(expected)}, g.enc()...)
	if err != nil {
		code, name := hcClass(err)
		r.rep.Err(name)
		if v.healthy {
			r.viol("C20: health check rejects a healthy storage", fmt.Sprintf("%s: %v", label, err))
		}
		if code == 0 || code == 11 {
			op[1] = 1 // the failure arose outside the modelled algorithm: compare ok/err only
			code = 0
		}
		r.trStep(op, []int64{1, int64(code)})
		return
	}
	r.rep.Err("ok")
	if !v.healthy {
		r.viol("C20: health check accepts an unhealthy storage ("+v.why+")", fmt.Sprintf("%s: expected=%d slabs=%d returned roots=%d", label, expected, len(g.ids), len(roots)))
	}
	got := make([]atree.SlabID, 0, len(roots))
	for id := range roots {
		got = append(got, id)
	}
	sortIDs(got)
	if v.healthy && fmt.Sprint(got) != fmt.Sprint(v.roots) {
		r.viol("C20: returned root set differs from the unreferenced slabs", fmt.Sprintf("%s: got %v want %v", label, got, v.roots))
	}
	r.trStep(op, append([]int64{0}, hcIDList(got)...))
}

// childRefs compares GetAllChildReferences(id) with own reachability and records the query.
func (r *hcRun) childRefs(label string, st *atree.PersistentSlabStorage, g *hcGraph, id atree.SlabID) {
	r.rep.Op(label)
	var refs, broken []atree.SlabID
	var err error
	panicked := ""
	func() {
		defer func() {
			if p := recover(); p != nil {
				panicked = fmt.Sprint(p)
			}
		}()
		refs, broken, err = st.GetAllChildReferences(id)
	}()
	r.verdicts++
	defer func() { r.step++ }()
	if panicked != "" {
		r.viol("C20: GetAllChildReferences panics", label+": "+panicked)
		return
	}
	a, i := idArgs(id)
	op := append([]int64{2, a, i}, g.enc()...)
	if err != nil {
		if g.present(id) {
			r.viol("C20: GetAllChildReferences fails on a present slab", fmt.Sprintf("%s %s: %v", label, id, err))
		}
		r.trStep(op, []int64{1})
		return
	}
	if !g.present(id) {
		r.viol("C20: GetAllChildReferences succeeds on an absent slab", fmt.Sprintf("%s %s", label, id))
	}
	wantRes, wantBroken := g.reach(id)
	sameSet := func(got []atree.SlabID, want map[atree.SlabID]bool) bool {
		m := map[atree.SlabID]bool{}
		for _, x := range got {
			m[x] = true
		}
		if len(m) != len(want) {
			return false
		}
		for x := range want {
			if !m[x] {
				return false
			}
		}
		return true
	}
	if !sameSet(refs, wantRes) {
		r.viol("C20: GetAllChildReferences: resolvable references differ from the reachable present slabs", fmt.Sprintf("%s %s: got %v", label, id, refs))
	}
	if !sameSet(broken, wantBroken) {
		r.viol("C20: GetAllChildReferences: broken references differ from the reachable absent slabs", fmt.Sprintf("%s %s: got %v", label, id, broken))
	}
	if len(broken) > 0 {
		r.rep.Event("childrefs_with_broken")
	}
	sortIDs(refs)
	sortIDs(broken)
	obs := []int64{0, int64(len(refs))}
	obs = append(obs, hcIDList(refs)...)
	obs = append(obs, int64(len(broken)))
	obs = append(obs, hcIDList(broken)...)
	r.trStep(op, obs)
}

// loaded returns a fresh storage over a clone of the ledger with every slab retrieved (cached).
func hcLoaded(b *LogBase, skip atree.SlabID) (*atree.PersistentSlabStorage, *LogBase) {
	cb := b.Clone()
	st := newStorage(cb)
	for _, id := range cb.SortedIDs() {
		if id == skip {
			continue
		}
		_, _, err := st.Retrieve(id)
		must(err)
	}
	return st, cb
}

func (r *hcRun) checkPersistent(label string, st *atree.PersistentSlabStorage, b *LogBase, expected int) *hcGraph {
	g, err := hcPersistentGraph(st, b)
	if err != nil {
		r.viol("harness: register does not decode", err.Error())
		return g
	}
	r.check(label, st, g, expected)
	return g
}

// twoStates checks uncommitted, then committed.
func (r *hcRun) twoStates(label string, st *atree.PersistentSlabStorage, b *LogBase, expected int, alsoNoCount bool) {
	r.checkPersistent(label+".uncommitted", st, b, expected)
	if alsoNoCount {
		r.checkPersistent(label+".uncommitted.nocount", st, b, -1)
	}
	if err := st.FastCommit(1); err != nil {
		r.viol("harness: commit of corrupted state failed", err.Error())
		return
	}
	r.checkPersistent(label+".committed", st, b, expected)
}

func cmdHealth(a Args) {
	rep := NewReport(a.Prop, a.Seed)
	rep.Rule = "healthy storages from random nested array/map histories (several roots, detached roots, wrappers, large values; slab sizes 256/512/1024; uncommitted, committed and reopened); own slab graph and own health verdict; then at every sampled slab (<=40 per storage unless -mode full): delete (Remove uncommitted, Remove+commit, ledger deletion + fresh storage, BasicSlabStorage map delete), second reference from a new root array, reference from an array of another owner; per storage: unreferenced extra slab, reference to a new slab of another owner; CheckStorageHealth verdict and root set vs own verdict; GetAllChildReferences vs own reachability (healthy and with broken references); non-trivial = storage with >= 3 slabs"
	tr := NewTrace(a.Out + "/trace.txt")
	rng := NewRng(a.Seed)
	sizes := []uint32{256, 512, 1024}
	defer atree.VerifSetThreshold(1024)
	limit := 40
	if a.Mode == "full" {
		limit = 1 << 30
	}
	total := 0
	for k := 0; k < a.N; k++ {
		hr := rng.Fork(uint64(k))
		tag := fmt.Sprintf("h%d", k)
		if !want(tag) {
			continue
		}
		T := sizes[k%len(sizes)]
		atree.VerifSetThreshold(T)
		r := &hcRun{rep: rep, tr: tr, hist: k, tag: tag, T: T}
		tr.Hist(tag, uint64(T))
		func() {
			defer func() {
				if p := recover(); p != nil {
					r.viol("C20: panic", fmt.Sprint(p))
				}
			}()
			hcStorage(r, hr, a.Steps, limit)
		}()
		rep.Histories++
		rep.Steps += r.step
		total += r.verdicts
	}
	rep.Events["verdicts"] = total
	tr.Close()
	rep.Write(a.Out + "/report.json")
}

func hcStorage(r *hcRun, hr *Rng, steps int, limit int) {
	rep := r.rep
	base := NewLogBase()
	addr := 1 + uint64(hr.Intn(2))
	opts := WorldOpts{Addr: addr, MaxDepth: 1 + hr.Intn(3), Wrap: hr.Bool(), Maps: true,
		Detach: hr.Chance(50), LargeVals: hr.Chance(60), PopChild: true, KeySpace: []int{60, 60, 400}[hr.Intn(3)], SelfSet: hr.Chance(50)}
	w := NewWorld(base, hr, opts, rep)
	failed := false
	w.Fail = func(what, detail string) {
		if !failed {
			rep.Event("workload_failure")
			rep.Sample("workload failure (not C20): " + what + ": " + detail)
		}
		failed = true
	}
	for n := 1 + hr.Intn(3); n > 0; n-- {
		if hr.Bool() {
			w.NewArrayRoot()
		} else {
			w.NewMapRoot()
		}
	}
	for s := 0; s < steps && !failed; s++ {
		w.Step()
		if s%11 == 10 {
			w.Commit(1 + hr.Intn(4))
			if hr.Chance(30) {
				w.Reopen()
			}
		}
	}
	// growth phase: make one container span several slabs (metadata levels at small slab sizes)
	if !failed && len(w.Roots) > 0 && hr.Chance(70) {
		extra := 40 + hr.Intn(260)
		switch c := w.Roots[hr.Intn(len(w.Roots))].(type) {
		case *svArr:
			for n := 0; n < extra && !failed; n++ {
				w.arrInsert(c, uint64(hr.Intn(len(c.elems)+1)), 1)
			}
		case *svMap:
			for n := 0; n < extra && !failed; n++ {
				w.mapSet(c, w.randKey(), 1)
			}
		}
		rep.Event("grown")
	}
	if failed {
		return
	}
	nRoots := len(w.Roots)
	rootSet := map[atree.SlabID]bool{}
	for _, x := range w.Roots {
		rootSet[rootID(x)] = true
	}

	// ---- the healthy storage in its three states ----
	healthyState := func(label string) *hcGraph {
		g, err := hcPersistentGraph(w.St, base)
		if err != nil {
			r.viol("harness: register does not decode", err.Error())
			return nil
		}
		v := g.analyse(nRoots)
		same := len(v.roots) == len(rootSet)
		for _, x := range v.roots {
			same = same && rootSet[x]
		}
		if !v.healthy || !same {
			r.viol("C20: the storage produced by a valid history is not healthy or its roots are not the live containers", fmt.Sprintf("%s: %s roots=%v live=%d", label, v.why, v.roots, nRoots))
		}
		r.check(label, w.St, g, nRoots)
		r.check(label+".nocount", w.St, g, -1)
		return g
	}
	healthyState("healthy.uncommitted")
	w.Commit(1)
	if failed {
		return
	}
	g := healthyState("healthy.committed")
	if hr.Bool() {
		w.Reopen()
		if failed {
			return
		}
		g = healthyState("healthy.reopened")
	}
	if g == nil {
		return
	}
	if len(g.ids) >= 3 {
		rep.Distinct(r.tag)
	}
	rep.EventN("slabs", len(g.ids))
	rep.EventN("references", len(g.parents()))

	// sample of slabs
	sample := append([]atree.SlabID{}, g.ids...)
	for i := len(sample) - 1; i > 0; i-- {
		j := hr.Intn(i + 1)
		sample[i], sample[j] = sample[j], sample[i]
	}
	if len(sample) > limit {
		sample = sample[:limit]
	}
	sort.Slice(sample, func(i, j int) bool { return sample[i].Compare(sample[j]) < 0 })

	// GetAllChildReferences on the healthy storage
	for _, id := range sample {
		r.childRefs("childrefs.healthy", w.St, g, id)
	}
	r.childRefs("childrefs.absent", w.St, g, mkID(addr, 1<<40))

	parents := g.parents()
	rootOf := func(x atree.SlabID) atree.SlabID {
		for n := 0; n <= len(g.ids); n++ {
			p, ok := parents[x]
			if !ok {
				return x
			}
			x = p
		}
		return x
	}
	ti := testutils.NewSimpleTypeInfo(77)
	other := addr + 5
	fresh := uint64(1 << 40)

	for _, x := range sample {
		_, referenced := parents[x]
		kind := "root"
		if referenced {
			kind = "referenced"
			rep.Event("corrupt_referenced_slab")
		} else {
			rep.Event("corrupt_root_slab")
		}
		// (a) deletion, route 1+2: Remove on a loaded persistent storage, then commit
		{
			st, cb := hcLoaded(base, atree.SlabIDUndefined)
			must(st.Remove(x))
			gd := r.checkPersistent("delete."+kind+".remove", st, cb, nRoots)
			if referenced && gd != nil {
				r.childRefs("childrefs.broken", st, gd, rootOf(x))
				r.childRefs("childrefs.broken", st, gd, parents[x])
			}
			if err := st.FastCommit(1); err != nil {
				r.viol("harness: commit failed", err.Error())
			} else {
				gd = r.checkPersistent("delete."+kind+".remove_commit", st, cb, nRoots)
				if referenced && gd != nil {
					r.childRefs("childrefs.broken_committed", st, gd, parents[x])
				}
			}
		}
		// route 3: the register disappears from the ledger, fresh storage
		{
			cb := base.Clone()
			delete(cb.Segs, x)
			st := newStorage(cb)
			for _, id := range cb.SortedIDs() {
				_, _, err := st.Retrieve(id)
				must(err)
			}
			r.checkPersistent("delete."+kind+".ledger", st, cb, nRoots)
		}
		// route 4: BasicSlabStorage
		{
			bs := atree.NewBasicSlabStorage(encMode, decMode, testutils.DecodeStorable, testutils.DecodeTypeInfo)
			for _, id := range base.SortedIDs() {
				s, err := atree.DecodeSlab(id, base.Segs[id], decMode, testutils.DecodeStorable, testutils.DecodeTypeInfo)
				must(err)
				must(bs.Store(id, s))
			}
			delete(bs.Slabs, x)
			r.check("delete."+kind+".basic", bs, hcBasicGraph(bs), nRoots)
		}
		// (c) one more reference to x, from a new root array of the same owner
		{
			st, cb := hcLoaded(base, atree.SlabIDUndefined)
			arr, err := atree.NewArray(st, mkAddr(addr), ti)
			must(err)
			must(arr.Append(hcRefValue{x}))
			r.twoStates("addref."+kind, st, cb, nRoots+1, referenced)
		}
		// (d) a reference to x from a new root array of another owner
		{
			st, cb := hcLoaded(base, atree.SlabIDUndefined)
			arr, err := atree.NewArray(st, mkAddr(other), ti)
			must(err)
			must(arr.Append(hcRefValue{x}))
			r.twoStates("foreignref."+kind, st, cb, nRoots+1, false)
		}
	}

	// (b) an unreferenced extra slab, same owner and another owner
	for i, ad := range []uint64{addr, other} {
		st, cb := hcLoaded(base, atree.SlabIDUndefined)
		id := mkID(ad, fresh+uint64(i))
		must(st.Store(id, atree.VerifNewStorableSlabWithID(id, testutils.Uint64Value(7))))
		r.twoStates("extra_slab", st, cb, nRoots, true)
	}
	// (d) a new slab of another owner referenced from a new root array of this owner
	{
		st, cb := hcLoaded(base, atree.SlabIDUndefined)
		id := mkID(other, fresh+9)
		must(st.Store(id, atree.VerifNewStorableSlabWithID(id, testutils.Uint64Value(9))))
		arr, err := atree.NewArray(st, mkAddr(addr), ti)
		must(err)
		must(arr.Append(hcRefValue{id}))
		r.twoStates("foreign_child", st, cb, nRoots+1, true)
	}
	// control: the same with the right owner is healthy
	{
		st, cb := hcLoaded(base, atree.SlabIDUndefined)
		id := mkID(addr, fresh+10)
		must(st.Store(id, atree.VerifNewStorableSlabWithID(id, testutils.Uint64Value(9))))
		arr, err := atree.NewArray(st, mkAddr(addr), ti)
		must(err)
		must(arr.Append(hcRefValue{id}))
		r.twoStates("control_child", st, cb, nRoots+1, false)
	}
}
