//go:build verif

package main

// tagrange_cmd.go — C07, the application-facing CBOR tag range query (cbor_tag_nums.go):
// IsCBORTagNumberRangeAvailable(lo, hi) and ReservedCBORTagNumberRange().  The Gallina transcription of both
// functions is proved (props/C07_gen.v) to answer "available" exactly when no number of lo..hi is reserved,
// and a range reported available to contain none of the tag numbers the slab codec writes.  This run is the
// failing-input search for those theorems and the run-time side of the tie: the compiled functions are
// compared with the specification on every pair of a boundary grid and on random pairs; the specification is
// evaluated against the tag numbers the library really writes (the exported CBORTag* constants).

import (
	"errors"
	"fmt"

	"github.com/onflow/atree"
)

func init() { register("tagrange", cmdTagRange) }

func cmdTagRange(a Args) {
	prop := a.Prop
	if prop == "" {
		prop = "C07"
	}
	rep := NewReport(prop, a.Seed)
	rep.Rule = "IsCBORTagNumberRangeAvailable(lo, hi) on every pair of a boundary grid (0..2, every number 230..265, powers of two +-1, 2^64-1 and neighbours) and on random pairs: error exactly when lo > hi; otherwise available exactly when no number of lo..hi lies in ReservedCBORTagNumberRange(); a range reported available contains none of the ten tag numbers the codec writes (CBORTagTypeInfoRef .. CBORTagSlabID); non-trivial = pair with lo <= hi whose range touches the reserved interval or lies next to it"
	NewTrace(a.Out + "/trace.txt").Close()
	rng := NewRng(a.Seed)
	codecTags := []uint64{atree.CBORTagTypeInfoRef, atree.CBORTagInlinedArrayExtraData, atree.CBORTagInlinedMapExtraData,
		atree.CBORTagInlinedCompactMapExtraData, atree.CBORTagInlinedArray, atree.CBORTagInlinedMap,
		atree.CBORTagInlinedCompactMap, atree.CBORTagInlineCollisionGroup, atree.CBORTagExternalCollisionGroup,
		atree.CBORTagSlabID}
	rmin, rmax := atree.ReservedCBORTagNumberRange()
	for _, t := range codecTags {
		if t < rmin || t > rmax {
			rep.Violate(0, "reserved", 0, "codec_tag_outside_reserved_range",
				fmt.Sprintf("the codec writes tag number %d, ReservedCBORTagNumberRange() = [%d, %d]", t, rmin, rmax))
		}
	}
	grid := []uint64{0, 1, 2}
	for v := uint64(230); v <= 265; v++ {
		grid = append(grid, v)
	}
	for s := uint(3); s < 64; s++ {
		p := uint64(1) << s
		grid = append(grid, p-1, p, p+1)
	}
	grid = append(grid, ^uint64(0), ^uint64(0)-1, ^uint64(0)-255)
	n := 0
	check := func(lo, hi uint64, tag string) {
		n++
		ok, err := atree.IsCBORTagNumberRangeAvailable(lo, hi)
		if lo > hi {
			rep.Op("reversed")
			if err == nil {
				rep.Violate(n, tag, 0, "reversed_range_accepted", fmt.Sprintf("IsCBORTagNumberRangeAvailable(%d, %d) = %v, nil; want an error", lo, hi, ok))
			} else {
				var ue *atree.UserError
				if errors.As(err, &ue) {
					rep.Err("UserError")
				} else {
					rep.Err("other")
				}
			}
			return
		}
		if err != nil {
			rep.Violate(n, tag, 0, "valid_range_refused", fmt.Sprintf("IsCBORTagNumberRangeAvailable(%d, %d) error %v", lo, hi, err))
			return
		}
		overlap := !(hi < rmin || lo > rmax)
		if overlap {
			rep.Op("overlapping")
		} else {
			rep.Op("disjoint")
		}
		if (lo <= rmax+1 && hi+1 >= rmin) || overlap {
			rep.Distinct(fmt.Sprintf("%d-%d", lo, hi))
		}
		if ok == overlap {
			rep.Violate(n, tag, 0, "tag_range_answer", fmt.Sprintf("IsCBORTagNumberRangeAvailable(%d, %d) = %v, reserved range [%d, %d]", lo, hi, ok, rmin, rmax))
		}
		if ok {
			for _, t := range codecTags {
				if lo <= t && t <= hi {
					rep.Violate(n, tag, 0, "available_range_contains_codec_tag", fmt.Sprintf("range [%d, %d] reported available contains the codec's tag %d", lo, hi, t))
				}
			}
		}
	}
	for i, lo := range grid {
		for j, hi := range grid {
			tag := fmt.Sprintf("g%d_%d", i, j)
			if want(tag) {
				check(lo, hi, tag)
			}
		}
	}
	for h := 0; h < a.N; h++ {
		tag := fmt.Sprintf("r%d", h)
		hr := rng.Fork(uint64(h))
		lo, hi := hr.U64()>>uint(hr.Intn(64)), hr.U64()>>uint(hr.Intn(64))
		if hr.Chance(50) {
			lo, hi = uint64(hr.Intn(600)), uint64(hr.Intn(600))
		}
		if want(tag) {
			check(lo, hi, tag)
		}
	}
	rep.Histories = n
	rep.Steps = n
	rep.Sample(fmt.Sprintf("reserved range [%d, %d]; %d pairs", rmin, rmax, n))
	rep.Write(a.Out + "/report.json")
	fmt.Printf("tagrange: pairs=%d violations=%d\n", n, len(rep.Violations))
}
