module atreeverif

go 1.24

require (
	github.com/fxamacker/cbor/v2 v2.9.2-0.20260331174317-a78e92ec038e
	github.com/onflow/atree v0.0.0
)

require (
	github.com/fxamacker/circlehash v0.3.0 // indirect
	github.com/klauspost/cpuid/v2 v2.0.12 // indirect
	github.com/x448/float16 v0.8.4 // indirect
	github.com/zeebo/blake3 v0.2.4 // indirect
)

replace github.com/onflow/atree => /repo
