#!/bin/sh
# Builds the OCaml runner from the extracted model. Run after `make -C ../coq`.
set -e
cd "$(dirname "$0")"
coqc -noglob -Q ../coq/theories AtreeModel -Q ../coq/gen AtreeGen ../coq/extract/Extract.v -o /dev/null 2>/dev/null || \
  coqc -noglob -Q ../coq/theories AtreeModel -Q ../coq/gen AtreeGen ../coq/extract/Extract.v
rm -f ../coq/extract/Extract.vo ../coq/extract/Extract.vos ../coq/extract/Extract.vok ../coq/extract/.Extract.aux
ocamlfind ocamlopt -O2 -w -a -package zarith -linkpkg model.mli model.ml driver.ml -o runner.new 2>/dev/null || \
  ocamlfind ocamlopt -w -a -package zarith -linkpkg model.mli model.ml driver.ml -o runner.new
mv -f runner.new runner   # atomic: a check that is executing the old binary keeps it
