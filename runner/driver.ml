(* Driver around the extracted model: parses the integer-line trace format, calls the
   extracted checker, prints one verdict line per history.  Contains no model logic. *)
module ZA = Z
open Model

let rec pos_of_z (z : ZA.t) : positive =
  if ZA.equal z ZA.one then XH
  else if ZA.testbit z 0 then XI (pos_of_z (ZA.shift_right z 1))
  else XO (pos_of_z (ZA.shift_right z 1))

let cz_of_string (s : string) : z =
  let v = ZA.of_string s in
  if ZA.sign v = 0 then Z0 else if ZA.sign v > 0 then Zpos (pos_of_z v) else Zneg (pos_of_z (ZA.neg v))

let rec z_of_pos (p : positive) : ZA.t =
  match p with
  | XH -> ZA.one
  | XO q -> ZA.shift_left (z_of_pos q) 1
  | XI q -> ZA.succ (ZA.shift_left (z_of_pos q) 1)

let string_of_cz (v : z) : string =
  match v with Z0 -> "0" | Zpos p -> ZA.to_string (z_of_pos p) | Zneg p -> "-" ^ ZA.to_string (z_of_pos p)

let rec int_of_nat (n : nat) : int = match n with O -> 0 | S m -> 1 + int_of_nat m

let parse_ints (s : string) : z list =
  String.split_on_char ' ' s |> List.filter (fun x -> x <> "") |> List.map cz_of_string

let show_line (l : z list) : string = String.concat " " (List.map string_of_cz l)

let engines : (string * (z list -> (z list * z list) list -> verdict)) list = [
  ("storage", chk_storage);
  ("array", chk_array);
  ("health", chk_health);
  ("codec", chk_codec);
  ("mapelems", chk_mapelems);
  ("decode", chk_decode);
  ("batch", chk_batch);
  ("maptree", chk_maptree);
  ("nested", chk_nested);
  ("codecinl", chk_codecinl);
  ("itermap", chk_itermap);
  ("mapbatch", chk_mapbatch);
  ("alias", chk_alias);
  ("mapext", chk_mapext);
  ("callback", chk_callback);
  ("nested2", chk_nested2);
]

let () =
  let engine = Sys.argv.(1) in
  let chk = try List.assoc engine engines with Not_found -> (prerr_endline ("unknown engine " ^ engine); exit 2) in
  let ic = if Array.length Sys.argv > 2 then open_in Sys.argv.(2) else stdin in
  let cfg = ref [] and steps = ref [] and pending = ref None and hist = ref (-1) and tag = ref "" in
  let nok = ref 0 and nbad = ref 0 in
  let flush_hist () =
    if !hist >= 0 then begin
      (match chk !cfg (List.rev !steps) with
       | VOk k -> incr nok; Printf.printf "OK %d %s %d\n" !hist !tag (int_of_nat k)
       | VDiff (k, m, r) -> incr nbad;
         Printf.printf "DIFF %d %s step=%d model=[%s] impl=[%s]\n" !hist !tag (int_of_nat k) (show_line m) (show_line r)
       | VBadOp (k, o) -> incr nbad;
         Printf.printf "BADOP %d %s step=%d op=[%s]\n" !hist !tag (int_of_nat k) (show_line o))
    end;
    steps := []; pending := None in
  (try
     while true do
       let l = input_line ic in
       let n = String.length l in
       if n >= 1 then begin
         let body = if n > 2 then String.sub l 2 (n - 2) else "" in
         match l.[0] with
         | 'H' -> flush_hist (); incr hist;
           (match String.index_opt body '|' with
            | Some p -> tag := String.trim (String.sub body 0 p);
              cfg := parse_ints (String.sub body (p + 1) (String.length body - p - 1))
            | None -> tag := ""; cfg := parse_ints body)
         | 'O' -> pending := Some (parse_ints body)
         | 'R' -> (match !pending with
             | Some o -> steps := (o, parse_ints body) :: !steps; pending := None
             | None -> prerr_endline "R line without O line"; exit 2)
         | '#' -> ()
         | _ -> ()
       end
     done
   with End_of_file -> ());
  flush_hist ();
  Printf.printf "SUMMARY ok=%d bad=%d\n" !nok !nbad;
  exit (if !nbad = 0 then 0 else 1)
