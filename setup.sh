#!/bin/sh
# Builds the whole framework offline from files on disk: Go harness (against /repo, tag verif),
# generated Coq files, the Coq development (full .vo build), extraction and the OCaml runner.
set -e
cd "$(dirname "$0")"
export GOFLAGS=-mod=mod GOPROXY=off
mkdir -p build evidence/replay
rm -rf build/hsrc && mkdir -p build/hsrc
for f in $(git ls-files harness 2>/dev/null || ls harness | sed 's|^|harness/|'); do [ -f "$f" ] && cp "$f" build/hsrc/; done
cp /repo/go.sum build/hsrc/go.sum
(cd build/hsrc && go build -tags verif -o ../harness .)
./build/harness gen -out coq/gen
./build/harness gen-codec -out coq/gen
./build/harness gen-errors -out coq/gen
./build/harness gen-go -out coq/gen
(cd coq && coq_makefile -f _CoqProject -o Makefile >/dev/null 2>&1 && timeout 3000 make -j16 2>&1 | grep -v '^COQC\|^COQDEP\|^Closed under' || true)
(cd coq && make -j16 >/dev/null 2>&1)
sh runner/build.sh
./check --warm-props
# no Admitted/Axiom anywhere in the development
if grep -rnE '\b(Admitted|admit|Axiom|Parameter|Conjecture|bypass_check|Unset Guard)\b' coq/theories coq/proofs coq/props --include=*.v | grep -v '(\*'; then
  echo "forbidden declaration found"; exit 1
fi
echo setup-ok
