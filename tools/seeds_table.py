#!/usr/bin/env python3
"""prints the markdown table of seeded regressions and which checks caught them (from seeded/*/)"""
import os, json, re, glob
ROOT = os.path.dirname(os.path.dirname(os.path.abspath(__file__)))
print("| seed | property | changed | caught by (first message) |")
print("|---|---|---|---|")
for d in sorted(glob.glob(os.path.join(ROOT, "seeded", "*"))):
    if not os.path.exists(os.path.join(d, "meta.json")):
        continue
    m = json.load(open(os.path.join(d, "meta.json")))
    patch = open(os.path.join(d, "patch.diff")).read()
    files = sorted(set(re.findall(r'^\+\+\+ b/(\S+)', patch, re.M)))
    funcs = sorted(set(re.findall(r'^@@.*@@ func (?:\([^)]*\) )?(\w+)', patch, re.M)))
    res = {}
    rp = os.path.join(d, "result.json")
    if os.path.exists(rp):
        res = json.load(open(rp)).get("results", {})
    caught = []
    for c, r in sorted(res.items()):
        if r["exit"] == 1:
            msg = next((l.strip() for l in r["out"] if l.startswith("  ")), "")
            nf = " (no-failing-input-found)" if any("no-failing-input-found" in l for l in r["out"]) else ""
            caught.append("%s%s: %s" % (c, nf, msg[:90]))
    missed = [c for c, r in res.items() if r["exit"] == 0]
    print("| %s | %s | %s: %s | %s%s |" % (os.path.basename(d), m["property"], ", ".join(files), ", ".join(funcs)[:60],
          "; ".join(caught) or "—", (" (not by: %s)" % ",".join(sorted(missed))) if missed and caught else ("" if caught else " NOT CAUGHT")))
