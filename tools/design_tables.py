#!/usr/bin/env python3
"""prints the per-property status table for DESIGN.md from tools/props.py and the props files"""
import os, re, sys, json
ROOT = os.path.dirname(os.path.dirname(os.path.abspath(__file__)))
sys.path.insert(0, os.path.join(ROOT, "tools"))
from props import PROPS
print("| property | theorem files (number of theorems) | engines replayed on the model | Go-side runs (quick tier) |")
print("|---|---|---|---|")
for pid in sorted(PROPS):
    c = PROPS[pid]
    ths = []
    for f in c["props"]:
        src = open(os.path.join(ROOT, "coq", f)).read()
        ths.append("%s (%d)" % (os.path.basename(f), len(re.findall(r'^\s*Theorem\s+\w+', src, re.M))))
    eng = sorted(set(r.get("engine") for r in c["runs"]["quick"] if r.get("engine")))
    runs = [r["cmd"][0] for r in c["runs"]["quick"]]
    print("| %s | %s | %s | %s |" % (pid, ", ".join(ths), ", ".join(eng) or "—", ", ".join(runs)))
