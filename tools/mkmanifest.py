#!/usr/bin/env python3
"""Regenerates /verif/MANIFEST.json from tools/props.py (single source of truth)."""
import json, os, sys
ROOT = os.path.dirname(os.path.dirname(os.path.abspath(__file__)))
sys.path.insert(0, os.path.join(ROOT, "tools"))
from props import PROPS, NOT_APPLICABLE
allp = [json.loads(l)["id"] for l in open(os.path.join(ROOT, "properties.jsonl"))]
checks = []
for pid in allp:
    if pid not in PROPS:
        continue
    c = PROPS[pid]
    checks.append({
        "property_id": pid,
        "quick_cmd": "./check %s --tier quick" % pid,
        "thorough_cmd": "./check %s --tier thorough" % pid,
        "evidence_file": "/verif/evidence/%s.json" % pid,
        "replay_cmd_template": "./check %s --replay {path}" % pid,
        "engine": "coq-model+lockstep",
        "level_claimed": {"category": "proof", "text": c["level_text"], "design_ref": "DESIGN.md section 4, " + pid},
        "level_note": c["level_note"],
        "technique": c["technique"],
    })
na = [{"property_id": p, "reason": NOT_APPLICABLE[p]} for p in allp if p not in PROPS]
missing = [p for p in allp if p not in PROPS and p not in NOT_APPLICABLE]
assert not missing, missing
m = {
    "version": 1,
    "setup_cmd": "./setup.sh",
    "hooks": {
        "guard": "verif",
        "enable": "go build -tags verif (the harness module /verif/harness replaces github.com/onflow/atree by /repo)",
        "baseline_off_cmd": "cd /repo && go test -mod=mod -json -vet=off -count=1 -timeout 25m ./...",
        "source_commits": [l.split()[0] for l in os.popen("git -C /repo log --format='%h %s' 4bfb0a2..HEAD").read().splitlines() if " verif:" in l],
        "add_only": True,
    },
    "engines": [{"name": "coq-model+lockstep", "path": "/verif/check",
                 "serves_properties": [c["property_id"] for c in checks],
                 "kind_free_text": "Coq 8.16.1 theorems over hand-written executable Gallina models (coq/theories), regenerated constant/table files (coq/gen), and a lock-step correspondence check: Go harness on the real implementation vs. the extracted model (OCaml) and a vm_compute sample inside Coq"}],
    "checks": checks,
    "not_applicable": na,
    "notes": "See DESIGN.md. Every check rebuilds the Go harness from /repo's working tree with -tags verif, regenerates coq/gen from it, re-runs make on the Coq development and re-checks the property's theorem file before running the correspondence.",
}
json.dump(m, open(os.path.join(ROOT, "MANIFEST.json"), "w"), indent=1)
print("checks:", [c["property_id"] for c in checks], "not_applicable:", [n["property_id"] for n in na])
