#!/usr/bin/env python3
"""tools/seedtest.py <seeded/ID> [check ids...] — run checks against a seeded regression WITHOUT touching /repo:
the patch is applied in a scratch worktree of /repo's HEAD, the checks run with VERIF_REPO pointing there and
evidence redirected to a scratch directory; which checks raised an alarm is recorded in seeded/ID/result.json."""
import sys, os, json, subprocess, time, shutil
ROOT = os.path.dirname(os.path.dirname(os.path.abspath(__file__)))
d = os.path.abspath(sys.argv[1])
meta = json.load(open(os.path.join(d, "meta.json")))
checks = sys.argv[2:] or [meta["property"]]
sid = os.path.basename(d)
wt = "/tmp/seedwt-%s" % sid
evd = "/tmp/seedev-%s" % sid
def sh(cmd):
    return subprocess.run(cmd, shell=True, stdout=subprocess.PIPE, stderr=subprocess.STDOUT, text=True)
sh("git -C /repo worktree remove --force %s; git -C /repo worktree prune" % wt)
r = sh("git -C /repo worktree add --detach %s HEAD" % wt); assert r.returncode == 0, r.stdout
r = sh("git -C %s apply %s" % (wt, os.path.join(d, "patch.diff"))); assert r.returncode == 0, r.stdout
res = {}
try:
    for c in checks:
        t0 = time.time()
        env = dict(os.environ, VERIF_REPO=wt, VERIF_EVIDENCE_DIR=evd)   # VERIF_HARNESS_FROM_HEAD=1 may be set by the caller
        p = subprocess.run([os.path.join(ROOT, "check"), c], cwd=ROOT, env=env, stdout=subprocess.PIPE, stderr=subprocess.STDOUT, text=True)
        lines = [l for l in p.stdout.splitlines() if l.startswith(("VIOLATION", "OK ", "KNOWN", "  "))]
        res[c] = {"exit": p.returncode, "out": lines[:4], "wall_s": round(time.time() - t0, 1)}
        print(sid, c, p.returncode, " | ".join(lines[:3])[:400], flush=True)
finally:
    sh("git -C /repo worktree remove --force %s; git -C /repo worktree prune" % wt)
    shutil.rmtree(evd, ignore_errors=True)
    import glob
    for g in glob.glob(os.path.join(ROOT, "build", "*_" + os.path.basename(wt))):
        shutil.rmtree(g, ignore_errors=True) if os.path.isdir(g) else os.remove(g)
old = {}
rp = os.path.join(d, "result.json")
if os.path.exists(rp):
    old = json.load(open(rp)).get("results", {})
old.update(res)
json.dump({"results": old, "at": time.strftime("%Y-%m-%d %H:%M:%S")}, open(rp, "w"), indent=1)
