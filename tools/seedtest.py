#!/usr/bin/env python3
"""tools/seedtest.py <seeded/ID> [check ids...]  — apply a seeded regression to /repo, run the given
checks (default: the property recorded in meta.json), undo it, and record which checks raised an alarm
in seeded/ID/result.json.  Never leaves /repo modified."""
import sys, os, json, subprocess, time
ROOT = os.path.dirname(os.path.dirname(os.path.abspath(__file__)))
d = os.path.abspath(sys.argv[1])
meta = json.load(open(os.path.join(d, "meta.json")))
checks = sys.argv[2:] or [meta["property"]]
patch = os.path.join(d, "patch.diff")
def git(*a):
    return subprocess.run(["git", "-C", "/repo"] + list(a), stdout=subprocess.PIPE, stderr=subprocess.STDOUT, text=True)
assert git("status", "--porcelain").stdout.strip() == "", "/repo not clean"
r = git("apply", patch)
assert r.returncode == 0, r.stdout
res = {}
try:
    for c in checks:
        t0 = time.time()
        p = subprocess.run([os.path.join(ROOT, "check"), c], cwd=ROOT, stdout=subprocess.PIPE, stderr=subprocess.STDOUT, text=True)
        lines = [l for l in p.stdout.splitlines() if l.startswith(("VIOLATION", "OK ", "KNOWN", "  "))]
        res[c] = {"exit": p.returncode, "out": lines[:4], "wall_s": round(time.time() - t0, 1)}
        print(c, p.returncode, "|".join(lines[:3])[:300])
finally:
    git("apply", "-R", patch)
    st = git("status", "--porcelain").stdout.strip()
    if st:
        git("checkout", "--", ".")
        print("WARNING: forced checkout, leftover:", st)
json.dump({"ran": checks, "results": res, "at": time.strftime("%Y-%m-%d %H:%M:%S")}, open(os.path.join(d, "result.json"), "w"), indent=1)
