# Per-property configuration of ./check: theorem files, harness runs per tier, model engine.
STORAGE_TB = ["model: coq/theories/Storage.v (hand-written transcription of storage.go: Store/Remove/Retrieve*/commit/FastCommit/NondeterministicFastCommit/DropDeltas/DropCache/BatchPreload/observers); slabs are opaque (identity, size) values, the codec enters as 'decode(encode v) = v'"]

def storage_runs(prop, nq, nt, dq=2, dt=3):
    return {
        "quick": [{"cmd": ["storage", "-prop", prop, "-n", str(nq), "-depth", str(dq)], "engine": "storage", "coq_sample": 20}],
        "thorough": [{"cmd": ["storage", "-prop", prop, "-n", str(nt), "-depth", str(dt)], "engine": "storage", "coq_sample": 200}],
    }

PROPS = {
    "C15": {
        "props": ["props/C15.v"],
        "coq_module": "StorageTrace", "coq_check": "chk_storage",
        "runs": storage_runs("C15", 1500, 20000),
        "search": [{"cmd": ["storage", "-prop", "C15", "-n", "5000", "-depth", "3"]}],
        "trusted_base": STORAGE_TB,
        "level_text": "Machine-checked refinement: for every finite sequence of the storage calls (unbounded length, any identifiers, any fault positions, any commit orders) the Coq model of PersistentSlabStorage refines the pending-overlay specification (C15_refines_overlay and 6 companion theorems, all closed under the global context). The model is tied to storage.go by lock-step differential execution of every call of ~1900 (quick) / ~28000 (thorough) histories, including all sequences of length 2 (quick) or 3 (thorough) over a 20-letter alphabet, on the extracted model and on a vm_compute sample.",
        "level_note": "Trusted: Coq kernel, extraction (ExtrOcamlBasic), the Go harness and the hook file; slabs are opaque values (codec = identity on values, discharged by C07's model); pointer aliasing of cached slab objects is outside the model.",
        "technique": "Coq proof (refinement by induction over operation sequences, std++ gmap) + lock-step correspondence with the Go implementation",
        "assumptions": ["in-place mutation of slab objects shared between cache, write set and handles is not expressible in the value-semantics model (see DESIGN 3); exercised by C08's schedules"],
    },
}

NOT_APPLICABLE = {p: "not yet built in this revision (work in progress; see DESIGN.md section 6 build order)" for p in
                  ["C01","C02","C03","C04","C05","C06","C07","C08","C09","C10","C11","C12","C13","C14","C16","C17","C18","C19","C20"]}
