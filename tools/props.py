# Per-property configuration of ./check: theorem files, harness runs per tier, model engine.
STORAGE_TB = ["model: coq/theories/Storage.v (hand-written transcription of storage.go: Store/Remove/Retrieve*/commit/FastCommit/NondeterministicFastCommit/DropDeltas/DropCache/BatchPreload/observers); slabs are opaque (identity, size) values, the codec enters as 'decode(encode v) = v'"]

def storage_runs(prop, nq, nt, dq=2, dt=3):
    return {
        "quick": [{"cmd": ["storage", "-prop", prop, "-n", str(nq), "-depth", str(dq)], "engine": "storage", "coq_sample": 20}],
        "thorough": [{"cmd": ["storage", "-prop", prop, "-n", str(nt), "-depth", str(dt)], "engine": "storage", "coq_sample": 200}],
    }

def sched_run(cmd, prop, q, t, **kw):
    return ({"cmd": [cmd, "-prop", prop] + q, **kw}, {"cmd": [cmd, "-prop", prop] + t, **kw})

def two_tier(*pairs):
    return {"quick": [p[0] for p in pairs], "thorough": [p[1] for p in pairs]}

def st_pair(prop, nq, nt, dq=2, dt=3):
    r = storage_runs(prop, nq, nt, dq, dt)
    return (r["quick"][0], r["thorough"][0])

GEN_NOTE = " Trusted: Coq kernel, extraction (ExtrOcamlBasic), the Go harness and the hook file."

PROPS = {
    "C15": {
        "props": ["props/C15.v"],
        "coq_module": "StorageTrace", "coq_check": "chk_storage",
        "runs": storage_runs("C15", 1500, 20000),
        "search": [{"cmd": ["storage", "-prop", "C15", "-n", "5000", "-depth", "3"]}],
        "trusted_base": STORAGE_TB,
        "level_text": "Machine-checked refinement: for every finite sequence of the storage calls (unbounded length, any identifiers, any fault positions, any commit orders) the Coq model of PersistentSlabStorage refines the pending-overlay specification (C15_refines_overlay and 6 companion theorems, all closed under the global context). The model is tied to storage.go by lock-step differential execution of every call of ~1900 (quick) / ~28000 (thorough) histories, including all sequences of length 2 (quick) or 3 (thorough) over a 20-letter alphabet, on the extracted model and on a vm_compute sample.",
        "level_note": "Slabs are opaque values (codec = identity on values, discharged by C07's model); pointer aliasing of cached slab objects is outside the model." + GEN_NOTE,
        "technique": "Coq proof (refinement by induction over operation sequences, std++ gmap) + lock-step correspondence with the Go implementation",
        "assumptions": ["in-place mutation of slab objects shared between cache, write set and handles is not expressible in the value-semantics model (see DESIGN 3); exercised by C08's schedules"],
    },
    "C14": {
        "props": ["props/C14.v"],
        "coq_module": "StorageTrace", "coq_check": "chk_storage",
        "runs": two_tier(st_pair("C14", 800, 8000), sched_run("faults", "C14", ["-n", "100000", "-steps", "4000"], ["-n", "100000", "-steps", "100000"])),
        "search": [{"cmd": ["faults", "-prop", "C14", "-n", "100000", "-steps", "20000"]}],
        "trusted_base": STORAGE_TB,
        "level_text": "Theorems over the storage model for EVERY commit kind, processing order and fault position: a failed commit preserves the view and every pending change is either still pending or durably written (C14_failed_commit_keeps_everything), the failing call is reported, and any number of failed attempts followed by one fault-free commit yields exactly the ledger and write set of a single fault-free commit (C14_retry_converges). Tie: lock-step storage histories with injected faults, plus container-level fault enumeration (every fault position of every commit of short array/map histories, workers 1/2/8, both commits, retries, byte comparison with a fault-free twin).",
        "level_note": "Model = storage layer only (slabs opaque); container-level behaviour under faults is covered by the harness oracle, not by a theorem." + GEN_NOTE,
        "technique": "Coq proof (invariant over commit attempts, pointwise characterisation of the committed state) + lock-step correspondence + fault enumeration on the implementation",
    },
    "C04": {
        "props": ["props/C04_storage.v"],
        "coq_module": "StorageTrace", "coq_check": "chk_storage",
        "runs": two_tier(st_pair("C04", 600, 6000), sched_run("determinism", "C04", ["-n", "150", "-steps", "150"], ["-n", "2000", "-steps", "250"])),
        "search": [{"cmd": ["determinism", "-prop", "C04", "-n", "600", "-steps", "200"]}],
        "trusted_base": STORAGE_TB,
        "level_text": "The model is a function of the history; proved: the deterministic commit issues its ledger calls in strictly ascending (owner,index) order also under faults (C04_write_order_sorted), the result does not depend on Go's map iteration order over the write set (C04_delta_iteration_order_irrelevant), on the arrival order of encoder-worker results for any worker count (C04_worker_arrival_order_irrelevant), and the order-relaxed commit produces the same registers for every order it can take (C04_relaxed_commit_same_registers). Tie: lock-step storage histories (call logs compared) and container-level twins: 16 configurations per history (workers 1..64, GOMAXPROCS 1/4/16, cache drops/reopen, relaxed commit) plus fresh OS processes, byte-identical registers required.",
        "level_note": "PARTIAL by nature: dependence on process identity, goroutine scheduling and pool reuse cannot be exhibited by a functional model; it is exercised by the twin runs only. Seeds/extra-data de-duplication determinism is covered by C07's codec model." + GEN_NOTE,
        "technique": "Coq proof (confluence of every order the Go code leaves open) + lock-step correspondence + twin executions on the implementation",
    },
    "C03": {
        "props": ["props/C03_storage.v", "props/C03_array.v"],
        "coq_module": "StorageTrace", "coq_check": "chk_storage",
        "runs": two_tier(st_pair("C03", 600, 6000), sched_run("crash", "C03", ["-n", "500", "-steps", "200"], ["-n", "5000", "-steps", "300"]),
                         ({"cmd": ["array", "-prop", "C03", "-n", "60", "-steps", "300"], "engine": "array"}, {"cmd": ["array", "-prop", "C03", "-n", "1500", "-steps", "600"], "engine": "array", "timeout": 2400})),
        "search": [{"cmd": ["crash", "-prop", "C03", "-n", "1500", "-steps", "200"]}],
        "trusted_base": STORAGE_TB,
        "level_text": "Storage level theorems for every history: no storage call other than a commit changes the ledger (C03_writes_only_in_commit), a temporary-address slab is never in the ledger (C03_temp_never_written), a crash after a commit leaves the ledger as that commit left it (C03_crash), and after a successful commit a brand-new storage sees every owned slab as it was (C03_commit_durable_slabs). For arrays the frame theorem is proved for every reachable array and every operation (C03_array_frame): a slab not named in the operation's storeSlab/Remove log is unchanged, a slab whose last event is a store exists, one whose last event is a remove is gone, every new slab is stored, and the log never stores after removing — the array write log is compared call by call with the implementation in lock step. Tie: lock-step storage histories; container-level crash oracle: after every operation the ledger log must be empty, at every commit and crash point a fresh storage over a copy of the ledger must reopen every live root with the content of the last commit.",
        "level_note": "PARTIAL: the link slab record <-> register bytes relies on the codec model (C07) for the slab shapes modelled there; map containers' store discipline is checked by the crash oracle only." + GEN_NOTE,
        "technique": "Coq proof (ledger frame lemma per storage call, induction over histories) + lock-step correspondence + crash/reopen oracle on the implementation",
    },
    "C16": {
        "props": ["props/C16_storage.v", "props/C16_pool.v"],
        "coq_module": "StorageTrace", "coq_check": "chk_storage",
        "runs": two_tier(st_pair("C16", 400, 4000), sched_run("concurrent", "C16", ["-n", "16", "-steps", "150"], ["-n", "150", "-steps", "250"], race=True, timeout=2400),
                         sched_run("poolcheck", "C16", [], [])),
        "trusted_base": STORAGE_TB,
        "level_text": "Logic part proved: commit with any number of workers and any arrival order of their results equals the sequential commit, also under faults (C16_parallel_commit_eq_sequential); batch preload is independent of the order in which decoded slabs arrive (C16_preload_order_irrelevant); pooled objects: for every schedule of any number of well-bracketed threads over a pool whose objects were Reset on Put, each thread gets the results it gets alone (C16_pool_isolation, instantiated for digesters and buffers; C16_pool_needs_init / _needs_reset are the negative witnesses), and results depend on the global settings only through their being constant (C16_global_settings). The bracketing pattern itself (every Get has its Put after the last use, Put goes through Reset, getter initialises every field read) is checked syntactically on /repo's sources by `harness poolcheck`. Runtime part exercised: harness built with the Go race detector; commits/preloads with 1..64 workers vs 1 worker (registers, cache key sets, errors), and groups of 4/16 goroutines each on its own storage vs the same histories alone, GOMAXPROCS 1/4/16, scheduling jitter.",
        "level_note": "PARTIAL, explicitly: data-race freedom in the sense of the Go memory model and correct bracketing of pooled digesters/buffers are properties of executions; they are observed on the sampled schedules only (race detector + concurrent-vs-alone comparison), not proved." + GEN_NOTE,
        "technique": "Coq proof of order-independence (permutation arguments) + race-detector build and concurrent-vs-sequential comparison on the implementation",
    },
    "C08": {
        "props": ["props/C08.v"],
        "coq_module": "StorageTrace", "coq_check": "chk_storage",
        "runs": two_tier(st_pair("C08", 600, 6000), sched_run("cache", "C08", ["-n", "50", "-steps", "100"], ["-n", "600", "-steps", "150"], timeout=2400)),
        "search": [{"cmd": ["cache", "-prop", "C08", "-n", "150", "-steps", "120"]}],
        "trusted_base": STORAGE_TB,
        "level_text": "Proved over the storage model: for every client history and every insertion of {fault-free commit of either kind, drop cache, batch preload, cache-bypassing read, is-loaded probe, re-creation after a commit} between its operations, every client-visible answer is unchanged and both executions end with the same view (C08_schedule_transparent); a final commit leaves the same owned registers (C08_same_registers). Tie: lock-step storage histories; container-level: each array/map history is run under 9 schedules (never commit .. commit+drop cache after every op, reopen every 3rd op, preload, relaxed commit), per-step fingerprints of everything the library returns and final registers byte-compared.",
        "level_note": "PARTIAL, explicitly: the Go code shares slab OBJECTS by pointer between cache, write set and container handles; stale cached sizes or a missing dirty mark on a freshly decoded copy are aliasing effects that the value-semantics model cannot exhibit. The schedules on the implementation probe exactly that; the decoders' recomputation of cached fields is proved in C06/C07 (decoded slab = encoded slab)." + GEN_NOTE,
        "technique": "Coq proof (simulation between a history and its scheduled variants over the storage model) + cross-schedule differential execution of the implementation",
    },
    "C07": {
        "props": ["props/C07.v"],
        "coq_module": "CodecTrace", "coq_check": "chk_codec",
        "runs": {"quick": [{"cmd": ["codec", "-prop", "C07", "-n", "100", "-steps", "200"], "engine": "codec", "coq_sample": 3}],
                 "thorough": [{"cmd": ["codec", "-prop", "C07", "-n", "1500", "-steps", "200", "-mode", "thorough"], "engine": "codec", "coq_sample": 10, "timeout": 2400}]},
        "search": [{"cmd": ["codec", "-prop", "C07", "-n", "300", "-steps", "200"]}],
        "trusted_base": ["model: coq/theories/Codec.v — byte-level encoder AND decoder (version 1) of array/map index slabs, storable slabs, array data slabs, map data slabs (hkey elements, single elements, nested inline collision groups, external groups, list mode), elements Uint8/16/32/64Value, StringValue, SlabIDStorable, SomeStorable; constants regenerated from flag.go/cbor_tag_nums.go/size consts (coq/gen/CodecConsts.v, Consts.v). NOT in the model: inlined children, shared inlined-extra-data section, compact maps, version-0 decoders (Go-side oracles only)"],
        "level_text": "Proved for every well-formed slab of the modelled kinds: decode(encode s) = s (C07_decode_encode), re-encoding is byte-identical (C07_reencode), the three raw-byte flags describe the content (C07_flags), trailing bytes are rejected by the decoders that check (C07_no_trailing), canonical form of fixed-layout slabs (C07_decode_canonical). Tie: for every slab of every state visited by nested histories the model must produce the SAME BYTES as EncodeSlab from a structural dump and decode them back; Go-side oracles (decode->re-encode equality, content equality, flags vs content, VerifyArray/MapSerialization) cover ALL slabs including inlined children and compact maps.",
        "level_note": "PARTIAL: slabs with inlined children / compact maps are covered by the Go-side oracles only (C07_compact_content not proved). Observations (not violations): map data slab and storable slab decoders accept trailing bytes; undefined head bits and non-shortest CBOR heads are accepted on input." + GEN_NOTE,
        "technique": "Coq proof (structural induction, 'decoder consumes exactly what the encoder produced' lemmas per syntactic category) + byte-for-byte lock-step with EncodeSlab/DecodeSlab",
    },
    "C06": {
        "props": ["props/C06.v"],
        "coq_module": "CodecTrace", "coq_check": "chk_codec",
        "runs": {"quick": [{"cmd": ["codec", "-prop", "C06", "-n", "100", "-steps", "200"], "engine": "codec", "coq_sample": 3}],
                 "thorough": [{"cmd": ["codec", "-prop", "C06", "-n", "1500", "-steps", "200", "-mode", "thorough"], "engine": "codec", "coq_sample": 10, "timeout": 2400}]},
        "search": [{"cmd": ["codec", "-prop", "C06", "-n", "300", "-steps", "200"]}],
        "trusted_base": ["model: coq/theories/Codec.v (see C07); slab_size is computed from the generated prefix constants exactly as getPrefixSize/ByteSize account it"],
        "level_text": "Proved for every well-formed slab of the modelled kinds: length(encode s) + omitted_next s = slab_size s + length(extra data) with omitted_next in {0,16} and 16 exactly for a non-root data slab with empty sibling link (C06_size_is_encoded_length, C06_only_documented_savings), the decoder recomputes the same size (C06_decoded_size), per-storable and per-element sizes equal encoded lengths. A changed prefix constant in Go regenerates Consts.v and breaks these proofs. That the incrementally maintained header sizes equal prefix + sum of element sizes is part of the array invariant (C05). Tie: byte-for-byte lock-step; Go-side exact equation len - extra - inlinedExtra + omittedNext + compactSaving == ByteSize on every slab, including inlined/compact ones.",
        "level_note": "PARTIAL: compact-map hoisting and inlined children are checked by the Go-side equation only, not by a theorem." + GEN_NOTE,
        "technique": "Coq proof (length of the encoder's output by structural induction over generated constants) + byte-for-byte lock-step with the implementation",
    },
    "C02": {
        "props": ["props/C02_elems.v"],
        "coq_module": "MapTrace", "coq_check": "chk_mapelems",
        "runs": {"quick": [{"cmd": ["mapelems", "-prop", "C02", "-n", "300", "-steps", "300"], "engine": "mapelems", "coq_sample": 4},
                           {"cmd": ["world", "-prop", "C02", "-n", "120", "-steps", "300"]}],
                 "thorough": [{"cmd": ["mapelems", "-prop", "C02", "-n", "6000", "-steps", "300"], "engine": "mapelems", "coq_sample": 20, "timeout": 2400},
                              {"cmd": ["world", "-prop", "C02", "-n", "3000", "-steps", "400"], "timeout": 2400}]},
        "search": [{"cmd": ["mapelems", "-prop", "C02", "-n", "1500", "-steps", "300"]}, {"cmd": ["world", "-prop", "C02", "-n", "600", "-steps", "300"]}],
        "trusted_base": ["model: coq/theories/MapElems.v (element level of OrderedMap, see C12); the distribution of elements over map data slabs / index slabs, digest routing through index slabs and root split/promotion are NOT in the Coq model"],
        "level_text": "Proved at element level for every digest assignment and every history from the empty map: each returned value, previous value, removed pair, count, has/get answer and error (key-not-found for absent keys, collision limit) equals the dictionary's, the entry list is the dictionary in canonical order, and the structure invariant holds (C02_elems_refines_dictionary, C02_elems_step). Tie: shape-for-shape lock-step of the element structure across ALL data slabs of multi-slab maps (the dump walks index slabs and sibling links), shadow-dictionary oracle, VerifyMap after every mutation; plus nested random worlds with maps as containers and values (deep content comparison, reopen after commit).",
        "level_note": "PARTIAL: C02_partial in the sense of DESIGN section 4 — the theorem is about the element level (one logical hkeyElements); that splitting/merging map slabs and routing by first digest preserve it is checked on the implementation (VerifyMap, shadow dictionary, lock-step dump concatenated over slabs), not proved." + GEN_NOTE,
        "technique": "Coq proof (refinement of the element-level model to an ordered dictionary, all digest functions) + lock-step correspondence and shadow-dictionary oracle on multi-slab maps",
    },
    "C12": {
        "props": ["props/C12.v", "props/C02_elems.v"],
        "coq_module": "MapTrace", "coq_check": "chk_mapelems",
        "runs": {"quick": [{"cmd": ["mapelems", "-prop", "C12", "-n", "300", "-steps", "300"], "engine": "mapelems", "coq_sample": 4}],
                 "thorough": [{"cmd": ["mapelems", "-prop", "C12", "-n", "6000", "-steps", "300"], "engine": "mapelems", "coq_sample": 20, "timeout": 2400}]},
        "search": [{"cmd": ["mapelems", "-prop", "C12", "-n", "1500", "-steps", "300"]}],
        "trusted_base": ["model: coq/theories/MapElems.v — the ELEMENT level of OrderedMap (hkeyElements, singleElements list mode, singleElement, inline/external collision groups: the binary searches, the four insert cases, collision-limit check, re-hashing one level deeper, spill, collapse, cached sizes, count, pop, next-key), as one logical hkeyElements at level 0; digests are an arbitrary function dg; distribution of elements over data/index slabs is NOT in this model (checked by VerifyMap in the harness)"],
        "level_text": "Proved for EVERY digest assignment dg, every collision limit, every inline-element bound and every number of digest levels: from the empty map every operation history gives the dictionary's answers and keeps the structure well-formed (C02_elems_refines_dictionary, C12_structure_preserved); an absent key is refused with the collision-limit error exactly when limit+1 <= number of distinct second-level digests under its first-level digest, and then nothing changes (C12_limit_enforced); updates are always accepted (C12_updates_accepted); group shapes, spill rule, inline-group bound (C12_group_shapes, C12_spill_rule, C12_inline_groups_bounded). Tie: table-driven adversarial digesters (alphabets 1..4 per level), limits {0,1,2,3,255}; per step the answer and the whole element structure (shape for shape) are compared with the model; oracle: shadow map, refusal formula from the digest table, VerifyMap, health.",
        "level_note": "Element level: how elements are distributed over map data slabs and index slabs is not part of this model (the in-repo VerifyMap checks it in the harness after every mutation)." + GEN_NOTE,
        "technique": "Coq proof (invariant + refinement to an ordered dictionary, for all digest functions) + shape-for-shape lock-step with the implementation under adversarial digesters",
    },
    "C19": {
        "props": ["props/C19.v"],
        "coq_module": "DecodeTrace", "coq_check": "chk_decode",
        "runs": {"quick": [{"cmd": ["decode", "-prop", "C19"], "engine": "decode", "coq_sample": 3}],
                 "thorough": [{"cmd": ["decode", "-prop", "C19", "-n", "10000000", "-mode", "thorough"], "engine": "decode", "coq_sample": 6, "timeout": 2400}]},
        "search": [{"cmd": ["decode", "-prop", "C19", "-n", "2000000"]}],
        "trusted_base": ["model: coq/theories/DecodeSafe.v — the decoders with Go's PARTIAL operations explicit (slice, index, big-endian reads, make, type assertions yield Panic when out of range): decode.go dispatch, flag.go accessors, the three header queries, NewSlabIDFromRawBytes, array/map index slab decoders v0+v1, data-slab prefixes v0+v1 transcribed line by line; CBOR-driven element/extra-data/inlined-container decoders over a validated item tree. Section hypotheses about fxamacker/cbor: NumBytesDecoded() <= len(data); a validated item occupies at least its size in bytes"],
        "level_text": "Proved for ALL byte strings: the three header queries never panic and are decided exactly (C19_header_queries, _exact); dispatch, both index-slab decoders (v0, v1) and the data-slab prefixes never panic and allocate at most len+1 units, the child count being checked against the data length before every make (C19_no_panic_fixed, C19_alloc_proportional_fixed); the item-tree decoders never panic for any item/extra-data table and allocate at most 2x the item size (C19_no_panic_items, C19_alloc_items); whole decode never panics, allocation <= 5x (C19_no_panic, C19_alloc_proportional). Termination: every model function is total (structural/fuel recursion). Tie: 500k (quick) / 10M (thorough) mutated registers of every slab kind and both versions through DecodeSlab + queries + accessors with panic/hang/allocation oracles; the model's accept/reject decision and decoded header fields are compared on the structured stream.",
        "level_note": "PARTIAL: panics inside fxamacker/cbor or Go's runtime (stack depth) are outside the model; the two cbor facts above are hypotheses. Observations outside C19's text (events, not violations): EncodeSlab can panic/over-allocate on an accepted register whose inlined map Count disagrees with its elements; a root map index slab with 0 children is accepted and later iteration panics; a self-referencing external collision group makes iteration loop." + GEN_NOTE,
        "technique": "Coq proof (outcome monad with explicit Panic; no-panic and allocation bounds for all inputs) + structure-aware mutation stream against the real decoder with the model as accept/reject oracle",
    },
    "C18": {
        "props": ["props/C18.v"],
        "runs": {"quick": [{"cmd": ["errors", "-prop", "C18", "-n", "400", "-depth", "4"]},
                           {"cmd": ["array", "-prop", "C18", "-n", "60", "-steps", "300"], "engine": "array", "coq_sample": 2}],
                 "thorough": [{"cmd": ["errors", "-prop", "C18", "-n", "10000", "-mode", "thorough"], "timeout": 2400},
                              {"cmd": ["array", "-prop", "C18", "-n", "1500", "-steps", "600"], "engine": "array", "coq_sample": 6, "timeout": 2400}]},
        "coq_module": "ArrayTrace", "coq_check": "chk_array",
        "search": [{"cmd": ["errors", "-prop", "C18", "-n", "2000", "-depth", "4"]}],
        "trusted_base": ["translator: `harness gen-errors` parses /repo/errors.go with go/ast AND constructs every error at run time (errors.As), writing both category columns into coq/gen/ErrCat.v; models: ArrayTree.v, MapElems.v, Storage.v"],
        "level_text": "Proved: every error constructor of errors.go carries the category the property demands for its cause, statically and at run time, and no constructor is uncategorised (C18_categories, _runtime, _expected_present, _all_categorised: finite generated table checked by computation); in the array, map-element and storage models a request answered by an error leaves the whole state (incl. allocator) unchanged and issues no storage call (C18_array_no_trace, C18_map_no_trace, C18_storage_undefined_id), errors arise exactly for out-of-range indices / invalid ranges / absent keys / refused inserts (C18_array_rejects*, C18_array_range_rejects_exactly, C18_map_rejects_exactly, C18_map_set_rejects_exactly), and a history with its rejected requests removed reaches the same state with the same storage-call log (C18_history, C18_map_history). Tie: invalid requests injected into array histories in lock step (dump before = after), and for maps/nested forests/twins/callback failures at every call index the Go-side oracles (deep dump, Deltas, allocator, register equality of twins, ExternalError).",
        "level_note": "PARTIAL: callback-failure wrapping (ExternalError), ancestors of nested containers and twin register equality are tested on the implementation, not proved. Observations (events, not violations): a failing custom Digester at level >= 1 is swallowed in inlineCollisionGroup.Get; a transient comparator failure in the collision-limit pre-check of hkeyElements.Set is discarded." + GEN_NOTE,
        "technique": "Coq proof (generated error-category table by computation; no-trace and history-filter theorems over the array/map/storage models) + lock-step and Go-side no-trace oracles",
    },
    "C09": {
        "props": ["props/C09_array.v"],
        "coq_module": "ArrayTrace", "coq_check": "chk_array",
        "runs": {"quick": [{"cmd": ["array", "-prop", "C09", "-n", "60", "-steps", "300"], "engine": "array", "coq_sample": 2},
                           {"cmd": ["world", "-prop", "C09", "-n", "150", "-steps", "300"]}],
                 "thorough": [{"cmd": ["array", "-prop", "C09", "-n", "1500", "-steps", "600"], "engine": "array", "coq_sample": 6, "timeout": 2400},
                              {"cmd": ["world", "-prop", "C09", "-n", "4000", "-steps", "400"], "timeout": 2400}]},
        "search": [{"cmd": ["world", "-prop", "C09", "-n", "800", "-steps", "300"]}, {"cmd": ["array", "-prop", "C09", "-n", "300", "-steps", "500"]}],
        "trusted_base": ["model: coq/theories/ArrayTree.v (slab-index allocator, storeSlab/Remove log, external value slabs) — arrays only; maps, collision-group slabs and inline/standalone transitions are covered by the Go-side oracles"],
        "level_text": "Proved for every reachable array and every operation (C09_array_ids): slab identifiers stay duplicate-free and below the allocator, the root identifier is constant, and the EXACT accounting holds: new tree = old tree + freshly allocated indexes - slabs removed in the log - the external slab of the element handed back to the caller (a permutation equation), so nothing leaks, dangles or is owned twice as long as the caller disposes of what it is handed; emptying by PopIterate removes every non-root slab exactly once and leaves only the root (C09_array_empty_releases_all). Tie: array lock-step (ids, logs, allocator); Go-side after every operation of random nested worlds (arrays+maps, inline<->standalone transitions, external collision groups, large values, detach/dispose): CheckStorageHealth, set of live register ids = ids reachable from the live roots, and after disposing everything the storage is empty.",
        "level_note": "PARTIAL: the theorem covers arrays; for maps and nested containers the property is checked by the harness's own reachability walk and by the (proved sound and complete, C20) health check on every visited state." + GEN_NOTE,
        "technique": "Coq proof (identifier accounting as a permutation invariant over operation logs) + lock-step correspondence + reachability oracle on the implementation",
    },
    "C13": {
        "props": ["props/C13_array_links.v", "props/C13_map_elems.v", "props/C13_loaded.v"],
        "coq_module": "ArrayTrace", "coq_check": "chk_array",
        "runs": {"quick": [{"cmd": ["array", "-prop", "C13", "-n", "60", "-steps", "300"], "engine": "array", "coq_sample": 2},
                           {"cmd": ["mapelems", "-prop", "C13", "-n", "200", "-steps", "300"], "engine": "mapelems"},
                           {"cmd": ["iter", "-prop", "C13", "-n", "150"]}],
                 "thorough": [{"cmd": ["array", "-prop", "C13", "-n", "1500", "-steps", "600"], "engine": "array", "coq_sample": 6, "timeout": 2400},
                              {"cmd": ["iter", "-prop", "C13", "-n", "6000", "-mode", "thorough"], "timeout": 3000},
                              {"cmd": ["mapelems", "-prop", "C13", "-n", "5000", "-steps", "300"], "engine": "mapelems", "timeout": 2400}]},
        "search": [{"cmd": ["array", "-prop", "C13", "-n", "300", "-steps", "500"]}, {"cmd": ["mapelems", "-prop", "C13", "-n", "1000", "-steps", "300"]}],
        "trusted_base": ["models: ArrayTree.v (iteration = to_list, pop order, range validation, sibling links), MapElems.v (to_list order, pop order, next-key iteration)"],
        "level_text": "Proved: for every reachable array the traversal from the first data slab along the sibling links yields exactly the elements in index order without running out of fuel (C13_array_follow_links); for every well-formed map element structure and every digest assignment the enumeration is strictly sorted by the digest vector with no duplicate key, bulk pop is its reverse, and the mutable iterator (first key, then repeated next-key lookup) enumerates exactly the same list (C13_map_order, C13_pop_order, C13_next_key_iteration); the array loaded-value iterator yields, for EVERY set of loaded slabs, an in-order sublist of the full enumeration, never repeats, yields an element exactly when every slab on its path and its value slab are loaded, and yields everything when all slabs are loaded (C13_loaded_sublist, _once, _exact, _all). Tie: every iterator flavour of arrays and maps (iterator objects, Iterate*, ranges at slab boundaries, keys/values only, loaded values under random loaded subsets, pop) at ~1800 checkpoints per quick run, in-iteration overwrites causing splits/merges/group transitions, nested-child mutation through yielded handles, read-only mutation errors, invalid ranges rejected before any callback; read-only iteration, ranges (valid and invalid), pop order and positional reads compared per checkpoint in the array lock-step; iterate/pop/next-key in the map-element lock-step under adversarial digesters.",
        "level_note": "PARTIAL: mutation during iteration and the map loaded-value iterator are exercised on the implementation only (exact-formula oracle from the hook's tree walk); map theorems are at element level (C12's model)." + GEN_NOTE,
        "technique": "Coq proof (sibling-link traversal = to_list; sortedness/next-key enumeration for all digest functions) + lock-step iteration comparison",
    },
    "C20": {
        "props": ["props/C20.v"],
        "coq_module": "HealthTrace", "coq_check": "chk_health",
        "runs": {"quick": [{"cmd": ["health", "-prop", "C20", "-n", "40", "-steps", "300"], "engine": "health", "coq_sample": 2}],
                 "thorough": [{"cmd": ["health", "-prop", "C20", "-n", "300", "-steps", "400", "-mode", "full"], "engine": "health", "coq_sample": 5, "timeout": 2400}]},
        "search": [{"cmd": ["health", "-prop", "C20", "-n", "120", "-steps", "300", "-mode", "full"]}],
        "trusted_base": ["model: coq/theories/Health.v (transcription of CheckStorageHealth incl. the repair for missing referenced slabs, and of GetAllChildReferences) over an abstract slab graph (slab -> references in order); the slab iterator and the flattening of ChildStorables through inlined children/wrappers are not modelled (the harness's own graph walk supplies the graph)"],
        "level_text": "Soundness AND completeness of the health check proved for every slab graph and every iteration order (C20_sound, C20_complete), every single corruption of the four kinds is rejected (C20_corruptions, C20_rejects), GetAllChildReferences returns exactly the reachable present / broken references (C20_all_child_refs*). The pre-repair algorithm is refuted by a 2-slab witness (C20_sound_refuted_old = finding F1, fixed). Tie: healthy storages from random nested histories, then every slab x every corruption kind x deletion route; verdict and root set compared with the model and with the harness's own graph analysis.",
        "level_note": "The walk-up loop of CheckStorageHealth has no cycle guard: on a reference cycle with a leaf hanging off it the Go function does not terminate (model: EFuel); outside the four corruption kinds of the property, recorded as an observation." + GEN_NOTE,
        "technique": "Coq proof (soundness/completeness of the transcribed graph algorithm for all graphs and iteration orders) + lock-step correspondence on corrupted storages",
    },
}

NOT_APPLICABLE = {p: "not yet built in this revision (work in progress; see DESIGN.md section 6 build order)" for p in
                  ["C01","C05","C10","C11","C17"]}
