#!/usr/bin/env python3
"""tools/seed_confirm.py <agentdir e.g. /tmp/mutA> <i> <property> <seedid>
Confirms a proposed regression in a scratch worktree (full suite passes with it, demonstration fails with it
and passes without it) and, if confirmed, stores it as /verif/seeded/<seedid>/."""
import sys, os, subprocess, json, re, shutil, time
src, i, prop, sid = sys.argv[1], sys.argv[2], sys.argv[3], sys.argv[4]
out = os.path.join(src, "out")
patch = os.path.join(out, "patch%s.diff" % i)
demo = os.path.join(out, "demo%s_test.go" % i)
wt = "/tmp/sc-%s/wt" % sid
env = dict(os.environ, GOFLAGS="-mod=mod", GOPROXY="off")
def sh(cmd, cwd=None, timeout=4000):
    p = subprocess.run(cmd, cwd=cwd, env=env, stdout=subprocess.PIPE, stderr=subprocess.STDOUT, text=True, timeout=timeout, shell=isinstance(cmd, str))
    return p.returncode, p.stdout
shutil.rmtree("/tmp/sc-%s" % sid, ignore_errors=True)
sh("git -C /repo worktree prune")
rc, o = sh("git -C /repo worktree add --detach %s HEAD" % wt)
assert rc == 0, o
res = {"property": prop, "seed": sid, "source": "%s change %s" % (src, i)}
try:
    tests = re.findall(r'func (Test\w+)', open(demo).read())
    pat = "^(" + "|".join(tests) + ")$"
    shutil.copy(demo, os.path.join(wt, "zz_seed_demo_test.go"))
    rc, o = sh(["go", "test", "-vet=off", "-count=1", "-run", pat, "."], cwd=wt)
    res["demo_without_change"] = "pass" if rc == 0 else "FAIL"
    rc, o = sh(["git", "apply", patch], cwd=wt)
    assert rc == 0, "patch does not apply: " + o
    rc, o = sh(["go", "test", "-vet=off", "-count=1", "-run", pat, "."], cwd=wt)
    res["demo_with_change"] = "fail" if rc != 0 else "PASS"
    res["demo_output_tail"] = o[-600:]
    os.remove(os.path.join(wt, "zz_seed_demo_test.go"))
    t0 = time.time()
    rc, o = sh("go build ./... && go test -vet=off -count=1 -timeout 40m ./...", cwd=wt)
    res["suite_with_change"] = "pass" if rc == 0 else "FAIL"
    res["suite_wall_s"] = round(time.time() - t0)
    if rc != 0:
        res["suite_tail"] = o[-800:]
finally:
    sh("git -C /repo worktree remove --force %s" % wt)
    sh("git -C /repo worktree prune")
    shutil.rmtree("/tmp/sc-%s" % sid, ignore_errors=True)
ok = res.get("demo_without_change") == "pass" and res.get("demo_with_change") == "fail" and res.get("suite_with_change") == "pass"
res["confirmed"] = ok
print(json.dumps(res, indent=1))
if ok:
    d = os.path.join("/verif/seeded", sid)
    os.makedirs(d, exist_ok=True)
    shutil.copy(patch, os.path.join(d, "patch.diff"))
    shutil.copy(demo, os.path.join(d, "demo_test.go.txt"))
    notes = os.path.join(out, "notes%s.md" % i)
    needs = open(notes).read()[:3000] if os.path.exists(notes) else ""
    json.dump({"property": prop, "id": sid, "breaks": prop, "needs_to_manifest": needs,
               "confirmed_by": "tools/seed_confirm.py in a scratch worktree: demo passes on unchanged code, fails with the change; `go build ./... && go test -vet=off -count=1 -timeout 40m ./...` passes with the change",
               "confirmation": res}, open(os.path.join(d, "meta.json"), "w"), indent=1)
