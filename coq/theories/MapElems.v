(* MapElems.v — element level of atree's OrderedMap (map_element.go, map_elements_hashkey.go,
   map_elements_nokey.go): one logical map = ONE [hkeyElements] at level 0.  How the level-0
   elements are distributed over data slabs / index slabs is modelled elsewhere (splitting and
   merging never change the element structure).

   Keys and values are (identity, encoded size) pairs; key equality = identity equality (the
   harness comparator).  The digest assignment [dg : key identity -> level -> digest] is a
   parameter and every theorem quantifies over it.  [levels] is the number of digest levels
   (Go: Digester.Levels() = 4); elements below the last level are kept in list mode.

   The recursion of Get/Set/Remove is on fuel, because singleElement.Set builds a NEW group and
   calls Set on it (not structural).  [op_fuel] is proved sufficient under the invariant.
   Cached sizes are updated exactly as the Go code does (incrementally, or recomputed where the
   Go code recomputes).  uint32 arithmetic is modelled in unbounded N; the only subtraction
   [size += new - old] is written [(size + new) - old].

   No proofs in this file. *)
From Coq Require Import ZArith NArith List Bool Arith.
From AtreeGen Require Import Consts.
Import ListNotations.
Local Open Scope N_scope.

Record kv : Type := mkkv { kid : N; ksz : N }.

Definition kv_eqb (a b : kv) : bool := (kid a =? kid b) && (ksz a =? ksz b).

(* element / elements.  [EGroup None g] is inlineCollisionGroup, [EGroup (Some slab) g] is
   externalCollisionGroup whose MapDataSlab [slab] holds [g]. *)
Inductive melem : Type :=
| ESingle (k v : kv)
| EGroup (loc : option N) (g : melems)
with melems : Type :=
| HKey (level : nat) (hkeys : list N) (es : list melem) (size : N)     (* hkeyElements *)
| SList (level : nat) (kvs : list (kv * kv)) (size : N).                (* singleElements *)

Notation EInline g := (EGroup None g).
Notation EExternal s g := (EGroup (Some s) g).

Inductive merr : Type := EKeyNotFound | ECollisionLimit | EInternal.

Inductive wev : Type := WStore (id : N) | WRemove (id : N).

Definition dict : Type := list (kv * kv).

(* ---------- sizes, counts ---------- *)

Definition ssize (k v : kv) : N := c_singleElementPrefixSize + ksz k + ksz v.   (* singleElement.size *)

Definition msize (g : melems) : N := match g with HKey _ _ _ s => s | SList _ _ s => s end.  (* elements.Size() *)

Definition esize (e : melem) : N :=                                              (* element.Size() *)
  match e with
  | ESingle k v => ssize k v
  | EGroup None g => c_inlineCollisionGroupPrefixSize + msize g
  | EGroup (Some _) _ => c_externalCollisionGroupPrefixSize + c_slabIDStorableSize
  end.

Definition gcount (g : melems) : nat :=                                          (* elements.Count() *)
  match g with HKey _ _ es _ => length es | SList _ kvs _ => length kvs end.

Definition ecount (e : melem) : nat :=                                           (* element.Count() *)
  match e with ESingle _ _ => 1%nat | EGroup _ g => gcount g end.

Definition is_group (e : melem) : bool := match e with ESingle _ _ => false | EGroup _ _ => true end.

Definition mlevel (g : melems) : nat := match g with HKey l _ _ _ => l | SList l _ _ => l end.

(* the loops "size := prefix; for e in elems { size += e.Size() + digestSize }" *)
Definition hk_recompute (es : list melem) : N :=
  fold_left (fun s e => s + (esize e + c_digestSize)) es c_hkeyElementsPrefixSize.
Definition sl_recompute (kvs : list (kv * kv)) : N :=
  fold_left (fun s p => s + ssize (fst p) (snd p)) kvs c_singleElementsPrefixSize.

(* ---------- list helpers (slices.Insert / slices.Delete / elems[i] = x) ---------- *)

Definition insert_at {A} (i : nat) (x : A) (l : list A) : list A := firstn i l ++ x :: skipn i l.
Definition delete_at {A} (i : nat) (l : list A) : list A := firstn i l ++ skipn (S i) l.
Definition replace_at {A} (i : nat) (x : A) (l : list A) : list A := firstn i l ++ x :: skipn (S i) l.

(* index of the first pair whose key identity is k (linear search of singleElements.get) *)
Fixpoint find_key (k : N) (kvs : list (kv * kv)) : option nat :=
  match kvs with
  | [] => None
  | p :: r => if kid (fst p) =? k then Some O else option_map S (find_key k r)
  end.

(* the binary search of hkeyElements.getElement / Set / Remove:
     i, j := 0, len; for i < j { h := (i+j)>>1; if hkeys[h] > hkey { lessThanIndex = h; j = h }
                                 else if hkeys[h] < hkey { i = h+1 } else { equalIndex = h; break } }
   returns (equalIndex, lessThanIndex). *)
Fixpoint bsearch (fuel : nat) (hks : list N) (h : N) (i j lt : nat) : option nat * nat :=
  match fuel with
  | O => (None, lt)
  | S f =>
    if (i <? j)%nat then
      let m := ((i + j) / 2)%nat in
      let x := nth m hks 0 in
      if h <? x then bsearch f hks h i m m
      else if x <? h then bsearch f hks h (S m) j lt
      else (Some m, lt)
    else (None, lt)
  end.

Definition hk_search (hks : list N) (h : N) : option nat * nat :=
  bsearch (S (length hks)) hks h 0 (length hks) 0.

Section model.
  Variable dg : N -> nat -> N.          (* digest of key identity at level *)
  Variable levels : nat.                (* Digester.Levels() *)
  Variable max_inline_elem : N.         (* maxInlineMapElementSize *)
  Variable limit : N.                   (* maxCollisionLimitPerDigest *)

  (* ---------- Get ---------- *)

  Fixpoint get_elem (fuel : nat) (e : melem) (l : nat) (k : N) {struct fuel} : merr + (kv * kv) :=
    match fuel with
    | O => inl EInternal
    | S f =>
      match e with
      | ESingle k0 v0 => if kid k0 =? k then inr (k0, v0) else inl EKeyNotFound
      | EGroup _ g =>
        let l' := S l in
        if (levels <? l')%nat then inl EInternal else get_elems f g l' k
      end
    end
  with get_elems (fuel : nat) (g : melems) (l : nat) (k : N) {struct fuel} : merr + (kv * kv) :=
    match fuel with
    | O => inl EInternal
    | S f =>
      match g with
      | HKey _ hks es _ =>
        if (levels <=? l)%nat then inl EInternal else
        match fst (hk_search hks (dg k l)) with
        | None => inl EKeyNotFound
        | Some i => match nth_error es i with Some e => get_elem f e l k | None => inl EInternal end
        end
      | SList _ kvs _ =>
        if negb (l =? levels)%nat then inl EInternal else
        match find_key k kvs with
        | Some i => match nth_error kvs i with Some p => inr p | None => inl EInternal end
        | None => inl EKeyNotFound
        end
      end
    end.

  (* ---------- Set ---------- *)

  (* result: new element(s), previous value (None = new key), allocator, storage events *)
  Definition sret (A : Type) : Type := (A * option kv * N * list wev)%type.

  Fixpoint set_elem (fuel : nat) (e : melem) (l : nat) (k v : kv) (a : N) {struct fuel} : merr + sret melem :=
    match fuel with
    | O => inl EInternal
    | S f =>
      match e with
      | ESingle k0 v0 =>
        if kid k0 =? kid k then inr (ESingle k0 v, Some v0, a, [])         (* key storable is kept *)
        else if (S l =? levels)%nat then
          set_elem f (EGroup None (SList (S l) [(k0, v0)] (c_singleElementsPrefixSize + ssize k0 v0))) l k v a
        else
          set_elem f (EGroup None (HKey (S l) [dg (kid k0) (S l)] [e]
                                        (c_hkeyElementsPrefixSize + c_digestSize + esize e))) l k v a
      | EGroup None g =>
        let l' := S l in
        if (levels <? l')%nat then inl EInternal else
        match set_elems f g l' k v a with
        | inl err => inl err
        | inr (g', prev, a', evs) =>
          if (l' =? 1)%nat && (max_inline_elem <? c_inlineCollisionGroupPrefixSize + msize g')
          then inr (EGroup (Some a') g', prev, a' + 1, evs ++ [WStore a'])   (* spill to its own slab *)
          else inr (EGroup None g', prev, a', evs)
        end
      | EGroup (Some id) g =>
        let l' := S l in
        if (levels <? l')%nat then inl EInternal else
        match set_elems f g l' k v a with
        | inl err => inl err
        | inr (g', prev, a', evs) => inr (EGroup (Some id) g', prev, a', evs ++ [WStore id])
        end
      end
    end
  with set_elems (fuel : nat) (g : melems) (l : nat) (k v : kv) (a : N) {struct fuel} : merr + sret melems :=
    match fuel with
    | O => inl EInternal
    | S f =>
      match g with
      | HKey lv hks es sz =>
        if (levels <=? l)%nat then inl EInternal else
        let h := dg (kid k) l in
        let nsz := c_digestSize + ssize k v in
        match hks with
        | [] => inr (HKey lv [h] [ESingle k v] (sz + nsz), None, a, [])
        | h0 :: _ =>
          if h <? h0 then inr (HKey lv (insert_at 0 h hks) (insert_at 0 (ESingle k v) es) (sz + nsz), None, a, [])
          else if last hks 0 <? h then inr (HKey lv (hks ++ [h]) (es ++ [ESingle k v]) (sz + nsz), None, a, [])
          else
            match hk_search hks h with
            | (Some i, _) =>
              match nth_error es i with
              | None => inl EInternal
              | Some e =>
                let refused :=
                  if (lv =? 0)%nat then
                    if (ecount e =? 0)%nat then Some EInternal
                    else if limit <=? N.of_nat (ecount e - 1) then
                      match get_elem f e l (kid k) with
                      | inl EKeyNotFound => Some ECollisionLimit
                      | _ => None
                      end
                    else None
                  else None in
                match refused with
                | Some err => inl err
                | None =>
                  match set_elem f e l k v a with
                  | inl err => inl err
                  | inr (e', prev, a', evs) =>
                    let es' := replace_at i e' es in
                    inr (HKey lv hks es' (hk_recompute es'), prev, a', evs)
                  end
                end
              end
            | (None, lt) =>
              inr (HKey lv (insert_at lt h hks) (insert_at lt (ESingle k v) es) (sz + nsz), None, a, [])
            end
        end
      | SList lv kvs sz =>
        if negb (l =? levels)%nat then inl EInternal else
        match find_key (kid k) kvs with
        | Some i =>
          match nth_error kvs i with
          | None => inl EInternal
          | Some (k0, v0) =>
            let kvs' := replace_at i (k0, v) kvs in
            inr (SList lv kvs' (sl_recompute kvs'), Some v0, a, [])
          end
        | None => inr (SList lv (kvs ++ [(k, v)]) (sz + ssize k v), None, a, [])
        end
      end
    end.

  (* ---------- Remove ---------- *)

  (* result: updated element (None = element disappears), removed pair, storage events *)
  Definition rret (A : Type) : Type := (A * (kv * kv) * list wev)%type.

  (* tail of inlineCollisionGroup.Remove / externalCollisionGroup.Remove after the group's elements
     [g'] were updated: "if there is only one single element in this group, return the single
     element" (and remove the external slab); otherwise the group itself.  MapDataSlab.Remove has
     stored the external slab before. *)
  Definition collapse_group (loc : option N) (g' : melems) (kvp : kv * kv) (evs : list wev)
    : merr + rret (option melem) :=
    let evs1 := match loc with Some id => evs ++ [WStore id] | None => evs end in
    let evs2 := match loc with Some id => evs1 ++ [WRemove id] | None => evs1 end in
    let keep := inr (Some (EGroup loc g'), kvp, evs1) in
    if (gcount g' =? 1)%nat then
      match g' with
      | HKey _ _ [e1] _ => if is_group e1 then keep else inr (Some e1, kvp, evs2)
      | SList _ [(k1, v1)] _ => inr (Some (ESingle k1 v1), kvp, evs2)
      | _ => keep
      end
    else keep.

  Fixpoint remove_elem (fuel : nat) (e : melem) (l : nat) (k : N) {struct fuel} : merr + rret (option melem) :=
    match fuel with
    | O => inl EInternal
    | S f =>
      match e with
      | ESingle k0 v0 => if kid k0 =? k then inr (None, (k0, v0), []) else inl EKeyNotFound
      | EGroup loc g =>
        let l' := S l in
        if (levels <? l')%nat then inl EInternal else
        match remove_elems f g l' k with
        | inl err => inl err
        | inr (g', kvp, evs) => collapse_group loc g' kvp evs
        end
      end
    end
  with remove_elems (fuel : nat) (g : melems) (l : nat) (k : N) {struct fuel} : merr + rret melems :=
    match fuel with
    | O => inl EInternal
    | S f =>
      match g with
      | HKey lv hks es sz =>
        if (levels <=? l)%nat then inl EInternal else
        let h := dg k l in
        match hks with
        | [] => inl EKeyNotFound
        | h0 :: _ =>
          if (h <? h0) || (last hks 0 <? h) then inl EKeyNotFound else
          match fst (hk_search hks h) with
          | None => inl EKeyNotFound
          | Some i =>
            match nth_error es i with
            | None => inl EInternal
            | Some e =>
              let old := esize e in
              match remove_elem f e l k with
              | inl err => inl err
              | inr (None, kvp, evs) =>
                inr (HKey lv (delete_at i hks) (delete_at i es) (sz - (c_digestSize + old)), kvp, evs)
              | inr (Some e', kvp, evs) =>
                inr (HKey lv hks (replace_at i e' es) ((sz + esize e') - old), kvp, evs)
              end
            end
          end
        end
      | SList lv kvs sz =>
        if negb (l =? levels)%nat then inl EInternal else
        match find_key k kvs with
        | Some i =>
          match nth_error kvs i with
          | None => inl EInternal
          | Some (k0, v0) => inr (SList lv (delete_at i kvs) (sz - ssize k0 v0), (k0, v0), [])
          end
        | None => inl EKeyNotFound
        end
      end
    end.

  (* ---------- iteration ---------- *)

  (* elements.Iterate: ascending *)
  Fixpoint to_list_e (e : melem) : dict :=
    match e with ESingle k v => [(k, v)] | EGroup _ g => to_list g end
  with to_list (g : melems) : dict :=
    match g with HKey _ _ es _ => flat_map to_list_e es | SList _ kvs _ => kvs end.

  (* elements.PopIterate: elements backwards, each element recursively backwards; external slabs
     are removed after their elements were visited *)
  Fixpoint pop_list_e (e : melem) : dict * list wev :=
    match e with
    | ESingle k v => ([(k, v)], [])
    | EGroup loc g =>
      let '(d, evs) := pop_list g in
      (d, match loc with Some id => evs ++ [WRemove id] | None => evs end)
    end
  with pop_list (g : melems) : dict * list wev :=
    match g with
    | HKey _ _ es _ =>
      fold_left (fun acc e => let '(d, evs) := pop_list_e e in (d ++ fst acc, evs ++ snd acc)) es ([], [])
    | SList _ kvs _ => (rev kvs, [])
    end.

  (* firstKeyInElement / firstKeyInElements *)
  Fixpoint first_key_e (e : melem) : option kv :=
    match e with ESingle k _ => Some k | EGroup _ g => first_key g end
  with first_key (g : melems) : option kv :=
    match g with
    | HKey _ _ es _ => match es with [] => None | e :: _ => first_key_e e end
    | SList _ kvs _ => match kvs with [] => None | p :: _ => Some (fst p) end
    end.

  (* getElementAndNextKey: (key, value, next key) *)
  Fixpoint next_elem (fuel : nat) (e : melem) (l : nat) (k : N) {struct fuel} : merr + (kv * kv * option kv) :=
    match fuel with
    | O => inl EInternal
    | S f =>
      match e with
      | ESingle k0 v0 => if kid k0 =? k then inr (k0, v0, None) else inl EKeyNotFound
      | EGroup _ g =>
        let l' := S l in
        if (levels <? l')%nat then inl EInternal else next_elems f g l' k
      end
    end
  with next_elems (fuel : nat) (g : melems) (l : nat) (k : N) {struct fuel} : merr + (kv * kv * option kv) :=
    match fuel with
    | O => inl EInternal
    | S f =>
      match g with
      | HKey _ hks es _ =>
        if (levels <=? l)%nat then inl EInternal else
        match fst (hk_search hks (dg k l)) with
        | None => inl EKeyNotFound
        | Some i =>
          match nth_error es i with
          | None => inl EInternal
          | Some e =>
            match next_elem f e l k with
            | inl err => inl err
            | inr (k0, v0, Some nk) => inr (k0, v0, Some nk)
            | inr (k0, v0, None) =>
              match nth_error es (S i) with
              | Some e2 => inr (k0, v0, first_key_e e2)
              | None => inr (k0, v0, None)
              end
            end
          end
        end
      | SList _ kvs _ =>
        if negb (l =? levels)%nat then inl EInternal else
        match find_key k kvs with
        | Some i =>
          match nth_error kvs i with
          | None => inl EInternal
          | Some (k0, v0) => inr (k0, v0, option_map fst (nth_error kvs (S i)))
          end
        | None => inl EKeyNotFound
        end
      end
    end.

  (* enough fuel for every operation on a structure of depth <= levels *)
  Definition op_fuel : nat := (3 * levels + 4)%nat.

  (* mutable iteration: first key, then repeatedly the next key (map_iterator.go) *)
  Fixpoint iter_next (n : nat) (g : melems) (cur : option kv) : list (kv * kv) :=
    match n, cur with
    | S n', Some k =>
      match next_elems op_fuel g 0 (kid k) with
      | inr (k0, v0, nk) => (k0, v0) :: iter_next n' g nk
      | inl _ => []
      end
    | _, _ => []
    end.

  (* ---------- the map as a whole: root elements, count (extra data), allocator ---------- *)

  Record mstate : Type := mkst { m_root : melems; m_count : N; m_next : N }.

  Definition m_init (next : N) : mstate := mkst (HKey 0 [] [] c_hkeyElementsPrefixSize) 0 next.

  Inductive mop : Type :=
  | OSet (k v : kv) | OGet (k : N) | OHas (k : N) | ORemove (k : N) | OCount | OIterate | OIterNext | OPop.

  Inductive mout : Type :=
  | RPrev (prev : option kv)            (* Set: previous value *)
  | RVal (v : kv)                       (* Get *)
  | RBool (b : bool)                    (* Has *)
  | RPair (k v : kv)                    (* Remove *)
  | RCount (n : N)
  | RList (d : dict)                    (* iteration / pop *)
  | RErr (e : merr).

  Definition m_step (s : mstate) (o : mop) : mstate * mout * list wev :=
    match o with
    | OSet k v =>
      match set_elems op_fuel (m_root s) 0 k v (m_next s) with
      | inl err => (s, RErr err, [])
      | inr (g', prev, a', evs) =>
        (mkst g' (match prev with None => m_count s + 1 | Some _ => m_count s end) a', RPrev prev, evs)
      end
    | OGet k =>
      match get_elems op_fuel (m_root s) 0 k with
      | inl err => (s, RErr err, [])
      | inr (_, v) => (s, RVal v, [])
      end
    | OHas k =>
      match get_elems op_fuel (m_root s) 0 k with
      | inl EKeyNotFound => (s, RBool false, [])
      | inl err => (s, RErr err, [])
      | inr _ => (s, RBool true, [])
      end
    | ORemove k =>
      match remove_elems op_fuel (m_root s) 0 k with
      | inl err => (s, RErr err, [])
      | inr (g', (k0, v0), evs) => (mkst g' (m_count s - 1) (m_next s), RPair k0 v0, evs)
      end
    | OCount => (s, RCount (m_count s), [])
    | OIterate => (s, RList (to_list (m_root s)), [])
    | OIterNext => (s, RList (iter_next (S (length (to_list (m_root s)))) (m_root s) (first_key (m_root s))), [])
    | OPop =>
      let '(d, evs) := pop_list (m_root s) in
      (mkst (HKey 0 [] [] c_hkeyElementsPrefixSize) 0 (m_next s), RList d, evs)   (* newHkeyElements(0) *)
    end.

  Fixpoint m_run (s : mstate) (ops : list mop) : mstate * list mout :=
    match ops with
    | [] => (s, [])
    | o :: r => let '(s1, x, _) := m_step s o in let '(s2, xs) := m_run s1 r in (s2, x :: xs)
    end.

  (* ---------- specification: a dictionary kept in canonical order ---------- *)

  (* lexicographic comparison of the digest vectors of two key identities on levels l .. l+n-1 *)
  Fixpoint dlt (n l : nat) (a b : N) : bool :=
    match n with
    | O => false
    | S n' => if dg a l <? dg b l then true else if dg a l =? dg b l then dlt n' (S l) a b else false
    end.
  Definition key_lt (a b : N) : bool := dlt levels 0 a b.

  Fixpoint d_get (d : dict) (k : N) : option (kv * kv) :=
    match d with
    | [] => None
    | p :: r => if kid (fst p) =? k then Some p else d_get r k
    end.

  Fixpoint d_replace (d : dict) (k : N) (v : kv) : dict :=
    match d with
    | [] => []
    | p :: r => if kid (fst p) =? k then (fst p, v) :: r else p :: d_replace r k v
    end.

  (* insert after every entry that is not greater: ties (all digests equal) keep insertion order *)
  Fixpoint d_ins_from (n l : nat) (d : dict) (k v : kv) : dict :=
    match d with
    | [] => [(k, v)]
    | p :: r => if dlt n l (kid k) (kid (fst p)) then (k, v) :: p :: r else p :: d_ins_from n l r k v
    end.
  Definition d_ins (d : dict) (k v : kv) : dict := d_ins_from levels 0 d k v.

  Fixpoint d_remove (d : dict) (k : N) : dict :=
    match d with
    | [] => []
    | p :: r => if kid (fst p) =? k then r else p :: d_remove r k
    end.

  Definition d_set (d : dict) (k v : kv) : dict :=
    match d_get d (kid k) with Some _ => d_replace d (kid k) v | None => d_ins d k v end.

  (* the quantity the limit is compared with, from the key set and the digests only:
     number of distinct second-level digests among the stored keys whose first-level digest is h
     (with a single digest level: the number of such keys) *)
  Definition subkey (k : N) : N := if (1 <? levels)%nat then dg k 1 else k.
  Fixpoint ndistinct (l : list N) : nat :=
    match l with
    | [] => O
    | x :: r => if existsb (N.eqb x) r then ndistinct r else S (ndistinct r)
    end.
  Definition fanout (d : dict) (h : N) : nat :=
    ndistinct (map subkey (filter (fun k => dg k 0 =? h) (map (fun p => kid (fst p)) d))).

  Definition refused (d : dict) (k : N) : bool :=
    match d_get d k with
    | Some _ => false
    | None => (1 <=? fanout d (dg k 0))%nat && (limit <=? N.of_nat (fanout d (dg k 0) - 1))
    end.

  (* dictionary machine with the same operations *)
  Definition d_step (d : dict) (o : mop) : dict * mout :=
    match o with
    | OSet k v =>
      if refused d (kid k) then (d, RErr ECollisionLimit)
      else (d_set d k v, RPrev (option_map snd (d_get d (kid k))))
    | OGet k => match d_get d k with Some p => (d, RVal (snd p)) | None => (d, RErr EKeyNotFound) end
    | OHas k => match d_get d k with Some _ => (d, RBool true) | None => (d, RBool false) end
    | ORemove k =>
      match d_get d k with
      | Some p => (d_remove d k, RPair (fst p) (snd p))
      | None => (d, RErr EKeyNotFound)
      end
    | OCount => (d, RCount (N.of_nat (length d)))
    | OIterate => (d, RList d)
    | OIterNext => (d, RList d)
    | OPop => ([], RList (rev d))
    end.

  Fixpoint d_run (d : dict) (ops : list mop) : dict * list mout :=
    match ops with
    | [] => (d, [])
    | o :: r => let '(d1, x) := d_step d o in let '(d2, xs) := d_run d1 r in (d2, x :: xs)
    end.
End model.
