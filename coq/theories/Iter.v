(* Iter.v — loaded-value iteration of an Array (array_iterator.go 166-308, array.go
   ReadOnlyLoadedValueIterator / IterateReadOnlyLoadedValues, storable.go getLoadedValue) as a
   function of the slab tree of ArrayTree.v and of the set of slabs that are in memory.

   [loaded id] = SlabStorage.RetrieveIfLoaded(id) is non-nil (the slab with index id is in the
   write set or in the read cache).  The root slab is held by the *Array itself (a.root) and is
   never looked up.

   What the Go code does:
   - arrayLoadedSlabIterator.next: walk the parent's COPY of the child headers (childrenHeaders)
     left to right, look each child up by header.slabID with RetrieveIfLoaded, skip it if nil,
     otherwise hand the slab found under that identifier to the caller;
   - ArrayLoadedValueIterator.nextDataIterator: a LIFO stack of such slab iterators = depth-first,
     left-to-right traversal of the loaded part of the tree;
   - arrayLoadedElementIterator.next / getLoadedValue: an element whose storable is a SlabIDStorable
     (value in its own slab: large value, or not-inlined child container; also inside a wrapper) is
     skipped when that slab is not loaded; every other element is yielded.
   The model pairs the k-th header copy with the k-th child node ([combine hs cs]): the tree model
   identifies "the slab stored under hs[k].slabID" with child k. *)
From Coq Require Import NArith ZArith List Bool.
From AtreeModel Require Import ArrayTree.
Import ListNotations.
Local Open Scope N_scope.

(* getLoadedValue: e_ext = 0 means the storable is not a slab reference *)
Definition elem_loaded (loaded : N -> bool) (e : elem) : bool :=
  (e_ext e =? 0) || loaded (e_ext e).

(* one slab iterator: children (k-th header copy, k-th node) whose identifier is loaded, each
   expanded by [f]; stops at the shorter of the two lists *)
Definition visit_children {B : Type} (loaded : hdr -> bool) (f : hdr -> anode -> list B)
  : list hdr -> list anode -> list B :=
  fix go (hs : list hdr) (cs : list anode) {struct cs} : list B :=
    match cs, hs with
    | c :: cs', h :: hs' => (if loaded h then f h c else []) ++ go hs' cs'
    | _, _ => []
    end.

Fixpoint iter_loaded (loaded : N -> bool) (n : anode) : list elem :=
  match n with
  | AD _ _ es => filter (elem_loaded loaded) es
  | AM _ hs _ cs =>
    visit_children (fun h => loaded (h_id h)) (fun _ c => iter_loaded loaded c) hs cs
  end.

(* Array.IterateReadOnlyLoadedValues on an array value *)
Definition a_iter_loaded (loaded : N -> bool) (a : arr) : list elem := iter_loaded loaded (a_root a).

(* in-order subsequence (std List has none) *)
Inductive sublist {A : Type} : list A -> list A -> Prop :=
| sl_nil : sublist [] []
| sl_skip : forall x l1 l2, sublist l1 l2 -> sublist l1 (x :: l2)
| sl_cons : forall x l1 l2, sublist l1 l2 -> sublist (x :: l1) (x :: l2).

(* the parent's header copies name the children (part of the invariant wfn/wf_root of ArrayInv.v) *)
Fixpoint hdrs_agree (n : anode) : Prop :=
  match n with
  | AD _ _ _ => True
  | AM _ hs _ cs =>
    map h_id hs = map (fun c => h_id (hdr_of c)) cs /\
    (fix go (l : list anode) : Prop := match l with [] => True | c :: r => hdrs_agree c /\ go r end) cs
  end.

(* exact characterisation used by the harness as its oracle: element e of data slab d is yielded
   iff every slab on the path from below the root to d is loaded and e itself is loaded.
   [reach loaded n] = the elements of to_list n tagged with that condition *)
Fixpoint reach (loaded : N -> bool) (ok : bool) (n : anode) : list (elem * bool) :=
  match n with
  | AD _ _ es => map (fun e => (e, ok && elem_loaded loaded e)) es
  | AM _ hs _ cs =>
    visit_children (fun _ => true) (fun h c => reach loaded (ok && loaded (h_id h)) c) hs cs
  end.
