(* Batch.v — executable model of the bulk constructors and the single-slab copy of atree's Array:
     NewArrayFromBatchData + nextLevelArraySlabs      (array.go 127-349)
     Array.CanCopyNonRefSimple / CopyNonRefSimple      (array.go 1379-1416, array_data_slab.go 59-117)
     ByteSliceToByteArray / ByteArrayToByteSlice       (array_conversion.go)
   on top of the slab-tree model ArrayTree.v (same node type, same cached fields, same
   allocator/write-log conventions: [alloc] is the last slab index handed out for the address,
   every GenerateSlabID returns alloc+1).

   Order of identifier allocation in NewArrayFromBatchData, as coded:
     1. the first data slab;
     2. while elements arrive: if the current data slab has reached the target size
        (size >= targetThreshold) the NEXT data slab's identifier is allocated first, THEN the
        element's Storable() runs (which allocates and stores a StorableSlab for a large value);
     3. after the tail rebalance of a level, all slabs of the level are stored left to right, then
        nextLevelArraySlabs allocates one identifier per index slab, left to right;
     4. the single remaining slab is the root: it keeps the identifier it was created with.
   A data slab merged away by the tail rebalance keeps its (never stored) identifier allocated. *)
From Coq Require Import NArith ZArith List Bool.
From AtreeGen Require Import Consts.
From AtreeModel Require Import Settings ArrayTree.
Import ListNotations.
Local Open Scope N_scope.

(** * Level 0: append-only filling of data slabs (array.go 139-201) *)

(* [fill c es id size count acc alloc]: the current data slab has identifier [id], cached size
   and count [size]/[count] and holds [rev acc]; returns the data slabs in order (the last one with
   next = 0), the allocator and the Store calls of externalised values. *)
Fixpoint fill (c : cfg) (es : list elem) (id size count : N) (acc : list elem) (alloc : N)
  : list anode * N * wlog :=
  match es with
  | [] => ([AD (mkhdr id size count) 0 (rev acc)], alloc, [])
  | e :: r =>
    if cT c <=? size then
      (* finalize the current data slab without appending *)
      let nid := alloc + 1 in
      let '(e', alloc', lg) := externalise e nid in
      let '(rest, a, lg2) := fill c r nid (P + e_sz e') 1 [e'] alloc' in
      (AD (mkhdr id size count) nid (rev acc) :: rest, a, lg ++ lg2)
    else
      let '(e', alloc', lg) := externalise e alloc in
      let '(rest, a, lg2) := fill c r id (size + e_sz e') (count + 1) (e' :: acc) alloc' in
      (rest, a, lg ++ lg2)
  end.

(** * Tail rebalance (array.go 205-234): the last slab borrows from or merges into its left sibling *)

Definition fix_pair (c : cfg) (l r : anode) : res (list anode) :=
  match n_underflow c r with
  | None => Ok [l; r]
  | Some need =>
    if n_can_lend_to_right c l need then
      match n_lend_to_right c l r with
      | Ok (l', r') => Ok [l'; r']
      | Err e => Err e
      end
    else
      match n_merge l r with
      | Ok m => Ok [m]
      | Err e => Err e
      end
  end.

Fixpoint tail_fix (c : cfg) (slabs : list anode) : res (list anode) :=
  match slabs with
  | [] => Ok []
  | x :: rest =>
    match rest with
    | [] => Ok [x]
    | y :: rest2 =>
      match rest2 with
      | [] => fix_pair c x y
      | _ :: _ =>
        match tail_fix c rest with
        | Ok rest' => Ok (x :: rest')
        | Err e => Err e
        end
      end
    end
  end.

(** * nextLevelArraySlabs (array.go 289-349) *)

Definition max_headers (c : cfg) : N := (cmax c - PM) / HS.

(* the index slab under construction: identifier, cached size and count, and (reversed) the
   header copies, the cumulative counts and the children; [k] = number of headers so far *)
Record meta_acc : Type := mkma {
  ma_id : N; ma_size : N; ma_count : N;
  ma_hs : list hdr; ma_sums : list N; ma_cs : list anode; ma_k : nat
}.

Definition ma_new (id : N) : meta_acc := mkma id PM 0 [] [] [] 0.
Definition ma_add (m : meta_acc) (s : anode) : meta_acc :=
  let cnt := ma_count m + h_count (hdr_of s) in
  mkma (ma_id m) (ma_size m + HS) cnt (hdr_of s :: ma_hs m) (cnt :: ma_sums m) (s :: ma_cs m) (S (ma_k m)).
Definition ma_close (m : meta_acc) : anode :=
  AM (mkhdr (ma_id m) (ma_size m) (ma_count m)) (rev (ma_hs m)) (rev (ma_sums m)) (rev (ma_cs m)).

Fixpoint next_level_go (maxn : nat) (slabs : list anode) (m : meta_acc) (alloc : N) : list anode * N :=
  match slabs with
  | [] => ([ma_close m], alloc)
  | s :: r =>
    if Nat.eqb (ma_k m) maxn then
      let '(rest, a) := next_level_go maxn r (ma_add (ma_new (alloc + 1)) s) (alloc + 1) in
      (ma_close m :: rest, a)
    else next_level_go maxn r (ma_add m s) alloc
  end.

Definition next_level (c : cfg) (slabs : list anode) (alloc : N) : list anode * N :=
  next_level_go (N.to_nat (max_headers c)) slabs (ma_new (alloc + 1)) (alloc + 1).

(** * The level loop (array.go 203-259); fuel exhaustion is reported as [ESlabNotFound], which no
      other step of this construction produces *)

Definition store_all (slabs : list anode) : wlog := map (fun s => WStore (h_id (hdr_of s))) slabs.

Fixpoint levels (fuel : nat) (c : cfg) (slabs : list anode) (alloc : N) (lg : wlog)
  : res (anode * N * wlog) :=
  match fuel with
  | O => Err ESlabNotFound
  | S f =>
    match slabs with
    | [] => Err EPanic                       (* slabs[0] on an empty slice *)
    | [root] => Ok (root, alloc, lg)
    | _ =>
      match tail_fix c slabs with
      | Err e => Err e
      | Ok [] => Err EPanic
      | Ok [root] => Ok (root, alloc, lg)
      | Ok slabs' =>
        let '(next, alloc') := next_level c slabs' alloc in
        levels f c next alloc' (lg ++ store_all slabs')
      end
    end
  end.

(* root is a data slab: adjust its size to the root prefix (array.go 265-267) *)
Definition rebase_root (n : anode) : anode :=
  match n with
  | AD h nx es => AD (mkhdr (h_id h) (h_size h - P + RP) (h_count h)) nx es
  | _ => n
  end.

(* NOTE on counts: Go keeps header.count in uint32 and NewArrayFromBatchData never compares it with
   the maximum element count (Insert does).  The model counts in unbounded N; the theorems about [awf]
   therefore carry the hypothesis [length es <= max_count] (2^32-1), beyond which the Go counters
   would wrap.  Such a stream cannot be produced in a test. *)
Definition array_from_batch_res (c : cfg) (alloc : N) (ti : N) (es : list elem) : res (arr * wlog) :=
  let id := alloc + 1 in
  let '(leaves, alloc1, lg1) := fill c es id P 0 [] id in
  match levels (length es + 2) c leaves alloc1 lg1 with
  | Err e => Err e
  | Ok (root, alloc2, lg2) =>
    let root' := rebase_root root in
    Ok (mkarr root' alloc2 ti, lg2 ++ [WStore (h_id (hdr_of root'))])
  end.

(* total version: the error branch is unreachable for legal slab sizes (Batch_proofs.batch_ok) *)
Definition array_from_batch (c : cfg) (alloc : N) (ti : N) (es : list elem) : arr * wlog :=
  match array_from_batch_res c alloc ti es with
  | Ok x => x
  | Err _ => (mkarr (AD (mkhdr 0 0 0) 0 []) alloc ti, [])
  end.

(** * Copy of a single-slab array of plain values *)

(* [pl e]: the stored element is a plain value (not a nested container, not a wrapper around a
   reference).  An element with [e_ext <> 0] is a SlabIDStorable, i.e. a reference. *)
Definition elem_plain (pl : elem -> bool) (e : elem) : bool := pl e && (e_ext e =? 0).

Definition IP : N := c_inlinedArrayDataSlabPrefixSize.

(* ArrayDataSlab.canCopyWithoutSlabID / ArrayMetaDataSlab.canCopyWithoutSlabID *)
Definition can_copy (pl : elem -> bool) (root : anode) : bool :=
  match root with
  | AD _ next es => (next =? 0) && forallb (elem_plain pl) es
  | AM _ _ _ _ => false
  end.

Inductive cerr : Type := ECopyMultiSlab | ECopyNext | ECopyElement.

(* Array.CopyNonRefSimple on a source whose root slab is [root] ([inlined]: the source lives inside
   its parent's slab, its cached size then counts the inlined prefix).  The identifier is allocated
   BEFORE the slab is inspected, so a refusal for an element still advances the allocator. *)
Definition copy_array (pl : elem -> bool) (root : anode) (inlined : bool) (alloc : N) (ti : N)
  : (arr * wlog + cerr) * N :=
  match root with
  | AM _ _ _ _ => (inr ECopyMultiSlab, alloc)
  | AD h next es =>
    let newid := alloc + 1 in
    if negb (next =? 0) then (inr ECopyNext, newid)
    else if negb (forallb (elem_plain pl) es) then (inr ECopyElement, newid)
    else
      let size := if inlined then h_size h - IP + RP else h_size h in
      (inl (mkarr (AD (mkhdr newid size (h_count h)) 0 es) newid ti, [WStore newid]), newid)
  end.

(** * Byte slices *)

(* ByteSliceToByteArray: [bsz b] is the encoded size of the byte storable for b (for the test
   value type Uint8Value: 2-byte tag + CBOR unsigned integer), [est] the caller's estimate *)
Definition byte_elem (bsz : N -> N) (b : N) : elem := mkelem (Z.of_N b) (bsz b) 0.

Definition uint8_size (b : N) : N := if b <? 24 then 3 else 4.

Definition of_bytes (c : cfg) (bsz : N -> N) (alloc : N) (ti : N) (est : N) (bs : list N) : arr * wlog :=
  let es := map (byte_elem bsz) bs in
  match bs with
  | [] => arr_init (alloc + 1) ti
  | _ =>
    let est' := if est =? 0 then 4 else est in
    if (est' * N.of_nat (length bs) + RP <? cT c) && (sum_sz es + RP <? cT c) then
      (* newArrayWithElements: NewArray, then the root slab is filled and stored again *)
      let id := alloc + 1 in
      (mkarr (AD (mkhdr id (RP + sum_sz es) (N.of_nat (length es))) 0 es) id ti, [WStore id; WStore id])
    else array_from_batch c alloc ti es
  end.

(* ByteArrayToByteSlice walks the data slabs along the sibling links; on a tree whose links are
   consistent ([chain]) that is the in-order element list.  [is_byte] is the type test e.(T). *)
Definition to_bytes (is_byte : elem -> bool) (a : arr) : option (list N) :=
  let es := to_list (a_root a) in
  if forallb is_byte es then Some (map (fun e => Z.to_N (e_id e)) es) else None.
