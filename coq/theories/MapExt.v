(* MapExt.v — large KEYS and VALUES of OrderedMap entries: a layer on top of MapTree.v.

   Go (map_element.go newSingleElement, singleElement.Set, map_elements_nokey.go singleElements.Set;
   storable_slab.go NewStorableSlab; test_utils StringValue.Storable):
     - a key or value whose encoded size exceeds the inline limit it is offered is put into its own
       StorableSlab (NewStorableSlab: GenerateSlabID, storeSlab) and the element holds a
       SlabIDStorable (c_slabIDStorableSize bytes) instead;
     - key.Storable(storage, address, maxInlineMapKeySize) is called in newSingleElement ONLY, i.e.
       only when the key is NOT yet in the map (all four insertion branches of hkeyElements.Set, the
       append branch of singleElements.Set; a collision with an existing element builds the group
       first and reaches newSingleElement through group.Set).  When the key exists
       (singleElement.Set "equal", singleElements.Set "equal") only
       value.Storable(storage, address, maxInlineMapValueSize(existing key storable size)) is called:
       no slab is ever created for the key of an update;
     - order of the calls inside ONE Set: collision-limit check (a refusal allocates nothing), then
       key.Storable, value.Storable, and only on the way back up the spill of an inline collision
       group (GenerateSlabID in inlineCollisionGroup.Set), the leaf's storeSlab, the splits
       (GenerateSlabID in Split / splitRoot).  So the key slab takes the next index, the value slab
       the one after, and the tree model MapTree.mt_set runs with the allocator advanced past them;
     - an update returns the OLD value storable, Remove returns the key storable and the value
       storable, PopIterate hands every key and value storable to the callback; the library removes
       none of their slabs: disposing of them is the caller's job.

   Model: the tree keeps (identity, STORED size) pairs as before; the slab indexes of the external
   key / value of an entry are two more fields of the entry, kept in a table indexed by the key
   identity ([xtab]; keys are unique in a map): (kext, vext), 0 = inline.  Operations take the TRUE
   encoded sizes; the decision "large" is the one of Value.Storable: size > offered inline limit.

   No proofs in this file. *)
From Coq Require Import NArith ZArith List Bool Arith.
From AtreeGen Require Import Consts.
From AtreeModel Require Import Settings MapElems MapTree.
Import ListNotations.
Local Open Scope N_scope.

(** * the two extra fields of an entry *)
Definition xtab : Type := list (N * (N * N)).

Fixpoint xget (tb : xtab) (k : N) : N * N :=
  match tb with
  | [] => (0, 0)
  | (k0, p) :: r => if k0 =? k then p else xget r k
  end.
Definition xdel (tb : xtab) (k : N) : xtab := filter (fun e => negb (fst e =? k)) tb.
Definition xput (tb : xtab) (k : N) (p : N * N) : xtab := (k, p) :: xdel tb k.

Definition nz (i : N) : list N := if i =? 0 then [] else [i].
Definition pids (p : N * N) : list N := nz (fst p) ++ nz (snd p).

(* slab indexes of the external keys and values of the entries [d], in entry order *)
Definition ext_of (tb : xtab) (d : dict) : list N := flat_map (fun p => pids (xget tb (kid (fst p)))) d.

(** * Value.Storable(storage, address, maxInline) *)
Definition is_large (sz maxInline : N) : bool := maxInline <? sz.

(* (stored size, slab index or 0, allocator afterwards, storeSlab log) *)
Definition mk_storable (sz maxInline a : N) : N * N * N * wlog :=
  if is_large sz maxInline then (c_slabIDStorableSize, a + 1, a + 1, [WStore (a + 1)])
  else (sz, 0, a, []).

Section ext.
  Variable dg : N -> nat -> N.
  Variable levels : nat.
  Variable limit : N.
  Variable c : cfg.

  Definition kmax : N := cinl_mkey c.                                         (* maxInlineMapKeySize *)
  Definition vmax (keysz : N) : N := cinl_melem c - keysz - c_singleElementPrefixSize.  (* maxInlineMapValueSize *)

  Record xmap : Type := mkx { x_tree : mtree; x_tab : xtab }.

  Definition x_entries (x : xmap) : dict := to_list_tree (t_root (x_tree x)).
  Definition ext_ids (x : xmap) : list N := ext_of (x_tab x) (x_entries x).

  Definition with_alloc (t : mtree) (a : N) : mtree := mkmt (t_root t) a (t_count t).

  (* result: new state, answer, slab indexes of the storables HANDED BACK to the caller, log *)
  Definition xres : Type := (xmap * mout * list N * wlog)%type.

  Definition xm_set (x : xmap) (k v : kv) : xres :=
    let t := x_tree x in
    match n_get dg levels (t_root t) (kid k) with
    | inr (k0, _) =>
      (* the key exists: value.Storable only, offered maxInlineMapValueSize(size of the stored key) *)
      let '(vs, ve, a1, lg1) := mk_storable (ksz v) (vmax (ksz k0)) (t_alloc t) in
      match mt_set dg levels (cinl_melem c) limit c (with_alloc t a1) (mkkv (kid k) (ksz k0)) (mkkv (kid v) vs) with
      | (t', RPrev prev, lg) =>
        let old := xget (x_tab x) (kid k) in
        (mkx t' (xput (x_tab x) (kid k) (fst old, ve)), RPrev prev, nz (snd old), lg1 ++ lg)
      | (_, out, _) => (x, out, [], [])
      end
    | inl _ =>
      (* new key: newSingleElement = key.Storable, then value.Storable *)
      let '(kz, ke, a1, lg1) := mk_storable (ksz k) kmax (t_alloc t) in
      let '(vs, ve, a2, lg2) := mk_storable (ksz v) (vmax kz) a1 in
      match mt_set dg levels (cinl_melem c) limit c (with_alloc t a2) (mkkv (kid k) kz) (mkkv (kid v) vs) with
      | (t', RPrev prev, lg) =>
        (mkx t' (xput (x_tab x) (kid k) (ke, ve)), RPrev prev, [], lg1 ++ lg2 ++ lg)
      | (_, out, _) => (x, out, [], [])      (* refused by the collision limit: nothing was allocated *)
      end
    end.

  (* OBSERVATION, outside the histories of the theorems: a Set of a NEW key whose value.Storable
     FAILS (an error of the client's Value implementation, a value above
     maxStorableSizeInStorableSlab = 2^32 - 3 bytes, or a storage failure) after key.Storable has
     stored the key's StorableSlab: newSingleElement returns the error, nothing refers to the key
     slab and nobody removes it.  (For an existing key value.Storable is the first call; a refusal
     by the collision limit comes before both.)  Result: state (allocator advanced) and log. *)
  Definition xm_set_vfail (x : xmap) (k : kv) : xmap * wlog :=
    let t := x_tree x in
    match n_get dg levels (t_root t) (kid k) with
    | inr _ => (x, [])
    | inl _ =>
      let '(kz, _, a1, lg1) := mk_storable (ksz k) kmax (t_alloc t) in
      match mt_set dg levels (cinl_melem c) limit c t (mkkv (kid k) kz) (mkkv 0 1) with
      | (_, RPrev _, _) => (mkx (with_alloc t a1) (x_tab x), lg1)
      | _ => (x, [])
      end
    end.

  Definition xm_remove (x : xmap) (k : N) : xres :=
    match mt_remove dg levels c (x_tree x) k with
    | (t', RPair k0 v0, lg) => (mkx t' (xdel (x_tab x) k), RPair k0 v0, pids (xget (x_tab x) k), lg)
    | (_, out, _) => (x, out, [], [])
    end.

  Definition xm_pop (x : xmap) : xres :=
    match mt_pop (x_tree x) with
    | (t', RList d, lg) => (mkx t' [], RList d, ext_of (x_tab x) d, lg)
    | (_, out, _) => (x, out, [], [])
    end.

  Definition xm_step (x : xmap) (o : mop) : xres :=
    match o with
    | OSet k v => xm_set x k v
    | ORemove k => xm_remove x k
    | OPop => xm_pop x
    | _ =>
      let '(_, out, _) := mt_step dg levels (cinl_melem c) limit c (x_tree x) o in (x, out, [], [])
    end.

  Definition xm_init (rootid : N) : xmap * wlog :=
    (mkx (fst (mt_init rootid)) [], snd (mt_init rootid)).

  Fixpoint xm_run (x : xmap) (ops : list mop) : xmap * list mout :=
    match ops with
    | [] => (x, [])
    | o :: r => let '(x1, out, _, _) := xm_step x o in let '(x2, outs) := xm_run x1 r in (x2, out :: outs)
    end.

  (* the registers of the map's address after each operation of a history in which the caller
     removes every slab it is handed back: [regs_step] applies the log, then the disposal *)
  Definition apply_ev (regs : list N) (w : wev) : list N :=
    match w with
    | WStore i => if existsb (N.eqb i) regs then regs else regs ++ [i]
    | WRemove i => filter (fun j => negb (j =? i)) regs
    end.
  Definition apply_log (regs : list N) (lg : wlog) : list N := fold_left apply_ev lg regs.
  Definition dispose (regs : list N) (back : list N) : list N :=
    filter (fun j => negb (existsb (N.eqb j) back)) regs.

  Fixpoint xm_regs (x : xmap) (regs : list N) (ops : list mop) : xmap * list N :=
    match ops with
    | [] => (x, regs)
    | o :: r => let '(x1, _, back, lg) := xm_step x o in xm_regs x1 (dispose (apply_log regs lg) back) r
    end.
End ext.
