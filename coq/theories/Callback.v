(* Callback.v — lookups with FALLIBLE caller-supplied components (property C18, last sentence).

   The caller hands atree four components that may fail:
     - the hash-input provider   (HashInputProvider, called by DigesterBuilder.Digest: hash.go:107)
     - the digester              (Digester.Digest(level), obtained from the caller's DigesterBuilder)
     - the key comparator        (ValueComparator)
     - the ledger                (BaseStorage.Retrieve, reached through PersistentSlabStorage.Retrieve
                                  for every slab that is neither in the write set nor in the read cache)
   This file re-runs the lookups of MapElems.v / MapTree.v / ArrayTree.v (OrderedMap.Get / Has,
   Array.Get) with every call of such a component made EXPLICIT, in the order in which the Go code
   makes it, and lets a fault plan decide for each call whether it fails.

   Call order of OrderedMap.get (map.go:521-540) as modelled:
     1. builder.Digest(hip, key)          -> ONE hash-input call                        (checked, wrapped)
     2. digester.Digest(0)                -> digester call 0                            (checked, wrapped)
     3. root.Get: an index slab routes by the level-0 digest (no call) and loads the child with
        getMapSlab -> ONE ledger read unless the slab is loaded                         (checked, wrapped)
     4. hkeyElements.Get: binary search (no call), then the element:
          singleElement.Get             -> ONE comparator call                          (checked, wrapped)
          externalCollisionGroup.Get    -> getMapSlab of the group's slab (ledger read, checked)
                                           THEN the level check, THEN digester.Digest(level+1)
          inlineCollisionGroup.Get      -> level check, digester.Digest(level+1)
            "hkey, _ := digester.Digest(level)"  (map_element.go:366, 568): the error is DROPPED and
            the lookup goes on with whatever digest value came back with the error ([p_junk])
          singleElements.get (list mode) -> comparator calls in list order until one answers "equal"
     5. OrderedMap.Get only: valueStorable.StoredValue -> ONE ledger read when the value lives in its
        own slab and that slab is not loaded                                            (checked, wrapped)
   Array.Get (array.go:353): one ledger read per index slab crossed (getArraySlab of the child), then
   the read of the value's own slab if it has one.

   "wrapped" = wrapErrorfAsExternalErrorIfNeeded (errors.go:501): an error that is ALREADY a
   UserError / FatalError / ExternalError of atree is handed on as it is; anything else becomes an
   ExternalError.  [ekind] says which of these the failing component returned, [wrap_cat] is the
   resulting category.

   A comparator that has to load a key stored in its own slab does so itself (it is caller code that
   receives the storage); a failure there is a failure OF the comparator and is not modelled apart.

   State: a lookup returns no new container state.  The only thing it changes is the read cache of
   the storage; [loaded] says which slabs need no ledger read when the lookup starts, and the trace
   of calls says which ones were read (a successful read caches the slab: storage.go:920).

   No proofs in this file. *)
From Coq Require Import ZArith NArith List Bool Arith.
From AtreeGen Require Import Consts.
From AtreeModel Require Import ErrSpec Settings MapElems MapTree.
From AtreeModel Require ArrayTree.
Import ListNotations.
Local Open Scope N_scope.

(** * Components, calls, fault plans *)

Inductive comp : Type := CHip | CDig | CCmp | CRead.

Definition comp_eqb (a b : comp) : bool :=
  match a, b with
  | CHip, CHip | CDig, CDig | CCmp, CCmp | CRead, CRead => true
  | _, _ => false
  end.

(* what the failing component returned: a plain Go error, or an error that already carries one of
   atree's categories (a KeyNotFoundError is a UserError that OrderedMap.Has looks for) *)
Inductive ekind : Type := KPlain | KUser | KFatal | KExternal | KKeyNotFound.

(* wrapErrorfAsExternalErrorIfNeeded *)
Definition wrap_cat (k : ekind) : ecat :=
  match k with
  | KPlain | KExternal => External
  | KUser | KKeyNotFound => User
  | KFatal => Fatal
  end.

(* one call of a component, with what identifies it for an observer *)
Inductive cev : Type :=
| VHip (key : N)          (* hash input of the looked-up key *)
| VDig (level : nat)      (* Digester.Digest(level) *)
| VCmp (stored : N)       (* comparator(looked-up key, stored key) *)
| VRead (id : N).         (* ledger read of slab [id] *)

Definition comp_of (e : cev) : comp :=
  match e with VHip _ => CHip | VDig _ => CDig | VCmp _ => CCmp | VRead _ => CRead end.

(* number of calls of component c among the calls [tr] *)
Definition cnt (c : comp) (tr : list cev) : nat :=
  length (filter (fun e => comp_eqb (comp_of e) c) tr).

Definition is_read_of (id : N) (e : cev) : bool :=
  match e with VRead j => j =? id | _ => false end.
Definition was_read (id : N) (tr : list cev) : bool := existsb (is_read_of id) tr.

(* [p_fails c i]: the i-th call (0-based) of component c made by this lookup fails;
   [p_kind]: what a failing component returns; [p_junk]: the digest VALUE a failing digester returns
   next to its error (Go: typically 0) *)
Record plan : Type := mkplan { p_fails : comp -> nat -> bool; p_kind : ekind; p_junk : N }.

Definition no_faults : plan := mkplan (fun _ _ => false) KPlain 0.
Definition fail_at (c : comp) (i : nat) (k : ekind) (junk : N) : plan :=
  mkplan (fun c' i' => comp_eqb c c' && (i' =? i)%nat) k junk.
Definition fail_from (c : comp) (i : nat) (k : ekind) (junk : N) : plan :=      (* every call from the i-th on *)
  mkplan (fun c' i' => comp_eqb c c' && (i <=? i')%nat) k junk.

(* result of a computation that calls components: its own answer, or the failure of a component
   handed on through wrapErrorfAsExternalErrorIfNeeded *)
Inductive fres (A : Type) : Type := FOk (a : A) | FFail (c : comp) (k : ekind).
Arguments FOk {A} a.
Arguments FFail {A} c k.

Definition fres_cat {A} (r : fres A) : option ecat :=
  match r with FOk _ => None | FFail _ k => Some (wrap_cat k) end.

(** * Making a call

    A computation takes the calls made so far (most recent first; only the per-component counts and
    the set of slabs read matter) and returns its result with the calls IT made, in order. *)
Section run.
  Variable p : plan.
  Variable loaded : N -> bool.
  Context {A : Type}.

  Definition crun : Type := (fres A * list cev)%type.

  (* a call whose error is checked *)
  Definition emit (e : cev) (tr : list cev) (K : list cev -> crun) : crun :=
    if p_fails p (comp_of e) (cnt (comp_of e) tr) then (FFail (comp_of e) (p_kind p), [e])
    else let '(r, t) := K (e :: tr) in (r, e :: t).

  (* a call whose error is dropped: the continuation learns whether it failed *)
  Definition emit_swallowed (e : cev) (tr : list cev) (K : bool -> list cev -> crun) : crun :=
    let '(r, t) := K (p_fails p (comp_of e) (cnt (comp_of e) tr)) (e :: tr) in (r, e :: t).

  (* SlabStorage.Retrieve of a slab of the container: a ledger read unless the slab is loaded *)
  Definition read (id : N) (tr : list cev) (K : list cev -> crun) : crun :=
    if loaded id || was_read id tr then K tr else emit (VRead id) tr K.
End run.

(** * Map lookups *)
Section lookup.
  Variable dg : N -> nat -> N.          (* digest of key identity at level *)
  Variable levels : nat.                (* Digester.Levels() *)
  Variable p : plan.
  Variable loaded : N -> bool.
  Context {A : Type}.
  Variable fin : kv * kv -> list cev -> fres A * list cev.   (* what the caller of get does with the element found *)
  Variable err : merr -> A.                                   (* ... and with an error of the lookup itself *)

  Notation R := (fres A * list cev)%type.

  (* singleElements.get: linear search, one comparator call per element until "equal" *)
  Fixpoint scan_f (kvs : list (kv * kv)) (k : N) (tr : list cev) : R :=
    match kvs with
    | [] => (FOk (err EKeyNotFound), [])
    | q :: r =>
      emit p (VCmp (kid (fst q))) tr (fun tr' => if kid (fst q) =? k then fin q tr' else scan_f r k tr')
    end.

  Definition dig_value (failed : bool) (k : N) (l : nat) : N := if failed then p_junk p else dg k l.

  (* [hk] is the digest value the caller computed for this level (Go passes it down as [hkey]) *)
  Fixpoint get_elem_f (fuel : nat) (e : melem) (l : nat) (k : N) (tr : list cev) {struct fuel} : R :=
    match fuel with
    | O => (FOk (err EInternal), [])
    | S f =>
      match e with
      | ESingle k0 v0 =>
        emit p (VCmp (kid k0)) tr
             (fun tr' => if kid k0 =? k then fin (k0, v0) tr' else (FOk (err EKeyNotFound), []))
      | EGroup loc g =>
        let descend := fun tr1 : list cev =>
          if (levels <? S l)%nat then (FOk (err EInternal), [])
          else emit_swallowed p (VDig (S l)) tr1
                 (fun failed tr2 => get_elems_f f g (S l) k (dig_value failed k (S l)) tr2) in
        match loc with
        | None => descend tr
        | Some id => read p loaded id tr descend
        end
      end
    end
  with get_elems_f (fuel : nat) (g : melems) (l : nat) (k hk : N) (tr : list cev) {struct fuel} : R :=
    match fuel with
    | O => (FOk (err EInternal), [])
    | S f =>
      match g with
      | HKey _ hks es _ =>
        if (levels <=? l)%nat then (FOk (err EInternal), []) else
        match fst (hk_search hks hk) with
        | None => (FOk (err EKeyNotFound), [])
        | Some i => match nth_error es i with Some e => get_elem_f f e l k tr | None => (FOk (err EInternal), []) end
        end
      | SList _ kvs _ =>
        if negb (l =? levels)%nat then (FOk (err EInternal), []) else scan_f kvs k tr
      end
    end.

  (* MapSlab.Get through the slab tree: an index slab reads the child it routes to *)
  Fixpoint n_get_f (n : mnode) (k hk : N) (tr : list cev) : R :=
    match n with
    | MD _ _ es => get_elems_f (op_fuel levels) es 0 k hk tr
    | MM _ hs cs =>
      match route_get hs hk with
      | None => (FOk (err EKeyNotFound), [])
      | Some i =>
        read p loaded (mh_id (nth i hs (mkmhdr 0 0 0))) tr
             (fun tr' => match on_kth (fun ch => n_get_f ch k hk) cs i with
                         | Some f => f tr'
                         | None => (FOk (err EInternal), [])
                         end)
      end
    end.

  (* OrderedMap.get: hash input, digest of level 0, then the root slab (never read: the map holds it) *)
  Definition prelude (k : N) (K : N -> list cev -> R) : R :=
    emit p (VHip k) [] (fun tr1 => emit p (VDig 0) tr1 (fun tr2 => K (dg k 0) tr2)).

  Definition lookup_f (root : mnode) (k : N) : R := prelude k (fun hk tr => n_get_f root k hk tr).
  Definition elookup_f (g : melems) (k : N) : R :=
    prelude k (fun hk tr => get_elems_f (op_fuel levels) g 0 k hk tr).
End lookup.

(* the three users of OrderedMap.get *)
Definition fin_pair (q : kv * kv) (_ : list cev) : fres (merr + kv * kv) * list cev := (FOk (inr q), []).

Section users.
  Variable dg : N -> nat -> N.
  Variable levels : nat.
  Variable vext : kv -> option N.       (* the slab that holds a value stored in its own slab *)
  Variable p : plan.
  Variable loaded : N -> bool.

  (* OrderedMap.Get: valueStorable.StoredValue(storage) *)
  Definition fin_get (q : kv * kv) (tr : list cev) : fres mout * list cev :=
    match vext (snd q) with
    | Some id => read p loaded id tr (fun _ => (FOk (RVal (snd q)), []))
    | None => (FOk (RVal (snd q)), [])
    end.
  Definition fin_has (q : kv * kv) (_ : list cev) : fres mout * list cev := (FOk (RBool true), []).
  Definition err_has (e : merr) : mout := match e with EKeyNotFound => RBool false | _ => RErr e end.

  (* OrderedMap.Has: errors.As(err, *KeyNotFoundError) -> (false, nil), whoever produced that error *)
  Definition has_post (x : fres mout * list cev) : fres mout * list cev :=
    match x with (FFail _ KKeyNotFound, t) => (FOk (RBool false), t) | _ => x end.

  (* raw get: (key, value) *)
  Definition mt_lookup_f (t : mtree) (k : N) : fres (merr + kv * kv) * list cev :=
    lookup_f dg levels p loaded fin_pair inl (t_root t) k.
  Definition mt_get_f (t : mtree) (k : N) : fres mout * list cev :=
    lookup_f dg levels p loaded fin_get RErr (t_root t) k.
  (* Has before it looks at the error: what happened to the components (and to the cache) *)
  Definition mt_has_raw_f (t : mtree) (k : N) : fres mout * list cev :=
    lookup_f dg levels p loaded fin_has err_has (t_root t) k.
  Definition mt_has_f (t : mtree) (k : N) : fres mout * list cev := has_post (mt_has_raw_f t k).

  (* the same on the element level (one hkeyElements of level 0: MapElems.mstate) *)
  Definition m_get_f (s : mstate) (k : N) : fres mout * list cev :=
    elookup_f dg levels p loaded fin_get RErr (m_root s) k.
  Definition m_has_raw_f (s : mstate) (k : N) : fres mout * list cev :=
    elookup_f dg levels p loaded fin_has err_has (m_root s) k.
  Definition m_has_f (s : mstate) (k : N) : fres mout * list cev := has_post (m_has_raw_f s k).
End users.

(** * Array.Get *)
Section array.
  Import ArrayTree.
  Variable p : plan.
  Variable loaded : N -> bool.
  Context {A : Type}.
  Variable fin : elem -> list cev -> fres A * list cev.
  Variable err : aerr -> A.

  Fixpoint an_get_f (n : anode) (i : N) (tr : list cev) : fres A * list cev :=
    match n with
    | AD _ _ es => match nth_N es i with Some e => fin e tr | None => (FOk (err EIndexOOB), []) end
    | AM h hs sums cs =>
      if h_count h <=? i then (FOk (err EIndexOOB), [])
      else match route hs sums i with
           | None => (FOk (err EPanic), [])
           | Some (k, j) =>
             read p loaded (h_id (nth k hs (mkhdr 0 0 0))) tr
                  (fun tr' => match on_kth (fun ch => an_get_f ch j) cs k with
                              | Some f => f tr'
                              | None => (FOk (err ESlabNotFound), [])
                              end)
           end
    end.
End array.

Section array_users.
  Import ArrayTree.
  Variable p : plan.
  Variable loaded : N -> bool.

  (* Array.Get: storable.StoredValue(storage) reads the value's own slab (e_ext <> 0) *)
  Definition afin_get (e : elem) (tr : list cev) : fres aout * list cev :=
    if e_ext e =? 0 then (FOk (RElem e), []) else read p loaded (e_ext e) tr (fun _ => (FOk (RElem e), [])).

  Definition a_get_f (a : arr) (i : N) : fres aout * list cev :=
    an_get_f p loaded afin_get RErr (a_root a) i [].
End array_users.

(** * What a run leaves behind, and the specification of a faulty run *)

(* the calls of a run that succeeded from the library's point of view: all of them, except the last
   one of a run that stopped on a failure *)
Definition ok_calls {A} (x : fres A * list cev) : list cev :=
  match fst x with FOk _ => snd x | FFail _ _ => removelast (snd x) end.

(* the read cache after the run (for Has: the run before has_post, which may turn the failure of a
   component into an answer) *)
Definition loaded_after {A} (loaded : N -> bool) (x : fres A * list cev) : N -> bool :=
  fun id => loaded id || was_read id (ok_calls x).

(* [cut p tr t]: the calls [t] (made after the calls [tr]) up to and including the first one the
   plan fails, and the component of that call *)
Fixpoint cut (p : plan) (tr t : list cev) : list cev * option comp :=
  match t with
  | [] => ([], None)
  | e :: r =>
    if p_fails p (comp_of e) (cnt (comp_of e) tr) then ([e], Some (comp_of e))
    else let '(t', f) := cut p (e :: tr) r in (e :: t', f)
  end.

(* the run [x] as a plan with checked errors only turns it: stopped at the first failing call *)
Definition cutr {A} (p : plan) (tr : list cev) (x : fres A * list cev) : fres A * list cev :=
  match cut p tr (snd x) with
  | (t', None) => (fst x, t')
  | (t', Some c) => (FFail c (p_kind p), t')
  end.

(* dropped digester errors: the plan without them, and the digests the lookup then works with *)
Definition strip (p : plan) : plan :=
  mkplan (fun c i => match c, i with CDig, S _ => false | _, _ => p_fails p c i end) (p_kind p) (p_junk p).
Definition dgp (p : plan) (dg : N -> nat -> N) (k0 : N) : N -> nat -> N :=
  fun k l => match l with
             | O => dg k l
             | S _ => if (k =? k0) && p_fails p CDig l then p_junk p else dg k l
             end.
Definition noswallow (p : plan) : Prop := forall i, p_fails p CDig (S i) = false.

(** * Bounds on the number of calls, from the structure alone

    [w c x] = 1 when a call of component x counts for c.  One definition for all components:
    a single element costs one comparator call, a list-mode group at most its length; entering a
    group costs one digester call and, for an external group, one ledger read; crossing an index
    slab costs one ledger read. *)

Definition w (c x : comp) : nat := if comp_eqb x c then 1%nat else 0%nat.

Fixpoint gbound_e (c : comp) (e : melem) : nat :=
  match e with
  | ESingle _ _ => w c CCmp
  | EGroup loc g => ((match loc with Some _ => w c CRead | None => 0 end) + w c CDig + gbound c g)%nat
  end
with gbound (c : comp) (g : melems) : nat :=
  match g with
  | HKey _ _ es _ => (fix go (l : list melem) : nat := match l with [] => O | x :: r => Nat.max (gbound_e c x) (go r) end) es
  | SList _ kvs _ => (w c CCmp * length kvs)%nat
  end.

Fixpoint tbound (c : comp) (n : mnode) : nat :=
  match n with
  | MD _ _ es => gbound c es
  | MM _ _ cs => (w c CRead + (fix go (l : list mnode) : nat := match l with [] => O | x :: r => Nat.max (tbound c x) (go r) end) cs)%nat
  end.

(* comparator: one call for a single element, at most the length of the list-mode group reached *)
Definition cmp_bound (g : melems) : nat := gbound CCmp g.
Definition tcmp_bound (n : mnode) : nat := tbound CCmp n.
(* ledger reads: the external collision groups on one path; plus the index slabs crossed *)
Definition ext_bound (g : melems) : nat := gbound CRead g.
Definition rd_bound (n : mnode) : nat := tbound CRead n.

Fixpoint mheight (n : mnode) : nat :=
  match n with
  | MD _ _ _ => O
  | MM _ _ cs => S ((fix go (l : list mnode) : nat := match l with [] => O | x :: r => Nat.max (mheight x) (go r) end) cs)
  end.

Fixpoint aheight (n : ArrayTree.anode) : nat :=
  match n with
  | ArrayTree.AD _ _ _ => O
  | ArrayTree.AM _ _ _ cs =>
    S ((fix go (l : list ArrayTree.anode) : nat := match l with [] => O | x :: r => Nat.max (aheight x) (go r) end) cs)
  end.

(* the slabs a lookup may read: children of index slabs, external groups, values' own slabs *)
Fixpoint elem_slabs_e (e : melem) : list N :=
  match e with
  | ESingle _ _ => []
  | EGroup loc g => (match loc with Some id => [id] | None => [] end) ++ elem_slabs g
  end
with elem_slabs (g : melems) : list N :=
  match g with HKey _ _ es _ => flat_map elem_slabs_e es | SList _ _ _ => [] end.

(* the slabs of a map other than its root: children of index slabs and external collision groups *)
Fixpoint tree_slabs (n : mnode) : list N :=
  match n with
  | MD _ _ es => elem_slabs es
  | MM _ hs cs => map mh_id hs ++ flat_map tree_slabs cs
  end.
