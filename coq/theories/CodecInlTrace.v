(* CodecInlTrace.v — trace engine for CodecInl.v (data slabs with inlined children).
   operation = structural dump of a data slab written by the Go hook VerifDumper (integers; inlined
               children are dumped in place: storable kinds 5 and 6),
   answer    = the bytes EncodeSlab produced.
   The model parses the dump into an [xslab], encodes it with [encode_xslab] (two passes; this is
   the answer compared with the implementation's bytes) and checks on its own
     -2  the dumped slab is well-formed ([xswf]),
     -3  re-dumping it gives the dump (all cached sizes / counts / first keys / compact flags are
         recomputed by the model; children live under the parent's address),
     -7  [decode_xslab] accepts the bytes,
     -5  the decoder-side size equals the reported one,
     -6  written + omitted sibling link + hoisted compact-map bytes = reported + extra data + section,
     -4  without compact maps: the decoded slab re-dumps to exactly the dump,
     -8/-9 with compact maps: the decoded slab re-encodes to the same bytes and has the same
         content up to seed / digests / element order of the compact maps,
     -10 and it is exactly [xslab_canon] of the dumped slab. *)
From Coq Require Import ZArith NArith List Bool.
From AtreeGen Require Import Consts CodecConsts.
From AtreeModel Require Import Proto Codec CodecTrace CodecInl.
Import ListNotations.
Local Open Scope N_scope.

(* ---------- parsing the dump ---------- *)

Section pgen.
  Context {V : Type} (pv : nline -> option (V * nline)).

  Definition p_xpair (fuel : nat) (l : nline) : option ((storable * V) * nline) :=
    match l with
    | tg :: _ :: r =>
      if tg =? 1 then
        match p_storable fuel r with
        | Some (k, r1) => match pv r1 with Some (v, r2) => Some ((k, v), r2) | None => None end
        | None => None
        end
      else None
    | _ => None
    end.

  Definition p_xelements_with (fuel : nat) (pe : nline -> option (xelement V * nline)) (l : nline)
    : option (xelements V * nline) :=
    match l with
    | tg :: level :: _ :: n :: r =>
      if tg =? 1 then
        match take n r with
        | Some (hk, m :: r1) =>
          match dec_seq pe (N.to_nat m) r1 with
          | Some (es, r2) => Some (XHkeyElems level hk es, r2)
          | None => None
          end
        | _ => None
        end
      else if tg =? 2 then
        match dec_seq (p_xpair fuel) (N.to_nat n) r with
        | Some (ps, r1) => Some (XSingleElems level ps, r1)
        | None => None
        end
      else None
    | _ => None
    end.

  Fixpoint p_xelement (fuel : nat) (l : nline) : option (xelement V * nline) :=
    match fuel with
    | O => None
    | S f =>
      match l with
      | tg :: _ :: r =>
        if tg =? 1 then
          match p_xpair fuel l with Some (p, r') => Some (XESingle (fst p) (snd p), r') | None => None end
        else if tg =? 2 then
          match p_xelements_with fuel (p_xelement f) r with
          | Some (XHkeyElems lv hk es, r') => Some (XEGroupH lv hk es, r')
          | Some (XSingleElems lv ps, r') => Some (XEGroupS lv ps, r')
          | None => None
          end
        else if tg =? 3 then
          match r with a :: i :: r' => Some (XEExt a i, r') | _ => None end
        else None
      | _ => None
      end
    end.
End pgen.

(* [tag]: the harness' composite type-info tag; [pa]: the address every inlined child must live under *)
Fixpoint p_x (fuel : nat) (tag pa : N) (l : nline) : option (xstorable * nline) :=
  match fuel with
  | O => None
  | S f =>
    match l with
    | tg :: _ :: r =>
      if tg =? 1 then
        match r with
        | w :: n :: r' => match width_of w with Some w' => Some (XUint w' n, r') | None => None end
        | _ => None
        end
      else if tg =? 2 then
        match r with
        | len :: r' => match take len r' with Some (s, r'') => Some (XString s, r'') | None => None end
        | _ => None
        end
      else if tg =? 3 then
        match r with a :: i :: r' => Some (XSlabID a i, r') | _ => None end
      else if tg =? 4 then
        match p_x f tag pa r with Some (s, r') => Some (XSome s, r') | None => None end
      else if tg =? 5 then
        match r with
        | k1 :: a :: i :: _ :: _ :: inlf :: has :: k :: v :: na :: ni :: n :: r' =>
          if (k1 =? 1) && (a =? pa) && (inlf =? 1) && (has =? 1) && (na =? 0) && (ni =? 0) then
            match p_ti tag k v with
            | Some ti =>
              match dec_seq (p_x f tag pa) (N.to_nat n) r' with
              | Some (es, r'') => Some (XInlArray ti i es, r'')
              | None => None
              end
            | None => None
            end
          else None
        | _ => None
        end
      else if tg =? 6 then
        match r with
        | k3 :: a :: i :: _ :: _ :: inlf :: has :: k :: v :: xc :: xs :: na :: ni :: anys :: cg :: _ :: r' =>
          if (k3 =? 3) && (a =? pa) && (inlf =? 1) && (has =? 1) && (na =? 0) && (ni =? 0) && (anys =? 0) && (cg =? 0) then
            match p_ti tag k v with
            | Some ti =>
              match p_xelements_with (p_x f tag pa) fuel (p_xelement (p_x f tag pa) fuel) r' with
              | Some (els, r'') => Some (XInlMap (mk_mextra ti xc xs) i els, r'')
              | None => None
              end
            | None => None
            end
          else None
        | _ => None
        end
      else None
    | _ => None
    end
  end.

Definition p_xslab (tag : N) (l : nline) : option xslab :=
  let fuel := length l in
  match l with
  | kind :: a :: i :: _ :: r0 =>
    if kind =? 1 then
      match r0 with
      | _ :: inlf :: has :: k :: v :: na :: ni :: n :: r =>
        if inlf =? 0 then
          match p_xa tag has k v with
          | Some x =>
            match dec_seq (p_x fuel tag a) (N.to_nat n) r with
            | Some (es, []) => Some (XArrayData a i x na ni es)
            | _ => None
            end
          | None => None
          end
        else None
      | _ => None
      end
    else if kind =? 3 then
      match r0 with
      | _ :: inlf :: has :: k :: v :: xc :: xs :: na :: ni :: anys :: cg :: cflag :: r =>
        if (inlf =? 0) && (cflag =? 0) then
          match p_xm tag has k v xc xs with
          | Some x =>
            match p_xelements_with (p_x fuel tag a) fuel (p_xelement (p_x fuel tag a) fuel) r with
            | Some (els, []) => Some (XMapData a i x na ni (zbool' anys) (zbool' cg) els)
            | _ => None
            end
          | None => None
          end
        else None
      | _ => None
      end
    else None
  | _ => None
  end.

(* ---------- dumping a model slab in the same format (sizes recomputed by the model) ---------- *)

Section dgen.
  Context {V : Type} (dV : V -> nline) (sizeV : V -> N).
  Definition d_xpair (p : storable * V) : nline :=
    [1; xpair_size sizeV p] ++ d_storable (fst p) ++ dV (snd p).
  Fixpoint d_xelement (e : xelement V) : nline :=
    match e with
    | XESingle k v => d_xpair (k, v)
    | XEGroupH l hk es =>
      [2; xel_size sizeV e] ++ [1; l; xels_size sizeV (XHkeyElems l hk es); lenN hk] ++ hk ++ [lenN es] ++ flat_map d_xelement es
    | XEGroupS l ps =>
      [2; xel_size sizeV e] ++ [2; l; xels_size sizeV (XSingleElems l ps); lenN ps] ++ flat_map d_xpair ps
    | XEExt a i => [3; xel_size sizeV e; a; i]
    end.
  Definition d_xelements (els : xelements V) : nline :=
    match els with
    | XHkeyElems l hk es => [1; l; xels_size sizeV els; lenN hk] ++ hk ++ [lenN es] ++ flat_map d_xelement es
    | XSingleElems l ps => [2; l; xels_size sizeV els; lenN ps] ++ flat_map d_xpair ps
    end.
End dgen.

Fixpoint x_inner (s : xstorable) : xstorable := match s with XSome s' => x_inner s' | _ => s end.

Fixpoint d_x (pa : N) (s : xstorable) : nline :=
  match s with
  | XUint w n => [1; x_size s; width_bits w; n]
  | XString bs => [2; x_size s; lenN bs] ++ bs
  | XSlabID a i => [3; x_size s; a; i]
  | XSome s' => [4; x_size s] ++ d_x pa s'
  | XInlArray ti vid es =>
    [5; x_size s; 1; pa; vid; x_size s; lenN es; 1] ++ (1 :: d_ti ti) ++ [0; 0; lenN es] ++ flat_map (d_x pa) es
  | XInlMap mx vid els =>
    [6; x_size s; 3; pa; vid; x_size s; xels_first_key els; 1] ++ (1 :: d_ti (mx_ti mx))
      ++ [mx_count mx; mx_seed mx; 0; 0; 0; 0; boolN (is_compact_map mx els)]
      ++ d_xelements (d_x pa) x_size els
  end.

Definition d_xslab (s : xslab) : nline :=
  match s with
  | XArrayData a i x na ni es =>
    [1; a; i; xslab_size s; lenN es; 0] ++ d_xa x ++ [na; ni; lenN es] ++ flat_map (d_x a) es
  | XMapData a i x na ni anys cg els =>
    [3; a; i; xslab_size s; xslab_first_key s; 0] ++ d_xm x ++ [na; ni; boolN anys; boolN cg; 0]
      ++ d_xelements (d_x a) x_size els
  end.

(* ---------- content up to what the compact form may change ---------- *)

Fixpoint insert_kv {V} (p : bytes * V) (l : list (bytes * V)) : list (bytes * V) :=
  match l with
  | [] => [p]
  | q :: t => if bytes_ltb (fst q) (fst p) then q :: insert_kv p t else p :: l
  end.
Definition sort_kvs {V} (l : list (bytes * V)) : list (bytes * V) := fold_right insert_kv [] l.

(* compact maps: seed 0, no digests, entries sorted by key *)
Fixpoint x_norm (s : xstorable) : xstorable :=
  match s with
  | XSome s' => XSome (x_norm s')
  | XInlArray ti vid es => XInlArray ti vid (map x_norm es)
  | XInlMap mx vid els =>
    let els' := xels_map x_norm els in
    match compact_kvs mx els' with
    | Some (_, kvs) =>
      XInlMap (mk_mextra (mx_ti mx) (mx_count mx) 0) vid
              (XHkeyElems 0 [] (map (fun kv => XESingle (SString (fst kv)) (snd kv)) (sort_kvs kvs)))
    | None => XInlMap mx vid els'
    end
  | _ => s
  end.
Definition xslab_norm (s : xslab) : xslab :=
  match s with
  | XArrayData a i x na ni es => XArrayData a i x na ni (map x_norm es)
  | XMapData a i x na ni anys cg els => XMapData a i x na ni anys cg (xels_map x_norm els)
  end.

(* ---------- the engine ---------- *)

Definition codecinl_op : Type := (nline * xslab)%type.

Definition dec_codecinl (tag : N) (l : line) : option codecinl_op :=
  if forallb (fun z => (0 <=? z)%Z) l then
    let nl := map Z.to_N l in
    match p_xslab tag nl with Some s => Some (nl, s) | None => None end
  else None.

Definition codecinl_answer (o : codecinl_op) : line :=
  let '(nl, s) := o in
  let b := encode_xslab s in
  if negb (xswf false s) then [(-2)%Z]
  else if negb (nlist_eqb (d_xslab s) nl) then [(-3)%Z]
  else
    match decode_xslab_with_size (xsid s) b with
    | Some (s', sz) =>
      if negb (sz =? xslab_size s) then [(-5)%Z]
      else if negb (lenN b + xomitted_next s + xslab_saving s
                    =? xslab_size s + lenN (encode_xextra s) + lenN (encode_xsection s)) then [(-6)%Z]
      else if xslab_compact s then
        if negb (nlist_eqb (encode_xslab s') b) then [(-8)%Z]
        else if negb (nlist_eqb (d_xslab (xslab_norm s')) (d_xslab (xslab_norm s))) then [(-9)%Z]
        else if negb (nlist_eqb (d_xslab s') (d_xslab (xslab_canon s))) then [(-10)%Z]
        else map Z.of_N b
      else if negb (nlist_eqb (d_xslab s') nl) then [(-4)%Z]
      else map Z.of_N b
    | None => [(-7)%Z]
    end.

Definition codecinl_step (st : unit) (o : codecinl_op) : unit * line := (st, codecinl_answer o).

(* configuration line: [composite type-info tag; slab size; flavour] *)
Definition chk_codecinl (cfg : line) (tr : list (line * line)) : verdict :=
  let tag := match cfg with t :: _ => Z.to_N t | [] => 0 end in
  check_from (dec_codecinl tag) codecinl_step tt tr 0.
