(* MapTree.v — executable model of the SLAB TREE of atree's OrderedMap (map.go, map_data_slab.go,
   map_metadata_slab.go, the slab operations of map_elements_hashkey.go).  The map analogue of
   ArrayTree.v; the element level (collision groups, collision limit) is MapElems.v and is reused
   unchanged on the elements of ONE leaf.

   A tree node carries every cached field of the Go slab: its header (slab index, cached byte size,
   cached first digest), the sibling link of data slabs and — for index (metadata) slabs — the
   parent's COPY of every child header.  All of them are updated incrementally exactly as the Go
   code does, never recomputed.  The element count lives in the root's extra data ([t_count]).
   The seed is irrelevant (the digests are a parameter).

   Every mutating operation threads the slab-index allocator ([t_alloc] = the last index handed out
   by GenerateSlabID for the map's address; external collision groups draw from the same counter)
   and returns the exact sequence of storeSlab / Storage.Remove calls.

   uint32 arithmetic is modelled with unbounded N and truncated subtraction, as in ArrayTree.v:
   every subtraction of the Go code is (cached size) - (part of it) and is non-negative under the
   invariant [mwf_root] (MapTreeInv.v), where Go's wrap-around and N's truncation coincide.

   No proofs in this file. *)
From Coq Require Import NArith ZArith List Bool Arith.
From AtreeGen Require Import Consts.
From AtreeModel Require Import Settings MapElems.
From AtreeModel Require ArrayTree.
Import ListNotations.
Local Open Scope N_scope.

(** * Data *)

Record mhdr : Type := mkmhdr { mh_id : N; mh_size : N; mh_first : N }.   (* MapSlabHeader *)

Inductive mnode : Type :=
| MD (h : mhdr) (next : N) (es : melems)                 (* MapDataSlab: es is an [HKey] of level 0 *)
| MM (h : mhdr) (hs : list mhdr) (cs : list mnode).      (* MapMetaDataSlab *)

Definition wlog : Type := list wev.                       (* WStore id | WRemove id, from MapElems *)

Inductive terr : Type :=
| TElem (e : merr)     (* error of the element level: key not found, collision limit, internal *)
| TSplit               (* SlabSplitError / NotApplicableError: fewer than two elements or children *)
| TMerge               (* SlabMergeError / NotApplicableError *)
| TRebalance           (* SlabRebalanceError / NotApplicableError *)
| TSlabNotFound        (* child header without child: cannot happen in a well-formed tree *)
| TPanic.              (* a Go runtime panic (nil sibling, kind mismatch, slice bounds) *)

Inductive tres (A : Type) : Type := TOk (a : A) | TErr (e : terr).
Arguments TOk {A} a.
Arguments TErr {A} e.

Definition hdr_of (n : mnode) : mhdr := match n with MD h _ _ => h | MM h _ _ => h end.
Definition is_data (n : mnode) : bool := match n with MD _ _ _ => true | MM _ _ _ => false end.

(* list helpers and the recursion combinator are those of the array model *)
Notation replace_nth := ArrayTree.replace_nth.
Notation insert_nth := ArrayTree.insert_nth.
Notation remove_nth := ArrayTree.remove_nth.
Notation on_kth := ArrayTree.on_kth.
Notation ceil_div := ArrayTree.ceil_div.

Definition P : N := c_mapDataSlabPrefixSize.
Definition RP : N := c_mapRootDataSlabPrefixSize.
Definition PM : N := c_mapMetaDataSlabPrefixSize.
Definition HS : N := c_mapSlabHeaderSize.
Definition HP : N := c_hkeyElementsPrefixSize.

(* what one element costs inside an hkeyElements: elem.Size() + digestSize *)
Definition ecost (e : melem) : N := esize e + c_digestSize.

(* elements.firstKey(): hkeyElements -> hkeys[0] or 0 when empty; singleElements -> 0 *)
Definition efirst (g : melems) : N :=
  match g with HKey _ (h :: _) _ _ => h | _ => 0 end.

Definition hfirst (hs : list mhdr) : N := match hs with x :: _ => mh_first x | [] => 0 end.

Definition set_id (n : mnode) (id : N) : mnode :=
  match n with
  | MD h nx es => MD (mkmhdr id (mh_size h) (mh_first h)) nx es
  | MM h hs cs => MM (mkmhdr id (mh_size h) (mh_first h)) hs cs
  end.

Definition set_first (h : mhdr) (f : N) : mhdr := mkmhdr (mh_id h) (mh_size h) f.

(** * Routing: the binary search of MapMetaDataSlab (map_metadata_slab.go 60-88, 166-176, 228-238)

    ans := init; i, j := 0, len; for i < j { h := (i+j)>>1;
      if headers[h].firstKey > hkey { j = h } else { ans = h; i = h+1 } }
    Get/Remove/getElementAndNextKey start with ans = -1 (key not found), Set with ans = 0. *)
Fixpoint route_bs (fuel : nat) (hs : list mhdr) (hk : N) (i j : nat) (ans : option nat) : option nat :=
  match fuel with
  | O => ans
  | S f =>
    if (i <? j)%nat then
      let h := ((i + j) / 2)%nat in
      if hk <? mh_first (nth h hs (mkmhdr 0 0 0)) then route_bs f hs hk i h ans
      else route_bs f hs hk (S h) j (Some h)
    else ans
  end.

Definition route_get (hs : list mhdr) (hk : N) : option nat :=
  route_bs (S (length hs)) hs hk 0 (length hs) None.
Definition route_set (hs : list mhdr) (hk : N) : nat :=
  match route_bs (S (length hs)) hs hk 0 (length hs) (Some O) with Some k => k | None => O end.

(** * hkeyElements: size-driven split / lend / borrow (map_elements_hashkey.go 494-692).
    The loops run over the list of element costs. *)

(* Split: (leftCount, leftSize).  If no element reaches the mid point (impossible when the cached
   size is right) the Go loop ends with leftCount = 0 and leftSize = the sum. *)
Fixpoint split_point (zs : list N) (dataSize mid leftSize : N) (i : nat) : nat * N :=
  match zs with
  | [] => (0%nat, leftSize)
  | z :: r =>
    if mid <=? leftSize + z then
      if leftSize <=? dataSize - leftSize - z then (S i, leftSize + z) else (i, leftSize)
    else split_point r dataSize mid (leftSize + z) (S i)
  end.

(* LendToRight: over the left slab's costs from the END *)
Fixpoint lend_loop (rzs : list N) (size mid minSize : N) (leftCount : nat) (leftSize : N) : nat * N :=
  match rzs with
  | [] => (leftCount, leftSize)
  | z :: r =>
    if (leftSize - z <? mid) && (minSize <=? size - leftSize) then (leftCount, leftSize)
    else lend_loop r size mid minSize (pred leftCount) (leftSize - z)
  end.

(* BorrowFromRight: over the right slab's costs from the FRONT *)
Fixpoint borrow_loop (zs : list N) (size mid minSize : N) (leftCount : nat) (leftSize : N) : nat * N :=
  match zs with
  | [] => (leftCount, leftSize)
  | z :: r =>
    if mid <? leftSize + z then
      if minSize <=? size - leftSize - z then (S leftCount, leftSize + z) else (leftCount, leftSize)
    else borrow_loop r size mid minSize (S leftCount) (leftSize + z)
  end.

(* CanLendToLeft walks from the front, CanLendToRight from the end; [zs] in walk order;
   [esz] = elements.Size() (including the hkeyElements prefix), [minSize] = minThreshold - mapDataSlabPrefixSize *)
Fixpoint can_lend_loop (zs : list N) (esz minSize need lend : N) : bool :=
  match zs with
  | [] => false
  | z :: r =>
    let lend' := lend + z in
    if esz - lend' <? minSize then false
    else if need <=? lend' then true
    else can_lend_loop r esz minSize need lend'
  end.
Definition e_can_lend (zs_walk : list N) (esz minSize need : N) : bool :=
  if (length zs_walk <? 2)%nat then false
  else if esz - need <? minSize then false
  else can_lend_loop zs_walk esz minSize need 0.

(** * Node-level slab operations (dispatch on the slab kind) *)

Section tree.
  Variable dg : N -> nat -> N.          (* digest of key identity at level *)
  Variable levels : nat.                (* Digester.Levels() *)
  Variable max_inline_elem : N.         (* maxInlineMapElementSize *)
  Variable limit : N.                   (* maxCollisionLimitPerDigest *)
  Variable c : cfg.                     (* thresholds *)

  Definition n_is_full (n : mnode) : bool := cmax c <? mh_size (hdr_of n).
  Definition n_underflow (n : mnode) : option N :=
    if mh_size (hdr_of n) <? cmin c then Some (cmin c - mh_size (hdr_of n)) else None.

  Definition m_can_lend (h : mhdr) (need : N) : bool :=
    let k := ceil_div need HS in
    if HS * k <=? mh_size h then cmin c <? mh_size h - HS * k else false.

  Definition n_can_lend_to_left (n : mnode) (need : N) : bool :=
    match n with
    | MD _ _ (HKey _ _ els sz) => e_can_lend (map ecost els) sz (cmin c - P) need
    | MD _ _ (SList _ _ _) => false
    | MM h _ _ => m_can_lend h need
    end.
  Definition n_can_lend_to_right (n : mnode) (need : N) : bool :=
    match n with
    | MD _ _ (HKey _ _ els sz) => e_can_lend (rev (map ecost els)) sz (cmin c - P) need
    | MD _ _ (SList _ _ _) => false
    | MM h _ _ => m_can_lend h need
    end.

  (* Split: the receiver keeps its identity AND its firstKey, the right half gets [newid] *)
  Definition n_split (n : mnode) (newid : N) : tres (mnode * mnode) :=
    match n with
    | MD h next (HKey lv hks els sz) =>
      if (length els <? 2)%nat then TErr TSplit
      else
        let dataSize := sz - HP in
        let '(lc, ls) := split_point (map ecost els) dataSize ((dataSize + 1) / 2) 0 0 in
        let lg := HKey lv (firstn lc hks) (firstn lc els) (HP + ls) in
        let rg := HKey lv (skipn lc hks) (skipn lc els) (dataSize - ls + HP) in
        TOk (MD (mkmhdr (mh_id h) (P + msize lg) (mh_first h)) newid lg,
             MD (mkmhdr newid (P + msize rg) (efirst rg)) next rg)
    | MD _ _ (SList _ _ _) => TErr TSplit
    | MM h hs cs =>
      if (length hs <? 2)%nat then TErr TSplit
      else
        let lc := Nat.div2 (S (length hs)) in               (* ceil(n/2) *)
        let leftSize := N.of_nat lc * HS in
        let hsr := skipn lc hs in
        TOk (MM (mkmhdr (mh_id h) (PM + leftSize) (mh_first h)) (firstn lc hs) (firstn lc cs),
             MM (mkmhdr newid (mh_size h - leftSize) (hfirst hsr)) hsr (skipn lc cs))
    end.

  (* Merge: data slabs recompute firstKey from the merged elements; index slabs keep theirs *)
  Definition n_merge (l r : mnode) : tres mnode :=
    match l, r with
    | MD h _ (HKey lv hks els sz), MD h2 next2 (HKey _ hks2 els2 sz2) =>
      let g := HKey lv (hks ++ hks2) (els ++ els2) (sz + (sz2 - HP)) in
      TOk (MD (mkmhdr (mh_id h) (P + msize g) (efirst g)) next2 g)
    | MD _ _ _, MD _ _ _ => TErr TMerge
    | MM h hs cs, MM h2 hs2 cs2 =>
      TOk (MM (mkmhdr (mh_id h) (mh_size h + (mh_size h2 - PM)) (mh_first h)) (hs ++ hs2) (cs ++ cs2))
    | _, _ => TErr TPanic
    end.

  Definition n_lend_to_right (l r : mnode) : tres (mnode * mnode) :=
    match l, r with
    | MD h next (HKey lv hks els sz), MD h2 next2 (HKey lv2 hks2 els2 sz2) =>
      if negb (lv =? lv2)%nat then TErr TRebalance
      else
        let minSize := cmin c - P - HP in
        let size := sz + sz2 - HP * 2 in
        let '(lc, ls) := lend_loop (rev (map ecost els)) size ((size + 1) / 2) minSize (length els) (sz - HP) in
        let lg := HKey lv (firstn lc hks) (firstn lc els) (HP + ls) in
        let rg := HKey lv2 (skipn lc hks ++ hks2) (skipn lc els ++ els2) (size - ls + HP) in
        TOk (MD (mkmhdr (mh_id h) (P + msize lg) (mh_first h)) next lg,
             MD (mkmhdr (mh_id h2) (P + msize rg) (efirst rg)) next2 rg)
    | MD _ _ _, MD _ _ _ => TErr TRebalance
    | MM h hs cs, MM h2 hs2 cs2 =>
      let total := (length hs + length hs2)%nat in
      let lc := Nat.div2 total in
      if (length hs <? lc)%nat then TErr TPanic            (* negative move count: slice bounds *)
      else
        let hsr := skipn lc hs ++ hs2 in
        TOk (MM (mkmhdr (mh_id h) (PM + N.of_nat lc * HS) (mh_first h)) (firstn lc hs) (firstn lc cs),
             MM (mkmhdr (mh_id h2) (PM + N.of_nat (total - lc) * HS) (hfirst hsr)) hsr (skipn lc cs ++ cs2))
    | _, _ => TErr TPanic
    end.

  Definition n_borrow_from_right (l r : mnode) : tres (mnode * mnode) :=
    match l, r with
    | MD h next (HKey lv hks els sz), MD h2 next2 (HKey lv2 hks2 els2 sz2) =>
      if negb (lv =? lv2)%nat then TErr TRebalance
      else
        let minSize := cmin c - P - HP in
        let size := sz + sz2 - HP * 2 in
        let '(lc, ls) := borrow_loop (map ecost els2) size ((size + 1) / 2) minSize (length els) (sz - HP) in
        let mv := (lc - length els)%nat in
        let lg := HKey lv (hks ++ firstn mv hks2) (els ++ firstn mv els2) (ls + HP) in
        let rg := HKey lv2 (skipn mv hks2) (skipn mv els2) (size - ls + HP) in
        TOk (MD (mkmhdr (mh_id h) (P + msize lg) (efirst lg)) next lg,
             MD (mkmhdr (mh_id h2) (P + msize rg) (efirst rg)) next2 rg)
    | MD _ _ _, MD _ _ _ => TErr TRebalance
    | MM h hs cs, MM h2 hs2 cs2 =>
      let total := (length hs + length hs2)%nat in
      let lc := Nat.div2 total in
      if (lc <? length hs)%nat then TErr TPanic            (* negative move count: slice bounds *)
      else
        let mv := (lc - length hs)%nat in
        let hsr := skipn mv hs2 in
        TOk (MM (mkmhdr (mh_id h) (PM + N.of_nat lc * HS) (mh_first h)) (hs ++ firstn mv hs2) (cs ++ firstn mv cs2),
             MM (mkmhdr (mh_id h2) (PM + N.of_nat (total - lc) * HS) (hfirst hsr)) hsr (skipn mv cs2))
    | _, _ => TErr TPanic
    end.

  (** * Index slab: child split, merge-or-rebalance (map_metadata_slab.go 331-608) *)

  (* SplitChildSlab: child k (already replaced by its updated version in cs/hs) is split *)
  Definition split_child (h : mhdr) (hs : list mhdr) (cs : list mnode)
             (k : nat) (child : mnode) (alloc : N) : tres (mnode * N * wlog) :=
    match n_split child (alloc + 1) with
    | TErr e => TErr e
    | TOk (l, r) =>
      TOk (MM (mkmhdr (mh_id h) (mh_size h + HS) (mh_first h))
              (insert_nth (S k) (hdr_of r) (replace_nth k (hdr_of l) hs))
              (insert_nth (S k) r (replace_nth k l cs)),
           alloc + 1,
           [WStore (mh_id (hdr_of l)); WStore (mh_id (hdr_of r)); WStore (mh_id h)])
    end.

  Definition first_if0 (li : nat) (h : mhdr) (l : mnode) : mhdr :=
    match li with O => set_first h (mh_first (hdr_of l)) | S _ => h end.

  Definition rebalance_children (h : mhdr) (hs : list mhdr) (cs : list mnode)
             (li : nat) (l r : mnode) (borrow : bool) : tres (mnode * wlog) :=
    match (if borrow then n_borrow_from_right l r else n_lend_to_right l r) with
    | TErr e => TErr e
    | TOk (l', r') =>
      TOk (MM (first_if0 li h l')
              (replace_nth (S li) (hdr_of r') (replace_nth li (hdr_of l') hs))
              (replace_nth (S li) r' (replace_nth li l' cs)),
           [WStore (mh_id (hdr_of l')); WStore (mh_id (hdr_of r')); WStore (mh_id h)])
    end.

  Definition merge_children (h : mhdr) (hs : list mhdr) (cs : list mnode)
             (li : nat) (l r : mnode) : tres (mnode * wlog) :=
    match n_merge l r with
    | TErr e => TErr e
    | TOk m =>
      TOk (MM (first_if0 li (mkmhdr (mh_id h) (mh_size h - HS) (mh_first h)) m)
              (remove_nth (S li) (replace_nth li (hdr_of m) hs))
              (remove_nth (S li) (replace_nth li m cs)),
           [WStore (mh_id (hdr_of m)); WStore (mh_id h); WRemove (mh_id (hdr_of r))])
    end.

  (* MergeOrRebalanceChildSlab: the decision table *)
  Definition merge_or_rebalance (h : mhdr) (hs : list mhdr) (cs : list mnode)
             (k : nat) (child : mnode) (need : N) : tres (mnode * wlog) :=
    let lsib := match k with O => None | S k' => nth_error cs k' end in
    let rsib := nth_error cs (S k) in
    let lcan := match lsib with Some s => n_can_lend_to_right s need | None => false end in
    let rcan := match rsib with Some s => n_can_lend_to_left s need | None => false end in
    if lcan || rcan then
      match lsib, rsib with
      | Some ls, Some rs =>
        if negb lcan then rebalance_children h hs cs k child rs true
        else if negb rcan then rebalance_children h hs cs (pred k) ls child false
        else if mh_size (hdr_of rs) <? mh_size (hdr_of ls) then rebalance_children h hs cs (pred k) ls child false
        else rebalance_children h hs cs k child rs true
      | Some ls, None => rebalance_children h hs cs (pred k) ls child false
      | None, Some rs => rebalance_children h hs cs k child rs true
      | None, None => TErr TPanic
      end
    else
      match lsib, rsib with
      | None, Some rs => merge_children h hs cs k child rs
      | Some ls, None => merge_children h hs cs (pred k) ls child
      | Some ls, Some rs =>
        if mh_size (hdr_of ls) <? mh_size (hdr_of rs) then merge_children h hs cs (pred k) ls child
        else merge_children h hs cs k child rs
      | None, None => TErr TPanic        (* the "panic" cell: an index slab with a single child *)
      end.

  (* the common tail of MapMetaDataSlab.Set and .Remove once child k has been updated to ch':
     refresh the header copy, refresh firstKey if k = 0, then split / merge-or-rebalance / store *)
  Definition fix_child (h : mhdr) (hs : list mhdr) (cs : list mnode) (k : nat) (ch' : mnode) (alloc : N)
    : tres (mnode * N * wlog) :=
    let hs' := replace_nth k (hdr_of ch') hs in
    let cs' := replace_nth k ch' cs in
    let h' := first_if0 k h ch' in
    if n_is_full ch' then split_child h' hs' cs' k ch' alloc
    else match n_underflow ch' with
         | Some need =>
           match merge_or_rebalance h' hs' cs' k ch' need with
           | TErr x => TErr x
           | TOk (n', lg) => TOk (n', alloc, lg)
           end
         | None => TOk (MM h' hs' cs', alloc, [WStore (mh_id h)])
         end.

  (** * Recursive operations on a subtree *)

  Definition hkey0 (k : N) : N := dg k 0.

  Fixpoint n_get (n : mnode) (k : N) : merr + (kv * kv) :=
    match n with
    | MD _ _ es => get_elems dg levels (op_fuel levels) es 0 k
    | MM _ hs cs =>
      match route_get hs (hkey0 k) with
      | None => inl EKeyNotFound
      | Some i =>
        match on_kth (fun ch => n_get ch k) cs i with
        | Some r => r
        | None => inl EInternal
        end
      end
    end.

  (* MapDataSlab.Set / Remove on the elements of one leaf: the element level does the work, then
     firstKey and size are refreshed and the slab is stored.  [pfx] = getPrefixSize(). *)
  Definition leaf_set (pfx : N) (h : mhdr) (next : N) (es : melems) (k v : kv) (alloc : N)
    : tres (mnode * option kv * N * wlog) :=
    match set_elems dg levels max_inline_elem limit (op_fuel levels) es 0 k v (alloc + 1) with
    | inl e => TErr (TElem e)
    | inr (es', prev, a', evs) =>
      TOk (MD (mkmhdr (mh_id h) (pfx + msize es') (efirst es')) next es', prev, a' - 1, evs ++ [WStore (mh_id h)])
    end.

  Definition leaf_remove (pfx : N) (h : mhdr) (next : N) (es : melems) (k : N)
    : tres (mnode * (kv * kv) * wlog) :=
    match remove_elems dg levels (op_fuel levels) es 0 k with
    | inl e => TErr (TElem e)
    | inr (es', kvp, evs) =>
      TOk (MD (mkmhdr (mh_id h) (pfx + msize es') (efirst es')) next es', kvp, evs ++ [WStore (mh_id h)])
    end.

  (* n_set pfx n k v alloc = (n', previous value, alloc', log) *)
  Fixpoint n_set (pfx : N) (n : mnode) (k v : kv) (alloc : N) : tres (mnode * option kv * N * wlog) :=
    match n with
    | MD h next es => leaf_set pfx h next es k v alloc
    | MM h hs cs =>
      let i := route_set hs (hkey0 (kid k)) in
      match on_kth (fun ch => n_set P ch k v alloc) cs i with
      | None => TErr TSlabNotFound
      | Some (TErr x) => TErr x
      | Some (TOk (ch', prev, alloc', lg)) =>
        match fix_child h hs cs i ch' alloc' with
        | TErr x => TErr x
        | TOk (n', alloc'', lg') => TOk (n', prev, alloc'', lg ++ lg')
        end
      end
    end.

  (* Remove can split too (an external group collapsing into its last, large, element grows the
     leaf), so the allocator is threaded *)
  Fixpoint n_remove (pfx : N) (n : mnode) (k : N) (alloc : N) : tres (mnode * (kv * kv) * N * wlog) :=
    match n with
    | MD h next es =>
      match leaf_remove pfx h next es k with
      | TErr x => TErr x
      | TOk (n', kvp, lg) => TOk (n', kvp, alloc, lg)
      end
    | MM h hs cs =>
      match route_get hs (hkey0 k) with
      | None => TErr (TElem EKeyNotFound)
      | Some i =>
        match on_kth (fun ch => n_remove P ch k alloc) cs i with
        | None => TErr TSlabNotFound
        | Some (TErr x) => TErr x
        | Some (TOk (ch', kvp, alloc', lg)) =>
          match fix_child h hs cs i ch' alloc' with
          | TErr x => TErr x
          | TOk (n', alloc'', lg') => TOk (n', kvp, alloc'', lg ++ lg')
          end
        end
      end
    end.

  (* iteration order: leaves left to right *)
  Fixpoint to_list_tree (n : mnode) : dict :=
    match n with
    | MD _ _ es => to_list es
    | MM _ _ cs => flat_map to_list_tree cs
    end.

  (* PopIterate: children from the last to the first, each emptied then removed; inside a leaf the
     elements backwards (MapElems.pop_list) *)
  Fixpoint n_pop (n : mnode) : dict * wlog :=
    match n with
    | MD _ _ es => pop_list es
    | MM _ _ cs =>
      fold_left (fun acc ch => let '(d, evs) := n_pop ch in
                               (d ++ fst acc, (evs ++ [WRemove (mh_id (hdr_of ch))]) ++ snd acc)) cs ([], [])
    end.

  (* firstKeyInMapSlab: first key of the first data slab *)
  Fixpoint first_key_tree (n : mnode) : option kv :=
    match n with
    | MD _ _ es => first_key es
    | MM _ _ cs => match cs with [] => None | ch :: _ => first_key_tree ch end
    end.

  (* getElementAndNextKey through the tree *)
  Fixpoint n_next (n : mnode) (k : N) : merr + (kv * kv * option kv) :=
    match n with
    | MD _ _ es => next_elems dg levels (op_fuel levels) es 0 k
    | MM _ hs cs =>
      match route_get hs (hkey0 k) with
      | None => inl EKeyNotFound
      | Some i =>
        match on_kth (fun ch => n_next ch k) cs i with
        | None => inl EInternal
        | Some (inl e) => inl e
        | Some (inr (k0, v0, Some nk)) => inr (k0, v0, Some nk)
        | Some (inr (k0, v0, None)) =>
          match nth_error cs (S i) with
          | Some c2 => inr (k0, v0, first_key_tree c2)
          | None => inr (k0, v0, None)
          end
        end
      end
    end.

  Fixpoint iter_next_tree (fuel : nat) (n : mnode) (cur : option kv) : dict :=
    match fuel, cur with
    | S f, Some k =>
      match n_next n (kid k) with
      | inr (k0, v0, nk) => (k0, v0) :: iter_next_tree f n nk
      | inl _ => []
      end
    | _, _ => []
    end.

  (** * The map *)

  Record mtree : Type := mkmt {
    t_root : mnode;
    t_alloc : N;        (* last slab index handed out for the map's address *)
    t_count : N         (* MapExtraData.Count of the root *)
  }.

  Definition empty_root (rootid : N) : mnode := MD (mkmhdr rootid (RP + HP) 0) 0 (HKey 0 [] [] HP).

  Definition mt_init (rootid : N) : mtree * wlog :=
    (mkmt (empty_root rootid) rootid 0, [WStore rootid]).

  Definition t_rootid (t : mtree) : N := mh_id (hdr_of (t_root t)).

  (* OrderedMap.promoteChildAsNewRoot, when the root index slab is left with a single child *)
  Definition promote_if_single (t : mtree) : mtree * wlog :=
    match t_root t with
    | MM h [_] [ch] =>
      let rootid := mh_id h in
      let ch' :=
        match ch with
        | MD hh nx es => MD (mkmhdr rootid (mh_size hh - P + RP) (mh_first hh)) nx es
        | MM hh hs cs => MM (mkmhdr rootid (mh_size hh) (mh_first hh)) hs cs
        end in
      (mkmt ch' (t_alloc t) (t_count t), [WStore rootid; WRemove (mh_id (hdr_of ch))])
    | _ => (t, [])
    end.

  (* OrderedMap.splitRoot *)
  Definition split_root (t : mtree) : tres mtree * wlog :=
    let rootid := t_rootid t in
    let old :=
      match t_root t with
      | MD h nx es => MD (mkmhdr (mh_id h) (mh_size h - RP + P) (mh_first h)) nx es
      | n => n
      end in
    let id1 := t_alloc t + 1 in
    match n_split (set_id old id1) (id1 + 1) with
    | TErr e => (TErr e, [])
    | TOk (l, r) =>
      (TOk (mkmt (MM (mkmhdr rootid (PM + HS * 2) (mh_first (hdr_of l))) [hdr_of l; hdr_of r] [l; r])
                 (id1 + 1) (t_count t)),
       [WStore (mh_id (hdr_of l)); WStore (mh_id (hdr_of r)); WStore rootid])
    end.

  (* the tail of OrderedMap.set and .remove: FIRST promote a single child, THEN split a full root
     (Array.set does it the other way round) *)
  Definition fix_root (t : mtree) : tres mtree * wlog :=
    let '(t1, lg1) := promote_if_single t in
    if n_is_full (t_root t1) then
      let '(r, lg2) := split_root t1 in (r, lg1 ++ lg2)
    else (TOk t1, lg1).

  Definition root_pfx (t : mtree) : N := RP.

  Definition terr_out (e : terr) : mout :=
    match e with TElem x => RErr x | _ => RErr EInternal end.

  Definition mt_get (t : mtree) (k : N) : mout :=
    match n_get (t_root t) k with inr (_, v) => RVal v | inl e => RErr e end.

  Definition mt_has (t : mtree) (k : N) : mout :=
    match n_get (t_root t) k with
    | inr _ => RBool true
    | inl EKeyNotFound => RBool false
    | inl e => RErr e
    end.

  Definition mt_set (t : mtree) (k v : kv) : mtree * mout * wlog :=
    match n_set RP (t_root t) k v (t_alloc t) with
    | TErr x => (t, terr_out x, [])
    | TOk (r', prev, alloc', lg) =>
      let t1 := mkmt r' alloc' (match prev with None => t_count t + 1 | Some _ => t_count t end) in
      match fix_root t1 with
      | (TErr x, _) => (t, terr_out x, [])
      | (TOk t2, lg2) => (t2, RPrev prev, lg ++ lg2)
      end
    end.

  Definition mt_remove (t : mtree) (k : N) : mtree * mout * wlog :=
    match n_remove RP (t_root t) k (t_alloc t) with
    | TErr x => (t, terr_out x, [])
    | TOk (r', (k0, v0), alloc', lg) =>
      let t1 := mkmt r' alloc' (t_count t - 1) in
      match fix_root t1 with
      | (TErr x, _) => (t, terr_out x, [])
      | (TOk t2, lg2) => (t2, RPair k0 v0, lg ++ lg2)
      end
    end.

  Definition mt_pop (t : mtree) : mtree * mout * wlog :=
    let '(d, evs) := n_pop (t_root t) in
    (mkmt (empty_root (t_rootid t)) (t_alloc t) 0, RList d, evs ++ [WStore (t_rootid t)]).

  Definition mt_step (t : mtree) (o : mop) : mtree * mout * wlog :=
    match o with
    | OSet k v => mt_set t k v
    | OGet k => (t, mt_get t k, [])
    | OHas k => (t, mt_has t k, [])
    | ORemove k => mt_remove t k
    | OCount => (t, RCount (t_count t), [])
    | OIterate => (t, RList (to_list_tree (t_root t)), [])
    | OIterNext =>
      (t, RList (iter_next_tree (S (length (to_list_tree (t_root t)))) (t_root t) (first_key_tree (t_root t))), [])
    | OPop => mt_pop t
    end.

  Fixpoint mt_run (t : mtree) (ops : list mop) : mtree * list mout :=
    match ops with
    | [] => (t, [])
    | o :: r => let '(t1, x, _) := mt_step t o in let '(t2, xs) := mt_run t1 r in (t2, x :: xs)
    end.
End tree.

(** * Specification link: the ONE logical hkeyElements of level 0 that the leaves partition.
    The element-level theorems (MapElems_proofs: dictionary refinement, collision limit, canonical
    order) are stated over this value. *)

Fixpoint leaves (n : mnode) : list melems :=
  match n with
  | MD _ _ es => [es]
  | MM _ _ cs => flat_map leaves cs
  end.

Definition g_hkeys (g : melems) : list N := match g with HKey _ hks _ _ => hks | SList _ _ _ => [] end.
Definition g_elems (g : melems) : list melem := match g with HKey _ _ es _ => es | SList _ _ _ => [] end.

Definition elems_of_leaves (gs : list melems) : melems :=
  HKey 0 (flat_map g_hkeys gs) (flat_map g_elems gs)
       (fold_left (fun s g => s + (msize g - HP)) gs HP).

Definition elems_of_tree (n : mnode) : melems := elems_of_leaves (leaves n).

(* the element-level state corresponding to a tree (allocator: next free index) *)
Definition mstate_of_tree (t : mtree) : mstate := mkst (elems_of_tree (t_root t)) (t_count t) (t_alloc t + 1).
