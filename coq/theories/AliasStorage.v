(* AliasStorage.v — POINTER-LEVEL executable model of atree's PersistentSlabStorage (storage.go).

   Storage.v models the three layers (write set, read cache, ledger) with VALUE semantics.
   The Go code, however, keeps slab OBJECTS (pointers) in [s.cache] and [s.deltas], hands the
   very same objects to the containers ([Retrieve] returns the cached / pending object itself;
   [*Array.root] / [*OrderedMap.root] keep one across operations) and the containers mutate
   them IN PLACE before calling [storage.Store(id, slab)].

   Here:  heap : addr -> slab value       (the Go heap, restricted to slab objects)
          adeltas, acache : id -> option addr   ([Some None] = nil entry: removed / known deleted)
          abase : id -> value            (the ledger; a register holds the value that was encoded
                                          into it, and decoding a register ALLOCATES A NEW OBJECT
                                          with that value: decode (encode v) = v is C07)

   What storage.go does, call by call (line numbers of /repo/storage.go):
     Retrieve (943-951)               deltas hit: that object.  Else RetrieveIgnoringDeltas(id, true).
     RetrieveIgnoringDeltas (897-926) cache hit: that object (also when the identifier has a pending
                                      change!).  Else decode the register into a NEW object and,
                                      if [cache], put it into the cache.
     RetrieveIfLoaded (928-941)       deltas, then cache, never the ledger.
     Store / Remove (953-969)         deltas[id] := the object / nil.  The cache is not touched.
     commit (504-550), FastCommit (552-687), NondeterministicFastCommit (693-887)
                                      per owned key: encode the object deltas[id] points to NOW,
                                      write the register, cache[id] := the same object,
                                      delete(deltas, id); removed: delete register, cache[id] := nil,
                                      delete(deltas, id).  None of them resets deltas (temporary-address
                                      entries stay); an existing cache entry of a written id is overwritten.
     DropDeltas (889-891)             deltas := {} — objects are NOT rolled back.
     DropCache (893-895)              cache := {}.
     BatchPreload (1075-1223)         for each id with a register: decode into a NEW object and
                                      OVERWRITE cache[id] (no look-up of the cache, no look-up of deltas).
   Client actions: [ANew] (a container creates a slab object) and [AMutate] (in-place mutation of
   an object the client holds).

   Model only; proofs are in proofs/AliasStorage_proofs.v. *)
From stdpp Require Import gmap sorting.
From Coq Require Import ZArith NArith.
From AtreeModel Require Import Storage.

Local Open Scope N_scope.

Definition addr : Type := N.

Record ast : Type := mkast {
  aheap   : gmap addr val;
  anext   : addr;                          (* allocation pointer: every allocated address is below *)
  adeltas : gmap sid (option addr);
  acache  : gmap sid (option addr);
  abase   : gmap sid val
}.

Definition ast_init : ast := mkast ∅ 0 ∅ ∅ ∅.

Definition set_heap (a : ast) h := mkast h (anext a) (adeltas a) (acache a) (abase a).
Definition set_deltas (a : ast) d := mkast (aheap a) (anext a) d (acache a) (abase a).
Definition set_cache (a : ast) c := mkast (aheap a) (anext a) (adeltas a) c (abase a).

(* a new object holding [v] *)
Definition alloc (a : ast) (v : val) : ast * addr :=
  (mkast (<[anext a := v]> (aheap a)) (anext a + 1) (adeltas a) (acache a) (abase a), anext a).

(* the value an entry of cache / deltas denotes *)
Definition deref (a : ast) (r : option addr) : option val :=
  match r with Some x => aheap a !! x | None => None end.

(** * Operations *)

Inductive aop : Type :=
| AStore (i : sid) (x : addr)
| ARemove (i : sid)
| ARetrieve (i : sid)
| ARetrieveIfLoaded (i : sid)
| ARetrieveIgnoringDeltas (i : sid) (c : bool)
| AFastCommit (fail : option nat)
| ANondetCommit (order : list sid) (fail : option nat)
| ADropDeltas
| ADropCache
| ABatchPreload (ids : list sid)
| ARecreate
| ABaseGet (i : sid)
| ANew (v : val)
| AMutate (x : addr) (v : val).

Inductive aout : Type :=
| AORef (r : option addr) (v : option val)     (* the object returned and what it holds now *)
| AOOk
| AOErrSlabID
| AOCommit (ok : bool) (log : wlog)
| AOBadOrder
| AONew (x : addr)
| AOVal (v : option val).

(** ** reads *)

Definition a_rid (a : ast) (i : sid) (c : bool) : ast * option addr :=
  match acache a !! i with
  | Some r => (a, r)
  | None =>
    match abase a !! i with
    | None => (a, None)
    | Some v =>
      let '(a1, x) := alloc a v in
      ((if c then set_cache a1 (<[i := Some x]> (acache a1)) else a1), Some x)
    end
  end.

Definition a_retrieve (a : ast) (i : sid) : ast * option addr :=
  match adeltas a !! i with
  | Some r => (a, r)
  | None => a_rid a i true
  end.

Definition a_retrieve_if_loaded (a : ast) (i : sid) : option addr :=
  match adeltas a !! i with
  | Some r => r
  | None => match acache a !! i with Some r => r | None => None end
  end.

(** ** commit: the apply loop, one identifier at a time, encoding at that time *)

Definition a_call_of (a : ast) (i : sid) : option (bool * sid) :=
  match adeltas a !! i with
  | None => None
  | Some None => Some (false, i)
  | Some (Some _) => Some (true, i)
  end.

Definition a_apply_one (a : ast) (i : sid) : ast :=
  match adeltas a !! i with
  | None => a
  | Some None =>
    mkast (aheap a) (anext a) (delete i (adeltas a)) (<[i := None]> (acache a)) (delete i (abase a))
  | Some (Some x) =>
    match aheap a !! x with
    | Some v =>   (* EncodeSlab(object) now; Store register; cache[id] = the same object *)
      mkast (aheap a) (anext a) (delete i (adeltas a)) (<[i := Some x]> (acache a)) (<[i := v]> (abase a))
    | None => a   (* dangling address: excluded by the well-formedness invariant *)
    end
  end.

Fixpoint a_apply_writes (ids : list sid) (fail : option nat) (a : ast) (log : wlog) : ast * bool * wlog :=
  match ids with
  | [] => (a, true, rev log)
  | i :: r =>
    match a_call_of a i with
    | None => a_apply_writes r fail a log
    | Some c =>
      match fail with
      | Some O => (a, false, rev (c :: log))
      | _ =>
        a_apply_writes r (match fail with Some (S k) => Some k | _ => None end)
                       (a_apply_one a i) (c :: log)
      end
    end
  end.

Definition a_owned_delta_keys (a : ast) : list sid :=
  filter (fun i => is_temp i = false) (map fst (map_to_list (adeltas a))).

Definition a_sorted_owned_delta_keys (a : ast) : list sid := merge_sort sid_le (a_owned_delta_keys a).

Definition a_fast_commit (a : ast) (fail : option nat) : ast * bool * wlog :=
  a_apply_writes (a_sorted_owned_delta_keys a) fail a [].

Definition a_is_del (a : ast) (i : sid) : bool :=
  match adeltas a !! i with Some None => true | _ => false end.
Definition a_is_mod (a : ast) (i : sid) : bool :=
  match adeltas a !! i with Some (Some _) => true | _ => false end.

(* the orders NondeterministicFastCommit can produce: see Storage.order_ok *)
Definition a_order_ok (a : ast) (order : list sid) (complete : bool) : bool :=
  let owned := a_owned_delta_keys a in
  let nmod := length (filter (fun i => a_is_mod a i = true) owned) in
  nodupb order
  && forallb (fun i => bool_decide (i ∈ owned)) order
  && (if Nat.leb 2 nmod then all_then (a_is_del a) (a_is_mod a) order
      else all_then (a_is_mod a) (a_is_del a) order)
  && (if complete then Nat.eqb (length order) (length owned) else true).

Definition a_nondet_commit (a : ast) (order : list sid) (fail : option nat) : option (ast * bool * wlog) :=
  let complete := match fail with None => true | Some _ => false end in
  if a_order_ok a order complete then Some (a_apply_writes order fail a []) else None.

(** ** preload: always a new object, always overwrites the cache entry *)

Definition a_preload_one (a : ast) (i : sid) : ast :=
  match abase a !! i with
  | None => a
  | Some v => let '(a1, x) := alloc a v in set_cache a1 (<[i := Some x]> (acache a1))
  end.

Definition a_batch_preload (a : ast) (ids : list sid) : ast := fold_left a_preload_one ids a.

(** ** in-place mutation *)

Definition a_mutate (a : ast) (x : addr) (v : val) : ast :=
  match aheap a !! x with
  | Some _ => set_heap a (<[x := v]> (aheap a))
  | None => a
  end.

(** * Step *)

Definition astep (a : ast) (o : aop) : ast * aout :=
  match o with
  | AStore i x =>
    if is_undefined i then (a, AOErrSlabID)
    else (set_deltas a (<[i := Some x]> (adeltas a)), AOOk)
  | ARemove i =>
    if is_undefined i then (a, AOErrSlabID)
    else (set_deltas a (<[i := None]> (adeltas a)), AOOk)
  | ARetrieve i => let '(a', r) := a_retrieve a i in (a', AORef r (deref a' r))
  | ARetrieveIfLoaded i => let r := a_retrieve_if_loaded a i in (a, AORef r (deref a r))
  | ARetrieveIgnoringDeltas i c => let '(a', r) := a_rid a i c in (a', AORef r (deref a' r))
  | AFastCommit fail => let '(a', ok, log) := a_fast_commit a fail in (a', AOCommit ok log)
  | ANondetCommit order fail =>
    match a_nondet_commit a order fail with
    | Some (a', ok, log) => (a', AOCommit ok log)
    | None => (a, AOBadOrder)
    end
  | ADropDeltas => (set_deltas a ∅, AOOk)
  | ADropCache => (set_cache a ∅, AOOk)
  | ABatchPreload ids => (a_batch_preload a ids, AOOk)
  | ARecreate => (mkast (aheap a) (anext a) ∅ ∅ (abase a), AOOk)   (* a new storage over the same ledger; objects survive *)
  | ABaseGet i => (a, AOVal (abase a !! i))
  | ANew v => let '(a', x) := alloc a v in (a', AONew x)
  | AMutate x v => (a_mutate a x v, AOOk)
  end.

Fixpoint arun (a : ast) (ops : list aop) : ast * list aout :=
  match ops with
  | [] => (a, [])
  | o :: r => let '(a1, x) := astep a o in let '(a2, xs) := arun a1 r in (a2, x :: xs)
  end.

(** * Abstraction to the value model *)

(* the pending changes, dereferenced *)
Definition abs_deltas (a : ast) : gmap sid (option val) := deref a <$> adeltas a.

(* The cache, dereferenced — EXCEPT entries shadowed by a pending change of the same identifier:
   [Retrieve] never consults those, and they are exactly the entries that may hold an object that
   was mutated in place (the container stored it, so the identifier is in the write set); the
   value model keeps the committed value there, so this is what the abstraction shows. *)
Definition abs_cache (a : ast) : gmap sid (option val) :=
  map_imap (fun i r => Some (match adeltas a !! i with
                             | Some _ => abase a !! i
                             | None => deref a r
                             end)) (acache a).

Definition aabs (a : ast) : st := mkst (abs_deltas a) (abs_cache a) (abase a).

(* the literal dereference of the cache (for the negative witnesses) *)
Definition lit_cache (a : ast) : gmap sid (option val) := deref a <$> acache a.

(* what is visible under an identifier: the live reference *)
Definition live (a : ast) (i : sid) : option (option addr) :=
  match adeltas a !! i with
  | Some r => Some r
  | None => acache a !! i
  end.

Definition aview (a : ast) (i : sid) : option val :=
  match live a i with
  | Some r => deref a r
  | None => abase a !! i
  end.

(** * Invariants (decidable, so that the trace engine can report them) *)

(* every address held by the storage is allocated *)
Definition wf (a : ast) : Prop :=
  (forall i x, adeltas a !! i = Some (Some x) -> is_Some (aheap a !! x)) /\
  (forall i x, acache a !! i = Some (Some x) -> is_Some (aheap a !! x)) /\
  (forall x, is_Some (aheap a !! x) -> x < anext a).

(* no "dirty but unrecorded" object: a cache entry that is not shadowed by a pending change of the
   same identifier denotes the register's content (nil entry: no register) *)
Definition clean (a : ast) : Prop :=
  forall i r, acache a !! i = Some r -> adeltas a !! i = None -> deref a r = abase a !! i.

Definition no_temp_reg (a : ast) : Prop := forall i, is_temp i = true -> abase a !! i = None.

Definition ainv (a : ast) : Prop := wf a /\ clean a /\ no_temp_reg a.

(* boolean version of [clean] for the engine *)
Definition cleanb (a : ast) : bool :=
  forallb (fun kv : sid * option addr =>
             match adeltas a !! fst kv with
             | Some _ => true
             | None => bool_decide (deref a (snd kv) = abase a !! fst kv)
             end) (map_to_list (acache a)).

(** * Disciplined client operations (what array.go / map.go do, see proofs for the reading)

   A container operation obtains slab objects with [Retrieve(id)] (or uses the root object its
   handle keeps), mutates them in place and calls [Store(id, object)] for each mutated object
   ([storeSlab]) or [Remove(id)] before it returns; new slabs are created and stored; a root
   split / child promotion re-keys an object (SetSlabID) and writes BOTH identifiers. *)

Inductive cop : Type :=
| CRead (i : sid)                         (* Retrieve i, look at it *)
| CUpdate (i : sid) (v : val)             (* Retrieve i -> x; mutate x := v; Store i x *)
| CCreate (i : sid) (v : val)             (* x := new v; Store i x *)
| CRemove (i : sid)                       (* Remove i *)
| CRekey (i j : sid) (v w : val)          (* splitRoot: Retrieve i -> x; mutate x := v; Store j x;
                                             y := new w; Store i y *)
| CPromote (i j : sid) (v : val).         (* promoteChildAsNewRoot: Retrieve j -> x; mutate x := v;
                                             Store i x; Remove j *)

(* the primitive calls of a disciplined operation *)
Definition cop_run (a : ast) (o : cop) : ast * list aout :=
  match o with
  | CRead i => let '(a1, x) := astep a (ARetrieve i) in (a1, [x])
  | CUpdate i v =>
    if is_undefined i then (a, []) else
    let '(a1, r) := a_retrieve a i in
    match r with
    | Some x =>
      let a2 := a_mutate a1 x v in
      let '(a3, o3) := astep a2 (AStore i x) in (a3, [AORef r (deref a1 r); o3])
    | None => (a1, [AORef None None])
    end
  | CCreate i v =>
    if is_undefined i then (a, [AOErrSlabID])
    else let '(a1, x) := alloc a v in
         let '(a2, o2) := astep a1 (AStore i x) in (a2, [o2])
  | CRemove i => let '(a1, x) := astep a (ARemove i) in (a1, [x])
  | CRekey i j v w =>
    if is_undefined i || is_undefined j || bool_decide (i = j) then (a, [])
    else
    let '(a1, r) := a_retrieve a i in
    match r with
    | Some x =>
      let a2 := a_mutate a1 x v in
      let '(a3, o3) := astep a2 (AStore j x) in
      let '(a4, y) := alloc a3 w in
      let '(a5, o5) := astep a4 (AStore i y) in (a5, [AORef r (deref a1 r); o3; o5])
    | None => (a1, [AORef None None])
    end
  | CPromote i j v =>
    if is_undefined i || is_undefined j || bool_decide (i = j) then (a, [])
    else
    let '(a1, r) := a_retrieve a j in
    match r with
    | Some x =>
      let a2 := a_mutate a1 x v in
      let '(a3, o3) := astep a2 (AStore i x) in
      let '(a4, o4) := astep a3 (ARemove j) in (a4, [AORef r (deref a1 r); o3; o4])
    | None => (a1, [AORef None None])
    end
  end.

(* the same operation on the value model *)
Definition cop_sops (s : st) (o : cop) : list sop :=
  match o with
  | CRead i => [SRetrieve i]
  | CUpdate i v =>
    if is_undefined i then [] else
    match snd (retrieve s i) with Some _ => [SRetrieve i; SStore i v] | None => [SRetrieve i] end
  | CCreate i v => [SStore i v]
  | CRemove i => [SRemove i]
  | CRekey i j v w =>
    if is_undefined i || is_undefined j || bool_decide (i = j) then []
    else match snd (retrieve s i) with
         | Some _ => [SRetrieve i; SStore j v; SStore i w]
         | None => [SRetrieve i]
         end
  | CPromote i j v =>
    if is_undefined i || is_undefined j || bool_decide (i = j) then []
    else match snd (retrieve s j) with
         | Some _ => [SRetrieve j; SStore i v; SRemove j]
         | None => [SRetrieve j]
         end
  end.

(* value-level reading of an answer *)
Definition out_val (x : aout) : sout :=
  match x with
  | AORef _ v => ORet v
  | AOOk => OOk
  | AOErrSlabID => OErrSlabID
  | AOCommit ok log => OCommit ok log
  | AOBadOrder => OBadOrder
  | AONew _ => OOk
  | AOVal v => ORet v
  end.

(** * A container handle: the root identifier and the root object it keeps across operations
   ([Array.root], [OrderedMap.root]; nothing else of the slab tree is kept — child slabs are
   looked up through the storage in every operation). *)

Definition handle : Type := sid * addr.

(* mutation through the handle: mutate the root object in place, Store(root id, root object) *)
Definition handle_update (a : ast) (h : handle) (v : val) : ast :=
  fst (astep (a_mutate a (snd h) v) (AStore (fst h) (snd h))).

Definition handle_read (a : ast) (h : handle) : option val := aheap a !! snd h.
