(* IterMap.v — loaded-value iteration of an OrderedMap (map_iterator.go 367-600: mapLoadedElementIterator,
   mapLoadedSlabIterator, MapLoadedValueIterator; map.go ReadOnlyLoadedValueIterator /
   IterateReadOnlyLoadedValues; storable.go getLoadedValue) as a function of the slab tree of
   MapTree.v (elements: MapElems.v) and of the set of slabs that are in memory.

   [loaded id] = SlabStorage.RetrieveIfLoaded(id) is non-nil (the slab with index id is in the write
   set or in the read cache).  The root slab is held by the *OrderedMap itself (m.root) and is never
   looked up.

   What the Go code does:
   - mapLoadedSlabIterator.next: walk the parent's COPY of the child headers (childrenHeaders) left to
     right, look each child up by header.slabID with RetrieveIfLoaded, skip it if nil, otherwise hand
     the slab found under that identifier to the caller;
   - MapLoadedValueIterator.nextDataIterator: a LIFO stack of such slab iterators = depth-first,
     left-to-right traversal of the loaded part of the tree;
   - mapLoadedElementIterator.next: the elements of one elements value by position;
       singleElement: getLoadedValue(key), then getLoadedValue(value); the entry is skipped when either
         storable is a SlabIDStorable (directly, or inside a WrapperStorable) whose slab is not loaded
         (key or value in its own slab: large key/value, not-inlined child container);
       inlineCollisionGroup: a nested element iterator over the group's elements (no lookup);
       externalCollisionGroup: RetrieveIfLoaded(e.slabID); nil -> the whole group is skipped, otherwise
         a nested element iterator over the elements of the slab found;
     the nested iterator is drained before the position advances.
   The model pairs the k-th header copy with the k-th child node and the external group's slab
   identifier with the group's elements (the tree model identifies "the slab stored under that
   identifier" with that part of the tree), exactly as Iter.v does for arrays.

   Where the key / value storable lives is not part of MapElems.kv (identity, size): the two functions
   [kref], [vref] give the slab index referenced by a key / value storable, 0 = not a slab reference.

   Two presentations:
   - [m_iter_loaded]: the yield as a structurally recursive function (used by the theorems);
   - [it_init] / [it_next] / [it_drain]: the iterator OBJECT transcribed state by state (parents stack,
     data iterator with its nested collision-group iterator, one entry per Next call); proved equal to
     the former in proofs/IterMap_proofs.v.

   No proofs in this file. *)
From Coq Require Import NArith ZArith List Bool.
From AtreeModel Require Import MapElems MapTree.
Import ListNotations.
Local Open Scope N_scope.

(* one slab iterator: children (k-th header copy, k-th node) whose header passes [ld], each expanded
   by [f]; stops at the shorter of the two lists *)
Definition mvisit {B : Type} (ld : mhdr -> bool) (f : mhdr -> mnode -> list B)
  : list mhdr -> list mnode -> list B :=
  fix go (hs : list mhdr) (cs : list mnode) {struct cs} : list B :=
    match cs, hs with
    | c :: cs', h :: hs' => (if ld h then f h c else []) ++ go hs' cs'
    | _, _ => []
    end.

Section itermap.
  Variable kref vref : kv -> N.       (* slab referenced by the key / value storable, 0 = none *)
  Variable loaded : N -> bool.        (* RetrieveIfLoaded(id) != nil *)

  (* getLoadedValue(storable) != nil *)
  Definition ref_loaded (r : N) : bool := (r =? 0) || loaded r.

  (* singleElement: key first, then value *)
  Definition pair_loaded (p : kv * kv) : bool := ref_loaded (kref (fst p)) && ref_loaded (vref (snd p)).

  (** * the yield, structurally *)

  Fixpoint e_iter (e : melem) : dict :=
    match e with
    | ESingle k v => if pair_loaded (k, v) then [(k, v)] else []
    | EGroup None g => g_iter g
    | EGroup (Some id) g => if loaded id then g_iter g else []
    end
  with g_iter (g : melems) : dict :=
    match g with
    | HKey _ _ es _ => flat_map e_iter es
    | SList _ kvs _ => filter pair_loaded kvs
    end.

  Fixpoint n_iter (n : mnode) : dict :=
    match n with
    | MD _ _ es => g_iter es
    | MM _ hs cs => mvisit (fun h => loaded (mh_id h)) (fun _ c => n_iter c) hs cs
    end.

  (* OrderedMap.IterateReadOnlyLoadedValues / ReadOnlyLoadedValueIterator drained *)
  Definition m_iter_loaded (t : mtree) : dict := n_iter (t_root t).

  (** * exact characterisation: every entry of the full enumeration with the slabs that have to be
      in memory to reach it — index slabs below the root, its data slab (unless it is the root),
      the external collision-group slab, then the key's and the value's own slab.  The entry is
      yielded iff all of them are loaded.  (The harness hook VerifMapIterDump computes the same
      paths from the Go slabs; the theorems are C13_map_loaded_exact / _iff.) *)

  Definition nzl (r : N) : list N := if r =? 0 then [] else [r].
  Definition pair_refs (p : kv * kv) : list N := nzl (kref (fst p)) ++ nzl (vref (snd p)).

  Fixpoint e_paths (pre : list N) (e : melem) : list ((kv * kv) * list N) :=
    match e with
    | ESingle k v => [((k, v), pre ++ pair_refs (k, v))]
    | EGroup None g => g_paths pre g
    | EGroup (Some id) g => g_paths (pre ++ [id]) g
    end
  with g_paths (pre : list N) (g : melems) : list ((kv * kv) * list N) :=
    match g with
    | HKey _ _ es _ => flat_map (e_paths pre) es
    | SList _ kvs _ => map (fun p => (p, pre ++ pair_refs p)) kvs
    end.

  Fixpoint n_paths (pre : list N) (n : mnode) : list ((kv * kv) * list N) :=
    match n with
    | MD _ _ es => g_paths pre es
    | MM _ hs cs => mvisit (fun _ => true) (fun h c => n_paths (pre ++ [mh_id h]) c) hs cs
    end.

  Definition m_paths (t : mtree) : list ((kv * kv) * list N) := n_paths [] (t_root t).

  Definition path_loaded (x : (kv * kv) * list N) : bool := forallb loaded (snd x).

  (** * the iterator object, state by state *)

  (* mapLoadedElementIterator: the elements not yet visited (elements[index:]; singleElements hands
     out *singleElement values) and the nested collision-group iterator *)
  Inductive eiter : Type := EIt (rest : list melem) (sub : option eiter).

  Definition elems_list (g : melems) : list melem :=
    match g with
    | HKey _ _ es _ => es
    | SList _ kvs _ => map (fun p => ESingle (fst p) (snd p)) kvs
    end.

  Definition eiter_of (g : melems) : eiter := EIt (elems_list g) None.

  (* mapLoadedElementIterator.next: one turn of the for loop per unit of fuel.
     Result: the entry (None = "reach end of map data slab") and the iterator afterwards;
     out of fuel = None as well (ruled out by [eiter_fuel]). *)
  Fixpoint e_next (fuel : nat) (it : eiter) : option (kv * kv) * eiter :=
    match fuel with
    | O => (None, it)
    | S f =>
      match it with
      | EIt rest (Some s) =>
        match e_next f s with
        | (Some p, s') => (Some p, EIt rest (Some s'))
        | (None, _) => e_next f (EIt rest None)             (* i.collisionGroupIterator = nil; continue *)
        end
      | EIt rest None =>
        match rest with
        | [] => (None, it)
        | e :: rest' =>                                     (* i.index++ *)
          match e with
          | ESingle k v => if pair_loaded (k, v) then (Some (k, v), EIt rest' None) else e_next f (EIt rest' None)
          | EGroup None g => e_next f (EIt rest' (Some (eiter_of g)))
          | EGroup (Some id) g =>
            if loaded id then e_next f (EIt rest' (Some (eiter_of g))) else e_next f (EIt rest' None)
          end
        end
      end
    end.

  (* loop turns needed to drain an iterator *)
  Fixpoint e_weight (e : melem) : nat :=
    match e with
    | ESingle _ _ => 1
    | EGroup _ g => S (S (S (g_weight g)))
    end
  with g_weight (g : melems) : nat :=
    match g with
    | HKey _ _ es _ => fold_right (fun e a => (e_weight e + a)%nat) O es
    | SList _ kvs _ => length kvs
    end.
  Definition l_weight (es : list melem) : nat := fold_right (fun e a => (e_weight e + a)%nat) O es.
  Fixpoint eiter_fuel (it : eiter) : nat :=
    match it with
    | EIt rest None => S (l_weight rest)
    | EIt rest (Some s) => S (S (eiter_fuel s + l_weight rest))
    end.

  (* mapLoadedSlabIterator: slab.childrenHeaders[index:] paired with the children *)
  Definition siter : Type := (list mhdr * list mnode)%type.

  Record miter : Type := mkit {
    it_parents : list siter;           (* LIFO stack, top first *)
    it_data : option eiter
  }.

  (* OrderedMap.ReadOnlyLoadedValueIterator *)
  Definition it_init (t : mtree) : miter :=
    match t_root t with
    | MD _ _ es => mkit [] (Some (eiter_of es))
    | MM _ hs cs => mkit [(hs, cs)] None
    end.

  (* mapLoadedSlabIterator.next: the next loaded child and the iterator afterwards *)
  Fixpoint s_next (hs : list mhdr) (cs : list mnode) : option mnode * siter :=
    match cs, hs with
    | c :: cs', h :: hs' => if loaded (mh_id h) then (Some c, (hs', cs')) else s_next hs' cs'
    | _, _ => (None, (hs, cs))
    end.

  (* MapLoadedValueIterator.nextDataIterator: one turn of the for loop per unit of fuel *)
  Fixpoint next_data (fuel : nat) (ps : list siter) : option eiter * list siter :=
    match fuel with
    | O => (None, ps)
    | S f =>
      match ps with
      | [] => (None, [])
      | (hs, cs) :: below =>
        match s_next hs cs with
        | (Some (MD _ _ es), top') => (Some (eiter_of es), top' :: below)
        | (Some (MM _ hs2 cs2), top') => next_data f ((hs2, cs2) :: top' :: below)
        | (None, _) => next_data f below
        end
      end
    end.

  (* MapLoadedValueIterator.Next.  [fuel] bounds the loops and the self-call. *)
  Fixpoint it_next (fuel : nat) (it : miter) : option (kv * kv) * miter :=
    match fuel with
    | O => (None, it)
    | S f =>
      let after_data :=
        match it_data it with
        | Some d =>
          match e_next fuel d with
          | (Some p, d') => inl (p, mkit (it_parents it) (Some d'))
          | (None, _) => inr tt
          end
        | None => inr tt
        end in
      match after_data with
      | inl (p, it') => (Some p, it')
      | inr _ =>
        match next_data fuel (it_parents it) with
        | (Some d, ps') => it_next f (mkit ps' (Some d))
        | (None, ps') => (None, mkit ps' None)
        end
      end
    end.

  (* iterateMap: Next until it returns nil *)
  Fixpoint it_drain (fuel : nat) (n : nat) (it : miter) : dict :=
    match n with
    | O => []
    | S n' =>
      match it_next fuel it with
      | (Some p, it') => p :: it_drain fuel n' it'
      | (None, _) => []
      end
    end.

  (* a bound on every loop: all slabs and all elements of the tree *)
  Fixpoint n_weight (n : mnode) : nat :=
    match n with
    | MD _ _ es => S (S (g_weight es))
    | MM _ _ cs => S (S (fold_right (fun c a => (S (n_weight c) + a)%nat) O cs))
    end.

  (* at most one Next per entry of the map, plus the final one *)
  Definition m_iter_object (t : mtree) : dict :=
    it_drain (S (S (n_weight (t_root t)))) (S (length (to_list_tree (t_root t)))) (it_init t).
End itermap.

(* the parent's header copies name the children (part of the invariant mwfn of MapTreeInv.v) *)
Fixpoint m_hdrs_agree (n : mnode) : Prop :=
  match n with
  | MD _ _ _ => True
  | MM _ hs cs =>
    map mh_id hs = map (fun c => mh_id (hdr_of c)) cs /\
    (fix go (l : list mnode) : Prop := match l with [] => True | c :: r => m_hdrs_agree c /\ go r end) cs
  end.
