(* Durable.v — definitions for the container-level statement of C03 (arrays):
   "after any successful commit, a brand-new storage instance opened over the same ledger
    registers reconstructs every live container with exactly the content it had at commit time,
    using nothing but those registers".

   The array model (ArrayTree.v) LOGS its storeSlab / Storage.Remove calls; the storage model
   (Storage.v) holds opaque slab values.  This file defines the glue:

   D1  [flatten n]    every tree slab of n with its OWN content ([shallow]: child ids only);
       [load fuel m id] rebuilds a tree from a slab map by following child identifiers — the
       reader uses nothing but the map;
   D2  [apply_log content lg m]  replay of a write log against a slab map: a store publishes the
       slab's content at the END of the operation that issued it (Go stores pointers to slab
       objects: what reaches the write set is the final content), a remove deletes;
       [cell_of a id] = that content: the own content of tree slab id plus, for the root slab, the
       array's type info (Go: extraData lives in the slab that carries the root identifier);
       slabs of externally stored elements are opaque present entries ([CExt]);
       [rep m a]  "the slab map m represents the array a";
   D3  [slab_codec] an encoding of slab contents into the storage model's values with a left
       inverse; [sops] the storage calls of a log; [hist_sops] of a history; the concrete codec
       [g_enc]/[g_dec] (a self-delimiting bit code of the field list; Durable_proofs proves
       [g_dec (g_enc x) = Some x] for EVERY x, no side condition);
   D4  [dop]/[drun]  array histories with commits in between.

   Note: [shallow], [node_at], [tree_ids], [nid], [last_ev] ... are the definitions of
   proofs/ArrayFrame_proofs.v (that file has to be compiled before this one). *)
From stdpp Require Import gmap.
From Coq Require Import ZArith NArith List Bool.
From AtreeModel Require Import Storage Settings ArrayTree ArrayInv.
From AtreeProofs Require Import ArrayFrame_proofs.
Local Open Scope N_scope.

(** * D1. Slabs of a tree; loading a tree from a slab map *)

Fixpoint flatten (n : anode) : list (N * shallow) :=
  match n with
  | AD h nx es => [(h_id h, SD h nx es)]
  | AM h hs sums cs => (h_id h, SM h hs sums) :: flat_map flatten cs
  end.

(* first binding of [id] *)
Fixpoint assoc {V : Type} (l : list (N * V)) (id : N) : option V :=
  match l with
  | [] => None
  | kv :: r => if N.eqb (fst kv) id then Some (snd kv) else assoc r id
  end.

Fixpoint all_some {A : Type} (l : list (option A)) : option (list A) :=
  match l with
  | [] => Some []
  | None :: _ => None
  | Some a :: r => match all_some r with Some r' => Some (a :: r') | None => None end
  end.

(* getArraySlab + the recursive descent of a reader: the children of an index slab are found
   through the slab identifiers of its child-header copies, nothing else *)
Fixpoint load (fuel : nat) (m : N -> option shallow) (id : N) : option anode :=
  match fuel with
  | O => None
  | S f =>
    match m id with
    | None => None
    | Some (SD h nx es) => Some (AD h nx es)
    | Some (SM h hs sums) =>
      match all_some (map (fun hh => load f m (h_id hh)) hs) with
      | Some cs => Some (AM h hs sums cs)
      | None => None
      end
    end
  end.

(* every child-header copy names its child (part of the tree invariant [wfn]: hs = map hdr_of cs) *)
Fixpoint hdrs_ok (n : anode) : Prop :=
  match n with
  | AD _ _ _ => True
  | AM _ hs _ cs =>
    map h_id hs = map nid cs /\
    (fix go (l : list anode) : Prop := match l with [] => True | c :: r => hdrs_ok c /\ go r end) cs
  end.

(** * D2. Replay of a write log against a slab map *)

Inductive cell : Type :=
| CTree (s : shallow) (ty : N)     (* data / index slab: own content, type info (root slab only) *)
| CExt.                            (* slab of an externally stored element: opaque *)

Definition upd {V : Type} (m : N -> option V) (id : N) (x : option V) : N -> option V :=
  fun j => if N.eqb j id then x else m j.

Fixpoint apply_log {V : Type} (content : N -> V) (lg : ArrayTree.wlog) (m : N -> option V) : N -> option V :=
  match lg with
  | [] => m
  | WStore id :: r => apply_log content r (upd m id (Some (content id)))
  | WRemove id :: r => apply_log content r (upd m id None)
  end.

(* type info is carried by the slab with the root identifier *)
Definition tyof (a : arr) (id : N) : N := if N.eqb id (a_rootid a) then a_type a else 0.

Definition content (a : arr) (id : N) : option (shallow * N) :=
  match node_at (a_root a) id with Some s => Some (s, tyof a id) | None => None end.

Definition cell_of (a : arr) (id : N) : cell :=
  match node_at (a_root a) id with Some s => CTree s (tyof a id) | None => CExt end.

Definition tree_part (x : option cell) : option (shallow * N) :=
  match x with Some (CTree s ty) => Some (s, ty) | _ => None end.

(* m holds every tree slab of a with its exact content, and an entry for every external slab *)
Definition rep (m : N -> option cell) (a : arr) : Prop :=
  forall id,
    (content a id <> None -> tree_part (m id) = content a id) /\
    (In id (ext_ids (to_list (a_root a))) -> m id <> None).

(* ... and no data / index slab besides those of a *)
Definition tight (m : N -> option cell) (a : arr) : Prop :=
  forall id, content a id = None -> tree_part (m id) = None.

(* the task's signature *)
Definition apply_log_arr (a' : arr) (lg : ArrayTree.wlog) (m : N -> option cell) : N -> option cell :=
  apply_log (cell_of a') lg m.

(* replay of a whole history: every operation's log is replayed with the contents at the end of
   that operation *)
Fixpoint replay {V : Type} (cont : arr -> N -> V) (c : cfg) (a : arr) (ops : list aop)
         (m : N -> option V) : N -> option V :=
  match ops with
  | [] => m
  | o :: r =>
    match a_step c a o with
    | (a1, _, lg) => replay cont c a1 r (apply_log (cont a1) lg m)
    end
  end.

Definition init_map {V : Type} (cont : arr -> N -> V) (rootid ti : N) : N -> option V :=
  apply_log (cont (fst (arr_init rootid ti))) (snd (arr_init rootid ti)) (fun _ => None).

(* reader: the tree from the root identifier, the type info from the root slab *)
Definition load_arr (fuel : nat) (m : N -> option (shallow * N)) (rootid : N) : option (anode * N) :=
  match load fuel (fun id => match m id with Some x => Some (fst x) | None => None end) rootid, m rootid with
  | Some n, Some x => Some (n, snd x)
  | _, _ => None
  end.

(** * D3. Connection to the storage model *)

Record slab_codec : Type := mk_codec {
  enc : shallow * N -> val;
  dec : val -> option (shallow * N);
  extv : N -> val;                       (* whatever is stored for an external element slab *)
  dec_enc : forall x, dec (enc x) = Some x
}.

Definition enc_cell (K : slab_codec) (id : N) (x : cell) : val :=
  match x with CTree s ty => enc K (s, ty) | CExt => extv K id end.

(* the value handed to Storage.Store for slab id of array a *)
Definition sval (K : slab_codec) (a : arr) (id : N) : val := enc_cell K id (cell_of a id).

(* the storage calls of one log *)
Definition sops (addr : N) (cont : N -> val) (lg : ArrayTree.wlog) : list sop :=
  map (fun w => match w with
                | WStore id => SStore (addr, id) (cont id)
                | WRemove id => SRemove (addr, id)
                end) lg.

Fixpoint hist_sops (K : slab_codec) (addr : N) (c : cfg) (a : arr) (ops : list aop) : list sop :=
  match ops with
  | [] => []
  | o :: r =>
    match a_step c a o with
    | (a1, _, lg) => sops addr (sval K a1) lg ++ hist_sops K addr c a1 r
    end
  end.

Definition init_sops (K : slab_codec) (addr rootid ti : N) : list sop :=
  sops addr (sval K (fst (arr_init rootid ti))) (snd (arr_init rootid ti)).

(* Pointer semantics taken literally: Go's write set holds POINTERS to slab objects, so what a
   commit encodes for an identifier is the object's content at commit time.  [final_sops] issues
   the same calls as [init_sops ++ hist_sops] but every store carries the content at the END of
   the whole history.  Durable_proofs.store_time_irrelevant: both leave the same storage view
   (a slab that changes after a store is stored again by the operation that changes it). *)
Fixpoint all_logs (c : cfg) (a : arr) (ops : list aop) : ArrayTree.wlog :=
  match ops with
  | [] => []
  | o :: r => match a_step c a o with (a1, _, lg) => lg ++ all_logs c a1 r end
  end.

Definition final_sops (K : slab_codec) (addr : N) (c : cfg) (rootid ti : N) (ops : list aop) : list sop :=
  let a0 := fst (arr_init rootid ti) in
  sops addr (sval K (fst (a_run c a0 ops))) (snd (arr_init rootid ti) ++ all_logs c a0 ops).

(* what a storage instance / the ledger holds under the array's address *)
Definition view_map (s : st) (addr : N) : N -> option val := fun id => view s (addr, id).
Definition ledger_map (s : st) (addr : N) : N -> option val := fun id => base s !! (addr, id).
Definition decode_map (K : slab_codec) (M : N -> option val) : N -> option (shallow * N) :=
  fun id => match M id with Some v => dec K v | None => None end.

(** * D4. Array histories with commits in between *)

Inductive dop : Type := DOp (o : aop) | DCommit.

Definition aops_of (l : list dop) : list aop :=
  flat_map (fun d => match d with DOp o => [o] | DCommit => [] end) l.
Definition no_commit (l : list dop) : bool :=
  forallb (fun d => match d with DOp _ => true | DCommit => false end) l.

Fixpoint drun (K : slab_codec) (addr : N) (c : cfg) (a : arr) (s : st) (l : list dop) : arr * st :=
  match l with
  | [] => (a, s)
  | DOp o :: r =>
    match a_step c a o with
    | (a1, _, lg) => drun K addr c a1 (fst (run s (sops addr (sval K a1) lg))) r
    end
  | DCommit :: r => drun K addr c a (fst (step s (SFastCommit None))) r
  end.

(** * The concrete codec: field list, then a self-delimiting bit code into one number *)

(* one token = two bits (outer, inner): (1,b) digit b, more digits follow; (0,1) last digit (the
   leading one); (0,0) the number zero.  [xH] ends the list. *)
Fixpoint put_pos (p k : positive) : positive :=
  match p with
  | xO p' => xI (xO (put_pos p' k))
  | xI p' => xI (xI (put_pos p' k))
  | xH => xO (xI k)
  end.
Definition put_N (n : N) (k : positive) : positive :=
  match n with N0 => xO (xO k) | Npos p => put_pos p k end.
Fixpoint enc_list (l : list N) : positive :=
  match l with [] => xH | n :: r => put_N n (enc_list r) end.

(* [cur] = the digits read so far of the current number, as a context *)
Fixpoint dec_all (q : positive) (cur : positive -> positive) (acc : list N) : option (list N) :=
  match q with
  | xH => Some (rev acc)
  | xI (xO q') => dec_all q' (fun x => cur (xO x)) acc
  | xI (xI q') => dec_all q' (fun x => cur (xI x)) acc
  | xO (xI q') => dec_all q' (fun x => x) (Npos (cur xH) :: acc)
  | xO (xO q') => dec_all q' (fun x => x) (N0 :: acc)
  | _ => None
  end.
Definition dec_list (q : positive) : option (list N) := dec_all q (fun x => x) [].

Definition z2n (z : Z) : N :=
  match z with Z0 => 0 | Zpos p => Npos (xO p) | Zneg p => Npos (xI p) end.
Definition n2z (n : N) : Z :=
  match n with Npos (xO p) => Zpos p | Npos (xI p) => Zneg p | _ => Z0 end.

Definition elems_to (es : list elem) : list N :=
  flat_map (fun e => [z2n (e_id e); e_sz e; e_ext e]) es.
Fixpoint elems_of (l : list N) : option (list elem) :=
  match l with
  | [] => Some []
  | a :: b :: c :: r =>
    match elems_of r with Some es => Some (mkelem (n2z a) b c :: es) | None => None end
  | _ => None
  end.

Definition hdrs_to (hs : list hdr) : list N :=
  flat_map (fun h => [h_id h; h_size h; h_count h]) hs.
(* k headers, then the rest *)
Fixpoint hdrs_of (l : list N) (k : N) : option (list hdr * list N) :=
  if N.eqb k 0 then Some ([], l)
  else match l with
       | a :: b :: c :: r =>
         match hdrs_of r (k - 1) with
         | Some (hs, rest) => Some (mkhdr a b c :: hs, rest)
         | None => None
         end
       | _ => None
       end.

Definition fields_to (x : shallow * N) : list N :=
  match x with
  | (SD h nx es, ty) => 0 :: ty :: h_id h :: h_size h :: h_count h :: nx :: elems_to es
  | (SM h hs sums, ty) =>
    1 :: ty :: h_id h :: h_size h :: h_count h :: N.of_nat (length hs) :: hdrs_to hs ++ sums
  end.
Definition fields_of (l : list N) : option (shallow * N) :=
  match l with
  | t :: ty :: a :: b :: c :: k :: r =>
    if N.eqb t 0 then
      match elems_of r with Some es => Some (SD (mkhdr a b c) k es, ty) | None => None end
    else if N.eqb t 1 then
      match hdrs_of r k with Some (hs, sums) => Some (SM (mkhdr a b c) hs sums, ty) | None => None end
    else None
  | _ => None
  end.

Definition sh_size (s : shallow) : N :=
  match s with SD h _ _ => h_size h | SM h _ _ => h_size h end.

(* the register content as one number (v_id) and the slab's byte size (v_sz) *)
Definition g_enc (x : shallow * N) : val := mkval (Npos (enc_list (fields_to x))) (sh_size (fst x)).
Definition g_dec (v : val) : option (shallow * N) :=
  match v_id v with
  | Npos q => match dec_list q with Some l => fields_of l | None => None end
  | N0 => None
  end.
(* an external element slab: an opaque value that is not a data / index slab *)
Definition g_extv (id : N) : val := mkval 0 0.
