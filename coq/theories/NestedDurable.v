(* NestedDurable.v — C03 / C09 for NESTED containers: what the forest model Nested.v leaves in the ledger.

   Nested.v abstracts the slab tree of one container to ONE element list; here, accordingly, the
   ledger holds ONE register per stored container (the register stands for the whole slab tree of
   that container: root, index and data slabs — their durability is C03_durable / C03_durable_map,
   their accounting C09_array / C09_map).  What Nested.v adds is the part those single-container
   results cannot see: a child container is either INLINED (its elements are encoded inside the
   parent's register, recursively) or STORED on its own (the parent's register holds a SlabID
   reference), children cross that line in both directions while parent and child handles are live,
   and Nested.v's write log [f_log] records what Go's delta map would hold for container roots:
   (v,true) = storeSlab of the root slab of v, (v,false) = storage.Remove(v) (Inline).

   [tval]/[reg]      content of one register: kind + slots; a slot value is a scalar, a reference
                     [TR v w] to the register of a stored child, or an inlined child [TI v w k l]
                     with its own slots embedded (w = SomeValue wrapper levels).
   [flat n f v]      the register of container v in forest f: None if v does not exist or is
                     inlined, else its slots with all inlined descendants embedded (fuel n).
   [flatten n f]     the register map of f (association list; [aget (flatten n f) v = flat n f v]).
   [load n R r]      the reader of a FRESH storage: starts at register r of the register map R and
                     follows references; returns the full container tree below r ([nval]: every
                     child with its identifier, wrapper levels, kind, inlined flag and slots).
   [unfold n f r]    the same tree read off the forest: "f restricted to what r reaches".  It omits
                     exactly what is not persisted: cached sizes (determined by the content,
                     [csize_ok]), callbacks and index maps (wrapper state; a fresh wrapper has none).
   [commit_ledger]   PersistentSlabStorage.Commit on container roots: for every identifier in the
                     write set, newest entry (v,true): register v := encoding of the slab object
                     ([embed], the container with its inlined descendants), (v,false): delete.
   [dstate]/[dstep]  a forest together with the committed ledger; OCommit applies [commit_ledger],
                     every other operation leaves the ledger alone (storage calls only reach the
                     write set / cache: C14, C15).
   Statements: props/C03_nested.v, props/C09_nested.v; proofs: proofs/NestedDurable_proofs.v. *)
From Coq Require Import ZArith NArith List Bool.
From AtreeModel Require Import Nested.
Import ListNotations.
Local Open Scope N_scope.

(* ---------- register contents ---------- *)
Inductive tval :=
| TS (id sz : N)
| TR (v w : N)
| TI (v w : N) (k : kind) (l : list (N * N * tval)).
Definition tslot := (N * N * tval)%type.
Definition reg := (kind * list tslot)%type.
Definition ledger := list (N * reg).

(* the encoding of an element: an inlined child is embedded, a stored child is a reference *)
Fixpoint tv (k : nat) (f : forest) (e : elem) {struct k} : tval :=
  match e with
  | NScalar id sz => TS id sz
  | NChild v w =>
    match fget f v with
    | Some c =>
      if c_inl c then
        TI v w (c_kind c)
           (match k with
            | O => []
            | S k' => map (fun s => (s_kid s, s_ksz s, tv k' f (s_val s))) (c_slots c)
            end)
      else TR v w
    | None => TR v w
    end
  end.
Definition tslots (k : nat) (f : forest) (l : list slot) : list tslot :=
  map (fun s => (s_kid s, s_ksz s, tv k f (s_val s))) l.

(* the slab object of container v as Commit encodes it *)
Definition embed (n : nat) (f : forest) (v : N) : option reg :=
  match fget f v with Some c => Some (c_kind c, tslots n f (c_slots c)) | None => None end.

(* the register of v: only containers that are not inlined have one *)
Definition flat (n : nat) (f : forest) (v : N) : option reg :=
  match fget f v with
  | Some c => if c_inl c then None else Some (c_kind c, tslots n f (c_slots c))
  | None => None
  end.

Definition flatten (n : nat) (f : forest) : ledger :=
  flat_map (fun p : N * cstate => match flat n f (fst p) with Some r => [(fst p, r)] | None => [] end) (f_cs f).

Definition stored_ids (n : nat) (f : forest) : list N := map fst (flatten n f).

(* ---------- the reader ---------- *)
Inductive nval :=
| NS (id sz : N)
| NC (v w : N) (k : kind) (inl : bool) (l : list (N * N * nval)).
Definition ctree := (kind * list (N * N * nval))%type.

Fixpoint omap {A B} (h : A -> option B) (l : list A) : option (list B) :=
  match l with
  | [] => Some []
  | x :: r => match h x, omap h r with Some y, Some ys => Some (y :: ys) | _, _ => None end
  end.

Definition on_slot {A B} (h : A -> option B) (s : N * N * A) : option (N * N * B) :=
  match h (snd s) with Some y => Some (fst s, y) | None => None end.

Fixpoint expand (k : nat) (R : N -> option reg) (t : tval) {struct k} : option nval :=
  match t with
  | TS id sz => Some (NS id sz)
  | TR v w =>
    match k with
    | O => None
    | S k' =>
      match R v with
      | Some (kd, l) => option_map (NC v w kd false) (omap (on_slot (expand k' R)) l)
      | None => None                                   (* dangling reference *)
      end
    end
  | TI v w kd l =>
    match k with
    | O => None
    | S k' => option_map (NC v w kd true) (omap (on_slot (expand k' R)) l)
    end
  end.

Definition load (k : nat) (R : N -> option reg) (r : N) : option ctree :=
  match R r with
  | Some (kd, l) => option_map (pair kd) (omap (on_slot (expand k R)) l)
  | None => None
  end.

Definition lookup (led : ledger) : N -> option reg := aget led.

(* the forest below an element / a container, as a tree *)
Fixpoint unf (k : nat) (f : forest) (e : elem) {struct k} : nval :=
  match e with
  | NScalar id sz => NS id sz
  | NChild v w =>
    match fget f v with
    | Some c =>
      NC v w (c_kind c) (c_inl c)
         (match k with
          | O => []
          | S k' => map (fun s => (s_kid s, s_ksz s, unf k' f (s_val s))) (c_slots c)
          end)
    | None => NC v w KArr false []
    end
  end.
Definition uslots (k : nat) (f : forest) (l : list slot) : list (N * N * nval) :=
  map (fun s => (s_kid s, s_ksz s, unf k f (s_val s))) l.
Definition unfold (n : nat) (f : forest) (r : N) : option ctree :=
  match fget f r with Some c => Some (c_kind c, uslots n f (c_slots c)) | None => None end.

(* what a container looks like to a reader: kind, slots, inlined flag *)
Definition view (f : forest) (v : N) : option (kind * list slot * bool) :=
  match fget f v with Some c => Some (c_kind c, c_slots c, c_inl c) | None => None end.

Definition content (f : forest) (v : N) : option (kind * list slot) :=
  match fget f v with Some c => Some (c_kind c, c_slots c) | None => None end.

(* y is r or a descendant of r *)
Inductive reaches (f : forest) : N -> N -> Prop :=
| re_refl x : reaches f x x
| re_down x p i s t w : reaches f x p -> edge f p i s t w -> reaches f x t.

(* ---------- identifiers occurring in a register ---------- *)
Fixpoint tv_refs (t : tval) : list N :=
  match t with
  | TS _ _ => []
  | TR v _ => [v]
  | TI _ _ _ l => flat_map (fun s : tslot => tv_refs (snd s)) l
  end.
Fixpoint tv_inls (t : tval) : list N :=
  match t with
  | TS _ _ => []
  | TR _ _ => []
  | TI v _ _ l => v :: flat_map (fun s : tslot => tv_inls (snd s)) l
  end.
Definition reg_refs (r : reg) : list N := flat_map (fun s : tslot => tv_refs (snd s)) (snd r).
Definition reg_inls (r : reg) : list N := flat_map (fun s : tslot => tv_inls (snd s)) (snd r).

(* ---------- commit ---------- *)
Definition wr (n : nat) (f : forest) (v : N) (led : ledger) : ledger :=
  match dirty f v with
  | Some true => match embed n f v with Some r => aset led v r | None => led end
  | Some false => adel led v
  | None => led
  end.
Definition commit_ledger (n : nat) (f : forest) (led : ledger) : ledger :=
  fold_right (fun vb acc => wr n f (fst vb) acc) led (f_log f).

Record dstate := mkD { d_f : forest; d_led : ledger }.
Definition dinit : dstate := mkD empty_forest [].

Definition is_commit (o : nop) : bool := match o with OCommit => true | _ => false end.

Definition dstep (n : nat) (g : ncfg) (d : dstate) (o : nop) : dstate * bool :=
  let '(f', ok) := step n g (d_f d) o in
  (mkD f' (if is_commit o then commit_ledger n (d_f d) (d_led d) else d_led d), ok).

Fixpoint drun (n : nat) (g : ncfg) (d : dstate) (os : list nop) : dstate * bool :=
  match os with
  | [] => (d, true)
  | o :: r => let '(d1, ok) := dstep n g d o in if ok then drun n g d1 r else (d1, false)
  end.

(* ---------- specification vocabulary ---------- *)
Definition stored (f : forest) (v : N) : Prop := exists c, fget f v = Some c /\ c_inl c = false.
Definition inlined (f : forest) (v : N) : Prop := exists c, fget f v = Some c /\ c_inl c = true.
Definition flag (f : forest) (v : N) : option bool := option_map c_inl (fget f v).

(* x is y, or y is embedded in x: every container on the way down from x to y, y included, is inlined *)
Inductive ianc (f : forest) : N -> N -> Prop :=
| ia_refl x : ianc f x x
| ia_up x p i s t w : edge f p i s t w -> inlined f t -> ianc f x p -> ianc f x t.

(* the write set is consistent with the inlined flags: (v,true) only for stored containers,
   (v,false) (storage.Remove) only for inlined ones *)
Definition log_ok (f : forest) : Prop :=
  forall v b, dirty f v = Some b -> exists c, fget f v = Some c /\ c_inl c = negb b.

(* registers outside the write set are already in the ledger *)
Definition clean_ok (n : nat) (f : forest) (led : ledger) : Prop :=
  forall v, dirty f v = None -> lookup led v = flat n f v.

(* histories: like [reach], with the ledger *)
Inductive dreach (n : nat) (g : ncfg) : dstate -> Prop :=
| dreach_init : dreach n g dinit
| dreach_step d o d' : dreach n g d -> op_ok n (d_f d) o -> dstep n g d o = (d', true) -> dreach n g d'.

(* further operations without a commit *)
Inductive uncommitted (n : nat) (g : ncfg) (d : dstate) : dstate -> Prop :=
| unc_refl : uncommitted n g d d
| unc_step d1 o d2 : uncommitted n g d d1 -> is_commit o = false -> op_ok n (d_f d1) o ->
                     dstep n g d1 o = (d2, true) -> uncommitted n g d d2.

(* a container dropped by PopIterate while inlined: no register, in no slot (the callback of
   PopIterate received it; Nested.v keeps it as garbage) *)
Definition popped (f : forest) (v : N) : Prop := inlined f v /\ ~ attached f v.
