(* Nested.v — C10 / C11: a forest of nested containers with the parent-notification machinery of
   /repo/array.go and /repo/map.go (setCallbackWithChild, notifyParentIfNeeded, Storable,
   mutableElementIndex, uninlineStorableIfNeeded).

   What is modelled.  One state per container (handle discipline, DESIGN 2.5: one wrapper per
   container), FLAT: the slab tree of a container is abstracted to its element list and ONE cached
   size.  This uses the slab-tree fact (C05, proved over ArrayTree.v / checked by
   VerifyArray/VerifyMap in the harness and by the lock-step trace, event
   "multi_slab_child_below_limit" = 0): a container is inlinable iff its root is a single data
   slab whose inlined size is <= the limit; a container of several slabs is always larger than
   every per-element limit.  So [Inlinable(limit)] is [inl_prefix + cached data size <=? limit].

   - [c_csize] is header.size minus the prefix the root currently carries (the prefix swaps of
     Inline/Uninline are therefore invisible); for maps it is elements.Size() (incl. the
     hkeyElements prefix).  It is a CACHE: it changes only where Go changes header.size
     (Insert: += live size of the new element; Remove: -= live size of the removed element;
     Set: recomputed from the live sizes of all elements; PopIterate: reset).
     The per-element cache of map elements (singleElement.size) is folded into this one cache:
     map Remove subtracts the live size.  Level-0 digest collisions are not modelled (every map
     element is a singleElement: digest + 1 + key + value).
   - The size of a child element is LIVE: it reads the child's own cached size and inlined flag
     from the current forest, exactly like Go, where the inlined child's slab object IS the
     parent's element.
   - [c_upd] is the parentUpdater closure of the (single) wrapper: parent vid, key (maps),
     maxInlineSize already reduced by the wrapper size, the captured child value's wrapper levels.
     Arrays look the child up in the parent's [c_idx] (mutableElementIndex) and re-validate the
     value ID of the element found there; maps look the key up and compare value IDs.
   - [f_log] is the list of root-slab writes (newest first): (vid,true) = storeSlab of the
     container's (root) slab, (vid,false) = storage.Remove on inlining.  [dirty] = newest entry.
   - Deviation in statement order (not observable, stated by the Go comments in Array.set /
     Array.Insert / OrderedMap.set: "Setting up notification with new child value can happen at
     any time (either before or after this array notifies its parent)"): set_callback is applied
     before notify.
   - PopIterate drops the elements; inlined children that were dropped stay in the forest as
     unreferenced garbage (no handle to them is ever used again).
   Fuel: [notify] walks up the ancestor chain; fuel is a parameter of every operation, the
   theorems need fuel > nesting depth ([ranked]). *)
From Coq Require Import ZArith NArith List Bool.
From AtreeGen Require Import Consts.
Import ListNotations.
Local Open Scope N_scope.

Inductive kind := KArr | KMap.
Inductive elem := NScalar (id sz : N) | NChild (v w : N).
Record slot := mkSlot { s_kid : N; s_ksz : N; s_val : elem }.
Record upd := mkUpd { u_par : N; u_key : N; u_lim : N; u_w : N }.
Record cstate := mkC {
  c_kind : kind;
  c_slots : list slot;            (* arrays: sequence (kid = ksz = 0); maps: insertion order *)
  c_inl : bool;
  c_csize : N;
  c_upd : option upd;
  c_idx : list (N * nat)          (* mutableElementIndex (arrays) *)
}.
Record ncfg := mkCfg { g_arrlim : N; g_maplim : N; g_wp1 : N; g_wp2 : N }.
Record forest := mkF { f_cs : list (N * cstate); f_log : list (N * bool) }.

(* ---------- association lists ---------- *)
Section assoc.
  Context {A : Type}.
  Fixpoint aget (l : list (N * A)) (v : N) : option A :=
    match l with [] => None | (k, x) :: r => if k =? v then Some x else aget r v end.
  Fixpoint aset (l : list (N * A)) (v : N) (x : A) : list (N * A) :=
    match l with
    | [] => [(v, x)]
    | (k, y) :: r => if k =? v then (k, x) :: r else (k, y) :: aset r v x
    end.
  Fixpoint adel (l : list (N * A)) (v : N) : list (N * A) :=
    match l with [] => [] | (k, y) :: r => if k =? v then adel r v else (k, y) :: adel r v end.
End assoc.

Definition fget (f : forest) (v : N) : option cstate := aget (f_cs f) v.
Definition fset (f : forest) (v : N) (c : cstate) : forest := mkF (aset (f_cs f) v c) (f_log f).
Definition flog (f : forest) (v : N) (b : bool) : forest := mkF (f_cs f) ((v, b) :: f_log f).
Definition dirty (f : forest) (v : N) : option bool := aget (f_log f) v.

Definition with_slots c l sz idx := mkC (c_kind c) l (c_inl c) sz (c_upd c) idx.
Definition with_inl c b := mkC (c_kind c) (c_slots c) b (c_csize c) (c_upd c) (c_idx c).
Definition with_csize c z := mkC (c_kind c) (c_slots c) (c_inl c) z (c_upd c) (c_idx c).
Definition with_upd c u := mkC (c_kind c) (c_slots c) (c_inl c) (c_csize c) u (c_idx c).
Definition with_idx c i := mkC (c_kind c) (c_slots c) (c_inl c) (c_csize c) (c_upd c) i.

(* ---------- sizes ---------- *)
Definition wp (g : ncfg) (w : N) : N := match w with 0 => 0 | 1 => g_wp1 g | _ => g_wp2 g end.
Definition inl_prefix (k : kind) : N :=
  match k with KArr => c_inlinedArrayDataSlabPrefixSize | KMap => c_inlinedMapDataSlabPrefixSize end.
Definition base (k : kind) : N := match k with KArr => 0 | KMap => c_hkeyElementsPrefixSize end.
Definition inl_size (c : cstate) : N := inl_prefix (c_kind c) + c_csize c.

Definition child_size (f : forest) (v : N) : N :=
  match fget f v with
  | Some c => if c_inl c then inl_size c else c_slabIDStorableSize
  | None => c_slabIDStorableSize
  end.
Definition esize (g : ncfg) (f : forest) (e : elem) : N :=
  match e with NScalar _ sz => sz | NChild v w => wp g w + child_size f v end.
Definition slot_size (g : ncfg) (f : forest) (k : kind) (s : slot) : N :=
  match k with
  | KArr => esize g f (s_val s)
  | KMap => c_digestSize + c_singleElementPrefixSize + s_ksz s + esize g f (s_val s)
  end.
Fixpoint sum_slots (g : ncfg) (f : forest) (k : kind) (l : list slot) : N :=
  match l with [] => 0 | s :: r => slot_size g f k s + sum_slots g f k r end.
Definition data_size g f k l : N := base k + sum_slots g f k l.

(* maxInlineArrayElementSize / maxInlineMapValueSize(keySize), minus the wrapper size *)
Definition slot_lim (g : ncfg) (k : kind) (ksz w : N) : N :=
  (match k with KArr => g_arrlim g | KMap => g_maplim g - ksz - c_singleElementPrefixSize end) - wp g w.

(* ---------- list helpers ---------- *)
Fixpoint replace_nth {A} (i : nat) (x : A) (l : list A) : list A :=
  match l, i with
  | [], _ => []
  | _ :: r, O => x :: r
  | y :: r, S i' => y :: replace_nth i' x r
  end.
Fixpoint insert_nth {A} (i : nat) (x : A) (l : list A) : list A :=
  match i, l with
  | O, _ => x :: l
  | S i', y :: r => y :: insert_nth i' x r
  | S _, [] => [x]
  end.
Fixpoint remove_nth {A} (i : nat) (l : list A) : list A :=
  match l, i with
  | [], _ => []
  | _ :: r, O => r
  | y :: r, S i' => y :: remove_nth i' r
  end.
Fixpoint find_key (l : list slot) (k : N) : option nat :=
  match l with
  | [] => None
  | s :: r => if s_kid s =? k then Some O else option_map S (find_key r k)
  end.
Definition holds (s : slot) (v : N) : bool :=
  match s_val s with NChild v' _ => v' =? v | NScalar _ _ => false end.

(* incrementIndexFrom / decrementIndexFrom *)
Definition shift_up (i : nat) (idx : list (N * nat)) : list (N * nat) :=
  map (fun p : N * nat => if Nat.leb i (snd p) then (fst p, S (snd p)) else p) idx.
Definition shift_up_fails (i newcount : nat) (idx : list (N * nat)) : bool :=
  existsb (fun p : N * nat => Nat.leb i (snd p) && Nat.leb newcount (S (snd p))) idx.
Definition shift_down (i : nat) (idx : list (N * nat)) : list (N * nat) :=
  map (fun p : N * nat => if Nat.ltb i (snd p) then (fst p, pred (snd p)) else p) idx.

(* ---------- Storable(): the inline / uninline decision ---------- *)
Definition storable (f : forest) (v lim : N) : forest :=
  match fget f v with
  | None => f
  | Some c =>
    match inl_size c <=? lim, c_inl c with
    | true, false => flog (fset f v (with_inl c true)) v false     (* Inline: storage.Remove *)
    | false, true => flog (fset f v (with_inl c false)) v true     (* Uninline: storeSlab *)
    | _, _ => f
    end
  end.
Definition storable_elem g f k ksz (e : elem) : forest :=
  match e with NChild v w => storable f v (slot_lim g k ksz w) | NScalar _ _ => f end.

(* uninlineStorableIfNeeded on a removed / overwritten element *)
Definition uninline_old (f : forest) (e : elem) : forest :=
  match e with
  | NChild v _ =>
    match fget f v with
    | Some cv => if c_inl cv then flog (fset f v (with_inl cv false)) v true else f
    | None => f
    end
  | NScalar _ _ => f
  end.

(* store the container's slab unless it is inlined *)
Definition commit_slots (f : forest) (p : N) (c : cstate) l sz idx : forest :=
  let f1 := fset f p (with_slots c l sz idx) in
  if c_inl c then f1 else flog f1 p true.

(* setCallbackWithChild(i / key, child, maxInlineSize) *)
Definition set_callback (g : ncfg) (f : forest) (p : N) (i : nat) (s : slot) : forest :=
  match s_val s with
  | NScalar _ _ => f
  | NChild v w =>
    match fget f p with
    | None => f
    | Some c =>
      let f1 := match c_kind c with
                | KArr => fset f p (with_idx c (aset (c_idx c) v i))
                | KMap => f
                end in
      match fget f1 v with
      | None => f1
      | Some cv => fset f1 v (with_upd cv (Some (mkUpd p (s_kid s) (slot_lim g (c_kind c) (s_ksz s) w) w)))
      end
    end
  end.

Definition clear_upd (f : forest) (v : N) : forest :=
  match fget f v with Some c => fset f v (with_upd c None) | None => f end.

(* the lookup inside the parentUpdater closure *)
Definition find_child (p : cstate) (v : N) (u : upd) : option nat :=
  match (match c_kind p with KArr => aget (c_idx p) v | KMap => find_key (c_slots p) (u_key u) end) with
  | None => None
  | Some i =>
    match nth_error (c_slots p) i with
    | Some s => if holds s v then Some i else None
    | None => None
    end
  end.

(* private a.set(index, value) / m.set(key, value) on an existing slot; [ntf] = notifyParentIfNeeded *)
Definition cset_body (ntf : forest -> N -> forest * bool) (g : ncfg) (f : forest) (p : N) (i : nat) (e : elem)
  : forest * bool * option elem :=
  match fget f p with
  | None => (f, false, None)
  | Some c =>
    match nth_error (c_slots c) i with
    | None => (f, false, None)
    | Some s =>
      let f1 := storable_elem g f (c_kind c) (s_ksz s) e in
      match fget f1 p with
      | None => (f1, false, None)
      | Some c1 =>
        let s' := mkSlot (s_kid s) (s_ksz s) e in
        let l' := replace_nth i s' (c_slots c1) in
        let f2 := commit_slots f1 p c1 l' (data_size g f1 (c_kind c1) l') (c_idx c1) in
        let f3 := set_callback g f2 p i s' in
        let '(f4, ok) := ntf f3 p in
        (f4, ok, Some (s_val s))
      end
    end
  end.

(* notifyParentIfNeeded: run the updater closure of v *)
Fixpoint notify (n : nat) (g : ncfg) (f : forest) (v : N) : forest * bool :=
  match n with
  | O => (f, false)
  | S n' =>
    match fget f v with
    | None => (f, true)
    | Some c =>
      match c_upd c with
      | None => (f, true)
      | Some u =>
        if negb (c_inl c) && negb (inl_size c <=? u_lim u) then (f, true)   (* stays a reference: no write to the parent *)
        else
          match fget f (u_par u) with
          | None => (clear_upd f v, true)
          | Some pc =>
            match find_child pc v u with
            | None => (clear_upd f v, true)                                   (* not found: unset the callback *)
            | Some i =>
              let '(f', ok, _) := cset_body (notify n' g) g f (u_par u) i (NChild v (u_w u)) in (f', ok)
            end
          end
      end
    end
  end.

(* ---------- top-level operations; the boolean is "no error" ---------- *)
Definition is_arr (c : cstate) : bool := match c_kind c with KArr => true | KMap => false end.

Definition new_container (f : forest) (v : N) (k : kind) : forest :=
  flog (fset f v (mkC k [] false (base k) None [])) v true.

Definition arr_insert (n : nat) g f p (i : nat) (e : elem) : forest * bool :=
  match fget f p with
  | None => (f, false)
  | Some c =>
    if negb (is_arr c) || Nat.ltb (length (c_slots c)) i then (f, false) else
    let f1 := storable_elem g f KArr 0 e in
    match fget f1 p with
    | None => (f1, false)
    | Some c1 =>
      let s' := mkSlot 0 0 e in
      let l' := insert_nth i s' (c_slots c1) in
      let sz := c_csize c1 + esize g f1 e in
      if shift_up_fails i (length l') (c_idx c1)
      then (commit_slots f1 p c1 l' sz (c_idx c1), false)   (* "new index exceeds array count" *)
      else
        let f2 := commit_slots f1 p c1 l' sz (shift_up i (c_idx c1)) in
        let f3 := set_callback g f2 p i s' in
        notify n g f3 p
    end
  end.

Definition same_child (e : elem) (v : N) : bool :=
  match e with NChild v' _ => v' =? v | NScalar _ _ => false end.

Definition del_idx (f : forest) (p v : N) : forest :=
  match fget f p with Some c => fset f p (with_idx c (adel (c_idx c) v)) | None => f end.

Definition arr_set (n : nat) g f p (i : nat) (e : elem) : forest * bool :=
  match fget f p with
  | None => (f, false)
  | Some c =>
    if negb (is_arr c) then (f, false) else
    let '(f1, ok, old) := cset_body (notify n g) g f p i e in
    match old with
    | None => (f1, false)
    | Some o =>
      let f2 := uninline_old f1 o in
      let f3 := match o with
                | NChild v0 _ => if same_child e v0 then f2 else del_idx f2 p v0
                | NScalar _ _ => f2
                end in
      (f3, ok)
    end
  end.

Definition arr_remove (n : nat) g f p (i : nat) : forest * bool :=
  match fget f p with
  | None => (f, false)
  | Some c =>
    if negb (is_arr c) then (f, false) else
    match nth_error (c_slots c) i with
    | None => (f, false)
    | Some s =>
      let f2 := commit_slots f p c (remove_nth i (c_slots c)) (c_csize c - slot_size g f KArr s)
                             (shift_down i (c_idx c)) in
      let '(f3, ok) := notify n g f2 p in
      let f4 := uninline_old f3 (s_val s) in
      let f5 := match s_val s with NChild v0 _ => del_idx f4 p v0 | NScalar _ _ => f4 end in
      (f5, ok)
    end
  end.

Definition pop_step (n : nat) g f p : forest * bool :=
  match fget f p with
  | None => (f, false)
  | Some c => notify n g (commit_slots f p c [] (base (c_kind c)) []) p
  end.

(* the code before the repair "fix: notify parent container after PopIterate" *)
Definition pop_step_old (f : forest) (p : N) : forest * bool :=
  match fget f p with
  | None => (f, false)
  | Some c => (commit_slots f p c [] (base (c_kind c)) [], true)
  end.

Definition map_set (n : nat) g f p (kid ksz : N) (e : elem) : forest * bool :=
  match fget f p with
  | None => (f, false)
  | Some c =>
    if is_arr c then (f, false) else
    match find_key (c_slots c) kid with
    | Some i =>
      let '(f1, ok, old) := cset_body (notify n g) g f p i e in
      match old with
      | None => (f1, false)
      | Some o => (uninline_old f1 o, ok)
      end
    | None =>
      let f1 := storable_elem g f KMap ksz e in
      match fget f1 p with
      | None => (f1, false)
      | Some c1 =>
        let s' := mkSlot kid ksz e in
        let f2 := commit_slots f1 p c1 (c_slots c1 ++ [s']) (c_csize c1 + slot_size g f1 KMap s') (c_idx c1) in
        let f3 := set_callback g f2 p (length (c_slots c1)) s' in
        notify n g f3 p
      end
    end
  end.

Definition map_remove (n : nat) g f p (kid : N) : forest * bool :=
  match fget f p with
  | None => (f, false)
  | Some c =>
    if is_arr c then (f, false) else
    match find_key (c_slots c) kid with
    | None => (f, false)
    | Some i =>
      match nth_error (c_slots c) i with
      | None => (f, false)
      | Some s =>
        let f2 := commit_slots f p c (remove_nth i (c_slots c)) (c_csize c - slot_size g f KMap s) (c_idx c) in
        let '(f3, ok) := notify n g f2 p in
        (uninline_old f3 (s_val s), ok)
      end
    end
  end.

(* parent.Get(i) / map.Get(key) / the value yielded by a mutable iterator: setCallbackWithChild *)
Definition get_child g f p (loc : N) : forest * bool :=
  match fget f p with
  | None => (f, false)
  | Some c =>
    match (match c_kind c with KArr => Some (N.to_nat loc) | KMap => find_key (c_slots c) loc end) with
    | None => (f, false)
    | Some i =>
      match nth_error (c_slots c) i with
      | None => (f, false)
      | Some s => (set_callback g f p i s, true)
      end
    end
  end.

(* SetType *)
Definition touch (n : nat) g f v : forest * bool :=
  match fget f v with
  | None => (f, false)
  | Some c => if c_inl c then notify n g f v else (flog f v true, true)
  end.

(* a new wrapper object for v: no callback, no tracked indexes *)
Definition fresh_wrapper (f : forest) (v : N) : forest :=
  match fget f v with Some c => fset f v (with_idx (with_upd c None) []) | None => f end.

Definition commit (f : forest) : forest := mkF (f_cs f) [].

Definition empty_forest : forest := mkF [] [].

(* ---------- operations as data ---------- *)
Inductive nop :=
| ONew (v : N) (k : kind)
| OArrInsert (p : N) (i : nat) (e : elem)
| OArrSet (p : N) (i : nat) (e : elem)
| OArrRemove (p : N) (i : nat)
| OPop (p : N)
| OMapSet (p kid ksz : N) (e : elem)
| OMapRemove (p kid : N)
| OGet (p loc : N)
| OTouch (v : N)
| OCommit
| OFresh (v : N).

Definition step (n : nat) (g : ncfg) (f : forest) (o : nop) : forest * bool :=
  match o with
  | ONew v k => (new_container f v k, true)
  | OArrInsert p i e => arr_insert n g f p i e
  | OArrSet p i e => arr_set n g f p i e
  | OArrRemove p i => arr_remove n g f p i
  | OPop p => pop_step n g f p
  | OMapSet p kid ksz e => map_set n g f p kid ksz e
  | OMapRemove p kid => map_remove n g f p kid
  | OGet p loc => get_child g f p loc
  | OTouch v => touch n g f v
  | OCommit => (commit f, true)
  | OFresh v => (fresh_wrapper f v, true)
  end.

Fixpoint run (n : nat) (g : ncfg) (f : forest) (os : list nop) : forest * bool :=
  match os with
  | [] => (f, true)
  | o :: r => let '(f1, ok) := step n g f o in if ok then run n g f1 r else (f1, false)
  end.

(* the settings of the default slab size (gen/SettingsTable: T = 1024) with the SomeValue prefix
   sizes of test_utils (2 and 4); used by examples *)
Definition cfg1024 : ncfg := mkCfg 501 487 2 4.

(* ====================================================================================== *)
(* Invariant and specification vocabulary (statements only; proofs in proofs/Nested_proofs.v) *)

(* slot i of container p holds child v wrapped in w levels *)
Definition edge (f : forest) (p : N) (i : nat) (s : slot) (v w : N) : Prop :=
  exists c, fget f p = Some c /\ nth_error (c_slots c) i = Some s /\ s_val s = NChild v w.

Definition attached (f : forest) (v : N) : Prop := exists p i s w, edge f p i s v w.

(* the callback data Go installs for the child in slot s of a container of kind k *)
Definition upd_for (g : ncfg) (p : N) (k : kind) (s : slot) (w : N) : upd :=
  mkUpd p (s_kid s) (slot_lim g k (s_ksz s) w) w.

(* nesting is acyclic and shallower than the fuel *)
Definition ranked (n : nat) (f : forest) : Prop :=
  exists lvl : N -> nat,
    (forall p i s v w, edge f p i s v w -> (lvl p < lvl v)%nat) /\ forall v, (lvl v < n)%nat.

Record fstruct (n : nat) (g : ncfg) (f : forest) : Prop := {
  (* every child in a slot exists and its (single) wrapper carries the callback of that slot *)
  st_hooked : forall p c i s v w, fget f p = Some c -> nth_error (c_slots c) i = Some s -> s_val s = NChild v w ->
      exists cv, fget f v = Some cv /\ c_upd cv = Some (upd_for g p (c_kind c) s w) /\
                 (c_kind c = KArr -> aget (c_idx c) v = Some i);
  st_keys : forall p c, fget f p = Some c -> c_kind c = KMap -> NoDup (map s_kid (c_slots c));
  st_ranked : ranked n f
}.

(* C10_index_tracking as an invariant; maps track nothing *)
Definition idx_ok (f : forest) : Prop :=
  forall p c, fget f p = Some c ->
    (forall v i, In (v, i) (c_idx c) -> exists s w, nth_error (c_slots c) i = Some s /\ s_val s = NChild v w) /\
    (c_kind c = KMap -> c_idx c = []).

(* cached sizes are synchronised, and a child is inlined iff it fits its slot *)
Definition csize_ok (g : ncfg) (f : forest) : Prop :=
  forall x c, fget f x = Some c -> c_csize c = data_size g f (c_kind c) (c_slots c).
Definition inl_ok (g : ncfg) (f : forest) (v : N) : Prop :=
  forall p c i s w cv, fget f p = Some c -> nth_error (c_slots c) i = Some s -> s_val s = NChild v w ->
    fget f v = Some cv -> (c_inl cv = true <-> inl_size cv <= slot_lim g (c_kind c) (s_ksz s) w).

Definition fwf (n : nat) (g : ncfg) (f : forest) : Prop :=
  fstruct n g f /\ idx_ok f /\ csize_ok g f /\ forall v, inl_ok g f v.

(* operations through a handle *)
Inductive cop :=
| CInsert (i : nat) (e : elem) | CSet (i : nat) (e : elem) | CRemove (i : nat) | CPop
| CMSet (kid ksz : N) (e : elem) | CMRemove (kid : N) | CTouch.

Definition cop_nop (h : N) (o : cop) : nop :=
  match o with
  | CInsert i e => OArrInsert h i e | CSet i e => OArrSet h i e | CRemove i => OArrRemove h i
  | CPop => OPop h | CMSet kid ksz e => OMapSet h kid ksz e | CMRemove kid => OMapRemove h kid
  | CTouch => OTouch h
  end.
Definition child_step (n : nat) g f (h : N) (o : cop) : forest * bool := step n g f (cop_nop h o).

(* the plain-list meaning of an operation on the element list *)
Definition slots_after (o : cop) (l : list slot) : list slot :=
  match o with
  | CInsert i e => insert_nth i (mkSlot 0 0 e) l
  | CSet i e => match nth_error l i with Some s => replace_nth i (mkSlot (s_kid s) (s_ksz s) e) l | None => l end
  | CRemove i => remove_nth i l
  | CPop => []
  | CMSet kid ksz e =>
    match find_key l kid with
    | Some i => match nth_error l i with Some s => replace_nth i (mkSlot (s_kid s) (s_ksz s) e) l | None => l end
    | None => l ++ [mkSlot kid ksz e]
    end
  | CMRemove kid => match find_key l kid with Some i => remove_nth i l | None => l end
  | CTouch => l
  end.

(* a child given to an operation must be an existing, currently unattached container, and
   attaching it below p must keep the nesting acyclic and shallower than the fuel *)
Definition elem_ok (n : nat) (f : forest) (p : N) (e : elem) : Prop :=
  match e with
  | NScalar _ _ => True
  | NChild v w =>
    (exists cv, fget f v = Some cv) /\ ~ attached f v /\
    exists lvl : N -> nat,
      (forall x i s v' w', edge f x i s v' w' -> (lvl x < lvl v')%nat) /\ (lvl p < lvl v)%nat /\ forall x, (lvl x < n)%nat
  end.

Definition op_ok (n : nat) (f : forest) (o : nop) : Prop :=
  match o with
  | ONew v _ => fget f v = None
  | OArrInsert p i e => (exists c, fget f p = Some c /\ c_kind c = KArr /\ (i <= length (c_slots c))%nat) /\ elem_ok n f p e
  | OArrSet p i e => (exists c, fget f p = Some c /\ c_kind c = KArr /\ (i < length (c_slots c))%nat) /\ elem_ok n f p e
  | OArrRemove p i => exists c, fget f p = Some c /\ c_kind c = KArr /\ (i < length (c_slots c))%nat
  | OPop p => exists c, fget f p = Some c
  | OMapSet p _ _ e => (exists c, fget f p = Some c /\ c_kind c = KMap) /\ elem_ok n f p e
  | OMapRemove p kid => exists c i, fget f p = Some c /\ c_kind c = KMap /\ find_key (c_slots c) kid = Some i
  | OGet p loc =>
    exists c i s, fget f p = Some c /\
      (match c_kind c with KArr => Some (N.to_nat loc) | KMap => find_key (c_slots c) loc end) = Some i /\
      nth_error (c_slots c) i = Some s
  | OTouch v => exists c, fget f v = Some c
  | OCommit => True
  | OFresh _ => False      (* re-obtaining wrappers (FRESH + GET sequences) is covered by the trace engine only *)
  end.

(* states reachable by interleaved histories of parent and child operations *)
Inductive reach (n : nat) (g : ncfg) : forest -> Prop :=
| reach_empty : reach n g empty_forest
| reach_step f o f' : reach n g f -> op_ok n f o -> step n g f o = (f', true) -> reach n g f'.

(* the parent the callback of v would find *)
Definition parent_of (f : forest) (v : N) : option N :=
  match fget f v with
  | Some c =>
    match c_upd c with
    | Some u =>
      match fget f (u_par u) with
      | Some pc => match find_child pc v u with Some _ => Some (u_par u) | None => None end
      | None => None
      end
    | None => None
    end
  | None => None
  end.

(* the nearest ancestor-or-self that is a stored (not inlined) container *)
Fixpoint enclosing (n : nat) (f : forest) (v : N) : option N :=
  match n with
  | O => None
  | S n' =>
    match fget f v with
    | Some c => if c_inl c then match parent_of f v with Some p => enclosing n' f p | None => None end else Some v
    | None => None
    end
  end.

(* a container that is in no slot and is stored on its own *)
Definition detached (f : forest) (h : N) : Prop :=
  (exists c, fget f h = Some c /\ c_inl c = false) /\ ~ attached f h.

Definition new_child (o : cop) (x : N) : Prop :=
  match o with
  | CInsert _ (NChild v _) | CSet _ (NChild v _) | CMSet _ _ (NChild v _) => x = v
  | _ => False
  end.
