(* HealthTrace.v — protocol encoding of the health-check queries of Health.v.

   Every step of a history is one query against a storage snapshot; the engine is stateless.

   Graph encoding  <graph> ::= nslabs  <slab>*nslabs
                   <slab>  ::= owner index nrefs (owner index)*nrefs
   (the references of a slab in the order met; identifiers as two unsigned integers).
   The order of the <slab> entries is the iteration order given to the model.  The harness
   lists the slabs ascending by (owner, index): Go's map order is not observable, and by
   C20_sound/C20_complete success/failure and the root set do not depend on it.

   Operation 1 — CheckStorageHealth:   1 coarse expected <graph>
       expected = -1: no root-count check.
       answer  0 (owner index)*     success, roots ascending by (owner, index)
               1 class              failure; class = 0 when coarse = 1 (only ok/err compared,
                                    used when the Go error arises outside the modelled
                                    algorithm, e.g. in the slab iterator), otherwise
                                    1 duplicate slab, 2 two parents, 3 referenced slab missing,
                                    4 leaf visited twice, 5 child not found, 6 parent not found,
                                    7 owner mismatch, 8 unreachable slab, 9 root count,
                                    10 out of fuel (Go: no termination).
   Operation 2 — GetAllChildReferences: 2 owner index <graph>
       answer  0 nrefs (owner index)*nrefs nbroken (owner index)*nbroken
                                    both lists ascending (with multiplicity).  The order inside
                                    Go's result depends on how deep inside inlined containers a
                                    reference sits, which the flattened graph does not record;
                                    the lists are therefore compared as sorted multisets.
               1                    start slab not found
               2                    out of fuel (Go: no termination). *)
From stdpp Require Import gmap sorting.
From Coq Require Import ZArith NArith List Bool.
From AtreeModel Require Import Proto Storage Health.
Import ListNotations.
Local Open Scope Z_scope.

Fixpoint take_ids (n : nat) (l : list Z) : option (list sid * list Z) :=
  match n with
  | O => Some ([], l)
  | S n' =>
    match l with
    | a :: i :: r =>
      match take_ids n' r with
      | Some (t, r') => Some ((zN a, zN i) :: t, r')
      | None => None
      end
    | _ => None
    end
  end.

Fixpoint dec_slabs (n : nat) (l : list Z) : option (list (sid * list sid) * list Z) :=
  match n with
  | O => Some ([], l)
  | S n' =>
    match l with
    | a :: i :: k :: r =>
      match take_ids (znat k) r with
      | Some (rs, r') =>
        match dec_slabs n' r' with
        | Some (t, r'') => Some (((zN a, zN i), rs) :: t, r'')
        | None => None
        end
      | None => None
      end
    | _ => None
    end
  end.

(* a complete <graph>: nothing may follow *)
Definition dec_graph (l : list Z) : option (list (sid * list sid)) :=
  match l with
  | n :: r =>
    if n <? 0 then None else
    match dec_slabs (znat n) r with
    | Some (t, []) => Some t
    | _ => None
    end
  | [] => None
  end.

Inductive hop : Type :=
| HCheck (coarse : bool) (expected : option nat) (slabs : list (sid * list sid))
| HRefs (id : sid) (slabs : list (sid * list sid)).

Definition dec_hop (l : line) : option hop :=
  match l with
  | 1 :: c :: e :: r =>
    match dec_graph r with
    | Some t => Some (HCheck (zbool c) (if e <? 0 then None else Some (znat e)) t)
    | None => None
    end
  | 2 :: a :: i :: r =>
    match dec_graph r with
    | Some t => Some (HRefs (zN a, zN i) t)
    | None => None
    end
  | _ => None
  end.

Definition enc_ids (l : list sid) : line :=
  flat_map (fun x : sid => [Nz (fst x); Nz (snd x)]) l.

Definition sort_ids (l : list sid) : list sid := merge_sort sid_le l.

Definition herr_code (e : herr) : Z :=
  match e with
  | EDuplicate => 1 | ETwoParents => 2 | EMissingRef => 3 | ELeafTwice => 4
  | EChildNotFound => 5 | EParentNotFound => 6 | EOwner => 7 | EUnreachable => 8
  | ERootCount => 9 | EFuel => 10
  end.

Definition run_hop (o : hop) : line :=
  match o with
  | HCheck coarse expected sl =>
    match check_health (map fst sl) (graph_of sl) expected with
    | Ok roots => 0 :: enc_ids (sort_ids roots)
    | Err e => [1; if coarse then 0 else herr_code e]
    end
  | HRefs id sl =>
    match get_all_child_refs (graph_of sl) id with
    | GOk refs broken =>
      0 :: natz (length refs) :: enc_ids (sort_ids refs) ++
           natz (length broken) :: enc_ids (sort_ids broken)
    | GNotFound => [1]
    | GFuel => [2]
    end
  end.

Definition health_step (s : unit) (o : hop) : unit * line := (s, run_hop o).

Definition check_health_trace (tr : list (line * line)) : verdict :=
  check_from dec_hop health_step tt tr 0.

(* uniform entry point: configuration line (unused) and the steps *)
Definition chk_health (_ : line) (tr : list (line * line)) : verdict := check_health_trace tr.
