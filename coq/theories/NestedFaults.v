(* NestedFaults.v — C14 / C08 for NESTED containers: commits of the forest's write set that fail
   part-way, and schedules of commits / cache drops / reopenings between forest operations.

   NestedDurable.v commits the write log [f_log] of the forest model Nested.v in one piece
   ([commit_ledger], forest operation [OCommit]).  storage.go does it register by register:
     Commit / FastCommit            iterate over sortedOwnedDeltaKeys()           (ascending identifiers)
     NondeterministicFastCommit     iterates in the order of Go's map iteration and of the arrival
                                    of the encoder workers' results               (some permutation)
   and for every identifier: encode the slab object AS IT IS NOW (for a container root: with all its
   inlined descendants, [embed]) and baseStorage.Store it, or baseStorage.Remove it when the delta
   is nil; on success `delete(s.deltas, id)`; on the first ledger error the commit RETURNS — the
   deltas not yet processed (the failed one included) stay in the write set
   (theories/Storage.v [apply_writes] / [apply_one] is the same loop over opaque slabs).

   Here, on the one-register-per-stored-container ledger of NestedDurable.v:
   [FTry order fail]   one commit ATTEMPT: [order] is the order in which the attempt visits the
                       identifiers of the write set — ANY duplicate-free list of dirty identifiers
                       ([attempt_ok]; this covers the sorted order [sorted_keys] of Commit/FastCommit
                       and every order NondeterministicFastCommit can produce); [fail = Some k]: the
                       k-th ledger call (0-based) returns an error: the first k identifiers of
                       [order] are written / removed ([apply_ids], the same [wr] as [commit_ledger])
                       and leave the write set ([log_drop]); everything else stays pending.
                       An attempt that is not stopped by a fault must visit the whole write set.
   [sview]             what the storage INSTANCE returns for an identifier: the pending slab object
                       if there is one (deltas first), else the ledger register.  The read cache is
                       not a component of this model: it is coherent with the ledger (C08 / C15 on
                       Storage.v), so
   [FDrop]             DropCache / eviction is the identity here, and
   [FReopen]           a brand-new storage over the ledger (only when nothing is pending, as in C08)
                       is the identity on the forest: what the new storage reads for a stored
                       container r is [load n (lookup led) r], and by C03_nested_roundtrip that is
                       [unfold n f r] — exactly the forest below r (kinds, slots, inlined flags;
                       C03_nested_unfold_faithful); the theorems state this equation at every
                       reopen point instead of rebuilding the forest.  Wrapper state (callbacks,
                       index maps) of re-obtained handles is the concern of C10 / the trace engine
                       ([OFresh] is outside [op_ok]).
   Statements: props/C14_nested.v, props/C08_nested.v; proofs: proofs/NestedFaults_proofs.v. *)
From Coq Require Import ZArith NArith List Bool.
From AtreeModel Require Import Nested NestedDurable.
Import ListNotations.
Local Open Scope N_scope.

(* ---------- lists of identifiers ---------- *)
Definition memb (v : N) (l : list N) : bool := existsb (N.eqb v) l.
Fixpoint nodupb (l : list N) : bool :=
  match l with [] => true | x :: r => negb (memb x r) && nodupb r end.
Fixpoint dedup (l : list N) : list N :=
  match l with [] => [] | x :: r => if memb x r then dedup r else x :: dedup r end.
Fixpoint ins (x : N) (l : list N) : list N :=
  match l with [] => [x] | y :: r => if x <=? y then x :: l else y :: ins x r end.
Definition nsort (l : list N) : list N := fold_right ins [] l.

(* the identifiers of the write set, and sortedOwnedDeltaKeys *)
Definition dirty_keys (f : forest) : list N := map fst (f_log f).
Definition sorted_keys (f : forest) : list N := nsort (dedup (dirty_keys f)).

(* ---------- one commit attempt ---------- *)
(* the ledger calls of the identifiers [ids], in this order; the slab objects are those of f *)
Definition apply_ids (n : nat) (f : forest) (ids : list N) (led : ledger) : ledger :=
  fold_left (fun acc v => wr n f v acc) ids led.

(* `delete(s.deltas, id)` for the identifiers whose ledger call succeeded *)
Definition log_drop (done : list N) (f : forest) : forest :=
  mkF (f_cs f) (filter (fun vb : N * bool => negb (memb (fst vb) done)) (f_log f)).

Definition processed (order : list N) (fail : option nat) : list N :=
  match fail with Some k => firstn k order | None => order end.
(* did the armed fault fire? (call k exists) *)
Definition faulted (order : list N) (fail : option nat) : bool :=
  match fail with Some k => Nat.ltb k (length order) | None => false end.

Definition attempt_ok (f : forest) (order : list N) (fail : option nat) : bool :=
  nodupb order && forallb (fun v => memb v (dirty_keys f)) order &&
  (faulted order fail || forallb (fun v => memb v order) (dirty_keys f)).

Definition try_commit (n : nat) (d : dstate) (order : list N) (fail : option nat) : dstate :=
  let done := processed order fail in
  mkD (log_drop done (d_f d)) (apply_ids n (d_f d) done (d_led d)).

(* Commit / FastCommit visit [sorted_keys]; NondeterministicFastCommit with >= 2 modified slabs: all removals, then the stores (storage.go
   lines 829-882); one of the orders covered by [attempt_ok] *)
Definition nondet_order (f : forest) : list N :=
  filter (fun v => match dirty f v with Some false => true | _ => false end) (dedup (dirty_keys f)) ++
  filter (fun v => match dirty f v with Some true => true | _ => false end) (dedup (dirty_keys f)).

(* ---------- reads through the storage instance ---------- *)
Definition sview (n : nat) (d : dstate) (v : N) : option reg :=
  match dirty (d_f d) v with
  | Some true => embed n (d_f d) v          (* pending slab object *)
  | Some false => None                      (* pending removal *)
  | None => lookup (d_led d) v
  end.

(* ---------- histories with commit attempts, cache drops and reopenings ---------- *)
Inductive fitem :=
| FOp (o : nop)                                   (* a forest operation (OCommit = one fault-free sorted commit) *)
| FTry (order : list N) (fail : option nat)       (* a commit attempt *)
| FDrop                                           (* DropCache / eviction *)
| FReopen.                                        (* new storage over the ledger *)

Definition fstep (n : nat) (g : ncfg) (d : dstate) (it : fitem) : dstate * bool :=
  match it with
  | FOp o => dstep n g d o
  | FTry order fail => (try_commit n d order fail, true)
  | FDrop => (d, true)
  | FReopen => (d, true)
  end.

Fixpoint frun (n : nat) (g : ncfg) (d : dstate) (l : list fitem) : dstate * bool :=
  match l with
  | [] => (d, true)
  | it :: r => let '(d1, ok) := fstep n g d it in if ok then frun n g d1 r else (d1, false)
  end.

(* the container states after every forest operation of the history *)
Fixpoint ftrace (n : nat) (g : ncfg) (d : dstate) (l : list fitem) : list (list (N * cstate)) :=
  match l with
  | [] => []
  | it :: r =>
    let d1 := fst (fstep n g d it) in
    match it with FOp _ => f_cs (d_f d1) :: ftrace n g d1 r | _ => ftrace n g d1 r end
  end.

Fixpoint ops_of (l : list fitem) : list nop :=
  match l with [] => [] | FOp o :: r => o :: ops_of r | _ :: r => ops_of r end.

Definition is_try (it : fitem) : bool := match it with FTry _ _ => true | _ => false end.
Definition try_faulted (it : fitem) : bool := match it with FTry o fl => faulted o fl | _ => false end.
(* no attempt of the history is stopped by a fault *)
Definition fault_free (l : list fitem) : bool := forallb (fun it => negb (try_faulted it)) l.

(* admissibility of an item in the state where it is issued *)
Definition item_ok (n : nat) (d : dstate) (it : fitem) : Prop :=
  match it with
  | FOp o => op_ok n (d_f d) o
  | FTry order fail => attempt_ok (d_f d) order fail = true
  | FDrop => True
  | FReopen => f_log (d_f d) = []
  end.

Fixpoint hist_ok (n : nat) (g : ncfg) (d : dstate) (l : list fitem) : Prop :=
  match l with
  | [] => True
  | it :: r => item_ok n d it /\ snd (fstep n g d it) = true /\ hist_ok n g (fst (fstep n g d it)) r
  end.

(* the same for the inserted items only (nothing is asked of the operations) *)
Fixpoint sched_ok (n : nat) (g : ncfg) (d : dstate) (l : list fitem) : Prop :=
  match l with
  | [] => True
  | it :: r => (match it with FOp _ => True | _ => item_ok n d it end) /\ sched_ok n g (fst (fstep n g d it)) r
  end.

(* two forests with the same container states (they may differ in the write log) *)
Definition cs_eq (f1 f2 : forest) : Prop := f_cs f1 = f_cs f2.
