(* AliasTrace.v — protocol encoding of the pointer-level storage model (engine "alias").

   The harness cannot know the model's addresses, so objects are named by CLIENT REGISTERS:
   a register is bound to the object a storage call returned (or the client created); operations
   name registers; the observation [Dump] lists, for a given list of identifiers and registers,
   every reference slot (cache entry, write-set entry, register) as
       [class; value id; value size]
   where class 0 = absent, 1 = nil entry, k >= 2 = the k-th DISTINCT object in slot order.  Two
   slots hold the same object iff they show the same class: pointer identity is compared up to
   renaming, together with the content of every object and the invariant flag [cleanb]. *)
From stdpp Require Import gmap.
From Coq Require Import ZArith NArith List Bool.
From AtreeModel Require Import Proto Storage StorageTrace AliasStorage.
Import ListNotations.
Local Open Scope Z_scope.

Record tst : Type := mktst { t_st : ast; t_regs : gmap N addr }.

Definition tst_init : tst := mktst ast_init ∅.

Inductive top : Type :=
| TStore (i : sid) (k : N)
| TRemove (i : sid)
| TRetrieve (i : sid) (k : N)
| TRetrieveIfLoaded (i : sid) (k : N)
| TRetrieveIgnoringDeltas (i : sid) (c : bool) (k : N)
| TFastCommit (fail : option nat)
| TNondetCommit (order : list sid) (fail : option nat)
| TDropDeltas
| TDropCache
| TBatchPreload (ids : list sid)
| TRecreate
| TBaseGet (i : sid)
| TNew (k : N) (v : val)
| TMutate (k : N) (v : val)
| TForget (k : N)
| TBindCache (i : sid) (k : N)     (* name the object held by cache[i] (no storage call) *)
| TBindDelta (i : sid) (k : N)     (* name the object held by deltas[i] (no storage call) *)
| TDump (regs : list N) (ids : list sid).

Fixpoint take_n (n : nat) (l : list Z) : list Z * list Z :=
  match n, l with
  | O, _ => ([], l)
  | S m, x :: r => let '(a, b) := take_n m r in (x :: a, b)
  | S _, [] => ([], [])
  end.

Definition dec_top (l : line) : option top :=
  match l with
  | [1; a; i; k] => Some (TStore (zN a, zN i) (zN k))
  | [2; a; i] => Some (TRemove (zN a, zN i))
  | [3; a; i; k] => Some (TRetrieve (zN a, zN i) (zN k))
  | [4; a; i; k] => Some (TRetrieveIfLoaded (zN a, zN i) (zN k))
  | [5; a; i; c; k] => Some (TRetrieveIgnoringDeltas (zN a, zN i) (zbool c) (zN k))
  | [6; f] => Some (TFastCommit (dec_fail f))
  | 7 :: f :: r => match dec_ids r with Some ids => Some (TNondetCommit ids (dec_fail f)) | None => None end
  | [8] => Some TDropDeltas
  | [9] => Some TDropCache
  | 10 :: r => match dec_ids r with Some ids => Some (TBatchPreload ids) | None => None end
  | [13] => Some TRecreate
  | [14; a; i] => Some (TBaseGet (zN a, zN i))
  | [15; k; v; z] => Some (TNew (zN k) (mkval (zN v) (zN z)))
  | [16; k; v; z] => Some (TMutate (zN k) (mkval (zN v) (zN z)))
  | [17; k] => Some (TForget (zN k))
  | [18; a; i; k] => Some (TBindCache (zN a, zN i) (zN k))
  | [19; a; i; k] => Some (TBindDelta (zN a, zN i) (zN k))
  | 20 :: n :: r =>
    let '(ks, rest) := take_n (znat n) r in
    match dec_ids rest with Some ids => Some (TDump (map zN ks) ids) | None => None end
  | _ => None
  end.

(* the answer of a call that returns an object bound to register [k]:
   [0] nothing; [1; e] an object, e = 0 register was unbound, 1 it already held this object,
   2 it held ANOTHER object (the harness never reports 2: it chooses k by pointer identity) *)
Definition bind_result (t : tst) (a' : ast) (k : N) (r : option addr) : tst * line :=
  match r with
  | None => (mktst a' (t_regs t), [0])
  | Some x =>
    let e := match t_regs t !! k with
             | None => 0
             | Some y => if N.eqb x y then 1 else 2
             end in
    (mktst a' (<[k := x]> (t_regs t)), [1; e])
  end.

Definition enc_simple (x : aout) : line :=
  match x with
  | AOOk => [2]
  | AOErrSlabID => [3]
  | AOCommit ok log => 4 :: boolz ok :: enc_log log
  | AOBadOrder => [5]
  | AOVal None => [0]
  | AOVal (Some v) => [1; Nz (v_id v); Nz (v_sz v)]
  | AONew _ => [2]
  | AORef _ _ => [97]
  end.

Fixpoint index_of (x : addr) (l : list addr) (k : nat) : option nat :=
  match l with
  | [] => None
  | y :: r => if N.eqb x y then Some k else index_of x r (S k)
  end.

Definition slot : Type := option (option addr).

Fixpoint classes (a : ast) (slots : list slot) (seen : list addr) : line :=
  match slots with
  | [] => []
  | None :: r => 0 :: 0 :: 0 :: classes a r seen
  | Some None :: r => 1 :: 0 :: 0 :: classes a r seen
  | Some (Some x) :: r =>
    let '(c, seen') := match index_of x seen 0 with
                       | Some k => (k, seen)
                       | None => (length seen, seen ++ [x])
                       end in
    let '(vi, vz) := match aheap a !! x with
                     | Some v => (Nz (v_id v), Nz (v_sz v))
                     | None => (-1, -1)
                     end in
    (natz c + 2) :: vi :: vz :: classes a r seen'
  end.

Definition dump_slots (t : tst) (regs : list N) (ids : list sid) : list slot :=
  flat_map (fun i => [acache (t_st t) !! i; adeltas (t_st t) !! i]) ids
  ++ map (fun k => match t_regs t !! k with Some x => Some (Some x) | None => None end) regs.

Definition tstep (t : tst) (o : top) : tst * line :=
  let a := t_st t in
  match o with
  | TStore i k =>
    match t_regs t !! k with
    | Some x => let '(a', y) := astep a (AStore i x) in (mktst a' (t_regs t), enc_simple y)
    | None => (t, [98])
    end
  | TRemove i => let '(a', y) := astep a (ARemove i) in (mktst a' (t_regs t), enc_simple y)
  | TRetrieve i k => let '(a', r) := a_retrieve a i in bind_result t a' k r
  | TRetrieveIfLoaded i k => bind_result t a k (a_retrieve_if_loaded a i)
  | TRetrieveIgnoringDeltas i c k => let '(a', r) := a_rid a i c in bind_result t a' k r
  | TFastCommit f => let '(a', y) := astep a (AFastCommit f) in (mktst a' (t_regs t), enc_simple y)
  | TNondetCommit order f => let '(a', y) := astep a (ANondetCommit order f) in (mktst a' (t_regs t), enc_simple y)
  | TDropDeltas => let '(a', y) := astep a ADropDeltas in (mktst a' (t_regs t), enc_simple y)
  | TDropCache => let '(a', y) := astep a ADropCache in (mktst a' (t_regs t), enc_simple y)
  | TBatchPreload ids => let '(a', y) := astep a (ABatchPreload ids) in (mktst a' (t_regs t), enc_simple y)
  | TRecreate => let '(a', y) := astep a ARecreate in (mktst a' (t_regs t), enc_simple y)
  | TBaseGet i => let '(a', y) := astep a (ABaseGet i) in (mktst a' (t_regs t), enc_simple y)
  | TNew k v => let '(a', x) := alloc a v in (mktst a' (<[k := x]> (t_regs t)), [2])
  | TMutate k v =>
    match t_regs t !! k with
    | Some x => (mktst (a_mutate a x v) (t_regs t), [2])
    | None => (t, [98])
    end
  | TForget k => (mktst a (delete k (t_regs t)), [2])
  | TBindCache i k => bind_result t a k (match acache a !! i with Some r => r | None => None end)
  | TBindDelta i k => bind_result t a k (match adeltas a !! i with Some r => r | None => None end)
  | TDump regs ids => (t, classes a (dump_slots t regs ids) [] ++ [boolz (cleanb a)])
  end.

Definition check_alias (tr : list (line * line)) : verdict :=
  check_from dec_top tstep tst_init tr 0.

Definition chk_alias (_ : line) (tr : list (line * line)) : verdict := check_alias tr.
