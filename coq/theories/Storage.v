(* Storage.v — executable model of atree's PersistentSlabStorage (storage.go).

   Three layers: write set [deltas] (Some None = slab removed), read cache [cache]
   (Some None = known-deleted), ledger registers [base].  Slabs are opaque values
   (identity + reported byte size); the byte codec is modelled in Codec.v and enters
   here only through "what is decoded from a register is what was encoded into it".

   Model only: proofs live in proofs/Storage_proofs.v so that the model still runs
   (and the correspondence check still works) when a proof breaks. *)
From stdpp Require Import gmap sorting.
From Coq Require Import ZArith NArith.

Local Open Scope N_scope.

(** * Identifiers and values *)

Definition sid : Type := N * N.            (* (owner address as uint64, slab index as uint64) *)
Definition is_temp (i : sid) : bool := N.eqb (fst i) 0.
Definition is_undefined (i : sid) : bool := N.eqb (fst i) 0 && N.eqb (snd i) 0.

Record val : Type := mkval { v_id : N; v_sz : N }.

Global Instance val_eq_dec : EqDecision val.
Proof. solve_decision. Defined.

(** ascending (owner, index): the comparison of sortedOwnedDeltaKeys *)
Definition sid_le (a b : sid) : Prop :=
  fst a < fst b \/ (fst a = fst b /\ snd a <= snd b).
Global Instance sid_le_dec a b : Decision (sid_le a b).
Proof. unfold sid_le. apply _. Defined.

(** * State *)

Record st : Type := mkst {
  deltas : gmap sid (option val);
  cache  : gmap sid (option val);
  base   : gmap sid val
}.

Definition st_init : st := mkst ∅ ∅ ∅.

(** * Operations *)

Inductive sop : Type :=
| SStore (i : sid) (v : val)
| SRemove (i : sid)
| SRetrieve (i : sid)
| SRetrieveIfLoaded (i : sid)
| SRetrieveIgnoringDeltas (i : sid) (c : bool)
| SFastCommit (fail : option nat)
| SNondetCommit (order : list sid) (fail : option nat)
| SDropDeltas
| SDropCache
| SBatchPreload (ids : list sid)
| SObserve
| SHasUnsaved (a : N)
| SRecreate
| SBaseGet (i : sid).

(* one ledger call issued by a commit: (true, id) = Store, (false, id) = Remove *)
Definition wlog : Type := list (bool * sid).

Inductive sout : Type :=
| ORet (v : option val)
| OOk
| OErrSlabID
| OCommit (ok : bool) (log : wlog)
| OBadOrder
| OObs (n_deltas n_owned size_owned : N)
| OBool (b : bool).

(** ** reads *)

Definition retrieve_ignoring_deltas (s : st) (i : sid) (c : bool) : st * option val :=
  match cache s !! i with
  | Some x => (s, x)
  | None =>
    match base s !! i with
    | None => (s, None)
    | Some v => ((if c then mkst (deltas s) (<[i := Some v]> (cache s)) (base s) else s), Some v)
    end
  end.

Definition retrieve (s : st) (i : sid) : st * option val :=
  match deltas s !! i with
  | Some x => (s, x)
  | None => retrieve_ignoring_deltas s i true
  end.

Definition retrieve_if_loaded (s : st) (i : sid) : option val :=
  match deltas s !! i with
  | Some x => x
  | None => match cache s !! i with Some x => x | None => None end
  end.

(** ** commit *)

(* one iteration of the apply loop of commit / FastCommit / NondeterministicFastCommit *)
Definition apply_one (s : st) (i : sid) : st * option (bool * sid) :=
  match deltas s !! i with
  | None => (s, None)
  | Some None =>
    (mkst (delete i (deltas s)) (<[i := None]> (cache s)) (delete i (base s)), Some (false, i))
  | Some (Some v) =>
    (mkst (delete i (deltas s)) (<[i := Some v]> (cache s)) (<[i := v]> (base s)), Some (true, i))
  end.

(* the call a loop iteration would issue, without performing it *)
Definition call_of (s : st) (i : sid) : option (bool * sid) :=
  match deltas s !! i with
  | None => None
  | Some None => Some (false, i)
  | Some (Some _) => Some (true, i)
  end.

(* [fail = Some k]: the k-th ledger call of this commit (0-based) returns an error; the call is
   logged, nothing is changed by it, and the commit returns at once. *)
Fixpoint apply_writes (ids : list sid) (fail : option nat) (s : st) (log : wlog) : st * bool * wlog :=
  match ids with
  | [] => (s, true, rev log)
  | i :: r =>
    match call_of s i with
    | None => apply_writes r fail s log
    | Some c =>
      match fail with
      | Some O => (s, false, rev (c :: log))
      | _ =>
        apply_writes r (match fail with Some (S k) => Some k | _ => None end)
                     (fst (apply_one s i)) (c :: log)
      end
    end
  end.

Definition owned_delta_keys (s : st) : list sid :=
  filter (fun i => is_temp i = false) (map fst (map_to_list (deltas s))).

Definition sorted_owned_delta_keys (s : st) : list sid := merge_sort sid_le (owned_delta_keys s).

Definition fast_commit (s : st) (fail : option nat) : st * bool * wlog :=
  apply_writes (sorted_owned_delta_keys s) fail s [].

(* The order-relaxed commit processes the owned write set in an order chosen by Go's map
   iteration and by the arrival of worker results.  The model takes the order as a parameter
   and accepts exactly the orders the Go code can produce:
     - no identifier twice, every identifier an owned key of the write set,
     - with two or more modified slabs: all deletions before all stores (lines 829-882),
       otherwise: the stores (at most one) before the deletions (line 787-789),
     - if no fault stopped it, every owned key was processed. *)
Definition is_del (s : st) (i : sid) : bool :=
  match deltas s !! i with Some None => true | _ => false end.
Definition is_mod (s : st) (i : sid) : bool :=
  match deltas s !! i with Some (Some _) => true | _ => false end.

Fixpoint all_then (p q : sid -> bool) (l : list sid) : bool :=   (* p* q* *)
  match l with
  | [] => true
  | i :: r => if p i then all_then p q r else forallb q (i :: r)
  end.

Definition nodupb (l : list sid) : bool := bool_decide (NoDup l).

Definition order_ok (s : st) (order : list sid) (complete : bool) : bool :=
  let owned := owned_delta_keys s in
  let nmod := length (filter (fun i => is_mod s i = true) owned) in
  nodupb order
  && forallb (fun i => bool_decide (i ∈ owned)) order
  && (if Nat.leb 2 nmod then all_then (is_del s) (is_mod s) order
      else all_then (is_mod s) (is_del s) order)
  && (if complete then Nat.eqb (length order) (length owned) else true).

Definition nondet_commit (s : st) (order : list sid) (fail : option nat) : option (st * bool * wlog) :=
  let complete := match fail with None => true | Some _ => false end in
  if order_ok s order complete then Some (apply_writes order fail s []) else None.

(* FastCommit lines 633-682 in detail: the encoder workers' results arrive in ANY order, are
   collected into a map keyed by identifier, and only then applied in sorted key order by the
   calling goroutine.  [arrivals] is the arrival order of (identifier, encoded slab or nil). *)
Definition encode_job (s : st) (i : sid) : sid * option val :=
  (i, match deltas s !! i with Some x => x | None => None end).

Definition apply_collected_one (enc : gmap sid (option val)) (s : st) (i : sid) : st * (bool * sid) :=
  match enc !! i with
  | Some (Some v) =>
    (mkst (delete i (deltas s))
          (<[i := match deltas s !! i with Some x => x | None => None end]> (cache s))
          (<[i := v]> (base s)), (true, i))
  | _ =>
    (mkst (delete i (deltas s)) (<[i := None]> (cache s)) (delete i (base s)), (false, i))
  end.

Fixpoint apply_collected (enc : gmap sid (option val)) (ids : list sid) (fail : option nat)
         (s : st) (log : wlog) : st * bool * wlog :=
  match ids with
  | [] => (s, true, rev log)
  | i :: r =>
    let '(s', c) := apply_collected_one enc s i in
    match fail with
    | Some O => (s, false, rev (c :: log))
    | _ => apply_collected enc r (match fail with Some (S k) => Some k | _ => None end) s' (c :: log)
    end
  end.

Definition fast_commit_with (arrivals : list (sid * option val)) (s : st) (fail : option nat)
  : st * bool * wlog :=
  apply_collected (list_to_map arrivals) (sorted_owned_delta_keys s) fail s [].

(** ** preload *)

Definition preload_one (s : st) (i : sid) : st :=
  match base s !! i with
  | None => s
  | Some v => mkst (deltas s) (<[i := Some v]> (cache s)) (base s)
  end.

Definition batch_preload (s : st) (ids : list sid) : st := fold_left preload_one ids s.

(** ** observers *)

Definition n_deltas (s : st) : N := N.of_nat (size (deltas s)).
Definition n_owned_deltas (s : st) : N := N.of_nat (length (owned_delta_keys s)).
Definition size_owned_deltas (s : st) : N :=
  fold_right (fun (kv : sid * option val) acc =>
                if is_temp (fst kv) then acc
                else match snd kv with Some v => v_sz v + acc | None => acc end)
             0 (map_to_list (deltas s)).
Definition has_unsaved (s : st) (a : N) : bool :=
  existsb (fun kv : sid * option val => N.eqb (fst (fst kv)) a) (map_to_list (deltas s)).

(** * Step function *)

Definition step (s : st) (o : sop) : st * sout :=
  match o with
  | SStore i v =>
    if is_undefined i then (s, OErrSlabID)
    else (mkst (<[i := Some v]> (deltas s)) (cache s) (base s), OOk)
  | SRemove i =>
    if is_undefined i then (s, OErrSlabID)
    else (mkst (<[i := None]> (deltas s)) (cache s) (base s), OOk)
  | SRetrieve i => let '(s', r) := retrieve s i in (s', ORet r)
  | SRetrieveIfLoaded i => (s, ORet (retrieve_if_loaded s i))
  | SRetrieveIgnoringDeltas i c => let '(s', r) := retrieve_ignoring_deltas s i c in (s', ORet r)
  | SFastCommit fail => let '(s', ok, log) := fast_commit s fail in (s', OCommit ok log)
  | SNondetCommit order fail =>
    match nondet_commit s order fail with
    | Some (s', ok, log) => (s', OCommit ok log)
    | None => (s, OBadOrder)
    end
  | SDropDeltas => (mkst ∅ (cache s) (base s), OOk)
  | SDropCache => (mkst (deltas s) ∅ (base s), OOk)
  | SBatchPreload ids => (batch_preload s ids, OOk)
  | SObserve => (s, OObs (n_deltas s) (n_owned_deltas s) (size_owned_deltas s))
  | SHasUnsaved a => (s, OBool (has_unsaved s a))
  | SRecreate => (mkst ∅ ∅ (base s), OOk)
  | SBaseGet i => (s, ORet (base s !! i))
  end.

Fixpoint run (s : st) (ops : list sop) : st * list sout :=
  match ops with
  | [] => (s, [])
  | o :: r => let '(s1, x) := step s o in let '(s2, xs) := run s1 r in (s2, x :: xs)
  end.

(** * The specification: a pending overlay on a committed map (no cache) *)

Record spec : Type := mkspec { pending : gmap sid (option val); committed : gmap sid val }.

Definition spec_view (a : spec) (i : sid) : option val :=
  match pending a !! i with Some x => x | None => committed a !! i end.

Definition view (s : st) (i : sid) : option val :=
  match deltas s !! i with
  | Some x => x
  | None => match cache s !! i with Some x => x | None => base s !! i end
  end.

Definition abs (s : st) : spec := mkspec (deltas s) (base s).
