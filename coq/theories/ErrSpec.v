(* ErrSpec.v — error categories of atree (errors.go) and the EXPECTED category per cause (C18).

   Hand-written from the property text and from the doc comments of errors.go; NOT generated.
   The generated file gen/ErrCat.v (harness gen-errors) imports this file and lists, for every
   constructor function of errors.go, the category its body assigns (parsed) and the category
   observed at run time (errors.As on the constructed error).  props/C18.v proves that the
   generated table agrees with [expected_category].

   Names are the Go names of the error TYPES (IndexOutOfBoundsError, ...), i.e. what a caller
   matches with errors.As; a type can have several constructors (NewSlabIDError, NewSlabIDErrorf).

   No proofs in this file. *)
From Coq Require Import String List Bool NArith.
From AtreeModel Require Settings ArrayTree MapElems.
Import ListNotations.
Local Open Scope string_scope.

(* errors.go 28-78: ExternalError / UserError / FatalError; Uncategorised = none of the three *)
Inductive ecat : Type := User | Fatal | External | Uncategorised.

Definition ecat_eqb (a b : ecat) : bool :=
  match a, b with
  | User, User | Fatal, Fatal | External, External | Uncategorised, Uncategorised => true
  | _, _ => false
  end.

Definition oecat_eqb (a b : option ecat) : bool :=
  match a, b with
  | Some x, Some y => ecat_eqb x y
  | None, None => true
  | _, _ => false
  end.

(* Part 1: the causes named by property C18.
   "index or range out of bounds, absent key" = caller mistake = UserError;
   "collision limit reached, undefined identifier" = limit / internal failure = FatalError. *)
Definition expected_by_property : list (string * ecat) := [
  ("IndexOutOfBoundsError", User);
  ("SliceOutOfBoundsError", User);
  ("InvalidSliceIndexError", User);
  ("KeyNotFoundError", User);
  ("CollisionLimitError", Fatal);
  ("SlabIDError", Fatal)
].

(* Part 2: error types whose doc comment in errors.go states the category in words
   ("... is a fatal error ...", "... is always a fatal error ...").  No doc comment of errors.go
   states "user error" in words, so nothing is added on the User side.  Deliberately NOT listed
   (comment does not name a category): ArrayElementCannotExceedMaxElementCountError, NotValueError,
   DuplicateKeyError, UnreachableError, ReadOnlyIteratorElementMutationError,
   UnexpectedElementTypeError, CopyError. *)
Definition expected_by_doc : list (string * ecat) := [
  ("HashSeedUninitializedError", Fatal);
  ("HashError", Fatal);
  ("SlabNotFoundError", Fatal);
  ("SlabSplitError", Fatal);
  ("SlabMergeError", Fatal);
  ("SlabRebalanceError", Fatal);
  ("SlabDataError", Fatal);
  ("EncodingError", Fatal);
  ("DecodingError", Fatal);
  ("NotImplementedError", Fatal);
  ("HashLevelError", Fatal);
  ("NotApplicableError", Fatal);
  ("MapElementCountError", Fatal)
].

Definition expected_table : list (string * ecat) := expected_by_property ++ expected_by_doc.

Fixpoint lookup_cat (name : string) (t : list (string * ecat)) : option ecat :=
  match t with
  | [] => None
  | (n, c) :: r => if String.eqb n name then Some c else lookup_cat name r
  end.

Definition expected_category (name : string) : option ecat := lookup_cat name expected_table.

(* every expected name occurs in a (generated) table: guards against a renamed constructor making
   the agreement theorem vacuous *)
Definition names_present (t : list (string * ecat)) : bool :=
  forallb (fun p : string * ecat => existsb (fun r : string * ecat => String.eqb (fst r) (fst p)) t) expected_table.

(* every row of a table that has an expectation carries the expected category *)
Definition row_ok (r : string * ecat) : bool :=
  match expected_category (fst r) with Some c => ecat_eqb (snd r) c | None => true end.

(* ---- the errors of the executable models, by Go name ---- *)

Import ArrayTree(aerr(..)).
Import MapElems(merr(..)).

Definition aerr_name (e : aerr) : string :=
  match e with
  | EIndexOOB => "IndexOutOfBoundsError"
  | ESliceOOB => "SliceOutOfBoundsError"
  | EInvalidSlice => "InvalidSliceIndexError"
  | EMaxCount => "ArrayElementCannotExceedMaxElementCountError"
  | ESplit => "SlabSplitError"
  | ESlabNotFound => "SlabNotFoundError"
  | EPanic => ""                  (* a Go runtime panic: not an atree error, carries no category *)
  end.

(* EMaxCount: array.go:462 returns NewArrayElementCannotExceedMaxElementCountError, whose body
   (errors.go:87) uses NewUserError — the model follows the code; the property text does not name
   this cause, so [expected_category] has no entry for it. *)
Definition aerr_category (e : aerr) : ecat :=
  match e with
  | EIndexOOB | ESliceOOB | EInvalidSlice | EMaxCount => User
  | ESplit | ESlabNotFound => Fatal
  | EPanic => Uncategorised
  end.

(* the requests refused because of their ARGUMENTS *)
Definition aerr_is_argument (e : aerr) : bool :=
  match e with EIndexOOB | ESliceOOB | EInvalidSlice => true | _ => false end.

Definition merr_name (e : merr) : string :=
  match e with
  | EKeyNotFound => "KeyNotFoundError"
  | ECollisionLimit => "CollisionLimitError"
  | EInternal => "HashLevelError"    (* level checks of the element code; MapElementCountError is the other one, same category *)
  end.

Definition merr_category (e : merr) : ecat :=
  match e with EKeyNotFound => User | ECollisionLimit | EInternal => Fatal end.

Definition merr_is_argument (e : merr) : bool :=
  match e with EKeyNotFound | ECollisionLimit => true | EInternal => false end.

(* Storage.OErrSlabID *)
Definition slabid_err_name : string := "SlabIDError".
Definition slabid_err_category : ecat := Fatal.

(* ---- histories without their rejected requests (C18_history) ---- *)
Local Close Scope string_scope.
Local Open Scope list_scope.

Module ArrHist.
  Import ListNotations.
  Import ArrayTree.

  Definition a_rejected (x : aout) : bool := match x with RErr _ => true | _ => false end.

  (* final state, every answer, and every storeSlab / Storage.Remove call in order *)
  Fixpoint a_run_full (c : Settings.cfg) (a : arr) (ops : list aop) : arr * list aout * wlog :=
    match ops with
    | [] => (a, [], [])
    | o :: r =>
      let '(a1, x, l) := a_step c a o in
      let '(a2, xs, lg) := a_run_full c a1 r in (a2, x :: xs, l ++ lg)
    end.

  (* the same history with the requests that were answered by an error left out *)
  Fixpoint a_filter (c : Settings.cfg) (a : arr) (ops : list aop) : list aop :=
    match ops with
    | [] => []
    | o :: r =>
      let '(a1, x, _) := a_step c a o in
      if a_rejected x then a_filter c a1 r else o :: a_filter c a1 r
    end.

  (* Insert's refusal as a read-only walk along the path Insert takes (array_metadata_slab.go
     196-220, array_data_slab.go 165-168): no element, allocator or setting is consulted *)
  Fixpoint n_insert_refused (n : anode) (i : N) : bool :=
    match n with
    | AD _ _ es => N.ltb (N.of_nat (length es)) i
    | AM h hs sums cs =>
      if N.ltb (h_count h) i then true
      else
        let target :=
          if N.eqb i (h_count h) then
            match length hs with
            | O => None
            | S k => match nth_error hs k with Some hh => Some (k, h_count hh) | None => None end
            end
          else route hs sums i in
        match target with
        | None => false
        | Some (k, j) =>
          match on_kth (fun ch => n_insert_refused ch j) cs k with Some b => b | None => false end
        end
    end.
End ArrHist.

Module MapHist.
  Import ListNotations.
  Import MapElems.

  Section hist.
    Variable dg : N -> nat -> N.
    Variable levels : nat.
    Variable max_inline_elem limit : N.

    Definition m_rejected (x : mout) : bool := match x with RErr _ => true | _ => false end.

    Fixpoint m_run_full (s : mstate) (ops : list mop) : mstate * list mout * list wev :=
      match ops with
      | [] => (s, [], [])
      | o :: r =>
        let '(s1, x, l) := m_step dg levels max_inline_elem limit s o in
        let '(s2, xs, lg) := m_run_full s1 r in (s2, x :: xs, l ++ lg)
      end.

    Fixpoint m_filter (s : mstate) (ops : list mop) : list mop :=
      match ops with
      | [] => []
      | o :: r =>
        let '(s1, x, _) := m_step dg levels max_inline_elem limit s o in
        if m_rejected x then m_filter s1 r else o :: m_filter s1 r
      end.
  End hist.
End MapHist.
