(* BatchTrace.v — protocol encoding for Batch.v (engine "batch").
   Configuration line: [T].
   Operation lines:
     [1; alloc0; ti; n; (id; size; ext)*]      NewArrayFromBatchData on n elements; ext: 1 = the value is
                                               stored in its own StorableSlab (size = size of the reference)
     [2; alloc0; ti; est; n; byte*]            ByteSliceToByteArray[Uint8Value] with estimate est
   Answer line: [allocator after; nlog; (kind; slab index)*; tree dump]   (dump format: ArrayTrace.v);
   the model answers [-1] if the construction fails. *)
From Coq Require Import ZArith NArith List Bool.
From AtreeModel Require Import Proto Settings ArrayTree ArrayTrace Batch.
Import ListNotations.
Local Open Scope Z_scope.

Inductive bop : Type :=
| BArray (alloc ti : N) (es : list elem)
| BBytes (alloc ti est : N) (bs : list N).

Fixpoint dec_elems (l : line) : option (list elem) :=
  match l with
  | [] => Some []
  | id :: sz :: ext :: r =>
    match dec_elems r with Some es => Some (mk_elem id sz ext :: es) | None => None end
  | _ => None
  end.

Definition dec_bop (l : line) : option bop :=
  match l with
  | 1 :: alloc :: ti :: n :: r =>
    match dec_elems r with
    | Some es => if Z.eqb (natz (length es)) n then Some (BArray (zN alloc) (zN ti) es) else None
    | None => None
    end
  | 2 :: alloc :: ti :: est :: n :: r =>
    if Z.eqb (natz (length r)) n then Some (BBytes (zN alloc) (zN ti) (zN est) (map zN r)) else None
  | _ => None
  end.

Definition enc_result (x : arr * wlog) : line :=
  let '(a, lg) := x in
  Nz (a_alloc a) :: natz (length lg) :: flat_map enc_wr lg ++ dump (a_root a).

Definition batch_step (c : cfg) (s : unit) (o : bop) : unit * line :=
  match o with
  | BArray alloc ti es =>
    (tt, match array_from_batch_res c alloc ti es with
         | Ok x => enc_result x
         | Err _ => [-1]
         end)
  | BBytes alloc ti est bs => (tt, enc_result (of_bytes c uint8_size alloc ti est bs))
  end.

Definition chk_batch (cfgl : line) (tr : list (line * line)) : verdict :=
  match cfgl with
  | [t] => check_from dec_bop (batch_step (set_threshold (zN t))) tt tr 0
  | _ => VBadOp 0 cfgl
  end.
