(* CodecInl.v — byte-level model of data slabs WITH INLINED CHILDREN (extends theories/Codec.v).

   Modelled after (file: function):
     extradata.go                 InlinedExtraData: addArrayExtraData (de-duplicates by encoded type
                                  info), addMapExtraData (never de-duplicates), addCompactMapExtraData
                                  (de-duplicates by encoded type info + "," + sorted key names),
                                  findDuplicateTypeInfo (hoisted type infos = the encoded type infos
                                  occurring at least twice, in sort.Strings order), Encode,
                                  newInlinedExtraDataFromData
     typeinfo.go                  decodeTypeInfoRefIfNeeded (d8 f6 index)
     array_data_slab_encode.go    Encode (two passes), encodeAsInlined, encodeElements
     array_data_slab_decode.go    newArrayDataSlabFromDataV1, DecodeInlinedArrayStorable
     map_data_slab_encode.go      Encode (two passes), encodeAsInlinedMap, encodeAsInlinedCompactMap,
                                  encodeCompactMapValues, canBeEncodedAsCompactMap
     map_data_slab_decode.go      newMapDataSlabFromDataV1, DecodeInlinedMapStorable,
                                  DecodeInlinedCompactMapStorable
     compactmap_extradata.go      compactMapExtraData.Encode, newCompactMapExtraData, makeCompactMapTypeID
     test_utils/storable_utils.go DecodeStorable (tags 250, 251, 252), SomeStorable around containers

   Pass 1 of the Go encoder writes the elements into a scratch buffer while the encoder's
   InlinedExtraData collects one entry per inlined child, in the order the children are reached
   (left to right, depth first, a child BEFORE its own elements).  Here: the element encoders are
   state-passing functions  table -> x -> bytes * table ;  pass 2 ([encode_xslab]) writes head,
   root extra data, the section built from the final table, sibling link and the pass-1 bytes.

   Universe: values are [xstorable] (the storables of Codec.v + inlined arrays + inlined maps, at
   any nesting depth, under any number of SomeStorable wrappers); map KEYS stay in the [storable]
   universe of Codec.v (atree keys are never containers).  Compact-map keys are StringValues (the
   only ComparableStorable of the element universe).
   Partiality: Go refuses to encode when an extra-data index exceeds 255; the model writes [24; i]
   regardless, well-formedness ([xswf]) demands at most 256 entries.  Go's two compact-map encoding
   errors (cached key set of another size / a cached key not found) put the marker [XDError] into
   the table; [xswf] demands a table without it.  The decoder's two allocation
   guards "count > len(data)" are not modelled (they only reject inputs that fail later anyway). *)
From Coq Require Import ZArith NArith List Bool.
From AtreeGen Require Import Consts CodecConsts.
From AtreeModel Require Import Codec.
Import ListNotations.
Local Open Scope N_scope.

(* ---------- byte strings: equality, order (Go: string ==, <), sorting (sort.Strings) ---------- *)

Fixpoint bytes_eqb (a b : bytes) : bool :=
  match a, b with
  | [], [] => true
  | x :: a', y :: b' => (x =? y) && bytes_eqb a' b'
  | _, _ => false
  end.

Fixpoint bytes_ltb (a b : bytes) : bool :=
  match a, b with
  | _, [] => false
  | [], _ :: _ => true
  | x :: a', y :: b' => if x <? y then true else if y <? x then false else bytes_ltb a' b'
  end.

Fixpoint insert_sorted (x : bytes) (l : list bytes) : list bytes :=
  match l with
  | [] => [x]
  | y :: t => if bytes_ltb y x then y :: insert_sorted x t else x :: l
  end.
Definition sort_bytes (l : list bytes) : list bytes := fold_right insert_sorted [] l.

(* findDuplicateTypeInfo's scan over the sorted list: every run of length >= 2 is reported once *)
Fixpoint dup_scan (last : option bytes) (l : list bytes) : list bytes :=
  match l with
  | a :: t =>
    match t with
    | b :: _ =>
      if bytes_eqb a b then
        match last with
        | Some x => if bytes_eqb x a then dup_scan last t else a :: dup_scan (Some a) t
        | None => a :: dup_scan (Some a) t
        end
      else dup_scan last t
    | [] => []
    end
  | [] => []
  end.

Fixpoint index_of (x : bytes) (l : list bytes) (i : N) : option N :=
  match l with
  | [] => None
  | y :: t => if bytes_eqb y x then Some i else index_of x t (i + 1)
  end.

(* ---------- the extended element universe ---------- *)

Inductive xelement (V : Type) : Type :=
| XESingle (k : storable) (v : V)
| XEGroupH (level : N) (hkeys : list N) (elems : list (xelement V))
| XEGroupS (level : N) (elems : list (storable * V))
| XEExt (a i : N).
Arguments XESingle {V} k v.
Arguments XEGroupH {V} level hkeys elems.
Arguments XEGroupS {V} level elems.
Arguments XEExt {V} a i.

Inductive xelements (V : Type) : Type :=
| XHkeyElems (level : N) (hkeys : list N) (elems : list (xelement V))
| XSingleElems (level : N) (elems : list (storable * V)).
Arguments XHkeyElems {V} level hkeys elems.
Arguments XSingleElems {V} level elems.

(* vid: the child's slab index (its address is the parent's) *)
Inductive xstorable : Type :=
| XUint (w : width) (n : N)
| XString (s : bytes)
| XSlabID (a i : N)
| XSome (s : xstorable)
| XInlArray (ti : typeinfo) (vid : N) (elems : list xstorable)
| XInlMap (mx : mextra) (vid : N) (els : xelements xstorable).

(* a data slab: the fields of Codec.v's SArrayData / SMapData, elements over the extended universe *)
Inductive xslab : Type :=
| XArrayData (a i : N) (x : option typeinfo) (na ni : N) (es : list xstorable)
| XMapData (a i : N) (x : option mextra) (na ni : N) (anysize cgroup : bool) (els : xelements xstorable).

Definition xsid (s : xslab) : N * N :=
  match s with XArrayData a i _ _ _ _ | XMapData a i _ _ _ _ _ _ => (a, i) end.

(* ---------- the shared inlined-extra-data table ---------- *)

Inductive xdentry : Type :=
| XDArray (ti : typeinfo)
| XDMap (mx : mextra)
| XDCompact (mx : mextra) (hkeys : list N) (keys : list bytes)
| XDError.   (* model artefact: "Go returned an encoding error" (sticky: tables only grow) *)
Definition table : Type := list xdentry.

Definition entry_ti (e : xdentry) : typeinfo :=
  match e with XDArray ti => ti | XDMap mx => mx_ti mx | XDCompact mx _ _ => mx_ti mx | XDError => TSimple 0 end.

(* addArrayExtraData: arrayExtraDataSet is keyed by the encoded type info and holds array entries only *)
Fixpoint find_array (key : bytes) (t : table) (i : N) : option N :=
  match t with
  | [] => None
  | XDArray ti :: r => if bytes_eqb (enc_ti ti) key then Some i else find_array key r (i + 1)
  | _ :: r => find_array key r (i + 1)
  end.
Definition add_array (t : table) (ti : typeinfo) : N * table :=
  match find_array (enc_ti ti) t 0 with
  | Some i => (i, t)
  | None => (lenN t, t ++ [XDArray ti])
  end.

(* addMapExtraData *)
Definition add_map (t : table) (mx : mextra) : N * table := (lenN t, t ++ [XDMap mx]).

(* makeCompactMapTypeID: encoded type info, then the key names sorted, each preceded by "," *)
Definition comma : N := 44.
Definition ctype_id (ti : typeinfo) (keys : list bytes) : bytes :=
  enc_ti ti ++ flat_map (fun k => comma :: k) (sort_bytes keys).

Fixpoint find_compact (key : bytes) (t : table) (i : N) : option (N * list bytes) :=
  match t with
  | [] => None
  | XDCompact mx _ ks :: r =>
    if bytes_eqb (ctype_id (mx_ti mx) ks) key then Some (i, ks) else find_compact key r (i + 1)
  | _ :: r => find_compact key r (i + 1)
  end.
(* addCompactMapExtraData: index, the CACHED keys (those of the first map of this shape), table *)
Definition add_compact (t : table) (mx : mextra) (hkeys : list N) (keys : list bytes) : N * list bytes * table :=
  match find_compact (ctype_id (mx_ti mx) keys) t 0 with
  | Some (i, ks) => (i, ks, t)
  | None => (lenN t, keys, t ++ [XDCompact mx hkeys keys])
  end.

(* ---------- pass 1: state-passing element encoders ---------- *)

Section st_flat.
  Context {T A : Type} (f : T -> A -> bytes * T).
  Fixpoint st_flat (t : T) (l : list A) : bytes * T :=
    match l with
    | [] => ([], t)
    | a :: l' =>
      let (b, t1) := f t a in
      let (b', t2) := st_flat t1 l' in
      (b ++ b', t2)
    end.
End st_flat.

Section xenc.
  Context {V : Type} (encV : table -> V -> bytes * table).

  Definition enc_xpair (t : table) (p : storable * V) : bytes * table :=
    let (b, t') := encV t (snd p) in (130 :: enc_storable (fst p) ++ b, t').

  Fixpoint enc_xelement (t : table) (e : xelement V) : bytes * table :=
    match e with
    | XESingle k v => enc_xpair t (k, v)
    | XEGroupH l hk es =>
      let (b, t') := st_flat enc_xelement t es in
      (tag8 c_CBORTagInlineCollisionGroup ++ enc_hkey_head l hk (lenN es) ++ b, t')
    | XEGroupS l ps =>
      let (b, t') := st_flat enc_xpair t ps in
      (tag8 c_CBORTagInlineCollisionGroup ++ enc_singles_head l (lenN ps) ++ b, t')
    | XEExt a i => (tag8 c_CBORTagExternalCollisionGroup ++ enc_storable (SSlabID a i), t)
    end.

  Definition enc_xelements (t : table) (els : xelements V) : bytes * table :=
    match els with
    | XHkeyElems l hk es =>
      let (b, t') := st_flat enc_xelement t es in (enc_hkey_head l hk (lenN es) ++ b, t')
    | XSingleElems l ps =>
      let (b, t') := st_flat enc_xpair t ps in (enc_singles_head l (lenN ps) ++ b, t')
    end.
End xenc.

(* generic traversals *)
Section xmap.
  Context {V W : Type} (f : V -> W).
  Definition xpair_map (p : storable * V) : storable * W := (fst p, f (snd p)).
  Fixpoint xel_map (e : xelement V) : xelement W :=
    match e with
    | XESingle k v => XESingle k (f v)
    | XEGroupH l hk es => XEGroupH l hk (map xel_map es)
    | XEGroupS l ps => XEGroupS l (map xpair_map ps)
    | XEExt a i => XEExt a i
    end.
  Definition xels_map (els : xelements V) : xelements W :=
    match els with
    | XHkeyElems l hk es => XHkeyElems l hk (map xel_map es)
    | XSingleElems l ps => XSingleElems l (map xpair_map ps)
    end.
End xmap.

(* canBeEncodedAsCompactMap, the structural part: hkey elements, every element a plain entry whose
   key is a StringValue.  Returns the digests and the (key, value) list in element order. *)
Fixpoint compact_pairs {V} (es : list (xelement V)) : option (list (bytes * V)) :=
  match es with
  | [] => Some []
  | XESingle (SString k) v :: r =>
    match compact_pairs r with Some t => Some ((k, v) :: t) | None => None end
  | _ => None
  end.
Definition is_composite (t : typeinfo) : bool := match t with TTagged _ _ => true | TSimple _ => false end.
Definition compact_kvs {V} (mx : mextra) (els : xelements V) : option (list N * list (bytes * V)) :=
  if is_composite (mx_ti mx) then
    match els with
    | XHkeyElems _ hk es => match compact_pairs es with Some kvs => Some (hk, kvs) | None => None end
    | XSingleElems _ _ => None
    end
  else None.

(* encodeCompactMapValues: the values in the order of the cached keys; every cached key takes
   the first not yet used entry with an equal key *)
Fixpoint take_key {V} (k : bytes) (pool : list (bytes * V)) : option (V * list (bytes * V)) :=
  match pool with
  | [] => None
  | (k', v) :: r =>
    if bytes_eqb k' k then Some (v, r)
    else match take_key k r with Some (x, r') => Some (x, (k', v) :: r') | None => None end
  end.
Fixpoint pick_values {V} (cached : list bytes) (pool : list (bytes * V)) : option (list V) :=
  match cached with
  | [] => Some []
  | k :: c =>
    match take_key k pool with
    | Some (v, pool') => match pick_values c pool' with Some t => Some (v :: t) | None => None end
    | None => None
    end
  end.

(* SomeStorable.Encode around the innermost non-Some storable: lv wrappers *)
Definition some_prefix (lv : N) : bytes :=
  if lv =? 0 then [] else if lv =? 1 then tag8 tag_some else tag8 tag_some_nested ++ [130] ++ cbor_head 0 lv.
Definition some_prefix_len (lv : N) : N := if lv =? 0 then 0 else some_prefix_size lv.

(* tag, array head of 3, fixed-width extra-data index, value-id index as 8-byte byte string *)
Definition enc_inl_head (tag idx vid : N) : bytes :=
  tag8 tag ++ [131] ++ uint8_fixed idx ++ cbor_head 2 c_slabIndexLength ++ be64 vid.

Definition closure : Type := table -> bytes * table.
Definition run_closure (t : table) (c : closure) : bytes * table := c t.

(* Storable.Encode; [lv] = number of SomeStorable wrappers passed on the way down *)
Fixpoint enc_x (lv : N) (t : table) (s : xstorable) {struct s} : bytes * table :=
  match s with
  | XUint w n => (some_prefix lv ++ tag8 (width_tag w) ++ cbor_head 0 n, t)
  | XString bs => (some_prefix lv ++ cbor_head 3 (lenN bs) ++ bs, t)
  | XSlabID a i => (some_prefix lv ++ tag8 c_CBORTagSlabID ++ cbor_head 2 c_slabIDLength ++ enc_sid a i, t)
  | XSome s' => enc_x (lv + 1) t s'
  | XInlArray ti vid es =>
    let (idx, t1) := add_array t ti in
    let (b, t2) := st_flat (enc_x 0) t1 es in
    (some_prefix lv ++ enc_inl_head c_CBORTagInlinedArray idx vid ++ arr16_head (lenN es) ++ b, t2)
  | XInlMap mx vid els =>
    match compact_kvs mx (xels_map (fun v t' => enc_x 0 t' v) els) with
    | Some (hk, kcs) =>
      let '(idx, cached, t1) := add_compact t mx hk (map fst kcs) in
      (* Go: "number of elements ... is different from number of elements in cached compact map
         type" and "failed to find key" are encoding errors *)
      if lenN cached =? lenN kcs then
        match pick_values cached kcs with
        | Some cs =>
          let (b, t2) := st_flat run_closure t1 cs in
          (some_prefix lv ++ enc_inl_head c_CBORTagInlinedCompactMap idx vid ++ cbor_head 4 (lenN cached) ++ b, t2)
        | None => ([], t1 ++ [XDError])
        end
      else ([], t1 ++ [XDError])
    | None =>
      let (idx, t1) := add_map t mx in
      let (b, t2) := enc_xelements (enc_x 0) t1 els in
      (some_prefix lv ++ enc_inl_head c_CBORTagInlinedMap idx vid ++ b, t2)
    end
  end.

(* ---------- pass 2: the section ---------- *)

Definition hoisted (t : table) : list bytes :=
  dup_scan None (sort_bytes (map (fun e => enc_ti (entry_ti e)) t)).

Definition enc_ti_ref (hs : list bytes) (ti : typeinfo) : bytes :=
  match index_of (enc_ti ti) hs 0 with
  | Some i => tag8 c_CBORTagTypeInfoRef ++ cbor_head 0 i
  | None => enc_ti ti
  end.

Definition enc_xmap_ref (hs : list bytes) (mx : mextra) : bytes :=
  cbor_head 4 c_mapExtraDataLength ++ enc_ti_ref hs (mx_ti mx) ++ cbor_head 0 (mx_count mx) ++ cbor_head 0 (mx_seed mx).

Definition enc_key (k : bytes) : bytes := enc_storable (SString k).

Definition enc_entry (hs : list bytes) (e : xdentry) : bytes :=
  match e with
  | XDArray ti => cbor_head 6 c_CBORTagInlinedArrayExtraData ++ cbor_head 4 c_arrayExtraDataLength ++ enc_ti_ref hs ti
  | XDMap mx => cbor_head 6 c_CBORTagInlinedMapExtraData ++ enc_xmap_ref hs mx
  | XDCompact mx hk ks =>
    cbor_head 6 c_CBORTagInlinedCompactMapExtraData ++ cbor_head 4 c_compactMapExtraDataLength
      ++ enc_xmap_ref hs mx
      ++ cbor_head 2 (c_digestSize * lenN hk) ++ flat_map be64 hk
      ++ cbor_head 4 (lenN ks) ++ flat_map enc_key ks
  | XDError => []
  end.

(* InlinedExtraData.Encode *)
Definition enc_section (t : table) : bytes :=
  let hs := hoisted t in
  cbor_head 4 c_inlinedExtraDataArrayCount
    ++ cbor_head 4 (lenN hs) ++ concat hs
    ++ cbor_head 4 (lenN t) ++ flat_map (enc_entry hs) t.

Definition nonempty {A} (l : list A) : bool := match l with [] => false | _ => true end.
Definition enc_section_opt (t : table) : bytes := if nonempty t then enc_section t else [].

(* ---------- has-pointer, references, sizes (generic over the value type) ---------- *)

Section xobs.
  Context {V : Type} (ptrV : V -> bool) (refsV : V -> list (N * N)) (sizeV : V -> N) (wfV : V -> bool).

  Definition xpair_has_ptr (p : storable * V) : bool := storable_has_ptr (fst p) || ptrV (snd p).
  Fixpoint xel_has_ptr (e : xelement V) : bool :=
    match e with
    | XESingle k v => xpair_has_ptr (k, v)
    | XEGroupH _ _ es => existsb xel_has_ptr es
    | XEGroupS _ ps => existsb xpair_has_ptr ps
    | XEExt _ _ => true
    end.
  Definition xels_has_ptr (els : xelements V) : bool :=
    match els with
    | XHkeyElems _ _ es => existsb xel_has_ptr es
    | XSingleElems _ ps => existsb xpair_has_ptr ps
    end.

  Definition xpair_refs (p : storable * V) : list (N * N) := storable_refs (fst p) ++ refsV (snd p).
  Fixpoint xel_refs (e : xelement V) : list (N * N) :=
    match e with
    | XESingle k v => xpair_refs (k, v)
    | XEGroupH _ _ es => flat_map xel_refs es
    | XEGroupS _ ps => flat_map xpair_refs ps
    | XEExt a i => [(a, i)]
    end.
  Definition xels_refs (els : xelements V) : list (N * N) :=
    match els with
    | XHkeyElems _ _ es => flat_map xel_refs es
    | XSingleElems _ ps => flat_map xpair_refs ps
    end.

  Definition xpair_size (p : storable * V) : N := c_singleElementPrefixSize + storable_size (fst p) + sizeV (snd p).
  Fixpoint xel_size (e : xelement V) : N :=
    match e with
    | XESingle k v => xpair_size (k, v)
    | XEGroupH _ _ es =>
      c_inlineCollisionGroupPrefixSize + (c_hkeyElementsPrefixSize + sumN (map (fun e => c_digestSize + xel_size e) es))
    | XEGroupS _ ps => c_inlineCollisionGroupPrefixSize + (c_singleElementsPrefixSize + sumN (map xpair_size ps))
    | XEExt _ _ => c_externalCollisionGroupPrefixSize + c_slabIDStorableSize
    end.
  Definition xels_size (els : xelements V) : N :=
    match els with
    | XHkeyElems _ _ es => c_hkeyElementsPrefixSize + sumN (map (fun e => c_digestSize + xel_size e) es)
    | XSingleElems _ ps => c_singleElementsPrefixSize + sumN (map xpair_size ps)
    end.

  Definition xpair_wf (p : storable * V) : bool := storable_swf (fst p) && wfV (snd p).
  Fixpoint xel_wf (e : xelement V) : bool :=
    match e with
    | XESingle k v => xpair_wf (k, v)
    | XEGroupH l hk es =>
      (l <=? c_maxDigestLevel) && (lenN hk =? lenN es) && (c_digestSize * lenN hk <? two16) && (lenN es <? two16)
      && forallb (fun h => h <? two64) hk && forallb xel_wf es
    | XEGroupS l ps =>
      (l <=? c_maxDigestLevel) && (0 <? lenN ps) && (lenN ps <? two16) && forallb xpair_wf ps
    | XEExt a i => (a <? two64) && (i <? two64)
    end.
  Definition xels_wf (els : xelements V) : bool :=
    match els with
    | XHkeyElems l hk es =>
      (l <=? c_maxDigestLevel) && (lenN hk =? lenN es) && (c_digestSize * lenN hk <? two16) && (lenN es <? two16)
      && forallb (fun h => h <? two64) hk && forallb xel_wf es
    | XSingleElems l ps =>
      (l <=? c_maxDigestLevel) && (0 <? lenN ps) && (lenN ps <? two16) && forallb xpair_wf ps
    end.
End xobs.

Definition xels_first_key {V} (els : xelements V) : N :=
  match els with XHkeyElems _ (h :: _) _ => h | _ => 0 end.

(* ContainerStorable.HasPointer through wrappers and inlined children *)
Fixpoint x_has_ptr (s : xstorable) : bool :=
  match s with
  | XSlabID _ _ => true
  | XSome s' => x_has_ptr s'
  | XInlArray _ _ es => existsb x_has_ptr es
  | XInlMap _ _ els => xels_has_ptr x_has_ptr els
  | _ => false
  end.

(* content: the slab references held at any wrapping / inlining depth *)
Fixpoint x_refs (s : xstorable) : list (N * N) :=
  match s with
  | XSlabID a i => [(a, i)]
  | XSome s' => x_refs s'
  | XInlArray _ _ es => flat_map x_refs es
  | XInlMap _ _ els => xels_refs x_refs els
  | _ => []
  end.

(* ByteSize: an inlined child reports prefix + sum of element sizes (NOT its written length when compact) *)
Fixpoint x_size_lv (lv : N) (s : xstorable) : N :=
  match s with
  | XUint _ n => some_prefix_len lv + (2 + cbor_head_len n)
  | XString bs => some_prefix_len lv + (cbor_head_len (lenN bs) + lenN bs)
  | XSlabID _ _ => some_prefix_len lv + c_slabIDStorableSize
  | XSome s' => x_size_lv (lv + 1) s'
  | XInlArray _ _ es => some_prefix_len lv + (c_inlinedArrayDataSlabPrefixSize + sumN (map (x_size_lv 0) es))
  | XInlMap _ _ els => some_prefix_len lv + (c_inlinedMapDataSlabPrefixSize + xels_size (x_size_lv 0) els)
  end.
Definition x_size (s : xstorable) : N := x_size_lv 0 s.

(* is some inlined map (at any depth) written in compact form? *)
Definition is_compact_map (mx : mextra) (els : xelements xstorable) : bool :=
  match compact_kvs mx els with Some _ => true | None => false end.

Section xany.
  Context {V : Type} (q : V -> bool).
  Fixpoint xel_any (e : xelement V) : bool :=
    match e with
    | XESingle _ v => q v
    | XEGroupH _ _ es => existsb xel_any es
    | XEGroupS _ ps => existsb (fun p => q (snd p)) ps
    | XEExt _ _ => false
    end.
  Definition xels_any (els : xelements V) : bool :=
    match els with
    | XHkeyElems _ _ es => existsb xel_any es
    | XSingleElems _ ps => existsb (fun p => q (snd p)) ps
    end.
End xany.

Section xsum.
  Context {V : Type} (g : V -> N).
  Fixpoint xel_sum (e : xelement V) : N :=
    match e with
    | XESingle _ v => g v
    | XEGroupH _ _ es => sumN (map xel_sum es)
    | XEGroupS _ ps => sumN (map (fun p => g (snd p)) ps)
    | XEExt _ _ => 0
    end.
  Definition xels_sum (els : xelements V) : N :=
    match els with
    | XHkeyElems _ _ es => sumN (map xel_sum es)
    | XSingleElems _ ps => sumN (map (fun p => g (snd p)) ps)
    end.
End xsum.

(* the bytes a compact map does not write in place (they are hoisted into the shared section or
   dropped): the fixed-width hkey-elements head instead of a canonical array head, and per entry
   the digest, the [2] head and the key *)
Definition compact_saving {V} (kvs : list (bytes * V)) : N :=
  (c_hkeyElementsPrefixSize - cbor_head_len (lenN kvs))
  + sumN (map (fun kv => c_digestSize + c_singleElementPrefixSize + storable_size (SString (fst kv))) kvs).

Fixpoint x_saving (s : xstorable) : N :=
  match s with
  | XSome s' => x_saving s'
  | XInlArray _ _ es => sumN (map x_saving es)
  | XInlMap mx _ els =>
    xels_sum x_saving els
    + match compact_kvs mx els with Some (_, kvs) => compact_saving kvs | None => 0 end
  | _ => 0
  end.

Fixpoint x_compact (s : xstorable) : bool :=
  match s with
  | XSome s' => x_compact s'
  | XInlArray _ _ es => existsb x_compact es
  | XInlMap mx _ els => is_compact_map mx els || xels_any x_compact els
  | _ => false
  end.

Fixpoint x_inlined (s : xstorable) : bool :=
  match s with
  | XSome s' => x_inlined s'
  | XInlArray _ _ _ | XInlMap _ _ _ => true
  | _ => false
  end.

(* ---------- slabs: encoder ---------- *)

(* pass 1 over the slab's own elements, starting with an empty table *)
Definition xslab_pass1 (s : xslab) : bytes * table :=
  match s with
  | XArrayData _ _ _ _ _ es =>
    let (b, t) := st_flat (enc_x 0) [] es in (arr16_head (lenN es) ++ b, t)
  | XMapData _ _ _ _ _ _ _ els => enc_xelements (enc_x 0) [] els
  end.
Definition xslab_table (s : xslab) : table := snd (xslab_pass1 s).

Definition xslab_has_ptr (s : xslab) : bool :=
  match s with
  | XArrayData _ _ _ _ _ es => existsb x_has_ptr es
  | XMapData _ _ _ _ _ _ _ els => xels_has_ptr x_has_ptr els
  end.

Definition encode_xslab (s : xslab) : bytes :=
  let (eb, t) := xslab_pass1 s in
  match s with
  | XArrayData _ _ x na ni _ =>
    mk_head c_maskArrayData (xslab_has_ptr s) (has_next na ni) false (is_some x) (nonempty t)
      ++ enc_opt enc_xarray x ++ enc_section_opt t ++ enc_next na ni ++ eb
  | XMapData _ _ x na ni anysize cgroup _ =>
    mk_head (if cgroup then c_maskCollisionGroup else c_maskMapData)
            (xslab_has_ptr s) (has_next na ni) anysize (is_some x) (nonempty t)
      ++ enc_opt enc_xmap x ++ enc_section_opt t ++ enc_next na ni ++ eb
  end.

Definition encode_xextra (s : xslab) : bytes :=
  match s with
  | XArrayData _ _ x _ _ _ => enc_opt enc_xarray x
  | XMapData _ _ x _ _ _ _ _ => enc_opt enc_xmap x
  end.
(* the shared section as written *)
Definition encode_xsection (s : xslab) : bytes := enc_section_opt (xslab_table s).

Definition xslab_size (s : xslab) : N :=
  match s with
  | XArrayData _ _ x _ _ es =>
    (if is_some x then c_arrayRootDataSlabPrefixSize else c_arrayDataSlabPrefixSize) + sumN (map x_size es)
  | XMapData _ _ x _ _ _ _ els =>
    (if is_some x then c_mapRootDataSlabPrefixSize else c_mapDataSlabPrefixSize) + xels_size x_size els
  end.

(* the size as the DECODERS recompute it *)
Definition xdecoded_size (s : xslab) : N :=
  match s with
  | XArrayData _ _ x _ _ es =>
    fold_left (fun acc e => acc + x_size e) es
              (if is_some x then c_arrayRootDataSlabPrefixSize else c_arrayDataSlabPrefixSize)
  | XMapData _ _ x _ _ _ _ els =>
    (c_versionAndFlagSize + xels_size x_size els) + (if is_some x then 0 else c_slabIDLength)
  end.

Definition xomitted_next (s : xslab) : N :=
  match s with
  | XArrayData _ _ x na ni _ | XMapData _ _ x na ni _ _ _ =>
    if negb (is_some x) && negb (has_next na ni) then c_slabIDLength else 0
  end.

Definition xslab_refs (s : xslab) : list (N * N) :=
  match s with
  | XArrayData _ _ _ _ _ es => flat_map x_refs es
  | XMapData _ _ _ _ _ _ _ els => xels_refs x_refs els
  end.
Definition xholds_slab_refs (s : xslab) : bool := nonempty (xslab_refs s).
Definition xis_root (s : xslab) : bool :=
  match s with XArrayData _ _ x _ _ _ => is_some x | XMapData _ _ x _ _ _ _ _ => is_some x end.
Definition xany_size (s : xslab) : bool :=
  match s with XMapData _ _ _ _ _ anysize _ _ => anysize | _ => false end.
Definition xslab_first_key (s : xslab) : N :=
  match s with XMapData _ _ _ _ _ _ _ els => xels_first_key els | _ => 0 end.
Definition xslab_compact (s : xslab) : bool :=
  match s with
  | XArrayData _ _ _ _ _ es => existsb x_compact es
  | XMapData _ _ _ _ _ _ _ els => xels_any x_compact els
  end.
Definition xslab_saving (s : xslab) : N :=
  match s with
  | XArrayData _ _ _ _ _ es => sumN (map x_saving es)
  | XMapData _ _ _ _ _ _ _ els => xels_sum x_saving els
  end.
Definition xslab_inlined (s : xslab) : bool := nonempty (xslab_table s).

(* ---------- decoders ---------- *)

Section xdec.
  Context {V : Type} (dv : bytes -> option (V * bytes)).

  (* newSingleElementFromData *)
  Definition dec_xpair (bs : bytes) : option ((storable * V) * bytes) :=
    match rd_typed 4 bs with
    | Some (c, r) =>
      if c =? 2 then
        match dec_storable_top r with
        | Some (k, r1) => match dv r1 with Some (v, r2) => Some ((k, v), r2) | None => None end
        | None => None
        end
      else None
    | None => None
    end.

  (* newElementsFromData *)
  Definition dec_xelements_with (de : bytes -> option (xelement V * bytes)) (bs : bytes) : option (xelements V * bytes) :=
    match rd_typed 4 bs with
    | Some (c, r0) =>
      if c =? 3 then
        match rd_typed 0 r0 with
        | Some (level, r1) =>
          match rd_bstr r1 with
          | Some (db, r2) =>
            if lenN db mod c_digestSize =? 0 then
              let dc := lenN db / c_digestSize in
              match rd_hkeys (N.to_nat dc) db with
              | Some hkeys =>
                match rd_typed 4 r2 with
                | Some (ec, r3) =>
                  if c_maxArrayElementCount <? ec then None
                  else if negb (dc =? 0) && negb (dc =? ec) then None
                  else if (dc =? 0) && (0 <? ec) then
                    match dec_seq dec_xpair (N.to_nat ec) r3 with
                    | Some (ps, r4) => Some (XSingleElems level ps, r4)
                    | None => None
                    end
                  else
                    match dec_seq de (N.to_nat ec) r3 with
                    | Some (es, r4) => Some (XHkeyElems level hkeys es, r4)
                    | None => None
                    end
                | None => None
                end
              | None => None
              end
            else None
          | None => None
          end
        | None => None
        end
      else None
    | None => None
    end.

  (* newElementFromData *)
  Fixpoint dec_xelement (fuel : nat) (bs : bytes) : option (xelement V * bytes) :=
    match fuel with
    | O => None
    | S f =>
      match rd_head bs with
      | Some (mt, n, r) =>
        if mt =? 4 then
          match dec_xpair bs with Some (p, r') => Some (XESingle (fst p) (snd p), r') | None => None end
        else if mt =? 6 then
          if n =? c_CBORTagInlineCollisionGroup then
            match dec_xelements_with (dec_xelement f) r with
            | Some (XHkeyElems l hk es, r') => Some (XEGroupH l hk es, r')
            | Some (XSingleElems l ps, r') => Some (XEGroupS l ps, r')
            | None => None
            end
          else if n =? c_CBORTagExternalCollisionGroup then
            match dec_storable_top r with
            | Some (SSlabID a i, r') => Some (XEExt a i, r')
            | _ => None
            end
          else None
        else None
      | None => None
      end
    end.
End xdec.

(* the head of DecodeInlined{Array,Map,CompactMap}Storable: array of 3, extra-data index (any
   CBOR width is accepted), range check, 8-byte value-id index.  Returns the table entry. *)
Definition dec_inl_head (F : table) (r : bytes) : option (xdentry * N * bytes) :=
  match rd_typed 4 r with
  | Some (c, r0) =>
    if c =? 3 then
      match rd_typed 0 r0 with
      | Some (i, r1) =>
        if i <? lenN F then
          match nth_error F (N.to_nat i) with
          | Some e =>
            match rd_bstr r1 with
            | Some (b, r2) =>
              if lenN b =? c_slabIndexLength then
                match rd64 b with Some (vid, _) => Some (e, vid, r2) | None => None end
              else None
            | None => None
            end
          | None => None
          end
        else None
      | None => None
      end
    else None
  | None => None
  end.

Definition dec_xuint (w : width) (r : bytes) : option (xstorable * bytes) :=
  match rd_typed 0 r with
  | Some (n, r') => if width_max w <? n then None else Some (XUint w n, r')
  | None => None
  end.

Definition compact_elements (hk : list N) (ks : list bytes) (vs : list xstorable) : xelements xstorable :=
  XHkeyElems 0 hk (map (fun kv => XESingle (SString (fst kv)) (snd kv)) (combine ks vs)).

(* testutils.DecodeStorable with the inlined-extra-data table F *)
Fixpoint dec_x (fuel : nat) (F : table) (bs : bytes) : option (xstorable * bytes) :=
  match fuel with
  | O => None
  | S f =>
    match rd_head bs with
    | Some (mt, n, r) =>
      if mt =? 3 then
        match take n r with Some (s, r') => Some (XString s, r') | None => None end
      else if mt =? 6 then
        if n =? c_CBORTagInlinedArray then
          match dec_inl_head F r with
          | Some (XDArray ti, vid, r2) =>
            match rd_typed 4 r2 with
            | Some (cnt, r3) =>
              if c_maxArrayElementCount <? cnt then None
              else match dec_seq (dec_x f F) (N.to_nat cnt) r3 with
                   | Some (es, r4) => Some (XInlArray ti vid es, r4)
                   | None => None
                   end
            | None => None
            end
          | _ => None
          end
        else if n =? c_CBORTagInlinedMap then
          match dec_inl_head F r with
          | Some (XDMap mx, vid, r2) =>
            match dec_xelements_with (dec_x f F) (dec_xelement (dec_x f F) f) r2 with
            | Some (els, r3) => Some (XInlMap mx vid els, r3)
            | None => None
            end
          | _ => None
          end
        else if n =? c_CBORTagInlinedCompactMap then
          match dec_inl_head F r with
          | Some (XDCompact mx hk ks, vid, r2) =>
            match rd_typed 4 r2 with
            | Some (cnt, r3) =>
              if cnt =? lenN ks then
                match dec_seq (dec_x f F) (N.to_nat cnt) r3 with
                | Some (vs, r4) => Some (XInlMap mx vid (compact_elements hk ks vs), r4)
                | None => None
                end
              else None
            | None => None
            end
          | _ => None
          end
        else if n =? c_CBORTagSlabID then
          match rd_bstr r with
          | Some (b, r') => match rd_sid b with Some (a, i, _) => Some (XSlabID a i, r') | None => None end
          | None => None
          end
        else if n =? 161 then dec_xuint W8 r
        else if n =? 162 then dec_xuint W16 r
        else if n =? 163 then dec_xuint W32 r
        else if n =? 164 then dec_xuint W64 r
        else if n =? tag_some then
          match dec_x f F r with Some (s, r') => Some (XSome s, r') | None => None end
        else if n =? tag_some_nested then
          match rd_typed 4 r with
          | Some (c, r1) =>
            if c =? 2 then
              match rd_typed 0 r1 with
              | Some (lv, r2) =>
                if lv <=? 1 then None
                else match dec_x f F r2 with
                     | Some (s, r3) => Some (N.iter lv XSome s, r3)
                     | None => None
                     end
              | None => None
              end
            else None
          | None => None
          end
        else None
      else None
    | None => None
    end
  end.

Definition dec_x_top (F : table) (bs : bytes) : option (xstorable * bytes) := dec_x (length bs) F bs.
Definition dec_xelements_top (F : table) (bs : bytes) : option (xelements xstorable * bytes) :=
  dec_xelements_with (dec_x_top F) (dec_xelement (dec_x_top F) (length bs)) bs.

(* --- the section --- *)

(* decodeTypeInfoRefIfNeeded *)
Definition dec_ti_ref (his : list typeinfo) (l : bytes) : option (typeinfo * bytes) :=
  match his with
  | [] => dec_ti l
  | _ =>
    match l with
    | a :: b :: r =>
      if (a =? 216) && (b =? c_CBORTagTypeInfoRef) then
        match rd_typed 0 r with
        | Some (i, r') =>
          if i <? lenN his then
            match nth_error his (N.to_nat i) with Some t => Some (t, r') | None => None end
          else None
        | None => None
        end
      else dec_ti l
    | _ => dec_ti l
    end
  end.

Definition dec_xarray_with (dt : bytes -> option (typeinfo * bytes)) (l : bytes) : option (typeinfo * bytes) :=
  match rd_typed 4 l with
  | Some (n, r) => if n =? c_arrayExtraDataLength then dt r else None
  | None => None
  end.

Definition dec_xmap_with (dt : bytes -> option (typeinfo * bytes)) (l : bytes) : option (mextra * bytes) :=
  match rd_typed 4 l with
  | Some (n, r) =>
    if n =? c_mapExtraDataLength then
      match dt r with
      | Some (t, r1) =>
        match rd_typed 0 r1 with
        | Some (c, r2) =>
          match rd_typed 0 r2 with
          | Some (s, r3) => Some (mk_mextra t c s, r3)
          | None => None
          end
        | None => None
        end
      | None => None
      end
    else None
  | None => None
  end.

(* a compact-map key: decodeStorable, must be a ComparableStorable (= StringValue) *)
Definition dec_key (l : bytes) : option (bytes * bytes) :=
  match dec_storable_top l with
  | Some (SString k, r) => Some (k, r)
  | _ => None
  end.

Definition dec_entry (his : list typeinfo) (l : bytes) : option (xdentry * bytes) :=
  match rd_typed 6 l with
  | Some (tag, r) =>
    if tag =? c_CBORTagInlinedArrayExtraData then
      match dec_xarray_with (dec_ti_ref his) r with Some (ti, r') => Some (XDArray ti, r') | None => None end
    else if tag =? c_CBORTagInlinedMapExtraData then
      match dec_xmap_with (dec_ti_ref his) r with Some (mx, r') => Some (XDMap mx, r') | None => None end
    else if tag =? c_CBORTagInlinedCompactMapExtraData then
      match rd_typed 4 r with
      | Some (n, r0) =>
        if n =? c_compactMapExtraDataLength then
          match dec_xmap_with (dec_ti_ref his) r0 with
          | Some (mx, r1) =>
            match rd_bstr r1 with
            | Some (db, r2) =>
              if lenN db mod c_digestSize =? 0 then
                let dc := lenN db / c_digestSize in
                if c_maxArrayElementCount <? dc then None
                else
                  match rd_typed 4 r2 with
                  | Some (kc, r3) =>
                    if kc =? dc then
                      match rd_hkeys (N.to_nat dc) db with
                      | Some hk =>
                        match dec_seq dec_key (N.to_nat kc) r3 with
                        | Some (ks, r4) => Some (XDCompact mx hk ks, r4)
                        | None => None
                        end
                      | None => None
                      end
                    else None
                  | None => None
                  end
              else None
            | None => None
            end
          | None => None
          end
        else None
      | None => None
      end
    else None
  | None => None
  end.

(* newInlinedExtraDataFromData *)
Definition dec_section (l : bytes) : option (table * bytes) :=
  match rd_typed 4 l with
  | Some (c, r0) =>
    if c =? c_inlinedExtraDataArrayCount then
      match rd_typed 4 r0 with
      | Some (nh, r1) =>
        match dec_seq dec_ti (N.to_nat nh) r1 with
        | Some (his, r2) =>
          match rd_typed 4 r2 with
          | Some (ne, r3) =>
            if ne =? 0 then None
            else dec_seq (dec_entry his) (N.to_nat ne) r3
          | None => None
          end
        | None => None
        end
      | None => None
      end
    else None
  | None => None
  end.

Definition dec_section_opt (has : bool) (l : bytes) : option (table * bytes) :=
  if has then dec_section l else Some ([], l).

(* newArrayDataSlabFromDataV1 *)
Definition dec_xarray_data (id : N * N) (h : head) (data : bytes) : option xslab :=
  match dec_opt (h_is_root h) dec_xarray data with
  | Some (x, d0) =>
    match dec_section_opt (h_has_inlined_slabs h) d0 with
    | Some (F, d1) =>
      match dec_next (h_has_next_slab_id h) d1 with
      | Some (na, ni, d2) =>
        if lenN d2 <? c_arrayDataSlabElementHeadSize then None
        else
          match rd_typed 4 d2 with
          | Some (n, d3) =>
            if c_maxArrayElementCount <? n then None
            else
              match dec_seq (dec_x_top F) (N.to_nat n) d3 with
              | Some (es, []) => Some (XArrayData (fst id) (snd id) x na ni es)
              | _ => None
              end
          | None => None
          end
      | None => None
      end
    | None => None
    end
  | None => None
  end.

(* newMapDataSlabFromDataV1 (no end-of-data check, as in Codec.v) *)
Definition dec_xmap_data (id : N * N) (h : head) (data : bytes) : option xslab :=
  match dec_opt (h_is_root h) dec_xmap data with
  | Some (x, d0) =>
    match dec_section_opt (h_has_inlined_slabs h) d0 with
    | Some (F, d1) =>
      match dec_next (h_has_next_slab_id h) d1 with
      | Some (na, ni, d2) =>
        match dec_xelements_top F d2 with
        | Some (els, _) =>
          Some (XMapData (fst id) (snd id) x na ni (negb (h_has_size_limit h)) (h_sub_type h =? 3) els)
        | None => None
        end
      | None => None
      end
    | None => None
    end
  | None => None
  end.

(* DecodeSlab restricted to version-1 data slabs (the other kinds: Codec.decode_slab) *)
Definition decode_xslab (id : N * N) (b : bytes) : option xslab :=
  match rd_headbytes b with
  | Some (h, data) =>
    let t := h_slab_type h in
    let st := h_sub_type h in
    if h_version h =? 1 then
      if t =? 0 then (if st =? 0 then dec_xarray_data id h data else None)
      else if t =? 1 then (if (st =? 0) || (st =? 3) then dec_xmap_data id h data else None)
      else None
    else None
  | None => None
  end.

Definition decode_xslab_with_size (id : N * N) (b : bytes) : option (xslab * N) :=
  match decode_xslab id b with Some s => Some (s, xdecoded_size s) | None => None end.

(* ---------- what a store / load cycle turns a slab into ---------- *)

(* Relative to the final table F.  Only compact maps change: a compact map takes the type info /
   count / seed, the digests and the KEY ORDER of the (first) table entry of its shape, and every
   key keeps the value the map gave it ([pick_values] = look-up by key).  Everything else keeps
   its structure (the fall-back branches are never taken for the table of a slab that Go
   encodes without error). *)
Fixpoint x_canon (F : table) (s : xstorable) : xstorable :=
  match s with
  | XSome s' => XSome (x_canon F s')
  | XInlArray ti vid es => XInlArray ti vid (map (x_canon F) es)
  | XInlMap mx vid els =>
    let els' := xels_map (x_canon F) els in
    match compact_kvs mx els' with
    | Some (_, kvs) =>
      match find_compact (ctype_id (mx_ti mx) (map fst kvs)) F 0 with
      | Some (i, ks) =>
        match nth_error F (N.to_nat i) with
        | Some (XDCompact mx' hk' _) =>
          if lenN ks =? lenN kvs then
            match pick_values ks kvs with
            | Some vs => XInlMap mx' vid (compact_elements hk' ks vs)
            | None => XInlMap mx vid els'
            end
          else XInlMap mx vid els'
        | _ => XInlMap mx vid els'
        end
      | None => XInlMap mx vid els'
      end
    | None => XInlMap mx vid els'
    end
  | _ => s
  end.

(* the value a compact map's entry list gives to a key *)
Fixpoint kv_lookup {V} (k : bytes) (kvs : list (bytes * V)) : option V :=
  match kvs with
  | [] => None
  | (k', v) :: r => if bytes_eqb k' k then Some v else kv_lookup k r
  end.
Definition singles_of {V} (kvs : list (bytes * V)) : list (xelement V) :=
  map (fun kv => XESingle (SString (fst kv)) (snd kv)) kvs.

Definition xslab_canon (s : xslab) : xslab :=
  let F := xslab_table s in
  match s with
  | XArrayData a i x na ni es => XArrayData a i x na ni (map (x_canon F) es)
  | XMapData a i x na ni anys cg els => XMapData a i x na ni anys cg (xels_map (x_canon F) els)
  end.

(* ---------- well-formedness (boolean, executable) ---------- *)

(* a type info of the harness; its tag must not be atree's own type-info-reference tag *)
Definition ti_ok (t : typeinfo) : bool :=
  ti_swf t && match t with TTagged tag _ => negb (tag =? c_CBORTagTypeInfoRef) | TSimple _ => true end.
Definition mx_ok (m : mextra) : bool := ti_ok (mx_ti m) && (mx_count m <? two64) && (mx_seed m <? two64).

(* [nc] = true additionally demands that no inlined map is eligible for the compact form *)
Fixpoint x_wf (nc : bool) (lv : N) (s : xstorable) : bool :=
  match s with
  | XUint w n => (lv <? two64) && (n <=? width_max w)
  | XString bs => (lv <? two64) && forallb (fun b => b <? 128) bs && (lenN bs <? two64)
  | XSlabID a i => (lv <? two64) && (a <? two64) && (i <? two64)
  | XSome s' => x_wf nc (lv + 1) s'
  | XInlArray ti vid es =>
    (lv <? two64) && ti_ok ti && (vid <? two64) && (lenN es <? two16) && forallb (x_wf nc 0) es
  | XInlMap mx vid els =>
    (lv <? two64) && mx_ok mx && (vid <? two64) && (negb nc || negb (is_compact_map mx els))
    && xels_wf (x_wf nc 0) els
  end.

Definition entry_ok (e : xdentry) : bool :=
  match e with
  | XDArray ti => ti_ok ti
  | XDMap mx => mx_ok mx
  | XDCompact mx hk ks =>
    mx_ok mx && (lenN hk =? lenN ks) && (lenN hk <=? c_maxArrayElementCount)
    && forallb (fun h => h <? two64) hk && forallb (fun k => storable_swf (SString k)) ks
  | XDError => false
  end.

Definition xa_ok (x : option typeinfo) : bool := match x with Some t => ti_swf t | None => true end.

(* the conditions of Codec.swf on the slab's own fields, well-formed elements, at most 256
   entries in the shared table, none of them the error marker (= Go encodes the slab without
   error); [xswf true]: and no compact map *)
Definition xswf (nc : bool) (s : xslab) : bool :=
  match s with
  | XArrayData a i x na ni es =>
    forallb entry_ok (xslab_table s)
    && (a <? two64) && (i <? two64) && xa_swf x && (na <? two64) && (ni <? two64)
    && (negb (is_some x) || negb (has_next na ni))
    && (lenN es <? two16) && forallb (x_wf nc 0) es
    && (lenN (xslab_table s) <=? c_maxInlinedExtraDataIndex + 1)
  | XMapData a i x na ni _ _ els =>
    forallb entry_ok (xslab_table s)
    && (a <? two64) && (i <? two64) && xm_swf x && (na <? two64) && (ni <? two64)
    && (negb (is_some x) || negb (has_next na ni))
    && xels_wf (x_wf nc 0) els
    && (lenN (xslab_table s) <=? c_maxInlinedExtraDataIndex + 1)
  end.

(* ---------- embedding of Codec.v's universe (slabs without inlined children) ---------- *)

Fixpoint x_of_storable (s : storable) : xstorable :=
  match s with
  | SUint w n => XUint w n
  | SString b => XString b
  | SSlabID a i => XSlabID a i
  | SSome s' => XSome (x_of_storable s')
  end.
Definition xpair_of (p : storable * storable) : storable * xstorable := (fst p, x_of_storable (snd p)).
Fixpoint xel_of_element (e : element) : xelement xstorable :=
  match e with
  | ESingle k v => XESingle k (x_of_storable v)
  | EGroupH l hk es => XEGroupH l hk (map xel_of_element es)
  | EGroupS l ps => XEGroupS l (map xpair_of ps)
  | EExt a i => XEExt a i
  end.
Definition xels_of_elements (els : elements) : xelements xstorable :=
  match els with
  | HkeyElems l hk es => XHkeyElems l hk (map xel_of_element es)
  | SingleElems l ps => XSingleElems l (map xpair_of ps)
  end.
Definition xslab_of_slab (s : slab) : option xslab :=
  match s with
  | SArrayData a i x na ni es => Some (XArrayData a i x na ni (map x_of_storable es))
  | SMapData a i x na ni anys cg els => Some (XMapData a i x na ni anys cg (xels_of_elements els))
  | _ => None
  end.
