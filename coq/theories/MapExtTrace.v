(* MapExtTrace.v — protocol encoding of MapExt.v (engine "mapext"): the slab tree of MapTree.v plus
   the StorableSlabs of large keys and values.  Same conventions as MapTreeTrace.v (digest table
   accumulated from the trace, real slab indexes), with these differences:

   Configuration line: [T; max_inline_elem; limit; levels; root slab index]  (max_inline_elem is
   recomputed from T by the model; the line's value is only compared by the harness).

   Operations                                        Answers
     [1; kid; KSZ; vid; VSZ; dump; d0..]  Set        [0; 0] ++ XT | [0; 1; pvid; pvsz; pvext] ++ XT | [2] ++ XT (refused) | [3]
        KSZ, VSZ: the TRUE encoded sizes of key and value (the model decides what is large);
        pvext: slab index of the previous value's StorableSlab handed back (0 = it was inline)
     [2; kid; d0..]                       Get        [0; vid; vsz] | [1] | [3]          (vsz = STORED size)
     [3; kid; d0..]                       Has        [0; b] | [3]
     [4; kid; dump; d0..]                 Remove     [0; kid; ksz; kext; vid; vsz; vext] ++ XT | [1] ++ XT | [3]
     [5]                                  Count      [0; n]
     [6] / [7]                            Iterate    0 :: n :: (kid; vid)*
     [8; dump]                            PopIterate 0 :: n :: (kid; kext; vid; vext)* ++ XT
   XT = MapTreeTrace.TAIL (log incl. the storeSlab of the new StorableSlabs, allocator, root header,
        count, optional tree dump + wf) ++ (if dump) [n; (kid; kext; vext)*]: the external slab
        indexes of every entry in iteration order (0 = inline). *)
From Coq Require Import ZArith NArith List Bool.
From AtreeGen Require Import Consts.
From AtreeModel Require Import Proto Settings MapElems MapTrace MapTree MapTreeInv MapTreeTrace MapExt.
Import ListNotations.
Local Open Scope Z_scope.

Section engine.
  Variable levels : nat.
  Variable limit : N.
  Variable c : cfg.

  Definition xtstate : Type := (ptrie * xmap)%type.

  Definition enc_ext (tb : xtab) (d : dict) : line :=
    natz (length d) ::
    flat_map (fun p : kv * kv => let e := xget tb (kid (fst p)) in [Nz (kid (fst p)); Nz (fst e); Nz (snd e)]) d.

  Definition enc_xtail (dgf : N -> nat -> N) (x' : xmap) (lg : wlog) (d : bool) : line :=
    enc_tail levels c dgf (x_tree x') lg d ++ (if d then enc_ext (x_tab x') (x_entries x') else []).

  Definition enc_popped (tb : xtab) (d : dict) : line :=
    natz (length d) ::
    flat_map (fun p : kv * kv => let e := xget tb (kid (fst p)) in
                                 [Nz (kid (fst p)); Nz (fst e); Nz (kid (snd p)); Nz (snd e)]) d.

  Definition enc_xout (dgf : N -> nat -> N) (o : mop) (x x' : xmap) (out : mout) (back : list N) (lg : wlog) (d : bool) : line :=
    match o, out with
    | OSet _ _, RPrev None => 0 :: 0 :: enc_xtail dgf x' lg d
    | OSet _ _, RPrev (Some p) =>
      0 :: 1 :: Nz (kid p) :: Nz (ksz p) :: Nz (match back with i :: _ => i | [] => 0%N end) :: enc_xtail dgf x' lg d
    | OSet _ _, RErr ECollisionLimit => 2 :: enc_xtail dgf x' lg d
    | ORemove k, RPair k0 v0 =>
      let e := xget (x_tab x) k in
      0 :: Nz (kid k0) :: Nz (ksz k0) :: Nz (fst e) :: Nz (kid v0) :: Nz (ksz v0) :: Nz (snd e) :: enc_xtail dgf x' lg d
    | ORemove _, RErr EKeyNotFound => 1 :: enc_xtail dgf x' lg d
    | OGet _, RVal v => [0; Nz (kid v); Nz (ksz v)]
    | OGet _, RErr EKeyNotFound => [1]
    | OHas _, RBool b => [0; boolz b]
    | OCount, RCount n => [0; Nz n]
    | OIterate, RList dd => 0 :: enc_pairs dd
    | OIterNext, RList dd => 0 :: enc_pairs dd
    | OPop, RList dd => 0 :: enc_popped (x_tab x) dd ++ enc_xtail dgf x' lg d
    | _, _ => [3]
    end.

  Definition mapext_step (ts : xtstate) (o : ttop) : xtstate * line :=
    let '(tb, x) := ts in
    let '(tb', op, d) :=
      match o with TTKey op k ds d => (ptadd tb k ds, op, d) | TTPlain op d => (tb, op, d) end in
    let dgf := ptdg tb' in
    let '(x', out, back, lg) := xm_step dgf levels limit c x op in
    ((tb', x'), enc_xout dgf op x x' out back lg d).
End engine.

Definition chk_mapext (cfgl : line) (tr : list (line * line)) : verdict :=
  match cfgl with
  | [t; mi; lim; lv; rootid] =>
    check_from dec_ttop (mapext_step (znat lv) (zN lim) (set_threshold (zN t)))
               (PLeaf, fst (xm_init (zN rootid))) tr 0
  | _ => VBadOp 0 cfgl
  end.
