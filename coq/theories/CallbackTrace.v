(* CallbackTrace.v — protocol encoding of Callback.v (engine "callback").

   Configuration line: [T; max_inline_elem; limit; levels; root slab index]   (as MapTreeTrace.v).
   The engine state is the map of MapTreeTrace.v (digest table accumulated from the trace + slab tree)
   and the list of slabs the READER's storage holds in its cache.  The harness builds the map with the
   operations of the "maptree" engine, commits, opens it by its root in a fresh storage (the reader)
   and looks keys up there with failing caller-supplied components.

   Operations
     [1..8; ...]   the operations of MapTreeTrace.v on the map, same answers
     [30]          the reader's cache is empty from now on (fresh storage / DropCache)      answer [0]
     [31; has; kid; comp; idx; sticky; kind; junk; d_0 .. d_{levels-1}]
                   has = 0: OrderedMap.Get, 1: OrderedMap.Has of key kid (digests d_i) with the plan
                   comp   0 nothing fails | 1 hash-input provider | 2 digester | 3 comparator | 4 ledger read
                   idx    the call of that component that fails (0-based); sticky = 1: every call from idx on
                   kind   what the failing component returns: 0 plain error | 1 atree UserError |
                          2 atree FatalError | 3 atree ExternalError | 4 atree KeyNotFoundError
                   junk   the digest value a failing digester hands back with its error
       answer  RES ++ [n] ++ (code; arg)*n
         RES   [0; vid; vsz] value (Get) | [0; b] (Has) | [1] key not found | [3] other error of the lookup |
               [2; comp; cat] failure of component comp handed on with category cat (1 user, 2 fatal, 3 external)
         calls in the order made, the failing one included:
               (1; kid) hash input | (2; level) Digest(level) | (3; stored kid) comparator | (4; slab index) ledger read
       the cache gains the slabs read successfully. *)
From Coq Require Import ZArith NArith List Bool.
From AtreeGen Require Import Consts.
From AtreeModel Require Import Proto Settings MapElems MapTrace MapTree MapTreeInv MapTreeTrace ErrSpec Callback.
Import ListNotations.
Local Open Scope Z_scope.

Inductive cbop : Type :=
| CBOp (o : ttop)
| CBDrop
| CBLookup (has : bool) (k : N) (ds : list N) (pl : plan).

Definition dec_comp (z : Z) : option comp :=
  match z with 1 => Some CHip | 2 => Some CDig | 3 => Some CCmp | 4 => Some CRead | _ => None end.
Definition dec_kind (z : Z) : ekind :=
  match z with 1 => KUser | 2 => KFatal | 3 => KExternal | 4 => KKeyNotFound | _ => KPlain end.

Definition dec_plan (c idx sticky kind junk : Z) : plan :=
  match dec_comp c with
  | None => mkplan (fun _ _ => false) (dec_kind kind) (zN junk)
  | Some cm =>
    if zbool sticky then fail_from cm (znat idx) (dec_kind kind) (zN junk)
    else fail_at cm (znat idx) (dec_kind kind) (zN junk)
  end.

Definition dec_cbop (l : line) : option cbop :=
  match l with
  | [30] => Some CBDrop
  | 31 :: has :: k :: c :: idx :: sticky :: kind :: junk :: ds =>
    Some (CBLookup (zbool has) (zN k) (map zN ds) (dec_plan c idx sticky kind junk))
  | _ => match dec_ttop l with Some o => Some (CBOp o) | None => None end
  end.

Definition enc_comp (c : comp) : Z := match c with CHip => 1 | CDig => 2 | CCmp => 3 | CRead => 4 end.
Definition enc_cat (c : ecat) : Z := match c with User => 1 | Fatal => 2 | External => 3 | Uncategorised => 0 end.
Definition enc_cev (e : cev) : line :=
  match e with
  | VHip k => [1; Nz k]
  | VDig l => [2; natz l]
  | VCmp s => [3; Nz s]
  | VRead id => [4; Nz id]
  end.

Definition enc_lres (r : fres mout) : line :=
  match r with
  | FOk (RVal v) => [0; Nz (kid v); Nz (ksz v)]
  | FOk (RBool b) => [0; boolz b]
  | FOk (RErr EKeyNotFound) => [1]
  | FOk _ => [3]
  | FFail c k => [2; enc_comp c; enc_cat (wrap_cat k)]
  end.

Definition reads_of (t : list cev) : list N :=
  flat_map (fun e => match e with VRead id => [id] | _ => [] end) t.

Section engine.
  Variable levels : nat.
  Variable max_inline_elem limit : N.
  Variable c : cfg.

  Definition cbstate : Type := (ttstate * list N)%type.

  Definition callback_step (s : cbstate) (o : cbop) : cbstate * line :=
    let '(ts, ld) := s in
    match o with
    | CBOp op => let '(ts', ans) := maptree_step levels max_inline_elem limit c ts op in ((ts', ld), ans)
    | CBDrop => ((ts, []), [0])
    | CBLookup has k ds pl =>
      let '(tb, t) := ts in
      let tb' := ptadd tb k ds in
      let dgf := ptdg tb' in
      let loadedf := fun id => existsb (N.eqb id) ld in
      let raw := if has then mt_has_raw_f dgf levels pl loadedf t k
                 else mt_get_f dgf levels (fun _ => None) pl loadedf t k in
      let x := if has then has_post raw else raw in
      (((tb', t), ld ++ reads_of (ok_calls raw)),
       enc_lres (fst x) ++ natz (length (snd x)) :: flat_map enc_cev (snd x))
    end.
End engine.

Definition chk_callback (cfgl : line) (tr : list (line * line)) : verdict :=
  match cfgl with
  | [t; mi; lim; lv; rootid] =>
    check_from dec_cbop (callback_step (znat lv) (zN mi) (zN lim) (set_threshold (zN t)))
               ((PLeaf, fst (mt_init (zN rootid))), []) tr 0
  | _ => VBadOp 0 cfgl
  end.
