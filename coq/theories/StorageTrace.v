(* StorageTrace.v — protocol encoding of Storage.v operations and answers. *)
From stdpp Require Import gmap.
From Coq Require Import ZArith NArith List Bool.
From AtreeModel Require Import Proto Storage.
Import ListNotations.
Local Open Scope Z_scope.

Fixpoint dec_ids (l : list Z) : option (list sid) :=
  match l with
  | [] => Some []
  | a :: i :: r => match dec_ids r with Some t => Some ((zN a, zN i) :: t) | None => None end
  | _ => None
  end.

Definition dec_fail (f : Z) : option nat := if f <? 0 then None else Some (znat f).

Definition dec_sop (l : line) : option sop :=
  match l with
  | [1; a; i; v; z] => Some (SStore (zN a, zN i) (mkval (zN v) (zN z)))
  | [2; a; i] => Some (SRemove (zN a, zN i))
  | [3; a; i] => Some (SRetrieve (zN a, zN i))
  | [4; a; i] => Some (SRetrieveIfLoaded (zN a, zN i))
  | [5; a; i; c] => Some (SRetrieveIgnoringDeltas (zN a, zN i) (zbool c))
  | [6; f] => Some (SFastCommit (dec_fail f))
  | 7 :: f :: r => match dec_ids r with Some ids => Some (SNondetCommit ids (dec_fail f)) | None => None end
  | [8] => Some SDropDeltas
  | [9] => Some SDropCache
  | 10 :: r => match dec_ids r with Some ids => Some (SBatchPreload ids) | None => None end
  | [11] => Some SObserve
  | [12; a] => Some (SHasUnsaved (zN a))
  | [13] => Some SRecreate
  | [14; a; i] => Some (SBaseGet (zN a, zN i))
  | _ => None
  end.

Definition enc_log (log : wlog) : line :=
  flat_map (fun c : bool * sid => [boolz (fst c); Nz (fst (snd c)); Nz (snd (snd c))]) log.

Definition enc_sout (o : sout) : line :=
  match o with
  | ORet None => [0]
  | ORet (Some v) => [1; Nz (v_id v); Nz (v_sz v)]
  | OOk => [2]
  | OErrSlabID => [3]
  | OCommit ok log => 4 :: boolz ok :: enc_log log
  | OBadOrder => [5]
  | OObs a b c => [6; Nz a; Nz b; Nz c]
  | OBool b => [7; boolz b]
  end.

Definition storage_step (s : st) (o : sop) : st * line :=
  let '(s', x) := step s o in (s', enc_sout x).

Definition check_storage (tr : list (line * line)) : verdict :=
  check_from dec_sop storage_step st_init tr 0.

(* uniform entry point: configuration line (unused here) and the steps *)
Definition chk_storage (_ : line) (tr : list (line * line)) : verdict := check_storage tr.
