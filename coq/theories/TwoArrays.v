(* TwoArrays.v — C17 "independent": two arrays living in ONE slab storage, at one address.

   What Go shares between two arrays of one address: the slab store (SlabStorage: identifier ->
   slab) and the identifier allocator (storage.GenerateSlabID(address): one counter per address,
   owned by the storage / ledger, NOT by the array).  The model ArrayTree.v threads the allocator
   through the operations of one array in its field [a_alloc]; here the counter belongs to the
   world: an operation on either array starts from the world's counter and leaves its new value
   there ([with_alloc]).  Nothing else is shared: each array object holds its own root.

   The slab store is a map identifier -> register.  A register [reg] is the slab's own content:
     VData header next-link elements    an ArrayDataSlab      (+ type info if it is a root slab)
     VMeta header child-headers sums    an ArrayMetaDataSlab  (+ type info if it is a root slab)
     VExt                               a StorableSlab of a large element value (payload not
                                        modelled: ArrayTree.v knows such a value by identity only)
   An operation's effect on the store is its log of storeSlab / Storage.Remove calls
   ([a_step] returns it); Go slab objects are shared by pointer, so a Store publishes the slab's
   content at the end of the operation: [apply_log a'] writes [reg_of a' id] for every stored id
   (as in C03_array_frame, which compares the tree before with the tree after).

   [wstep c w X o]: operation o on array X of the world.  [wrun]: interleaved histories.
   Builders: [w_batch] (array B built by NewArrayFromBatchData, Batch.v, from the world's counter),
   [w_copy] (B = CopyNonRefSimple of a single-slab source), [w_new2] (two NewArray). *)
From Coq Require Import NArith ZArith List Bool.
From AtreeGen Require Import Consts.
From AtreeModel Require Import Settings ArrayTree ArrayInv Batch.
Import ListNotations.
Local Open Scope N_scope.

Inductive sval : Type :=
| VData (h : hdr) (next : N) (es : list elem)
| VMeta (h : hdr) (hs : list hdr) (sums : list N)
| VExt.
Definition reg : Type := (sval * option N)%type.
Definition store : Type := N -> option reg.

(* the slab of the tree with identifier id: its OWN content *)
Fixpoint find_slab (n : anode) (id : N) : option sval :=
  match n with
  | AD h nx es => if h_id h =? id then Some (VData h nx es) else None
  | AM h hs sums cs =>
    if h_id h =? id then Some (VMeta h hs sums)
    else (fix go (l : list anode) : option sval :=
            match l with
            | [] => None
            | c :: r => match find_slab c id with Some s => Some s | None => go r end
            end) cs
  end.

(* what a Store of id publishes: the tree slab (the root slab carries the type info), or a
   StorableSlab *)
Definition reg_of (a : arr) (id : N) : reg :=
  match find_slab (a_root a) id with
  | Some s => (s, if id =? a_rootid a then Some (a_type a) else None)
  | None => (VExt, None)
  end.

Definition st_set (st : store) (i : N) (r : option reg) : store := fun x => if x =? i then r else st x.

Fixpoint apply_log (a' : arr) (st : store) (lg : wlog) : store :=
  match lg with
  | [] => st
  | WStore i :: r => apply_log a' (st_set st i (Some (reg_of a' i))) r
  | WRemove i :: r => apply_log a' (st_set st i None) r
  end.

Definition st_empty : store := fun _ => None.

Definition with_alloc (a : arr) (n : N) : arr := mkarr (a_root a) n (a_type a).

Inductive side : Type := SA | SB.
Definition other (X : side) : side := match X with SA => SB | SB => SA end.

Record world : Type := mkW { w_a : arr; w_b : arr; w_alloc : N; w_store : store }.

Definition w_get (w : world) (X : side) : arr := match X with SA => w_a w | SB => w_b w end.

Definition wstep (c : cfg) (w : world) (X : side) (o : aop) : world * aout :=
  let '(a', out, lg) := a_step c (with_alloc (w_get w X) (w_alloc w)) o in
  let st' := apply_log a' (w_store w) lg in
  (match X with
   | SA => mkW a' (w_b w) (a_alloc a') st'
   | SB => mkW (w_a w) a' (a_alloc a') st'
   end, out).

Fixpoint wrun (c : cfg) (w : world) (ops : list (side * aop)) : world * list aout :=
  match ops with
  | [] => (w, [])
  | (X, o) :: r =>
    let '(w1, x) := wstep c w X o in
    let '(w2, xs) := wrun c w1 r in (w2, x :: xs)
  end.

(* the requests addressed to X *)
Definition proj (X : side) (ops : list (side * aop)) : list aop :=
  flat_map (fun p : side * aop => match X, fst p with SA, SA | SB, SB => [snd p] | _, _ => [] end) ops.

(* the answers to the requests addressed to X *)
Fixpoint proj_out (X : side) (ops : list (side * aop)) (outs : list aout) : list aout :=
  match ops, outs with
  | (Y, _) :: r, x :: xs =>
    match X, Y with SA, SA | SB, SB => x :: proj_out X r xs | _, _ => proj_out X r xs end
  | _, _ => []
  end.

(** builders *)

(* B := NewArrayFromBatchData(es) in the storage that holds A *)
Definition w_batch (c : cfg) (a : arr) (alloc : N) (st : store) (ti : N) (es : list elem) : world :=
  let '(b, lg) := array_from_batch c alloc ti es in
  mkW a b (a_alloc b) (apply_log b st lg).

(* B := A.CopyNonRefSimple() (the source: array A itself, a standalone single-slab array) *)
Definition w_copy (pl : elem -> bool) (a : arr) (alloc : N) (st : store) (ti : N) : option world :=
  match copy_array pl (a_root a) false alloc ti with
  | (inl (b, lg), alloc') => Some (mkW a b alloc' (apply_log b st lg))
  | (inr _, _) => None
  end.

(* two NewArray calls *)
Definition w_new2 (alloc ta tb : N) : world :=
  let '(a, lga) := arr_init (alloc + 1) ta in
  let '(b, lgb) := arr_init (alloc + 2) tb in
  mkW a b (alloc + 2) (apply_log b (apply_log a st_empty lga) lgb).

(** vocabulary of the statements *)

Definition disjoint_ids (a b : arr) : Prop :=
  forall i, In i (slab_ids (a_root a)) -> ~ In i (slab_ids (a_root b)).

(* both arrays own pairwise distinct, positive identifiers handed out by the world's counter, and
   share none *)
Definition winv (w : world) : Prop :=
  ids_ok (with_alloc (w_a w) (w_alloc w)) /\ ids_ok (with_alloc (w_b w) (w_alloc w)) /\
  disjoint_ids (w_a w) (w_b w).

(* the store holds, under every identifier of array X, that slab of X *)
Definition store_ok (w : world) (X : side) : Prop :=
  forall i, In i (slab_ids (a_root (w_get w X))) -> w_store w i = Some (reg_of (w_get w X) i).

(* array X of w' is array X of w: same object (root tree, type) and same registers in the store *)
Definition untouched (w w' : world) (X : side) : Prop :=
  a_root (w_get w' X) = a_root (w_get w X) /\ a_type (w_get w' X) = a_type (w_get w X) /\
  forall i, In i (slab_ids (a_root (w_get w X))) -> w_store w' i = w_store w i.
