(* DecodeTrace.v — trace engine `decode` for C19: replays the Go harness' observations of the header queries
   and of DecodeSlab on metadata-slab inputs against DecodeSafe.v.

   op  = kind :: bytes          kind 1 = the three header queries (IsRootOfAnObject, HasPointers, HasSizeLimit)
                                kind 2 = DecodeSlab, input announces an array metadata slab
                                kind 3 = DecodeSlab, input announces a map metadata slab
                                kind 4 = DecodeSlab, input rejected by the dispatch (short / undefined slab type)
   obs kind 1: c1 v1 c2 v2 c3 v3            (c = 0 ok / 1 error, v = the boolean)
       kind 2: 1 | 0 size count hasExtra n (address index count size)*n
       kind 3: 1 | 0 size firstKey hasExtra n (address index firstKey size)*n
       kind 4: 1
   A model [Panic] is answered with 2 and a non-metadata result with 9: both can never match the
   implementation's line, so they show up as DIFF.

   The abstract "decode the extra data with CBOR" step of DecodeSafe.v is instantiated with a concrete parser of
   exactly the shape the harness' callbacks accept (array extra data = array(1)[typeinfo], map extra data =
   array(3)[typeinfo, uint, uint], typeinfo = uint | tag(200|246) uint), any CBOR head width. *)
From Coq Require Import ZArith NArith List Bool.
From AtreeGen Require Import Consts.
From AtreeModel Require Import Proto DecodeSafe.
Import ListNotations.
Local Open Scope N_scope.

(* CBOR head at the start of d: (major type, value, head length); None = truncated, reserved or indefinite *)
Definition cbor_head (d : bytes) : option (N * N * N) :=
  match d with
  | [] => None
  | b :: r =>
    let major := N.shiftr b 5 in
    let ai := N.land b 31 in
    if ai <? 24 then Some (major, ai, 1)
    else if ai =? 24 then (if 1 <=? lenN r then Some (major, be_val (firstn 1 r), 2) else None)
    else if ai =? 25 then (if 2 <=? lenN r then Some (major, be_val (firstn 2 r), 3) else None)
    else if ai =? 26 then (if 4 <=? lenN r then Some (major, be_val (firstn 4 r), 5) else None)
    else if ai =? 27 then (if 8 <=? lenN r then Some (major, be_val (firstn 8 r), 9) else None)
    else None
  end.

Definition uint_len (d : bytes) : option N :=
  match cbor_head d with
  | Some (0, _, hl) => Some hl
  | _ => None
  end.

(* the harness' TypeInfoDecoder: uint | tag 200 uint | tag 246 uint *)
Definition typeinfo_len (d : bytes) : option N :=
  match cbor_head d with
  | Some (0, _, hl) => Some hl
  | Some (6, t, hl) =>
    if (t =? 200) || (t =? 246) then
      match uint_len (skipn (N.to_nat hl) d) with
      | Some ul => Some (hl + ul)
      | None => None
      end
    else None
  | _ => None
  end.

(* array_extradata.go newArrayExtraDataFromData: array(1)[typeinfo]; result = NumBytesDecoded() *)
Definition concrete_array_extra_len (d : bytes) : option N :=
  match cbor_head d with
  | Some (4, 1, hl) =>
    match typeinfo_len (skipn (N.to_nat hl) d) with
    | Some tl => Some (hl + tl)
    | None => None
    end
  | _ => None
  end.

(* map_extradata.go newMapExtraDataFromData: array(3)[typeinfo, count, seed] *)
Definition concrete_map_extra_len (d : bytes) : option N :=
  match cbor_head d with
  | Some (4, 3, hl) =>
    let d1 := skipn (N.to_nat hl) d in
    match typeinfo_len d1 with
    | Some tl =>
      let d2 := skipn (N.to_nat tl) d1 in
      match uint_len d2 with
      | Some cl =>
        match uint_len (skipn (N.to_nat cl) d2) with
        | Some sl => Some (hl + tl + cl + sl)
        | None => None
        end
      | None => None
      end
    | None => None
    end
  | _ => None
  end.

(* data slabs are not decided by this engine *)
Definition no_inlined_extra_len (_ : bytes) : option N := None.

Definition decode_concrete (id : SlabID) (data : bytes) : outcome fixed_result :=
  decode_slab_fixed concrete_array_extra_len concrete_map_extra_len no_inlined_extra_len id data.

Local Open Scope Z_scope.

Definition enc_hq (o : outcome bool) : line :=
  match o with
  | Val b => [0; boolz b]
  | Error => [1; 0]
  | Panic => [2; 0]
  end.

Definition enc_sid (i : SlabID) : line := [Nz (be_val (sid_address i)); Nz (be_val (sid_index i))].

Definition enc_array_meta (s : ArrayMetaDataSlab) : line :=
  0 :: Nz (ah_size (am_header s)) :: Nz (ah_count (am_header s)) :: boolz (am_hasExtra s)
    :: natz (length (am_children s))
    :: flat_map (fun h => enc_sid (ah_id h) ++ [Nz (ah_count h); Nz (ah_size h)]) (am_children s).

Definition enc_map_meta (s : MapMetaDataSlab) : line :=
  0 :: Nz (mh_size (mm_header s)) :: Nz (mh_firstKey (mm_header s)) :: boolz (mm_hasExtra s)
    :: natz (length (mm_children s))
    :: flat_map (fun h => enc_sid (mh_id h) ++ [Nz (mh_firstKey h); Nz (mh_size h)]) (mm_children s).

Definition decode_answer (kind : N) (data : bytes) : line :=
  match kind with
  | 1%N => enc_hq (is_root_go data) ++ enc_hq (has_pointers_go data) ++ enc_hq (has_size_limit_go data)
  | 2%N =>
    match decode_concrete slabIDUndefined data with
    | Val (FArrayMeta s) => enc_array_meta s
    | Val _ => [9]
    | Error => [1]
    | Panic => [2]
    end
  | 3%N =>
    match decode_concrete slabIDUndefined data with
    | Val (FMapMeta s) => enc_map_meta s
    | Val _ => [9]
    | Error => [1]
    | Panic => [2]
    end
  | _ =>
    match decode_concrete slabIDUndefined data with
    | Val _ => [9]
    | Error => [1]
    | Panic => [2]
    end
  end.

Definition dec_decode_op (l : line) : option (N * bytes) :=
  match l with
  | k :: bs => if (1 <=? k) && (k <=? 4) then Some (zN k, map zN bs) else None
  | [] => None
  end.

Definition decode_step (s : unit) (o : N * bytes) : unit * line := (s, decode_answer (fst o) (snd o)).

Definition chk_decode (_ : line) (tr : list (line * line)) : verdict :=
  check_from dec_decode_op decode_step tt tr 0.
