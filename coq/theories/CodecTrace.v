(* CodecTrace.v — trace engine for Codec.v.
   operation = structural dump of a slab written by the Go hook VerifDumper (integers),
   answer    = the bytes EncodeSlab produced.
   The model parses the dump into a [slab], encodes it with [encode_slab] (this is the answer
   that is compared with the implementation's bytes), and checks on its own that the dumped
   slab is well-formed, that [decode_slab] of the bytes gives back exactly the dumped structure
   (re-dumped, with all cached sizes / counts / first keys recomputed by the model) and that the
   decoder-side size equals the reported one.  A failed self-check answers [-k]. *)
From Coq Require Import ZArith NArith List Bool.
From AtreeGen Require Import Consts CodecConsts.
From AtreeModel Require Import Proto Codec.
Import ListNotations.
Local Open Scope N_scope.

Definition nline : Type := list N.

(* ---------- parsing the dump ---------- *)

Definition width_of (w : N) : option width :=
  if w =? 8 then Some W8 else if w =? 16 then Some W16 else if w =? 32 then Some W32
  else if w =? 64 then Some W64 else None.
Definition width_bits (w : width) : N := match w with W8 => 8 | W16 => 16 | W32 => 32 | W64 => 64 end.

Fixpoint p_storable (fuel : nat) (l : nline) : option (storable * nline) :=
  match fuel with
  | O => None
  | S f =>
    match l with
    | 1 :: _ :: w :: n :: r => match width_of w with Some w' => Some (SUint w' n, r) | None => None end
    | 2 :: _ :: len :: r => match take len r with Some (s, r') => Some (SString s, r') | None => None end
    | 3 :: _ :: a :: i :: r => Some (SSlabID a i, r)
    | 4 :: _ :: r => match p_storable f r with Some (s, r') => Some (SSome s, r') | None => None end
    | _ => None
    end
  end.

Definition p_pair (fuel : nat) (l : nline) : option ((storable * storable) * nline) :=
  match l with
  | 1 :: _ :: r =>
    match p_storable fuel r with
    | Some (k, r1) => match p_storable fuel r1 with Some (v, r2) => Some ((k, v), r2) | None => None end
    | None => None
    end
  | _ => None
  end.

Definition p_elements_with (fuel : nat) (pe : nline -> option (element * nline)) (l : nline) : option (elements * nline) :=
  match l with
  | 1 :: level :: _ :: n :: r =>
    match take n r with
    | Some (hk, m :: r1) =>
      match dec_seq pe (N.to_nat m) r1 with
      | Some (es, r2) => Some (HkeyElems level hk es, r2)
      | None => None
      end
    | _ => None
    end
  | 2 :: level :: _ :: m :: r =>
    match dec_seq (p_pair fuel) (N.to_nat m) r with
    | Some (ps, r1) => Some (SingleElems level ps, r1)
    | None => None
    end
  | _ => None
  end.

Fixpoint p_element (fuel : nat) (l : nline) : option (element * nline) :=
  match fuel with
  | O => None
  | S f =>
    match l with
    | 1 :: _ => match p_pair fuel l with Some (p, r) => Some (ESingle (fst p) (snd p), r) | None => None end
    | 2 :: _ :: r =>
      match p_elements_with fuel (p_element f) r with
      | Some (HkeyElems lv hk es, r') => Some (EGroupH lv hk es, r')
      | Some (SingleElems lv ps, r') => Some (EGroupS lv ps, r')
      | None => None
      end
    | 3 :: _ :: a :: i :: r => Some (EExt a i, r)
    | _ => None
    end
  end.

Definition p_ti (tag k v : N) : option typeinfo :=
  if k =? 0 then Some (TSimple v) else if k =? 1 then Some (TTagged tag v) else None.

Definition p_xa (tag has k v : N) : option (option typeinfo) :=
  if has =? 0 then Some None else match p_ti tag k v with Some t => Some (Some t) | None => None end.
Definition p_xm (tag has k v c s : N) : option (option mextra) :=
  if has =? 0 then Some None else match p_ti tag k v with Some t => Some (Some (mk_mextra t c s)) | None => None end.

Fixpoint p_ahdrs (n : nat) (l : nline) : option (list ahdr * nline) :=
  match n with
  | O => Some ([], l)
  | S k =>
    match l with
    | a :: i :: c :: s :: r =>
      match p_ahdrs k r with Some (t, r') => Some (mk_ahdr a i c s :: t, r') | None => None end
    | _ => None
    end
  end.
Fixpoint p_mhdrs (n : nat) (l : nline) : option (list mhdr * nline) :=
  match n with
  | O => Some ([], l)
  | S k =>
    match l with
    | a :: i :: f :: s :: r =>
      match p_mhdrs k r with Some (t, r') => Some (mk_mhdr a i f s :: t, r') | None => None end
    | _ => None
    end
  end.

Definition zbool' (n : N) : bool := negb (n =? 0).

(* inlined slabs (flag = 1) and compact maps are outside the model: None *)
Definition p_slab (tag : N) (l : nline) : option slab :=
  let fuel := length l in
  match l with
  | 1 :: a :: i :: _ :: _ :: 0 :: has :: k :: v :: na :: ni :: n :: r =>
    match p_xa tag has k v with
    | Some x =>
      match dec_seq (p_storable fuel) (N.to_nat n) r with
      | Some (es, []) => Some (SArrayData a i x na ni es)
      | _ => None
      end
    | None => None
    end
  | 2 :: a :: i :: _ :: _ :: has :: k :: v :: n :: r =>
    match p_xa tag has k v with
    | Some x => match p_ahdrs (N.to_nat n) r with Some (cs, []) => Some (SArrayMeta a i x cs) | _ => None end
    | None => None
    end
  | 3 :: a :: i :: _ :: _ :: 0 :: has :: k :: v :: xc :: xs :: na :: ni :: anys :: cg :: 0 :: r =>
    match p_xm tag has k v xc xs with
    | Some x =>
      match p_elements_with fuel (p_element fuel) r with
      | Some (els, []) => Some (SMapData a i x na ni (zbool' anys) (zbool' cg) els)
      | _ => None
      end
    | None => None
    end
  | 4 :: a :: i :: _ :: _ :: has :: k :: v :: xc :: xs :: n :: r =>
    match p_xm tag has k v xc xs with
    | Some x => match p_mhdrs (N.to_nat n) r with Some (cs, []) => Some (SMapMeta a i x cs) | _ => None end
    | None => None
    end
  | 5 :: a :: i :: _ :: r =>
    match p_storable fuel r with Some (st, []) => Some (SStorable a i st) | _ => None end
  | _ => None
  end.

(* ---------- dumping a model slab in the same format (sizes recomputed by the model) ---------- *)

Fixpoint d_storable (s : storable) : nline :=
  match s with
  | SUint w n => [1; storable_size s; width_bits w; n]
  | SString bs => [2; storable_size s; lenN bs] ++ bs
  | SSlabID a i => [3; storable_size s; a; i]
  | SSome s' => [4; storable_size s] ++ d_storable s'
  end.

Definition d_pair (p : storable * storable) : nline :=
  [1; pair_size p] ++ d_storable (fst p) ++ d_storable (snd p).

Fixpoint d_element (e : element) : nline :=
  match e with
  | ESingle k v => d_pair (k, v)
  | EGroupH l hk es =>
    [2; element_size e] ++ [1; l; elements_size (HkeyElems l hk es); lenN hk] ++ hk ++ [lenN es] ++ flat_map d_element es
  | EGroupS l ps =>
    [2; element_size e] ++ [2; l; elements_size (SingleElems l ps); lenN ps] ++ flat_map d_pair ps
  | EExt a i => [3; element_size e; a; i]
  end.

Definition d_elements (els : elements) : nline :=
  match els with
  | HkeyElems l hk es => [1; l; elements_size els; lenN hk] ++ hk ++ [lenN es] ++ flat_map d_element es
  | SingleElems l ps => [2; l; elements_size els; lenN ps] ++ flat_map d_pair ps
  end.

Definition d_ti (t : typeinfo) : nline := match t with TSimple n => [0; n] | TTagged _ n => [1; n] end.
Definition d_xa (x : option typeinfo) : nline := match x with Some t => 1 :: d_ti t | None => [0; 0; 0] end.
Definition d_xm (x : option mextra) : nline :=
  match x with Some m => 1 :: d_ti (mx_ti m) ++ [mx_count m; mx_seed m] | None => [0; 0; 0; 0; 0] end.
Definition boolN (b : bool) : N := if b then 1 else 0.

Definition d_slab (s : slab) : nline :=
  match s with
  | SArrayData a i x na ni es =>
    [1; a; i; slab_size s; slab_count s; 0] ++ d_xa x ++ [na; ni; lenN es] ++ flat_map d_storable es
  | SArrayMeta a i x cs =>
    [2; a; i; slab_size s; slab_count s] ++ d_xa x ++ [lenN cs]
      ++ flat_map (fun c => [ah_addr c; ah_idx c; ah_count c; ah_size c]) cs
  | SMapData a i x na ni anys cg els =>
    [3; a; i; slab_size s; slab_first_key s; 0] ++ d_xm x ++ [na; ni; boolN anys; boolN cg; 0] ++ d_elements els
  | SMapMeta a i x cs =>
    [4; a; i; slab_size s; slab_first_key s] ++ d_xm x ++ [lenN cs]
      ++ flat_map (fun c => [mh_addr c; mh_idx c; mh_first c; mh_size c]) cs
  | SStorable a i st => [5; a; i; slab_size s] ++ d_storable st
  end.

Fixpoint nlist_eqb (a b : nline) : bool :=
  match a, b with
  | [], [] => true
  | x :: a', y :: b' => (x =? y) && nlist_eqb a' b'
  | _, _ => false
  end.

(* ---------- the engine ---------- *)

Definition codec_op : Type := (nline * slab)%type.

Definition dec_codec (tag : N) (l : line) : option codec_op :=
  if forallb (fun z => (0 <=? z)%Z) l then
    let nl := map Z.to_N l in
    match p_slab tag nl with Some s => Some (nl, s) | None => None end
  else None.

Definition codec_answer (o : codec_op) : line :=
  let '(nl, s) := o in
  let b := encode_slab s in
  if negb (swf s) then [(-2)%Z]
  else if negb (nlist_eqb (d_slab s) nl) then [(-3)%Z]     (* cached sizes/counts/first key differ from the model's *)
  else
    match decode_slab_with_size (sid s) b with
    | Some (s', sz) =>
      if negb (nlist_eqb (d_slab s') nl) then [(-4)%Z]
      else if negb (sz =? slab_size s) then [(-5)%Z]
      else if negb (lenN b + omitted_next s =? slab_size s + lenN (encode_extra s)) then [(-6)%Z]
      else map Z.of_N b
    | None => [(-7)%Z]
    end.

Definition codec_step (st : unit) (o : codec_op) : unit * line := (st, codec_answer o).

(* configuration line: [composite type-info tag; slab size; flavour] *)
Definition chk_codec (cfg : line) (tr : list (line * line)) : verdict :=
  let tag := match cfg with t :: _ => Z.to_N t | [] => 0 end in
  check_from (dec_codec tag) codec_step tt tr 0.
