(* ArrayTrace.v — protocol encoding for ArrayTree.v.
   Configuration line: [T; root slab index; type info].
   Operation lines:  [1;i] Get  [2;i;id;sz;ext;dump] Set  [3;i;id;sz;ext;dump] Insert  [4;id;sz;ext;dump] Append
                     [5;i;dump] Remove  [6;dump] PopIterate  [7] Count  [8] Type  [9;t;dump] SetType  [10] Iterate
                     [11;a;b] Range.   ext: 1 = the value is stored in its own StorableSlab; dump: 1 = compare the whole tree.
   Answer lines: result ++ (for mutating operations) [nlog; (kind,id)*; alloc; root id; root size; root count] ++ tree dump if asked.
     result: [0;id;sz;ext] element | [1] unit | [2;n] count | [3;t] type | [4;n;(id;sz;ext)*] list | [9;code] error
   Tree dump (pre-order): data slab [0;id;size;count;next;n;(id;sz;ext)*]; index slab
     [1;id;size;count;n;(hid;hsize;hcount)*;sums*; children...]. *)
From Coq Require Import ZArith NArith List Bool.
From AtreeModel Require Import Proto Settings ArrayTree.
Import ListNotations.
Local Open Scope Z_scope.

Definition enc_elem (e : elem) : line := [e_id e; Nz (e_sz e); Nz (e_ext e)].
Definition enc_hdr (h : hdr) : line := [Nz (h_id h); Nz (h_size h); Nz (h_count h)].

Fixpoint dump (n : anode) : line :=
  match n with
  | AD h nx es => 0 :: enc_hdr h ++ [Nz nx; natz (length es)] ++ flat_map enc_elem es
  | AM h hs sums cs =>
    1 :: enc_hdr h ++ [natz (length hs)] ++ flat_map enc_hdr hs ++ map Nz sums ++ flat_map dump cs
  end.

Definition err_code (e : aerr) : Z :=
  match e with
  | EIndexOOB => 1 | ESliceOOB => 2 | EInvalidSlice => 3 | EMaxCount => 4
  | ESplit => 5 | ESlabNotFound => 6 | EPanic => 7
  end.

Definition enc_aout (o : aout) : line :=
  match o with
  | RElem e => 0 :: enc_elem e
  | RUnit => [1]
  | RCount n => [2; Nz n]
  | RType t => [3; Nz t]
  | RList l => 4 :: natz (length l) :: flat_map enc_elem l
  | RErr e => [9; err_code e]
  end.

Definition enc_wr (w : wr) : line := match w with WStore i => [1; Nz i] | WRemove i => [0; Nz i] end.

Definition mk_elem (id sz ext : Z) : elem := mkelem id (zN sz) (zN ext).

(* operation and whether the whole tree is to be compared after it *)
Definition dec_aop (l : line) : option (aop * bool * bool) :=   (* (op, mutating, dump) *)
  match l with
  | [1; i] => Some (OGet (zN i), false, false)
  | [2; i; id; sz; ext; d] => Some (OSet (zN i) (mk_elem id sz ext), true, zbool d)
  | [3; i; id; sz; ext; d] => Some (OInsert (zN i) (mk_elem id sz ext), true, zbool d)
  | [4; id; sz; ext; d] => Some (OAppend (mk_elem id sz ext), true, zbool d)
  | [5; i; d] => Some (ORemove (zN i), true, zbool d)
  | [6; d] => Some (OPop, true, zbool d)
  | [7] => Some (OCount, false, false)
  | [8] => Some (OType, false, false)
  | [9; t; d] => Some (OSetType (zN t), true, zbool d)
  | [10] => Some (OIterate, false, false)
  | [11; a; b] => Some (ORange (zN a) (zN b), false, false)
  | _ => None
  end.

Definition array_step (c : cfg) (a : arr) (x : aop * bool * bool) : arr * line :=
  let '(o, mut, d) := x in
  let '(a', r, lg) := a_step c a o in
  (a', enc_aout r ++
       (if mut then natz (length lg) :: flat_map enc_wr lg ++ [Nz (a_alloc a')] ++ enc_hdr (hdr_of (a_root a')) else []) ++
       (if d then dump (a_root a') else [])).

Definition chk_array (cfgl : line) (tr : list (line * line)) : verdict :=
  match cfgl with
  | [t; rootid; ti] =>
    let c := set_threshold (zN t) in
    check_from dec_aop (array_step c) (fst (arr_init (zN rootid) (zN ti))) tr 0
  | _ => VBadOp 0 cfgl
  end.
