(* ArrayInv.v — the invariants of the array slab tree (C05) as definitions; proofs are in
   proofs/ArrayTree_proofs.v.  [wfn c d n]: subtree n of height d is internally consistent:
   every cached field agrees with what it summarises, every element respects the inline limit,
   all leaves are at the same depth, every child of an index slab is inside the size band. *)
From Coq Require Import NArith ZArith List Bool.
From AtreeGen Require Import Consts.
From AtreeModel Require Import Settings ArrayTree.
Import ListNotations.
Local Open Scope N_scope.

Definition elem_ok (c : cfg) (e : elem) : Prop := 0 < e_sz e /\ e_sz e <= cinl_arr c.

Definition in_band (c : cfg) (n : anode) : Prop :=
  cmin c <= h_size (hdr_of n) /\ h_size (hdr_of n) <= cmax c.

Inductive wfn (c : cfg) : nat -> anode -> Prop :=
| wf_AD : forall h next es,
    Forall (elem_ok c) es ->
    h_count h = N.of_nat (length es) ->
    h_size h = P + sum_sz es ->
    wfn c 0 (AD h next es)
| wf_AM : forall d h hs sums cs,
    Forall (wfn c d) cs ->
    Forall (in_band c) cs ->
    hs = map hdr_of cs ->
    sums = psums 0 hs ->
    h_count h = sum_cnt hs ->
    h_size h = PM + N.of_nat (length cs) * HS ->
    wfn c (S d) (AM h hs sums cs).

(* the root: a data slab with the root prefix and no lower bound, or an index slab with at least
   two children; never above the maximum *)
Inductive wf_root (c : cfg) : anode -> Prop :=
| wfr_AD : forall h es,
    Forall (elem_ok c) es ->
    h_count h = N.of_nat (length es) ->
    h_size h = RP + sum_sz es ->
    h_size h <= cmax c ->
    wf_root c (AD h 0 es)
| wfr_AM : forall d h hs sums cs,
    wfn c (S d) (AM h hs sums cs) ->
    (2 <= length cs)%nat ->
    h_size h <= cmax c ->
    wf_root c (AM h hs sums cs).

(** sibling links: [chain n nxt]: the leaves of n are linked left to right and the last one
    points to [nxt] *)
Fixpoint first_leaf_id (n : anode) : N :=
  match n with
  | AD h _ _ => h_id h
  | AM _ _ _ cs => match cs with c :: _ => first_leaf_id c | [] => 0 end
  end.

Fixpoint chain (n : anode) (nxt : N) : Prop :=
  match n with
  | AD _ next _ => next = nxt
  | AM _ _ _ cs =>
    (fix go (l : list anode) : Prop :=
       match l with
       | [] => True
       | [c] => chain c nxt
       | c :: ((c2 :: _) as r) => chain c (first_leaf_id c2) /\ go r
       end) cs
  end.

(** identifiers: every slab of the tree and every external value slab *)
Fixpoint ext_ids (es : list elem) : list N :=
  match es with [] => [] | e :: r => if e_ext e =? 0 then ext_ids r else e_ext e :: ext_ids r end.

Fixpoint slab_ids (n : anode) : list N :=
  match n with
  | AD h _ es => h_id h :: ext_ids es
  | AM h _ _ cs => h_id h :: flat_map slab_ids cs
  end.

Definition ids_ok (a : arr) : Prop :=
  NoDup (slab_ids (a_root a)) /\ Forall (fun i => 0 < i /\ i <= a_alloc a) (slab_ids (a_root a)).

(** the array invariant *)
Definition awf (c : cfg) (a : arr) : Prop :=
  wf_root c (a_root a) /\ a_count a <= max_count.

Definition awf_full (c : cfg) (a : arr) : Prop :=
  awf c a /\ chain (a_root a) 0 /\ ids_ok a.

(** abstraction: the sequence of elements, with the external-slab index forgotten (the plain
    sequence does not know where a large value is stored) *)
Definition strip (e : elem) : elem := mkelem (e_id e) (e_sz e) (if e_ext e =? 0 then 0 else 1).
Definition abs_list (n : anode) : list elem := map strip (to_list n).
Definition abs_arr (a : arr) : seqst := mkseq (abs_list (a_root a)) (a_type a).

(** executable checker used by the harness as a model-independent oracle on the implementation's
    dumps (soundness w.r.t. [wf_root] is proved in ArrayTree_proofs) *)
Definition elem_okb (c : cfg) (e : elem) : bool := (0 <? e_sz e) && (e_sz e <=? cinl_arr c).
Definition in_bandb (c : cfg) (n : anode) : bool :=
  (cmin c <=? h_size (hdr_of n)) && (h_size (hdr_of n) <=? cmax c).

Definition hdr_eqb (a b : hdr) : bool :=
  (h_id a =? h_id b) && (h_size a =? h_size b) && (h_count a =? h_count b).
Fixpoint list_eqb {A} (eqb : A -> A -> bool) (l1 l2 : list A) : bool :=
  match l1, l2 with
  | [], [] => true
  | x :: r1, y :: r2 => eqb x y && list_eqb eqb r1 r2
  | _, _ => false
  end.

(* returns the height if well-formed *)
Fixpoint wfnb (c : cfg) (n : anode) : option nat :=
  match n with
  | AD h _ es =>
    if forallb (elem_okb c) es && (h_count h =? N.of_nat (length es)) && (h_size h =? P + sum_sz es)
    then Some O else None
  | AM h hs sums cs =>
    let hts := map (wfnb c) cs in
    match hts with
    | Some d :: _ =>
      if forallb (fun x => match x with Some d' => Nat.eqb d d' | None => false end) hts
         && forallb (in_bandb c) cs
         && list_eqb hdr_eqb hs (map hdr_of cs)
         && list_eqb N.eqb sums (psums 0 hs)
         && (h_count h =? sum_cnt hs)
         && (h_size h =? PM + N.of_nat (length cs) * HS)
      then Some (S d) else None
    | _ => None
    end
  end.

Definition wf_rootb (c : cfg) (n : anode) : bool :=
  match n with
  | AD h nx es =>
    forallb (elem_okb c) es && (h_count h =? N.of_nat (length es)) && (h_size h =? RP + sum_sz es)
    && (h_size h <=? cmax c) && (nx =? 0)
  | AM h _ _ cs =>
    match wfnb c n with Some _ => Nat.leb 2 (length cs) && (h_size h <=? cmax c) | None => false end
  end.
