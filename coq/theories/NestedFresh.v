(* NestedFresh.v — C10 for histories that also RE-OBTAIN wrappers (after commit + reopen, and from
   a mutable iterator): the larger history language [reach'].

   In Go a handle is a wrapper object (pointer to Array / OrderedMap).  A wrapper that is re-obtained —
   NewArrayWithRootID / NewMapWithRootID on a new storage object, parent.Get(i), the value yielded
   by a mutable iterator — is a NEW object: no parentUpdater callback, empty mutableElementIndex
   (model: [OFresh v] = [fresh_wrapper]); parent.Get / the iterator then registers the callback of
   the new child wrapper and the child's index in the PARENT wrapper (model: [OGet p loc] =
   setCallbackWithChild).  Between the two the forest invariant does NOT hold (the new wrapper of
   an attached container has no callback; its own children are not tracked) — this is the state in
   which Go would lose updates, and the handle discipline (DESIGN 2.5) forbids using the old child
   wrappers; the harness (nested_cmd.go: reopen / iterate-adopt / rehandleChildren) therefore
   always re-obtains the whole subtree top-down before the next mutation.  That composite is the
   operation added here:

     [HRehandle v par]:  OFresh v; (OGet p loc  if v sits in slot loc of p);
                         then for every child slot (i, ch) of v, in order:
                            OFresh ch; OGet v loc_i; (recursively the children of ch)

   exactly the op sequence the harness emits (opcode 12 / 8 lines of NestedTrace.v), computed from
   the forest by [rehandle_ops].  REOPEN is [OCommit] followed by [HRehandle r None] for every
   outermost container r.  [hstep] runs the sequence with [run]; fuel for the recursion = the
   nesting bound n of [ranked]. *)
From Coq Require Import ZArith NArith List Bool.
From AtreeModel Require Import Nested NestedErr.
Import ListNotations.
Local Open Scope N_scope.

(* the argument of Get for slot i of a container of kind k *)
Definition loc_of (k : kind) (i : nat) (s : slot) : N :=
  match k with KArr => N.of_nat i | KMap => s_kid s end.

Fixpoint rehandle_slots (rec : N -> list nop) (v : N) (k : kind) (i : nat) (l : list slot) : list nop :=
  match l with
  | [] => []
  | s :: r =>
    (match s_val s with
     | NChild ch _ => OFresh ch :: OGet v (loc_of k i s) :: rec ch
     | NScalar _ _ => []
     end) ++ rehandle_slots rec v k (S i) r
  end.

Fixpoint rehandle_children (d : nat) (f : forest) (v : N) : list nop :=
  match d with
  | O => []
  | S d' =>
    match fget f v with
    | None => []
    | Some c => rehandle_slots (rehandle_children d' f) v (c_kind c) 0 (c_slots c)
    end
  end.

Definition rehandle_ops (d : nat) (f : forest) (v : N) (par : option (N * N)) : list nop :=
  OFresh v :: (match par with Some (p, loc) => [OGet p loc] | None => [] end) ++ rehandle_children d f v.

Inductive hop :=
| HOp (o : nop)
| HRehandle (v : N) (par : option (N * N)).

Definition hstep (n : nat) (g : ncfg) (f : forest) (h : hop) : forest * bool :=
  match h with
  | HOp o => step n g f o
  | HRehandle v par => run n g f (rehandle_ops n f v par)
  end.

(* [par] names the slot that holds v, if any; an outermost container is re-obtained by identifier *)
Definition hop_ok (n : nat) (f : forest) (h : hop) : Prop :=
  match h with
  | HOp o => op_ok n f o
  | HRehandle v par =>
    (exists c, fget f v = Some c) /\
    match par with
    | None => ~ attached f v
    | Some (p, loc) => exists i s w c, edge f p i s v w /\ fget f p = Some c /\ loc = loc_of (c_kind c) i s
    end
  end.

Inductive reach' (n : nat) (g : ncfg) : forest -> Prop :=
| reach'_empty : reach' n g empty_forest
| reach'_step f h f' : reach' n g f -> hop_ok n f h -> hstep n g f h = (f', true) -> reach' n g f'.

Fixpoint hrun (n : nat) (g : ncfg) (f : forest) (hs : list hop) : forest * bool :=
  match hs with
  | [] => (f, true)
  | h :: r => let '(f1, ok) := hstep n g f h in if ok then hrun n g f1 r else (f1, false)
  end.

(* what re-obtaining the wrappers may change: nothing but the representation of the index maps
   (as association lists; as finite maps they are equal) and stale callbacks of containers that sit
   in no slot (dropped) *)
Definition cs_equiv (f : forest) (x : N) (c c' : cstate) : Prop :=
  c_kind c' = c_kind c /\ c_slots c' = c_slots c /\ c_inl c' = c_inl c /\ c_csize c' = c_csize c /\
  (c_upd c' = c_upd c \/ (c_upd c' = None /\ ~ attached f x)) /\
  forall v, aget (c_idx c') v = aget (c_idx c) v.

Definition forest_equiv (f f' : forest) : Prop :=
  f_log f' = f_log f /\
  forall x, match fget f x, fget f' x with
            | Some c, Some c' => cs_equiv f x c c'
            | None, None => True
            | _, _ => False
            end.

(* ---------- histories that go on after an error (C18), over the larger language ---------- *)
Definition hreq_pre (n : nat) (f : forest) (h : hop) : Prop :=
  match h with HOp o => req_pre n f o | HRehandle _ _ => hop_ok n f h end.

Fixpoint hrun_all (n : nat) (g : ncfg) (f : forest) (hs : list hop) : forest * list bool :=
  match hs with
  | [] => (f, [])
  | h :: r =>
    let '(f1, ok) := hstep n g f h in
    let '(f2, oks) := hrun_all n g f1 r in (f2, ok :: oks)
  end.

Fixpoint hkeep_accepted (n : nat) (g : ncfg) (f : forest) (hs : list hop) : list hop :=
  match hs with
  | [] => []
  | h :: r =>
    let '(f1, ok) := hstep n g f h in
    if ok then h :: hkeep_accepted n g f1 r else hkeep_accepted n g f1 r
  end.

Fixpoint hhist_pre (n : nat) (g : ncfg) (f : forest) (hs : list hop) : Prop :=
  match hs with
  | [] => True
  | h :: r => hreq_pre n f h /\ hhist_pre n g (fst (hstep n g f h)) r
  end.
