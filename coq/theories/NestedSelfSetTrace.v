(* NestedSelfSetTrace.v — protocol encoding for the forest model with self-sets (engine "nested2").

   The engine of NestedTrace.v ("nested", [chk_nested]) plus ONE operation code; configuration
   line, operation lines 1..12, ELEM and dump are those of NestedTrace.v (its decoder [dec_args]
   and printer [dump] are reused unchanged), so a trace without code 13 gets the same verdict
   from both engines.

     13 SELFSET  p loc       Array.Set(loc, child) / OrderedMap.Set(key loc, child) where child is the
                             container slot loc of p already holds, wrapped as it is stored
                             (harness/nested_cmd.go selfSet, -mode selfset)
   Answer line of code 13:  err :: dumps ++ RET
     RET = [1; vid; w; inlined]   the element handed back: container vid in w SomeValue levels,
                                  inlined = 1 if it came back as its inlined slab, 0 if as a reference
         | [0; id; 0; size]       (a scalar: never produced, the request is then an error)
         | [-1]                   nothing handed back (error)
   The step executed is [hstep2] of NestedSelfSet.v — the function the theorems of
   props/C10_selfset.v are about ([self_set_full] for code 13, [step] for the others). *)
From Coq Require Import ZArith NArith List Bool.
From AtreeGen Require Import Consts.
From AtreeModel Require Import Proto Nested NestedErr NestedFresh NestedSelfSet NestedTrace.
Import ListNotations.
Local Open Scope Z_scope.

Definition dec_args2 (code : Z) (a : line) : option hop2 :=
  match code, a with
  | 13, [p; loc] => Some (HSelfSet (zN p) (zN loc))
  | 13, _ => None
  | _, _ => match dec_args code a with Some o => Some (H2 (HOp o)) | None => None end
  end.

Definition dec_hop2 (l : line) : option (list N * hop2) :=
  match l with
  | code :: nobs :: r =>
    let k := znat nobs in
    if Nat.ltb (length r) k then None else
    match dec_args2 code (skipn k r) with
    | Some o => Some (map zN (firstn k r), o)
    | None => None
    end
  | _ => None
  end.

Definition enc_ret (f : forest) (o : option elem) : line :=
  match o with
  | Some (NChild v w) =>
    [1; Nz v; Nz w; match fget f v with Some c => boolz (c_inl c) | None => -1 end]
  | Some (NScalar id sz) => [0; Nz id; 0; Nz sz]
  | None => [-1]
  end.

Definition nested_step2 (fuel : nat) (g : ncfg) (f : forest) (o : list N * hop2) : forest * line :=
  match snd o with
  | HSelfSet p loc =>
    let '(f', ok, old) := self_set_full fuel g f p loc in
    (f', (if ok then 0 else 1) :: flat_map (dump g f') (fst o) ++ enc_ret f' old)
  | H2 h =>
    let '(f', ok) := hstep fuel g f h in
    (f', (if ok then 0 else 1) :: flat_map (dump g f') (fst o))
  end.

Definition chk_nested2 (cfg : line) (tr : list (line * line)) : verdict :=
  match cfg with
  | [_; al; ml; w1; w2; ia; im; hk; ov; sid; fuel] =>
    if consts_ok ia im hk ov sid
    then check_from dec_hop2 (nested_step2 (znat fuel) (mkCfg (zN al) (zN ml) (zN w1) (zN w2))) empty_forest tr 0
    else VBadOp 0 cfg
  | _ => VBadOp 0 cfg
  end.
