(* StorageSpec.v — the specification PersistentSlabStorage is proved to refine (C15):
   a pending overlay on a committed map.  There is no cache in the specification. *)
From stdpp Require Import gmap sorting.
From Coq Require Import ZArith NArith.
From AtreeModel Require Import Storage.
Local Open Scope N_scope.

Definition spec_init : spec := mkspec ∅ ∅.

Definition sp_owned_keys (a : spec) : list sid :=
  filter (fun i => is_temp i = false) (map fst (map_to_list (pending a))).

(* write one pending change through to the committed map *)
Definition sp_apply_one (a : spec) (i : sid) : spec :=
  match pending a !! i with
  | None => a
  | Some None => mkspec (delete i (pending a)) (delete i (committed a))
  | Some (Some v) => mkspec (delete i (pending a)) (<[i := v]> (committed a))
  end.

Definition sp_call_of (a : spec) (i : sid) : option (bool * sid) :=
  match pending a !! i with
  | None => None
  | Some None => Some (false, i)
  | Some (Some _) => Some (true, i)
  end.

Fixpoint sp_apply_writes (ids : list sid) (fail : option nat) (a : spec) (log : wlog) : spec * bool * wlog :=
  match ids with
  | [] => (a, true, rev log)
  | i :: r =>
    match sp_call_of a i with
    | None => sp_apply_writes r fail a log
    | Some c =>
      match fail with
      | Some O => (a, false, rev (c :: log))
      | _ => sp_apply_writes r (match fail with Some (S k) => Some k | _ => None end) (sp_apply_one a i) (c :: log)
      end
    end
  end.

Definition sp_is_del (a : spec) (i : sid) : bool := match pending a !! i with Some None => true | _ => false end.
Definition sp_is_mod (a : spec) (i : sid) : bool := match pending a !! i with Some (Some _) => true | _ => false end.

Definition sp_order_ok (a : spec) (order : list sid) (complete : bool) : bool :=
  let owned := sp_owned_keys a in
  let nmod := length (filter (fun i => sp_is_mod a i = true) owned) in
  nodupb order
  && forallb (fun i => bool_decide (i ∈ owned)) order
  && (if Nat.leb 2 nmod then all_then (sp_is_del a) (sp_is_mod a) order
      else all_then (sp_is_mod a) (sp_is_del a) order)
  && (if complete then Nat.eqb (length order) (length owned) else true).

Definition sp_n_pending (a : spec) : N := N.of_nat (size (pending a)).
Definition sp_n_owned (a : spec) : N := N.of_nat (length (sp_owned_keys a)).
Definition sp_size_owned (a : spec) : N :=
  fold_right (fun (kv : sid * option val) acc =>
                if is_temp (fst kv) then acc
                else match snd kv with Some v => v_sz v + acc | None => acc end)
             0 (map_to_list (pending a)).
Definition sp_has_unsaved (a : spec) (o : N) : bool :=
  existsb (fun kv : sid * option val => N.eqb (fst (fst kv)) o) (map_to_list (pending a)).

Definition spec_step (a : spec) (o : sop) : spec * sout :=
  match o with
  | SStore i v =>
    if is_undefined i then (a, OErrSlabID) else (mkspec (<[i := Some v]> (pending a)) (committed a), OOk)
  | SRemove i =>
    if is_undefined i then (a, OErrSlabID) else (mkspec (<[i := None]> (pending a)) (committed a), OOk)
  | SRetrieve i => (a, ORet (spec_view a i))
  | SRetrieveIfLoaded i => (a, ORet (spec_view a i))       (* see out_match: "not loaded" is also allowed *)
  | SRetrieveIgnoringDeltas i _ => (a, ORet (committed a !! i))
  | SFastCommit fail =>
    let '(a', ok, log) := sp_apply_writes (merge_sort sid_le (sp_owned_keys a)) fail a [] in (a', OCommit ok log)
  | SNondetCommit order fail =>
    if sp_order_ok a order (match fail with None => true | Some _ => false end)
    then let '(a', ok, log) := sp_apply_writes order fail a [] in (a', OCommit ok log)
    else (a, OBadOrder)
  | SDropDeltas => (mkspec ∅ (committed a), OOk)
  | SDropCache => (a, OOk)
  | SBatchPreload _ => (a, OOk)
  | SObserve => (a, OObs (sp_n_pending a) (sp_n_owned a) (sp_size_owned a))
  | SHasUnsaved o => (a, OBool (sp_has_unsaved a o))
  | SRecreate => (mkspec ∅ (committed a), OOk)
  | SBaseGet i => (a, ORet (committed a !! i))
  end.

(* The implementation's answer [m] is allowed by the specification's answer [sp] in state [a].
   Only "is it loaded?" is not determined by the specification: RetrieveIfLoaded may answer
   "nothing loaded" instead of the view, but never when the identifier has a pending change. *)
Definition out_match (a : spec) (o : sop) (m sp : sout) : Prop :=
  match o with
  | SRetrieveIfLoaded i => m = sp \/ (m = ORet None /\ pending a !! i = None)
  | _ => m = sp
  end.

Fixpoint spec_run (a : spec) (ops : list sop) : spec * list (spec * sout) :=
  match ops with
  | [] => (a, [])
  | o :: r => let '(a1, x) := spec_step a o in let '(a2, xs) := spec_run a1 r in (a2, (a, x) :: xs)
  end.

Fixpoint outs_match (ops : list sop) (ms : list sout) (sps : list (spec * sout)) : Prop :=
  match ops, ms, sps with
  | [], [], [] => True
  | o :: ops', m :: ms', (a, sp) :: sps' => out_match a o m sp /\ outs_match ops' ms' sps'
  | _, _, _ => False
  end.

(* cache coherence: the invariant that makes the cache invisible *)
Definition coherent (s : st) : Prop :=
  (forall i x, cache s !! i = Some x -> x = base s !! i) /\
  (forall i, is_temp i = true -> base s !! i = None).
