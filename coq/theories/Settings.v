(* Settings.v — model of settings.go: setThreshold and the derived limits.
   All size constants come from the generated AtreeGen.Consts (regenerated from /repo on every run). *)
From Coq Require Import NArith List Bool.
From AtreeGen Require Import Consts.
Import ListNotations.
Local Open Scope N_scope.

Record cfg : Type := mkcfg {
  cT : N;            (* targetThreshold *)
  cmin : N;          (* minThreshold *)
  cmax : N;          (* maxThreshold *)
  cinl_arr : N;      (* maxInlineArrayElementSize *)
  cinl_melem : N;    (* maxInlineMapElementSize *)
  cinl_mkey : N      (* maxInlineMapKeySize *)
}.

(* uint32(float64(T) * 1.5) = T + T/2 for every T < 2^31 (T*1.5 is exact in float64, truncation = floor) *)
Definition set_threshold (T : N) : cfg :=
  let inl_melem := (T - c_mapDataSlabPrefixSize - c_hkeyElementsPrefixSize) / c_minElementCountInSlab - c_digestSize in
  mkcfg T (T / 2) (T + T / 2)
        ((T - c_arrayDataSlabPrefixSize) / c_minElementCountInSlab)
        inl_melem
        ((inl_melem - c_singleElementPrefixSize) / 2).

Definition valid_T (T : N) : Prop := c_minSlabSize <= T <= c_maxSlabSize.
Definition valid_Tb (T : N) : bool := (c_minSlabSize <=? T) && (T <=? c_maxSlabSize).

Definition row : Type := (N * N * N * N * N * N)%type.
Definition row_ok (r : row) : bool :=
  let '(t, mn, mx, ia, ie, ik) := r in
  let c := set_threshold t in
  (cT c =? t) && (cmin c =? mn) && (cmax c =? mx) && (cinl_arr c =? ia) && (cinl_melem c =? ie) && (cinl_mkey c =? ik).
Definition table_ok (t : list (list row)) : bool := forallb (forallb row_ok) t.
