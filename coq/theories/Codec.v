(* Codec.v — byte-level model of atree's slab encoding, version 1 (encoder AND decoder).

   Modelled after (file: function):
     encode.go / decode.go            EncodeSlab, DecodeSlab (dispatch on the 2-byte head)
     flag.go                          head: version nibble, flag setters/getters, slab types
     array_metadata_slab_{en,de}code  index slab of an array   (fixed layout)
     map_metadata_slab_{en,de}code    index slab of a map      (fixed layout)
     storable_slab.go                 slab holding one storable
     array_data_slab_{en,de}code      data slab of an array, v1, NOT inlined, no inlined children
     map_data_slab_{en,de}code, map_elements_*, map_element_*
                                      data slab of a map, v1: hkey elements, single elements,
                                      inline collision groups (nested), external groups, list mode
     array_extradata.go, map_extradata.go   root extra data ([type info] / [type info, count, seed])
     slab_id_storable.go              SlabIDStorable
     test_utils/value_utils.go, storable_utils.go
                                      element universe: Uint8/16/32/64Value (tag 161..164 + canonical
                                      uint), StringValue (text string), SomeStorable (tag 165, or
                                      tag 167 [levels, inner] when nested more than once)
   NOT modelled HERE: inlined arrays/maps and the shared inlined-extra-data section (incl. compact maps) —
   they are modelled in CodecInl.v; not modelled anywhere: version-0 decoders, the uint32
   overflow guards on sizes (they need encodings of 4 GiB).

   Bytes are [N] with well-formedness [< 256]; shifts are [/] and [mod]; only the head flags use
   [N.land]/[N.lor] on concrete masks (from gen/CodecConsts.v). *)
From Coq Require Import ZArith NArith List Bool.
From AtreeGen Require Import Consts CodecConsts.
Import ListNotations.
Local Open Scope N_scope.

Definition bytes : Type := list N.
Definition byte_ok (b : N) : Prop := b < 256.
Definition bytes_ok (l : bytes) : Prop := Forall byte_ok l.

Definition lenN {A} (l : list A) : N := N.of_nat (length l).
Definition sumN (l : list N) : N := fold_right N.add 0 l.

(* ---------- big-endian integers ---------- *)

Definition be16 (n : N) : bytes := [n / 256; n mod 256].
Definition be32 (n : N) : bytes := [n / 16777216; (n / 65536) mod 256; (n / 256) mod 256; n mod 256].
Definition be64 (n : N) : bytes := be32 (n / 4294967296) ++ be32 (n mod 4294967296).

Definition rd16 (l : bytes) : option (N * bytes) :=
  match l with a :: b :: r => Some (a * 256 + b, r) | _ => None end.
Definition rd32 (l : bytes) : option (N * bytes) :=
  match l with a :: b :: c :: d :: r => Some (a * 16777216 + b * 65536 + c * 256 + d, r) | _ => None end.
Definition rd64 (l : bytes) : option (N * bytes) :=
  match rd32 l with
  | Some (hi, r) => match rd32 r with Some (lo, r') => Some (hi * 4294967296 + lo, r') | None => None end
  | None => None
  end.

Definition two16 : N := 65536.
Definition two32 : N := 4294967296.
Definition two64 : N := 18446744073709551616.

(* [take n l]: the first n bytes and the rest; None when l is shorter. *)
Definition take (n : N) (l : bytes) : option (bytes * bytes) :=
  if n <=? lenN l then Some (firstn (N.to_nat n) l, skipn (N.to_nat n) l) else None.

(* ---------- CBOR heads ---------- *)

(* canonical (shortest) head, as fxamacker's stream encoder writes it *)
Definition cbor_head (mt n : N) : bytes :=
  if n <? 24 then [mt * 32 + n]
  else if n <? 256 then [mt * 32 + 24; n]
  else if n <? 65536 then (mt * 32 + 25) :: be16 n
  else if n <? 4294967296 then (mt * 32 + 26) :: be32 n
  else (mt * 32 + 27) :: be64 n.

(* GetUintCBORSize *)
Definition cbor_head_len (n : N) : N :=
  if n <? 24 then 1 else if n <? 256 then 2 else if n <? 65536 then 3 else if n <? 4294967296 then 5 else 9.

(* the decoder accepts every width (as the library does: no canonical-form enforcement) *)
Definition rd_head (l : bytes) : option (N * N * bytes) :=
  match l with
  | [] => None
  | b :: r =>
    let mt := b / 32 in
    let ai := b mod 32 in
    if ai <? 24 then Some (mt, ai, r)
    else if ai =? 24 then match r with x :: r' => Some (mt, x, r') | [] => None end
    else if ai =? 25 then match rd16 r with Some (n, r') => Some (mt, n, r') | None => None end
    else if ai =? 26 then match rd32 r with Some (n, r') => Some (mt, n, r') | None => None end
    else if ai =? 27 then match rd64 r with Some (n, r') => Some (mt, n, r') | None => None end
    else None
  end.

(* DecodeUint64 (0), DecodeBytes head (2), DecodeString head (3), DecodeArrayHead (4), DecodeTagNumber (6) *)
Definition rd_typed (mt : N) (l : bytes) : option (N * bytes) :=
  match rd_head l with
  | Some (m, n, r) => if m =? mt then Some (n, r) else None
  | None => None
  end.

Definition rd_bstr (l : bytes) : option (bytes * bytes) :=
  match rd_typed 2 l with Some (n, r) => take n r | None => None end.

(* fixed-width forms atree writes by hand *)
Definition arr16_head (n : N) : bytes := 153 :: be16 n.   (* 0x99 hi lo *)
Definition bstr16_head (n : N) : bytes := 89 :: be16 n.   (* 0x59 hi lo *)
Definition tag8 (t : N) : bytes := [216; t].              (* 0xd8 tag  *)
Definition uint8_fixed (b : N) : bytes := [24; b].        (* 0x18 b    (inlined extra-data index) *)

(* ---------- slab identifiers ---------- *)

Definition enc_sid (a i : N) : bytes := be64 a ++ be64 i.
(* NewSlabIDFromRawBytes: at least 16 bytes, the first 16 are used *)
Definition rd_sid (l : bytes) : option (N * N * bytes) :=
  match rd64 l with
  | Some (a, r) => match rd64 r with Some (i, r') => Some (a, i, r') | None => None end
  | None => None
  end.

(* ---------- the 2-byte head (flag.go) ---------- *)

Definition head : Type := (N * N)%type.
Definition new_head (version typ : N) : head := (N.shiftl version 4, typ).
Definition set_root (h : head) : head := (fst h, N.lor (snd h) c_maskSlabRoot).
Definition set_has_pointers (h : head) : head := (fst h, N.lor (snd h) c_maskSlabHasPointers).
Definition set_no_size_limit (h : head) : head := (fst h, N.lor (snd h) c_maskSlabAnySize).
Definition set_has_inlined_slabs (h : head) : head := (N.lor (fst h) c_maskHasInlinedSlabs, snd h).
Definition set_has_next_slab_id (h : head) : head := (N.lor (fst h) c_maskHasNextSlabID, snd h).

Definition h_version (h : head) : N := N.shiftr (N.land (fst h) c_maskVersion) 4.
Definition h_is_root (h : head) : bool := 0 <? N.land (snd h) c_maskSlabRoot.
Definition h_has_pointers (h : head) : bool := 0 <? N.land (snd h) c_maskSlabHasPointers.
Definition h_has_size_limit (h : head) : bool := N.land (snd h) c_maskSlabAnySize =? 0.
Definition h_has_inlined_slabs (h : head) : bool := 0 <? N.land (fst h) c_maskHasInlinedSlabs.
Definition h_has_next_slab_id (h : head) : bool :=
  if h_version h =? 0 then negb (h_is_root h) else 0 <? N.land (fst h) c_maskHasNextSlabID.
(* getSlabType: bits 4,5 of the flag byte: 0 array, 1 map, 3 storable *)
Definition h_slab_type (h : head) : N := N.shiftr (N.land (snd h) 24) 3.
(* getSlabArrayType / getSlabMapType: 3 low bits *)
Definition h_sub_type (h : head) : N := N.land (snd h) 7.

Definition cond {A} (b : bool) (f : A -> A) (x : A) : A := if b then f x else x.

(* the head as the encoders assemble it *)
Definition mk_head (typ : N) (ptr hasnext anysize root hasinl : bool) : bytes :=
  let h := new_head 1 typ in
  let h := cond ptr set_has_pointers h in
  let h := cond hasnext set_has_next_slab_id h in
  let h := cond anysize set_no_size_limit h in
  let h := cond root set_root h in
  let h := cond hasinl set_has_inlined_slabs h in
  [fst h; snd h].

Definition rd_headbytes (l : bytes) : option (head * bytes) :=
  match l with h0 :: h1 :: r => Some ((h0, h1), r) | _ => None end.

(* IsRootOfAnObject / HasPointers / HasSizeLimit of slab.go: flags readable from raw bytes *)
Definition raw_is_root (b : bytes) : option bool := option_map (fun x => h_is_root (fst x)) (rd_headbytes b).
Definition raw_has_pointers (b : bytes) : option bool := option_map (fun x => h_has_pointers (fst x)) (rd_headbytes b).
Definition raw_has_size_limit (b : bytes) : option bool := option_map (fun x => h_has_size_limit (fst x)) (rd_headbytes b).

(* ---------- type info and extra data ---------- *)

(* the type infos of the harness: SimpleTypeInfo = uint; composite = tag + uint *)
Inductive typeinfo : Type :=
| TSimple (n : N)
| TTagged (tag n : N).

Definition enc_ti (t : typeinfo) : bytes :=
  match t with
  | TSimple n => cbor_head 0 n
  | TTagged tag n => cbor_head 6 tag ++ cbor_head 0 n
  end.

Definition dec_ti (l : bytes) : option (typeinfo * bytes) :=
  match rd_head l with
  | Some (mt, n, r) =>
    if mt =? 0 then Some (TSimple n, r)
    else if mt =? 6 then match rd_typed 0 r with Some (v, r') => Some (TTagged n v, r') | None => None end
    else None
  | None => None
  end.

Record mextra : Type := mk_mextra { mx_ti : typeinfo; mx_count : N; mx_seed : N }.

(* ArrayExtraData.Encode: [type info] *)
Definition enc_xarray (t : typeinfo) : bytes := cbor_head 4 c_arrayExtraDataLength ++ enc_ti t.
Definition dec_xarray (l : bytes) : option (typeinfo * bytes) :=
  match rd_typed 4 l with
  | Some (n, r) => if n =? c_arrayExtraDataLength then dec_ti r else None
  | None => None
  end.

(* MapExtraData.Encode: [type info, count, seed] *)
Definition enc_xmap (x : mextra) : bytes :=
  cbor_head 4 c_mapExtraDataLength ++ enc_ti (mx_ti x) ++ cbor_head 0 (mx_count x) ++ cbor_head 0 (mx_seed x).
Definition dec_xmap (l : bytes) : option (mextra * bytes) :=
  match rd_typed 4 l with
  | Some (n, r) =>
    if n =? c_mapExtraDataLength then
      match dec_ti r with
      | Some (t, r1) =>
        match rd_typed 0 r1 with
        | Some (c, r2) =>
          match rd_typed 0 r2 with
          | Some (s, r3) => Some (mk_mextra t c s, r3)
          | None => None
          end
        | None => None
        end
      | None => None
      end
    else None
  | None => None
  end.

Definition enc_opt {A} (f : A -> bytes) (o : option A) : bytes := match o with Some x => f x | None => [] end.

(* ---------- storables ---------- *)

Inductive width : Type := W8 | W16 | W32 | W64.
Definition width_tag (w : width) : N := match w with W8 => 161 | W16 => 162 | W32 => 163 | W64 => 164 end.
Definition width_max (w : width) : N :=
  match w with W8 => 255 | W16 => 65535 | W32 => 4294967295 | W64 => 18446744073709551615 end.
Definition tag_some : N := 165.
Definition tag_some_nested : N := 167.

Inductive storable : Type :=
| SUint (w : width) (n : N)
| SString (s : bytes)
| SSlabID (a i : N)
| SSome (s : storable).

(* SomeStorable.nonSomeStorable *)
Fixpoint some_levels (s : storable) : N := match s with SSome s' => 1 + some_levels s' | _ => 0 end.
Fixpoint some_inner (s : storable) : storable := match s with SSome s' => some_inner s' | _ => s end.

Definition enc_base (s : storable) : bytes :=
  match s with
  | SUint w n => tag8 (width_tag w) ++ cbor_head 0 n
  | SString bs => cbor_head 3 (lenN bs) ++ bs
  | SSlabID a i => tag8 c_CBORTagSlabID ++ cbor_head 2 c_slabIDLength ++ enc_sid a i
  | SSome _ => []
  end.

Definition enc_storable (s : storable) : bytes :=
  let l := some_levels s in
  if l =? 0 then enc_base s
  else if l =? 1 then tag8 tag_some ++ enc_base (some_inner s)
  else tag8 tag_some_nested ++ [130] ++ cbor_head 0 l ++ enc_base (some_inner s).

(* ByteSize of the storables *)
Definition base_size (s : storable) : N :=
  match s with
  | SUint _ n => 2 + cbor_head_len n
  | SString bs => cbor_head_len (lenN bs) + lenN bs
  | SSlabID _ _ => c_slabIDStorableSize
  | SSome _ => 0
  end.
(* getSomeStorableEncodedPrefixSize *)
Definition some_prefix_size (l : N) : N := if l =? 1 then 2 else 2 + 1 + cbor_head_len l.
Definition storable_size (s : storable) : N :=
  let l := some_levels s in
  if l =? 0 then base_size s else some_prefix_size l + base_size (some_inner s).

Definition dec_uint (w : width) (r : bytes) : option (storable * bytes) :=
  match rd_typed 0 r with
  | Some (n, r') => if width_max w <? n then None else Some (SUint w n, r')
  | None => None
  end.

(* testutils.DecodeStorable restricted to the universe above *)
Fixpoint dec_storable (fuel : nat) (bs : bytes) : option (storable * bytes) :=
  match fuel with
  | O => None
  | S f =>
    match rd_head bs with
    | Some (mt, n, r) =>
      if mt =? 3 then
        match take n r with Some (s, r') => Some (SString s, r') | None => None end
      else if mt =? 6 then
        if n =? c_CBORTagSlabID then
          match rd_bstr r with
          | Some (b, r') => match rd_sid b with Some (a, i, _) => Some (SSlabID a i, r') | None => None end
          | None => None
          end
        else if n =? 161 then dec_uint W8 r
        else if n =? 162 then dec_uint W16 r
        else if n =? 163 then dec_uint W32 r
        else if n =? 164 then dec_uint W64 r
        else if n =? tag_some then
          match dec_storable f r with Some (s, r') => Some (SSome s, r') | None => None end
        else if n =? tag_some_nested then
          match rd_typed 4 r with
          | Some (c, r1) =>
            if c =? 2 then
              match rd_typed 0 r1 with
              | Some (lv, r2) =>
                if lv <=? 1 then None
                else match dec_storable f r2 with
                     | Some (s, r3) => Some (N.iter lv SSome s, r3)
                     | None => None
                     end
              | None => None
              end
            else None
          | None => None
          end
        else None
      else None
    | None => None
    end
  end.

Definition dec_storable_top (bs : bytes) : option (storable * bytes) := dec_storable (length bs) bs.

(* HasPointer as the encoders evaluate it *)
Fixpoint storable_has_ptr (s : storable) : bool :=
  match s with SSlabID _ _ => true | SSome s' => storable_has_ptr s' | _ => false end.

(* content: the slab references held, at any wrapping depth *)
Fixpoint storable_refs (s : storable) : list (N * N) :=
  match s with SSlabID a i => [(a, i)] | SSome s' => storable_refs s' | _ => [] end.

(* ---------- map elements ---------- *)

Inductive element : Type :=
| ESingle (k v : storable)
| EGroupH (level : N) (hkeys : list N) (elems : list element)     (* inline collision group over hkeyElements *)
| EGroupS (level : N) (elems : list (storable * storable))        (* inline collision group over singleElements (list mode) *)
| EExt (a i : N).                                                  (* external collision group *)

Inductive elements : Type :=
| HkeyElems (level : N) (hkeys : list N) (elems : list element)
| SingleElems (level : N) (elems : list (storable * storable)).

Definition enc_pair (p : storable * storable) : bytes := 130 :: enc_storable (fst p) ++ enc_storable (snd p).

(* hkeyElements.Encode up to the elements: 0x83, level, 0x59 len16, digests, 0x99 count16 *)
Definition enc_hkey_head (level : N) (hkeys : list N) (n : N) : bytes :=
  [131; level] ++ bstr16_head (c_digestSize * lenN hkeys) ++ flat_map be64 hkeys ++ arr16_head n.
(* singleElements.Encode up to the elements: 0x83, level, 0x40, 0x99 count16 *)
Definition enc_singles_head (level : N) (n : N) : bytes := [131; level; 64] ++ arr16_head n.

Fixpoint enc_element (e : element) : bytes :=
  match e with
  | ESingle k v => enc_pair (k, v)
  | EGroupH l hk es =>
    tag8 c_CBORTagInlineCollisionGroup ++ enc_hkey_head l hk (lenN es) ++ flat_map enc_element es
  | EGroupS l ps =>
    tag8 c_CBORTagInlineCollisionGroup ++ enc_singles_head l (lenN ps) ++ flat_map enc_pair ps
  | EExt a i => tag8 c_CBORTagExternalCollisionGroup ++ enc_storable (SSlabID a i)
  end.

Definition enc_elements (els : elements) : bytes :=
  match els with
  | HkeyElems l hk es => enc_hkey_head l hk (lenN es) ++ flat_map enc_element es
  | SingleElems l ps => enc_singles_head l (lenN ps) ++ flat_map enc_pair ps
  end.

Definition pair_size (p : storable * storable) : N :=
  c_singleElementPrefixSize + storable_size (fst p) + storable_size (snd p).

Fixpoint element_size (e : element) : N :=
  match e with
  | ESingle k v => pair_size (k, v)
  | EGroupH _ _ es =>
    c_inlineCollisionGroupPrefixSize + (c_hkeyElementsPrefixSize + sumN (map (fun e => c_digestSize + element_size e) es))
  | EGroupS _ ps => c_inlineCollisionGroupPrefixSize + (c_singleElementsPrefixSize + sumN (map pair_size ps))
  | EExt _ _ => c_externalCollisionGroupPrefixSize + c_slabIDStorableSize
  end.

Definition elements_size (els : elements) : N :=
  match els with
  | HkeyElems _ _ es => c_hkeyElementsPrefixSize + sumN (map (fun e => c_digestSize + element_size e) es)
  | SingleElems _ ps => c_singleElementsPrefixSize + sumN (map pair_size ps)
  end.

Definition first_key (els : elements) : N :=
  match els with HkeyElems _ (h :: _) _ => h | _ => 0 end.

Fixpoint element_has_ptr (e : element) : bool :=
  match e with
  | ESingle k v => storable_has_ptr k || storable_has_ptr v
  | EGroupH _ _ es => existsb element_has_ptr es
  | EGroupS _ ps => existsb (fun p => storable_has_ptr (fst p) || storable_has_ptr (snd p)) ps
  | EExt _ _ => true
  end.
Definition elements_has_ptr (els : elements) : bool :=
  match els with
  | HkeyElems _ _ es => existsb element_has_ptr es
  | SingleElems _ ps => existsb (fun p => storable_has_ptr (fst p) || storable_has_ptr (snd p)) ps
  end.

Definition pair_refs (p : storable * storable) : list (N * N) := storable_refs (fst p) ++ storable_refs (snd p).
Fixpoint element_refs (e : element) : list (N * N) :=
  match e with
  | ESingle k v => pair_refs (k, v)
  | EGroupH _ _ es => flat_map element_refs es
  | EGroupS _ ps => flat_map pair_refs ps
  | EExt a i => [(a, i)]
  end.
Definition elements_refs (els : elements) : list (N * N) :=
  match els with
  | HkeyElems _ _ es => flat_map element_refs es
  | SingleElems _ ps => flat_map pair_refs ps
  end.

(* a sequence of n items, each decoded by d *)
Fixpoint dec_seq {A} (d : bytes -> option (A * bytes)) (n : nat) (bs : bytes) : option (list A * bytes) :=
  match n with
  | O => Some ([], bs)
  | S n' =>
    match d bs with
    | Some (a, r) =>
      match dec_seq d n' r with
      | Some (l, r') => Some (a :: l, r')
      | None => None
      end
    | None => None
    end
  end.

(* newSingleElementFromData *)
Definition dec_pair (bs : bytes) : option ((storable * storable) * bytes) :=
  match rd_typed 4 bs with
  | Some (c, r) =>
    if c =? 2 then
      match dec_storable_top r with
      | Some (k, r1) =>
        match dec_storable_top r1 with
        | Some (v, r2) => Some ((k, v), r2)
        | None => None
        end
      | None => None
      end
    else None
  | None => None
  end.

Fixpoint rd_hkeys (n : nat) (bs : bytes) : option (list N) :=
  match n with
  | O => Some []
  | S k =>
    match rd64 bs with
    | Some (h, r) => match rd_hkeys k r with Some t => Some (h :: t) | None => None end
    | None => None
    end
  end.

(* newElementsFromData, parameterised by the decoder of one (possibly nested) element *)
Definition dec_elements_with (de : bytes -> option (element * bytes)) (bs : bytes) : option (elements * bytes) :=
  match rd_typed 4 bs with
  | Some (c, r0) =>
    if c =? 3 then
      match rd_typed 0 r0 with
      | Some (level, r1) =>
        match rd_bstr r1 with
        | Some (db, r2) =>
          if lenN db mod c_digestSize =? 0 then
            let dc := lenN db / c_digestSize in
            match rd_hkeys (N.to_nat dc) db with
            | Some hkeys =>
              match rd_typed 4 r2 with
              | Some (ec, r3) =>
                if c_maxArrayElementCount <? ec then None
                else if negb (dc =? 0) && negb (dc =? ec) then None
                else if (dc =? 0) && (0 <? ec) then
                  match dec_seq dec_pair (N.to_nat ec) r3 with
                  | Some (ps, r4) => Some (SingleElems level ps, r4)
                  | None => None
                  end
                else
                  match dec_seq de (N.to_nat ec) r3 with
                  | Some (es, r4) => Some (HkeyElems level hkeys es, r4)
                  | None => None
                  end
              | None => None
              end
            | None => None
            end
          else None
        | None => None
        end
      | None => None
      end
    else None
  | None => None
  end.

(* newElementFromData *)
Fixpoint dec_element (fuel : nat) (bs : bytes) : option (element * bytes) :=
  match fuel with
  | O => None
  | S f =>
    match rd_head bs with
    | Some (mt, n, r) =>
      if mt =? 4 then
        match dec_pair bs with Some (p, r') => Some (ESingle (fst p) (snd p), r') | None => None end
      else if mt =? 6 then
        if n =? c_CBORTagInlineCollisionGroup then
          match dec_elements_with (dec_element f) r with
          | Some (HkeyElems l hk es, r') => Some (EGroupH l hk es, r')
          | Some (SingleElems l ps, r') => Some (EGroupS l ps, r')
          | None => None
          end
        else if n =? c_CBORTagExternalCollisionGroup then
          match dec_storable_top r with
          | Some (SSlabID a i, r') => Some (EExt a i, r')
          | _ => None
          end
        else None
      else None
    | None => None
    end
  end.

Definition dec_elements (bs : bytes) : option (elements * bytes) :=
  dec_elements_with (dec_element (length bs)) bs.

(* ---------- slabs ---------- *)

(* child header of an array index slab: slab id, count, size *)
Record ahdr : Type := mk_ahdr { ah_addr : N; ah_idx : N; ah_count : N; ah_size : N }.
(* child header of a map index slab: slab id, first key, size *)
Record mhdr : Type := mk_mhdr { mh_addr : N; mh_idx : N; mh_first : N; mh_size : N }.

(* (a, i) is the slab's own identifier; x the extra data (present = root of a value);
   (na, ni) the next sibling, (0,0) = none.  Cached header fields (size, count, first key) are
   functions of the content: slab_size, slab_count, slab_first_key below. *)
Inductive slab : Type :=
| SArrayMeta (a i : N) (x : option typeinfo) (cs : list ahdr)
| SMapMeta (a i : N) (x : option mextra) (cs : list mhdr)
| SStorable (a i : N) (s : storable)
| SArrayData (a i : N) (x : option typeinfo) (na ni : N) (es : list storable)
| SMapData (a i : N) (x : option mextra) (na ni : N) (anysize cgroup : bool) (els : elements).

Definition sid (s : slab) : N * N :=
  match s with
  | SArrayMeta a i _ _ | SMapMeta a i _ _ | SStorable a i _ | SArrayData a i _ _ _ _ | SMapData a i _ _ _ _ _ _ => (a, i)
  end.

Definition is_some {A} (o : option A) : bool := match o with Some _ => true | None => false end.
Definition has_next (na ni : N) : bool := negb ((na =? 0) && (ni =? 0)).   (* next != SlabIDUndefined *)

Definition is_root (s : slab) : bool :=
  match s with
  | SArrayMeta _ _ x _ => is_some x
  | SMapMeta _ _ x _ => is_some x
  | SStorable _ _ _ => false
  | SArrayData _ _ x _ _ _ => is_some x
  | SMapData _ _ x _ _ _ _ _ => is_some x
  end.

Definition any_size (s : slab) : bool :=
  match s with
  | SStorable _ _ _ => true
  | SMapData _ _ _ _ _ anysize _ _ => anysize
  | _ => false
  end.

Definition is_data (s : slab) : bool :=
  match s with SArrayData _ _ _ _ _ _ | SMapData _ _ _ _ _ _ _ _ => true | _ => false end.

Definition is_meta (s : slab) : bool :=
  match s with SArrayMeta _ _ _ _ | SMapMeta _ _ _ _ => true | _ => false end.

(* content: references to other slabs held by the ELEMENTS, at any wrapping depth, incl. external
   collision groups.  Index slabs have no elements (their children are structure, not content). *)
Definition slab_refs (s : slab) : list (N * N) :=
  match s with
  | SArrayMeta _ _ _ _ | SMapMeta _ _ _ _ => []
  | SStorable _ _ st => storable_refs st
  | SArrayData _ _ _ _ _ es => flat_map storable_refs es
  | SMapData _ _ _ _ _ _ _ els => elements_refs els
  end.
Definition holds_slab_refs (s : slab) : bool := match slab_refs s with [] => false | _ => true end.

Definition enc_ahdr (c : ahdr) : bytes := be64 (ah_idx c) ++ be32 (ah_count c) ++ be16 (ah_size c).
Definition enc_mhdr (c : mhdr) : bytes := be64 (mh_idx c) ++ be64 (mh_first c) ++ be16 (mh_size c).

(* the root's extra-data section *)
Definition encode_extra (s : slab) : bytes :=
  match s with
  | SArrayMeta _ _ x _ => enc_opt enc_xarray x
  | SMapMeta _ _ x _ => enc_opt enc_xmap x
  | SStorable _ _ _ => []
  | SArrayData _ _ x _ _ _ => enc_opt enc_xarray x
  | SMapData _ _ x _ _ _ _ _ => enc_opt enc_xmap x
  end.

Definition enc_next (na ni : N) : bytes := if has_next na ni then enc_sid na ni else [].

Definition encode_slab (s : slab) : bytes :=
  match s with
  | SArrayMeta a _ x cs =>
    mk_head c_maskArrayMeta false false false (is_some x) false
      ++ enc_opt enc_xarray x ++ be64 a ++ be16 (lenN cs) ++ flat_map enc_ahdr cs
  | SMapMeta a _ x cs =>
    mk_head c_maskMapMeta false false false (is_some x) false
      ++ enc_opt enc_xmap x ++ be64 a ++ be16 (lenN cs) ++ flat_map enc_mhdr cs
  | SStorable _ _ st =>
    mk_head c_maskStorable (storable_has_ptr st) false true false false ++ enc_storable st
  | SArrayData _ _ x na ni es =>
    mk_head c_maskArrayData (existsb storable_has_ptr es) (has_next na ni) false (is_some x) false
      ++ enc_opt enc_xarray x ++ enc_next na ni ++ arr16_head (lenN es) ++ flat_map enc_storable es
  | SMapData _ _ x na ni anysize cgroup els =>
    mk_head (if cgroup then c_maskCollisionGroup else c_maskMapData)
            (elements_has_ptr els) (has_next na ni) anysize (is_some x) false
      ++ enc_opt enc_xmap x ++ enc_next na ni ++ enc_elements els
  end.

(* the size a slab reports (ByteSize / header.size), as the in-memory bookkeeping accounts it:
   getPrefixSize + sum of element sizes *)
Definition slab_size (s : slab) : N :=
  match s with
  | SArrayMeta _ _ _ cs => c_arrayMetaDataSlabPrefixSize + c_arraySlabHeaderSize * lenN cs
  | SMapMeta _ _ _ cs => c_mapMetaDataSlabPrefixSize + c_mapSlabHeaderSize * lenN cs
  | SStorable _ _ st => c_versionAndFlagSize + storable_size st
  | SArrayData _ _ x _ _ es =>
    (if is_some x then c_arrayRootDataSlabPrefixSize else c_arrayDataSlabPrefixSize) + sumN (map storable_size es)
  | SMapData _ _ x _ _ _ _ els =>
    (if is_some x then c_mapRootDataSlabPrefixSize else c_mapDataSlabPrefixSize) + elements_size els
  end.

(* the size as the DECODERS recompute it *)
Definition decoded_size (s : slab) : N :=
  match s with
  | SArrayMeta _ _ _ cs => c_arrayMetaDataSlabPrefixSize + c_arraySlabHeaderSize * lenN cs
  | SMapMeta _ _ _ cs => c_mapMetaDataSlabPrefixSize + c_mapSlabHeaderSize * lenN cs
  | SStorable _ _ st => c_versionAndFlagSize + storable_size st
  | SArrayData _ _ x _ _ es =>
    fold_left (fun acc e => acc + storable_size e) es
              (if is_some x then c_arrayRootDataSlabPrefixSize else c_arrayDataSlabPrefixSize)
  | SMapData _ _ x _ _ _ _ els =>
    (c_versionAndFlagSize + elements_size els) + (if is_some x then 0 else c_slabIDLength)
  end.

Definition slab_count (s : slab) : N :=
  match s with
  | SArrayMeta _ _ _ cs => sumN (map ah_count cs)
  | SArrayData _ _ _ _ _ es => lenN es
  | _ => 0
  end.

Definition slab_first_key (s : slab) : N :=
  match s with
  | SMapMeta _ _ _ (c :: _) => mh_first c
  | SMapData _ _ _ _ _ _ _ els => first_key els
  | _ => 0
  end.

(* the two documented savings; only the first exists for the modelled kinds *)
Definition omitted_next (s : slab) : N :=
  match s with
  | SArrayData _ _ x na ni _ => if negb (is_some x) && negb (has_next na ni) then c_slabIDLength else 0
  | SMapData _ _ x na ni _ _ _ => if negb (is_some x) && negb (has_next na ni) then c_slabIDLength else 0
  | _ => 0
  end.

(* ---------- slab decoders ---------- *)

Fixpoint dec_ahdrs (addr : N) (n : nat) (bs : bytes) : option (list ahdr) :=
  match n with
  | O => Some []
  | S k =>
    match rd64 bs with
    | Some (idx, r1) =>
      match rd32 r1 with
      | Some (cnt, r2) =>
        match rd16 r2 with
        | Some (sz, r3) =>
          match dec_ahdrs addr k r3 with Some t => Some (mk_ahdr addr idx cnt sz :: t) | None => None end
        | None => None
        end
      | None => None
      end
    | None => None
    end
  end.

Fixpoint dec_mhdrs (addr : N) (n : nat) (bs : bytes) : option (list mhdr) :=
  match n with
  | O => Some []
  | S k =>
    match rd64 bs with
    | Some (idx, r1) =>
      match rd64 r1 with
      | Some (fk, r2) =>
        match rd16 r2 with
        | Some (sz, r3) =>
          match dec_mhdrs addr k r3 with Some t => Some (mk_mhdr addr idx fk sz :: t) | None => None end
        | None => None
        end
      | None => None
      end
    | None => None
    end
  end.

(* decode the extra data when the root flag is set *)
Definition dec_opt {A} (root : bool) (d : bytes -> option (A * bytes)) (bs : bytes) : option (option A * bytes) :=
  if root then match d bs with Some (x, r) => Some (Some x, r) | None => None end
  else Some (None, bs).

Definition dec_next (hasnext : bool) (bs : bytes) : option (N * N * bytes) :=
  if hasnext then rd_sid bs else Some (0, 0, bs).

(* newArrayMetaDataSlabFromDataV1 *)
Definition dec_array_meta (id : N * N) (h : head) (data : bytes) : option slab :=
  match dec_opt (h_is_root h) dec_xarray data with
  | Some (x, d1) =>
    match rd64 d1 with
    | Some (addr, d2) =>
      match rd16 d2 with
      | Some (n, d3) =>
        if lenN d3 =? c_arraySlabHeaderSize * n then
          match dec_ahdrs addr (N.to_nat n) d3 with
          | Some cs => if c_maxArrayElementCount <? sumN (map ah_count cs) then None
                       else Some (SArrayMeta (fst id) (snd id) x cs)
          | None => None
          end
        else None
      | None => None
      end
    | None => None
    end
  | None => None
  end.

(* newMapMetaDataSlabFromDataV1 *)
Definition dec_map_meta (id : N * N) (h : head) (data : bytes) : option slab :=
  match dec_opt (h_is_root h) dec_xmap data with
  | Some (x, d1) =>
    match rd64 d1 with
    | Some (addr, d2) =>
      match rd16 d2 with
      | Some (n, d3) =>
        if lenN d3 =? c_mapSlabHeaderSize * n then
          match dec_mhdrs addr (N.to_nat n) d3 with
          | Some cs => Some (SMapMeta (fst id) (snd id) x cs)
          | None => None
          end
        else None
      | None => None
      end
    | None => None
    end
  | None => None
  end.

(* newArrayDataSlabFromDataV1 (slabs announcing inlined children are outside the model: None) *)
Definition dec_array_data (id : N * N) (h : head) (data : bytes) : option slab :=
  match dec_opt (h_is_root h) dec_xarray data with
  | Some (x, d1) =>
    if h_has_inlined_slabs h then None
    else
      match dec_next (h_has_next_slab_id h) d1 with
      | Some (na, ni, d2) =>
        if lenN d2 <? c_arrayDataSlabElementHeadSize then None
        else
          match rd_typed 4 d2 with
          | Some (n, d3) =>
            if c_maxArrayElementCount <? n then None
            else
              match dec_seq dec_storable_top (N.to_nat n) d3 with
              | Some (es, []) => Some (SArrayData (fst id) (snd id) x na ni es)   (* no extraneous data *)
              | _ => None
              end
          | None => None
          end
      | None => None
      end
  | None => None
  end.

(* newMapDataSlabFromDataV1: NOTE there is no end-of-data check in the Go decoder *)
Definition dec_map_data (id : N * N) (h : head) (data : bytes) : option slab :=
  match dec_opt (h_is_root h) dec_xmap data with
  | Some (x, d1) =>
    if h_has_inlined_slabs h then None
    else
      match dec_next (h_has_next_slab_id h) d1 with
      | Some (na, ni, d2) =>
        match dec_elements d2 with
        | Some (els, _) =>
          Some (SMapData (fst id) (snd id) x na ni (negb (h_has_size_limit h)) (h_sub_type h =? 3) els)
        | None => None
        end
      | None => None
      end
  | None => None
  end.

(* DecodeSlab, version 1 only (version 0 layouts are not modelled: None) *)
Definition decode_slab (id : N * N) (b : bytes) : option slab :=
  match rd_headbytes b with
  | Some (h, data) =>
    let t := h_slab_type h in
    let st := h_sub_type h in
    if t =? 0 then
      if st =? 0 then (if h_version h =? 1 then dec_array_data id h data else None)
      else if st =? 1 then (if h_version h =? 1 then dec_array_meta id h data else None)
      else None
    else if t =? 1 then
      if (st =? 0) || (st =? 3) then (if h_version h =? 1 then dec_map_data id h data else None)
      else if st =? 1 then (if h_version h =? 1 then dec_map_meta id h data else None)
      else None
    else if t =? 3 then
      (* storable slab: neither version nor flags nor trailing bytes are checked *)
      match dec_storable_top data with
      | Some (st, _) => Some (SStorable (fst id) (snd id) st)
      | None => None
      end
    else None
  | None => None
  end.

Definition decode_slab_with_size (id : N * N) (b : bytes) : option (slab * N) :=
  match decode_slab id b with Some s => Some (s, decoded_size s) | None => None end.

(* ---------- well-formedness (boolean, executable) ---------- *)

Fixpoint storable_wf (s : storable) : bool :=
  match s with
  | SUint w n => n <=? width_max w
  | SString bs => forallb (fun b => b <? 128) bs && (lenN bs <? two64)   (* ASCII: UTF-8 validity is not modelled *)
  | SSlabID a i => (a <? two64) && (i <? two64)
  | SSome s' => storable_wf s'
  end.
Definition storable_swf (s : storable) : bool := storable_wf s && (some_levels s <? two64).

Definition pair_swf (p : storable * storable) : bool := storable_swf (fst p) && storable_swf (snd p).

Fixpoint element_swf (e : element) : bool :=
  match e with
  | ESingle k v => pair_swf (k, v)
  | EGroupH l hk es =>
    (l <=? c_maxDigestLevel) && (lenN hk =? lenN es) && (c_digestSize * lenN hk <? two16) && (lenN es <? two16)
    && forallb (fun h => h <? two64) hk && forallb element_swf es
  | EGroupS l ps =>
    (l <=? c_maxDigestLevel) && (0 <? lenN ps) && (lenN ps <? two16) && forallb pair_swf ps
  | EExt a i => (a <? two64) && (i <? two64)
  end.

Definition elements_swf (els : elements) : bool :=
  match els with
  | HkeyElems l hk es =>
    (l <=? c_maxDigestLevel) && (lenN hk =? lenN es) && (c_digestSize * lenN hk <? two16) && (lenN es <? two16)
    && forallb (fun h => h <? two64) hk && forallb element_swf es
  | SingleElems l ps =>
    (l <=? c_maxDigestLevel) && (0 <? lenN ps) && (lenN ps <? two16) && forallb pair_swf ps
  end.

Definition ti_swf (t : typeinfo) : bool :=
  match t with TSimple n => n <? two64 | TTagged tag n => (tag <? two64) && (n <? two64) end.
Definition xa_swf (x : option typeinfo) : bool := match x with Some t => ti_swf t | None => true end.
Definition xm_swf (x : option mextra) : bool :=
  match x with Some m => ti_swf (mx_ti m) && (mx_count m <? two64) && (mx_seed m <? two64) | None => true end.

Definition ahdr_swf (a : N) (c : ahdr) : bool :=
  (ah_addr c =? a) && (ah_idx c <? two64) && (ah_count c <? two32) && (ah_size c <? two16).
Definition mhdr_swf (a : N) (c : mhdr) : bool :=
  (mh_addr c =? a) && (mh_idx c <? two64) && (mh_first c <? two64) && (mh_size c <? two16).

(* identifiers < 2^64, counts < 2^16 / 2^32, sizes < 2^16, scalars within their width, string bytes
   ASCII, children of an index slab under the slab's own address, a root has no sibling link,
   digest and element lists of equal length, list-mode groups non-empty, levels <= maxDigestLevel *)
Definition swf (s : slab) : bool :=
  match s with
  | SArrayMeta a i x cs =>
    (a <? two64) && (i <? two64) && xa_swf x && (lenN cs <? two16) && forallb (ahdr_swf a) cs
    && (sumN (map ah_count cs) <=? c_maxArrayElementCount)
  | SMapMeta a i x cs =>
    (a <? two64) && (i <? two64) && xm_swf x && (lenN cs <? two16) && forallb (mhdr_swf a) cs
  | SStorable a i st => (a <? two64) && (i <? two64) && storable_swf st
  | SArrayData a i x na ni es =>
    (a <? two64) && (i <? two64) && xa_swf x && (na <? two64) && (ni <? two64)
    && (negb (is_some x) || negb (has_next na ni))
    && (lenN es <? two16) && forallb storable_swf es
  | SMapData a i x na ni _ _ els =>
    (a <? two64) && (i <? two64) && xm_swf x && (na <? two64) && (ni <? two64)
    && (negb (is_some x) || negb (has_next na ni))
    && elements_swf els
  end.
